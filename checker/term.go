package main

import (
	"fmt"
	"go/ast"
	"go/constant"
	"go/token"
	"go/types"
	"regexp"
	"sort"
	"strings"
)

// Term is a canonical, type-resolved rendering of an expression. Identifiers
// are resolved to objects, constants are folded, value-preserving integer
// conversions are transparent, commutative operators are sorted, and ordering
// comparisons are normalised to < and <=.
type Term struct {
	Op   string
	Obj  types.Object
	Int  int64  // Op == "const"
	Str  string // extra: type string for conv/typeassert, literal text for sconst
	Args []*Term
	Pos  token.Pos
	key  string
}

func (t *Term) Key() string {
	if t == nil {
		return "∅"
	}
	if t.key != "" {
		return t.key
	}
	var sb strings.Builder
	switch t.Op {
	case "var":
		fmt.Fprintf(&sb, "%s", objKey(t.Obj))
	case "fld":
		fmt.Fprintf(&sb, "%s.%s", t.Args[0].Key(), fieldKey(t.Obj))
	case "const":
		fmt.Fprintf(&sb, "%d", t.Int)
	case "sconst":
		fmt.Fprintf(&sb, "%q", t.Str)
	case "nil", "true", "false":
		sb.WriteString(t.Op)
	case "call":
		fmt.Fprintf(&sb, "%s(", funcKey(t.Obj))
		for i, a := range t.Args {
			if i > 0 {
				sb.WriteString(",")
			}
			sb.WriteString(a.Key())
		}
		sb.WriteString(")")
	case "unk":
		fmt.Fprintf(&sb, "unk@%d", t.Pos)
	default:
		sb.WriteString(t.Op)
		if t.Str != "" {
			sb.WriteString("<" + t.Str + ">")
		}
		sb.WriteString("(")
		for i, a := range t.Args {
			if i > 0 {
				sb.WriteString(",")
			}
			sb.WriteString(a.Key())
		}
		sb.WriteString(")")
	}
	t.key = sb.String()
	return t.key
}

func (t *Term) String() string { return t.Key() }

var objIDRe = regexp.MustCompile(`#[0-9]+`)

// Pretty is the key without the object identities (for messages).
func (t *Term) Pretty() string { return objIDRe.ReplaceAllString(t.Key(), "") }

func objKey(o types.Object) string {
	if o == nil {
		return "?"
	}
	if v, ok := o.(*types.Var); ok && !v.IsField() && o.Parent() != nil && o.Pkg() != nil && o.Parent() != o.Pkg().Scope() {
		return fmt.Sprintf("%s#%d", o.Name(), o.Pos())
	}
	if o.Pkg() != nil {
		return o.Pkg().Name() + "." + o.Name()
	}
	return o.Name()
}

func fieldKey(o types.Object) string {
	if o == nil {
		return "?"
	}
	return o.Name()
}

func funcKey(o types.Object) string {
	if f, ok := o.(*types.Func); ok {
		if r := recvTypeName(f); r != "" {
			return r + "." + f.Name()
		}
		if f.Pkg() != nil {
			return f.Pkg().Name() + "." + f.Name()
		}
		return f.Name()
	}
	return objKey(o)
}

func mk(op string, args ...*Term) *Term { return &Term{Op: op, Args: args} }
func tConst(v int64) *Term              { return &Term{Op: "const", Int: v} }
func tVar(o types.Object) *Term         { return &Term{Op: "var", Obj: o} }
func tFld(base *Term, f *types.Var) *Term {
	return &Term{Op: "fld", Obj: f, Args: []*Term{base}}
}
func tCall(f *types.Func, args ...*Term) *Term { return &Term{Op: "call", Obj: f, Args: args} }

var commutative = map[string]bool{"+": true, "*": true, "&": true, "|": true, "^": true, "==": true, "!=": true, "min": true, "max": true, "&&": true, "||": true}

func (t *Term) IsConst() bool { return t != nil && t.Op == "const" }

// normalize sorts commutative args and flips > / >=.
func normTerm(t *Term) *Term {
	switch t.Op {
	case ">":
		return normTerm(&Term{Op: "<", Args: []*Term{t.Args[1], t.Args[0]}, Pos: t.Pos})
	case ">=":
		return normTerm(&Term{Op: "<=", Args: []*Term{t.Args[1], t.Args[0]}, Pos: t.Pos})
	}
	if commutative[t.Op] {
		// flatten && and ||, + , min, max
		if t.Op == "&&" || t.Op == "||" || t.Op == "min" || t.Op == "max" || t.Op == "+" {
			var flat []*Term
			for _, a := range t.Args {
				if a.Op == t.Op {
					flat = append(flat, a.Args...)
				} else {
					flat = append(flat, a)
				}
			}
			t.Args = flat
		}
		sort.SliceStable(t.Args, func(i, j int) bool { return t.Args[i].Key() < t.Args[j].Key() })
	}
	t.key = ""
	return t
}

// Negate returns the normalised negation of a boolean term.
func Negate(t *Term) *Term {
	switch t.Op {
	case "true":
		return mk("false")
	case "false":
		return mk("true")
	case "not":
		return t.Args[0]
	case "<":
		return normTerm(mk("<=", t.Args[1], t.Args[0]))
	case "<=":
		return normTerm(mk("<", t.Args[1], t.Args[0]))
	case "==":
		return normTerm(mk("!=", t.Args...))
	case "!=":
		return normTerm(mk("==", t.Args...))
	case "&&":
		var a []*Term
		for _, x := range t.Args {
			a = append(a, Negate(x))
		}
		return normTerm(mk("||", a...))
	case "||":
		var a []*Term
		for _, x := range t.Args {
			a = append(a, Negate(x))
		}
		return normTerm(mk("&&", a...))
	}
	return mk("not", t)
}

// Conjuncts splits a boolean term into its top-level conjuncts.
func Conjuncts(t *Term) []*Term {
	if t.Op == "&&" {
		var out []*Term
		for _, a := range t.Args {
			out = append(out, Conjuncts(a)...)
		}
		return out
	}
	return []*Term{t}
}

// Walk visits t and all sub-terms.
func (t *Term) Walk(f func(*Term)) {
	if t == nil {
		return
	}
	f(t)
	for _, a := range t.Args {
		a.Walk(f)
	}
}

// Subst replaces variable terms according to m (by object).
func (t *Term) Subst(m map[types.Object]*Term) *Term {
	if t == nil || len(m) == 0 {
		return t
	}
	if t.Op == "var" {
		if r, ok := m[t.Obj]; ok {
			return r
		}
		return t
	}
	changed := false
	args := make([]*Term, len(t.Args))
	for i, a := range t.Args {
		args[i] = a.Subst(m)
		if args[i] != a {
			changed = true
		}
	}
	if !changed {
		return t
	}
	if t.Op == "deref" && len(args) == 1 && args[0].Op == "addr" {
		return args[0].Args[0] // *(&x) is x
	}
	n := &Term{Op: t.Op, Obj: t.Obj, Int: t.Int, Str: t.Str, Args: args, Pos: t.Pos}
	return normTerm(n)
}

// Contains reports whether sub (by key) occurs in t.
func (t *Term) Contains(sub *Term) bool {
	k := sub.Key()
	found := false
	t.Walk(func(x *Term) {
		if x.Key() == k {
			found = true
		}
	})
	return found
}

// ---------------------------------------------------------------- building terms

func (p *Prog) sizeofBits(t types.Type) (bits int, signed bool, ok bool) {
	b, isb := t.Underlying().(*types.Basic)
	if !isb || b.Info()&types.IsInteger == 0 {
		return 0, false, false
	}
	sz := p.Pkg.TypesSizes.Sizeof(t)
	return int(sz * 8), b.Info()&types.IsUnsigned == 0, true
}

// valuePreserving reports whether converting from -> to keeps every value.
func (p *Prog) valuePreserving(from, to types.Type) bool {
	fb, fs, ok1 := p.sizeofBits(from)
	tb, ts, ok2 := p.sizeofBits(to)
	if !ok1 || !ok2 {
		return false
	}
	switch {
	case fs == ts:
		return tb >= fb
	case !fs && ts: // unsigned -> signed
		return tb > fb
	}
	return false
}

func (p *Prog) Term(e ast.Expr) *Term {
	if e == nil {
		return nil
	}
	t := p.term(e)
	if t.Pos == token.NoPos {
		t.Pos = e.Pos()
	}
	return t
}

func (p *Prog) term(e ast.Expr) *Term {
	e = ast.Unparen(e)
	if tv, ok := p.Info.Types[e]; ok && tv.Value != nil {
		switch tv.Value.Kind() {
		case constant.Int:
			if v, ok := p.constVal(e); ok {
				return tConst(v)
			}
		case constant.Bool:
			if constant.BoolVal(tv.Value) {
				return mk("true")
			}
			return mk("false")
		case constant.String:
			return &Term{Op: "sconst", Str: constant.StringVal(tv.Value)}
		case constant.Float:
			if v, ok := p.constVal(e); ok {
				return tConst(v)
			}
		}
	}
	switch x := e.(type) {
	case *ast.Ident:
		if x.Name == "nil" {
			if _, ok := p.Info.Uses[x].(*types.Nil); ok {
				return mk("nil")
			}
		}
		o := p.Info.Uses[x]
		if o == nil {
			o = p.Info.Defs[x]
		}
		if o == nil {
			return &Term{Op: "unk", Pos: x.Pos()}
		}
		return tVar(o)
	case *ast.SelectorExpr:
		if sel, ok := p.Info.Selections[x]; ok {
			switch sel.Kind() {
			case types.FieldVal:
				base := p.Term(x.X)
				// walk embedded path
				t := sel.Recv()
				idx := sel.Index()
				cur := base
				for _, i := range idx {
					st := structOf(t)
					if st == nil {
						return &Term{Op: "unk", Pos: x.Pos()}
					}
					f := st.Field(i)
					cur = tFld(cur, f.Origin())
					t = f.Type()
				}
				return cur
			case types.MethodVal, types.MethodExpr:
				f, _ := sel.Obj().(*types.Func)
				if f != nil {
					f = f.Origin()
				}
				return &Term{Op: "mval", Obj: f, Args: []*Term{p.Term(x.X)}}
			}
		}
		// qualified identifier
		if o := p.Info.Uses[x.Sel]; o != nil {
			return tVar(o)
		}
		return &Term{Op: "unk", Pos: x.Pos()}
	case *ast.StarExpr:
		return mk("deref", p.Term(x.X))
	case *ast.UnaryExpr:
		switch x.Op {
		case token.NOT:
			return Negate(p.Term(x.X))
		case token.SUB:
			return mk("neg", p.Term(x.X))
		case token.AND:
			return mk("addr", p.Term(x.X))
		case token.XOR:
			return mk("bitnot", p.Term(x.X))
		case token.ARROW:
			return mk("recv", p.Term(x.X))
		case token.ADD:
			return p.Term(x.X)
		}
	case *ast.BinaryExpr:
		op := x.Op.String()
		switch x.Op {
		case token.LAND:
			op = "&&"
		case token.LOR:
			op = "||"
		case token.EQL:
			op = "=="
		case token.NEQ:
			op = "!="
		case token.LSS:
			op = "<"
		case token.LEQ:
			op = "<="
		case token.GTR:
			op = ">"
		case token.GEQ:
			op = ">="
		}
		if x.Op == token.EQL || x.Op == token.NEQ {
			// v == T{a, b} / v != T{a, b} on struct values: the field-wise conjunction / disjunction
			if t := p.structCompare(x); t != nil {
				return t
			}
		}
		return normTerm(&Term{Op: op, Args: []*Term{p.Term(x.X), p.Term(x.Y)}, Pos: x.OpPos})
	case *ast.IndexExpr:
		// generic instantiation f[T] is rendered as f
		if tv, ok := p.Info.Types[x.Index]; ok && tv.IsType() {
			return p.Term(x.X)
		}
		return mk("idx", p.Term(x.X), p.Term(x.Index))
	case *ast.SliceExpr:
		return mk("slice", p.Term(x.X), p.Term(x.Low), p.Term(x.High), p.Term(x.Max))
	case *ast.TypeAssertExpr:
		ts := "type"
		if x.Type != nil {
			ts = types.TypeString(p.Info.TypeOf(x.Type), nil)
		}
		return &Term{Op: "typeassert", Str: ts, Args: []*Term{p.Term(x.X)}}
	case *ast.CallExpr:
		return p.callTerm(x)
	case *ast.CompositeLit:
		return &Term{Op: "lit", Pos: x.Pos(), Str: fmt.Sprintf("@%d", x.Pos())}
	case *ast.FuncLit:
		return &Term{Op: "funclit", Pos: x.Pos(), Str: fmt.Sprintf("@%d", x.Pos())}
	case *ast.BasicLit:
		return &Term{Op: "sconst", Str: x.Value}
	}
	return &Term{Op: "unk", Pos: e.Pos()}
}

func structOf(t types.Type) *types.Struct {
	for {
		switch x := t.(type) {
		case *types.Pointer:
			t = x.Elem()
			continue
		case *types.Named:
			t = x.Underlying()
			continue
		case *types.Alias:
			t = types.Unalias(x)
			continue
		case *types.Struct:
			return x
		}
		return nil
	}
}

func (p *Prog) callTerm(c *ast.CallExpr) *Term {
	if p.IsConversion(c) && len(c.Args) == 1 {
		to := p.Info.TypeOf(c.Fun)
		from := p.Info.TypeOf(c.Args[0])
		arg := p.Term(c.Args[0])
		if from != nil && to != nil {
			if types.Identical(from.Underlying(), to.Underlying()) || p.valuePreserving(from, to) {
				return arg
			}
			// uint32 -> 32-bit int is value preserving for a field that provably never
			// holds a value >= 2^31 (every store is a small constant or uint32(e) of a
			// non-negative 32-bit signed e): relevant on 32-bit configurations only.
			if arg.Op == "fld" && p.fieldFitsInt(arg.Obj, from, to) {
				return arg
			}
		}
		return &Term{Op: "conv", Str: types.TypeString(to, func(*types.Package) string { return "" }), Args: []*Term{arg}, Pos: c.Pos()}
	}
	if b := p.BuiltinName(c); b != "" {
		var args []*Term
		for _, a := range c.Args {
			if tv, ok := p.Info.Types[a]; ok && tv.IsType() {
				args = append(args, &Term{Op: "type", Str: types.TypeString(tv.Type, nil)})
				continue
			}
			args = append(args, p.Term(a))
		}
		switch b {
		case "len", "cap":
			return &Term{Op: b, Args: args, Pos: c.Pos()}
		case "min", "max":
			return normTerm(&Term{Op: b, Args: args, Pos: c.Pos()})
		}
		return &Term{Op: "builtin:" + b, Args: args, Pos: c.Pos()}
	}
	if f := p.Callee(c); f != nil {
		var args []*Term
		if sel, ok := ast.Unparen(c.Fun).(*ast.SelectorExpr); ok {
			if s, ok := p.Info.Selections[sel]; ok && (s.Kind() == types.MethodVal) {
				args = append(args, p.Term(sel.X))
			}
		}
		for _, a := range c.Args {
			args = append(args, p.Term(a))
		}
		return &Term{Op: "call", Obj: f, Args: args, Pos: c.Pos()}
	}
	args := []*Term{p.Term(c.Fun)}
	for _, a := range c.Args {
		args = append(args, p.Term(a))
	}
	return &Term{Op: "dyncall", Args: args, Pos: c.Pos()}
}

// ---------------------------------------------------------------- linear forms

// Linear is const + sum coef*atom over non-arithmetic atoms (by key).
type Linear struct {
	C     int64
	Coef  map[string]int64
	Atoms map[string]*Term
}

func (l *Linear) String() string {
	var ks []string
	for k, c := range l.Coef {
		if c != 0 {
			ks = append(ks, fmt.Sprintf("%+d*%s", c, k))
		}
	}
	sort.Strings(ks)
	return fmt.Sprintf("%d%s", l.C, strings.Join(ks, ""))
}

func (l *Linear) Equal(o *Linear) bool { return l.String() == o.String() }

func newLinear() *Linear { return &Linear{Coef: map[string]int64{}, Atoms: map[string]*Term{}} }

func (l *Linear) addScaled(o *Linear, k int64) {
	l.C += k * o.C
	for a, c := range o.Coef {
		l.Coef[a] += k * c
		l.Atoms[a] = o.Atoms[a]
	}
}

// Lin computes the linear form of an integer term (conversions kept as atoms).
func Lin(t *Term) *Linear {
	l := newLinear()
	switch t.Op {
	case "const":
		l.C = t.Int
		return l
	case "+":
		for _, a := range t.Args {
			l.addScaled(Lin(a), 1)
		}
		return l
	case "-":
		l.addScaled(Lin(t.Args[0]), 1)
		l.addScaled(Lin(t.Args[1]), -1)
		return l
	case "neg":
		l.addScaled(Lin(t.Args[0]), -1)
		return l
	case "*":
		if len(t.Args) == 2 {
			if t.Args[0].IsConst() {
				l.addScaled(Lin(t.Args[1]), t.Args[0].Int)
				return l
			}
			if t.Args[1].IsConst() {
				l.addScaled(Lin(t.Args[0]), t.Args[1].Int)
				return l
			}
		}
	}
	l.Coef[t.Key()] = 1
	l.Atoms[t.Key()] = t
	return l
}

// fieldFitsInt: converting the (unsigned) field to the signed type `to` of the
// same width keeps its value, because every store to the field in the package
// is a constant below 2^(bits-1) or a conversion of a signed expression of at
// most that width which is known to be non-negative at the store.
func (p *Prog) fieldFitsInt(o types.Object, from, to types.Type) bool {
	f, ok := o.(*types.Var)
	if !ok || !f.IsField() {
		return false
	}
	fb, fs, ok1 := p.sizeofBits(from)
	tb, ts, ok2 := p.sizeofBits(to)
	if !ok1 || !ok2 || fs || !ts || fb != tb {
		return false
	}
	memo, _ := p.memo["fitsint"].(map[*types.Var]int)
	if memo == nil {
		memo = map[*types.Var]int{}
		p.memo["fitsint"] = memo
	}
	switch memo[f] {
	case 1:
		return true
	case 2, 3: // false, or being computed
		return false
	}
	memo[f] = 3
	res := true
	n := 0
	for _, st := range p.FieldStores(f) {
		n++
		if st.Rhs == nil {
			res = false
			break
		}
		if v, isC := p.constVal(st.Rhs); isC {
			if v < 0 || v >= int64(1)<<uint(tb-1) {
				res = false
				break
			}
			continue
		}
		if p.fitsAsDifference(st, from, to) {
			continue
		}
		call, isCall := ast.Unparen(st.Rhs).(*ast.CallExpr)
		if !isCall || !p.IsConversion(call) || len(call.Args) != 1 {
			res = false
			break
		}
		et := p.Info.TypeOf(call.Args[0])
		eb, es, okE := p.sizeofBits(et)
		if !okE || eb > tb || (!es && eb == tb) {
			res = false
			break
		}
		if !es { // a narrower unsigned value
			continue
		}
		// signed and not wider: needs e >= 0 at the store
		e := p.Term(call.Args[0])
		pt, okP := p.CFG(st.Fn).PointOf(st.Node)
		nonneg := false
		if okP {
			for _, ct := range p.CFG(st.Fn).DominatingConds(pt) {
				for _, a := range Conjuncts(ct) {
					if (a.Op == "<" || a.Op == "<=") && len(a.Args) == 2 && a.Args[0].IsConst() && a.Args[0].Int >= 0 && a.Args[1].Key() == e.Key() {
						nonneg = true
					}
				}
			}
		}
		if !nonneg {
			res = false
			break
		}
	}
	if n == 0 {
		res = false
	}
	if res {
		memo[f] = 1
	} else {
		memo[f] = 2
	}
	return res
}

// fitsAsDifference: the store is f = x.g - c with g a field that fits, stored
// just before in the same block with a value known to be >= c.
func (p *Prog) fitsAsDifference(st FieldStore, from, to types.Type) bool {
	be, ok := ast.Unparen(st.Rhs).(*ast.BinaryExpr)
	if !ok || be.Op != token.SUB {
		return false
	}
	c, isC := p.constVal(be.Y)
	if !isC || c < 0 {
		return false
	}
	sel, ok := ast.Unparen(be.X).(*ast.SelectorExpr)
	if !ok {
		return false
	}
	s, ok := p.Info.Selections[sel]
	if !ok || s.Kind() != types.FieldVal {
		return false
	}
	g, _ := s.Obj().(*types.Var)
	if g == nil || !p.fieldFitsInt(g.Origin(), from, to) {
		return false
	}
	cf := p.CFG(st.Fn)
	pt, okP := cf.PointOf(st.Node)
	if !okP {
		return false
	}
	// the last store to g before this one, in the same block
	var prev ast.Expr
	for i := 0; i < pt.I; i++ {
		if as, ok := pt.B.Nodes[i].(*ast.AssignStmt); ok && len(as.Lhs) == 1 && len(as.Rhs) == 1 {
			if ls, ok := ast.Unparen(as.Lhs[0]).(*ast.SelectorExpr); ok {
				if s2, ok := p.Info.Selections[ls]; ok && s2.Obj() == s.Obj() && exprString(ls.X) == exprString(sel.X) {
					prev = as.Rhs[0]
				}
			}
		}
	}
	if prev == nil {
		return false
	}
	if v, isC := p.constVal(prev); isC {
		return v >= c
	}
	call, isCall := ast.Unparen(prev).(*ast.CallExpr)
	if !isCall || !p.IsConversion(call) || len(call.Args) != 1 {
		return false
	}
	e := p.Term(call.Args[0])
	for _, ct := range cf.DominatingConds(pt) {
		for _, a := range Conjuncts(ct) {
			// c' < e  or  c' <= e
			if (a.Op == "<" || a.Op == "<=") && len(a.Args) == 2 && a.Args[0].IsConst() && a.Args[1].Key() == e.Key() {
				lo := a.Args[0].Int
				if a.Op == "<" {
					lo++
				}
				if lo >= c {
					return true
				}
			}
		}
	}
	return false
}

// deepNorm re-normalises a term bottom-up (after substitutions below the root, which leave the
// operand order of commutative operators stale).
func deepNorm(t *Term) *Term {
	if t == nil || len(t.Args) == 0 {
		return t
	}
	args := make([]*Term, len(t.Args))
	for i, a := range t.Args {
		args[i] = deepNorm(a)
	}
	return normTerm(&Term{Op: t.Op, Obj: t.Obj, Int: t.Int, Str: t.Str, Args: args, Pos: t.Pos})
}

// structCompare expands the comparison of a struct value with a composite literal of its type into field
// comparisons: v == T{a, b} is v.f1 == a && v.f2 == b, v != T{a, b} the negation. nil when x is not of that form.
func (p *Prog) structCompare(x *ast.BinaryExpr) *Term {
	val, litE := ast.Unparen(x.X), ast.Unparen(x.Y)
	lit, ok := litE.(*ast.CompositeLit)
	if !ok {
		val, litE = litE, val
		lit, ok = litE.(*ast.CompositeLit)
		if !ok {
			return nil
		}
	}
	tv := p.Info.TypeOf(val)
	if tv == nil {
		return nil
	}
	st, ok := tv.Underlying().(*types.Struct)
	if !ok || len(lit.Elts) != st.NumFields() {
		return nil
	}
	base := p.Term(val)
	var parts []*Term
	for i, el := range lit.Elts {
		fv := st.Field(i)
		e := el
		if kv, isKV := el.(*ast.KeyValueExpr); isKV {
			id, isId := kv.Key.(*ast.Ident)
			if !isId {
				return nil
			}
			kf, _ := p.Info.Uses[id].(*types.Var)
			if kf == nil {
				return nil
			}
			fv, e = kf, kv.Value
		}
		parts = append(parts, normTerm(mk("==", tFld(base, fv), p.Term(e))))
	}
	t := normTerm(mk("&&", parts...))
	if x.Op == token.NEQ {
		return Negate(t)
	}
	return t
}
