package main

import (
	"fmt"
	"go/ast"
	"go/token"
	"go/types"
)

func init() {
	register(&propCheck{
		id:  "C04",
		run: checkC04,
		explain: "Window discipline as guard dominance: a must-facts dataflow over the go/cfg graph of every function (branch conditions normalised, helpers such as _itimediff expanded, " +
			"facts killed by any statement whose transitive effect set writes what they read) establishes that every insertion into the delivery queue, the reorder heap and the in-flight " +
			"buffer is preceded on every path by the window test the property names, that the advertised window is computed from the free delivery-queue space, that the admission bound is " +
			"min(snd_wnd, rmt_wnd[, cwnd]), that a timeout collapses cwnd to 1, and that Write is admitted only under WaitSnd < snd_wnd inside one critical section. " +
			"These guards are necessary conditions of the occupancy bounds for every input and schedule; the numeric evolution of cwnd is not decided.",
		assume: []string{
			"the session mutex serialises all calls into the core (C14)",
			"RingBuffer.Len and segmentHeap.Has report the true occupancy/membership (C20 covers the ring's structure)",
			"window sizes are not changed during traffic (outside the property's quantifier)",
		},
	})
}

func checkC04(p *Prog, r *Report) {
	r.rule("C04.W1", "every rcv_queue.Push is dominated by rcv_queue.Len() < rcv_wnd (strict) with no intervening mutation of the queue", 2)
	r.rule("C04.W2", "every insertion of wire data into rcv_buf is dominated by sn in [rcv_nxt, rcv_nxt+rcv_wnd) (signed differences) and by the duplicate test !rcv_buf.Has(sn); a re-insert pushes back exactly the element popped in the same iteration", 2)
	r.rule("C04.W3", "wnd_unused returns 0 or rcv_wnd - rcv_queue.Len() under Len < rcv_wnd; every store to segment.wnd is wnd_unused(), a copy of the flush template, or the wire parser's value", 4)
	r.rule("C04.W8", "every segment encoded by flush had its wnd stored from this flush's wnd_unused() (directly or via the template) on every path since the start of flush / of its loop iteration", 3)
	r.rule("C04.W9", "the two quantities the admission test of W4 is computed from are what they stand for: rmt_wnd comes from the constructor default and the wnd field of regular packets only — a FEC-recovered (older) packet must not overwrite a newer advertisement (= C03.P5); snd_una is stored by shrink_buf alone, as the head of snd_buf or snd_nxt — never copied from a packet's una field, which a peer can forge beyond snd_nxt (= C01.S4)", 3)
	r.rule("C04.W10", "the window a packet advertises is computed after everything the same Input call delivers: no path inside Input leads from a flush to a later parse_data (an ACK sent before its segment is queued advertises a slot that is already taken)", 1)
	r.rule("C04.W11", "the three configuration inputs of the admission bound (nocwnd, snd_wnd, rcv_wnd) are stored only by the constructor and the configuration calls NoDelay / WndSize: no data-path or shutdown code switches congestion control off or widens the window behind the user's back", 3)
	r.rule("C04.W4", "every snd_buf.Push is dominated by _itimediff(snd_nxt, snd_una+w) < 0 with w <= snd_wnd, w <= rmt_wnd and, when nocwnd == 0, w <= cwnd; the pushed segment comes from snd_queue.Pop and gets sn = snd_nxt", 1)
	r.rule("C04.W5", "with congestion control on, the timeout arm (lostSegs > 0) stores cwnd = 1 and no later store on the way to the exit raises it", 1)
	r.rule("C04.W6", "in WriteBuffers every kcp.Send is dominated by a branch on WaitSnd() < snd_wnd taken in the same critical section (no Unlock between test and Send); the refused path reaches the blocking select", 2)
	r.rule("C04.W7", "every store that can raise cwnd in Input is dominated by _itimediff(snd_una, old snd_una) > 0 and cwnd < rmt_wnd, and is followed by the clamp cwnd <= rmt_wnd before the function returns", 2)
	delegate(p, r, "C03", checkC03, "C03.P5", "C04.W9")
	checkSndUnaStores(p, r, "C04.W9")

	push := p.Method("RingBuffer", "Push")
	heapPush := heapFunc(p, "Push")
	fRcvQ := p.Field("KCP", "rcv_queue")
	fRcvBuf := p.Field("KCP", "rcv_buf")
	fSndBuf := p.Field("KCP", "snd_buf")

	// ---- W1
	for _, s := range p.CallsTo(push) {
		fs := p.FactsOf(s.Fn).AtNode(s.Call)
		base, ok := fieldBase(fs.Resolve(s.Recv), fRcvQ)
		if !ok {
			continue
		}
		req := lt(p.M(p.F(base, "KCP", "rcv_queue"), "RingBuffer", "Len"), p.F(base, "KCP", "rcv_wnd"))
		p.requireFacts(r, "C04.W1", s.Fn, s.Call, "rcv_queue.Push("+exprString(s.Call.Args[0])+")", req)
	}

	// ---- W2
	if heapPush != nil {
		for _, s := range p.CallsTo(heapPush) {
			if len(s.Args) != 2 {
				continue
			}
			fs := p.FactsOf(s.Fn).AtNode(s.Call)
			base, ok := fieldBase(fs.Resolve(s.Args[0]), fRcvBuf)
			if !ok {
				continue
			}
			construct := "heap.Push(rcv_buf," + exprString(s.Call.Args[1]) + ")"
			// re-insert of the element popped from the same heap?
			if id, ok := ast.Unparen(s.Call.Args[1]).(*ast.Ident); ok {
				if v, ok := p.Info.Uses[id].(*types.Var); ok {
					as := p.Assignments(s.Fn, v)
					allPop := len(as) > 0
					for _, a := range as {
						if a.Rhs == nil || !p.isHeapPopOf(a.Rhs, s.Args[0], fs) {
							allPop = false
						}
					}
					if allPop {
						r.ok("C04.W2", s.Fn.Name, p.Pos(s.Call), construct, "re-insert: the value is only ever assigned from heap.Pop of the same heap")
						continue
					}
				}
			}
			sn := p.F(s.Args[1], "segment", "sn")
			rcvNxt := p.F(base, "KCP", "rcv_nxt")
			rcvWnd := p.F(base, "KCP", "rcv_wnd")
			upper := lt(p.Diff(sn, add(rcvNxt, rcvWnd)), tConst(0))
			// a narrower window also bounds the buffer: rcv_nxt + wnd_unused() (<= rcv_wnd by C04.W3)
			narrow := lt(p.Diff(sn, add(rcvNxt, normTerm(tCall(p.Method("KCP", "wnd_unused"), base)))), tConst(0))
			narrowC := lt(p.Diff(sn, add(rcvNxt, &Term{Op: "conv", Str: "uint32", Args: []*Term{normTerm(tCall(p.Method("KCP", "wnd_unused"), base))}})), tConst(0))
			if !fs.Holds(upper) && (fs.Holds(narrow) || fs.Holds(narrowC)) {
				upper = narrow
				if fs.Holds(narrowC) {
					upper = narrowC
				}
			}
			req := []*Term{
				upper,
				le(tConst(0), p.Diff(sn, rcvNxt)),
				not(p.M(p.F(base, "KCP", "rcv_buf"), "segmentHeap", "Has", sn)),
			}
			p.requireFacts(r, "C04.W2", s.Fn, s.Call, construct, req...)
		}
	}

	// ---- W3
	checkWndUnused(p, r)

	// ---- W4
	for _, s := range p.CallsTo(push) {
		fa := p.FactsOf(s.Fn)
		fs := fa.AtNode(s.Call)
		base, ok := fieldBase(fs.Resolve(s.Recv), fSndBuf)
		if !ok {
			continue
		}
		construct := "snd_buf.Push(" + exprString(s.Call.Args[0]) + ")"
		orig, origBase := s, base
		// the push was moved into a helper with one call site and nothing before it in the helper touches the
		// window variables: the admission test is the one that guards the call
		if !hasAdmissionAtom(p, fs, base) && base.Op == "var" {
			wf := []*types.Var{p.Field("KCP", "snd_nxt"), p.Field("KCP", "snd_una"), p.Field("KCP", "snd_wnd"), p.Field("KCP", "rmt_wnd"), p.Field("KCP", "cwnd"), p.Field("KCP", "nocwnd")}
			if caller, call, params, okL := p.liftPastPrefix(s.Fn, s.Call, wf...); okL && len(params) > 0 && params[0] != nil && base.Obj == types.Object(params[0]) {
				cs := p.siteOf(call, caller)
				if cs.Recv != nil {
					fa = p.FactsOf(caller)
					fs = fa.AtNode(call)
					base = fs.Resolve(cs.Recv)
					s = Site{Fn: caller, Call: call, Recv: cs.Recv, Args: cs.Args}
					construct += " (through " + orig.Fn.Name + ", called once)"
				}
			}
		}
		// find the admission atom: diff(snd_nxt, snd_una + w) < 0
		sndNxt := p.F(base, "KCP", "snd_nxt")
		sndUna := p.F(base, "KCP", "snd_una")
		var w *Term
		for _, a := range fs.resolvedAtoms() {
			if a.Op != "<" || !a.Args[1].IsConst() || a.Args[1].Int != 0 {
				continue
			}
			// a.Args[0] == Diff(sndNxt, sndUna + w)
			d := a.Args[0]
			cand := findAddend(d, sndNxt, sndUna, p)
			if cand != nil {
				w = cand
				break
			}
		}
		if w == nil {
			r.bad("C04.W4", s.Fn.Name, p.Pos(s.Call), construct, "no dominating test _itimediff(snd_nxt, snd_una+w) < 0 on every path; facts here: "+pretty(fs.String()), p.unguardedPath(s.Fn, s.Call, nil))
			continue
		}
		miss := missingOf(fs, le(w, p.F(base, "KCP", "snd_wnd")), le(w, p.F(base, "KCP", "rmt_wnd")))
		// with congestion control on: decide again under the assumption nocwnd == 0
		faC := p.Facts(s.Fn, FactOpts{Assume: []*Term{eq(p.F(base, "KCP", "nocwnd"), tConst(0))}})
		fsC := faC.AtNode(s.Call)
		miss = append(miss, missingOf(fsC, le(w, p.F(base, "KCP", "cwnd")))...)
		if len(miss) > 0 {
			for i := range miss {
				miss[i] = pretty(miss[i])
			}
			r.bad("C04.W4", s.Fn.Name, p.Pos(s.Call), construct, "admission bound "+pretty(w.Key())+" is not limited by: "+joinStr(miss)+" (the last one is required on paths with nocwnd == 0)", p.unguardedPath(s.Fn, s.Call, nil))
		} else {
			r.ok("C04.W4", s.Fn.Name, p.Pos(s.Call), construct, "dominated by _itimediff(snd_nxt, snd_una+"+pretty(w.Key())+") < 0 with "+pretty(w.Key())+" <= snd_wnd, rmt_wnd and (nocwnd == 0) cwnd")
		}
		// provenance of the pushed segment and its numbering
		checkSendNumbering(p, r, orig, origBase)
	}

	// ---- W10
	checkFlushAfterDelivery(p, r)
	// ---- W11
	checkWindowConfigOwners(p, r)
	// ---- W5
	checkTimeoutCollapse(p, r)
	// ---- W6
	checkWriteAdmission(p, r, "C04.W6")
	// ---- W7
	checkCwndGrowth(p, r)
}

func joinStr(ss []string) string {
	out := ""
	for i, s := range ss {
		if i > 0 {
			out += " ∧ "
		}
		out += s
	}
	return out
}

// heapFunc returns container/heap.<name> if the package imports it.
func heapFunc(p *Prog, name string) *types.Func {
	for _, imp := range p.Types.Imports() {
		if imp.Path() == "container/heap" {
			if f, ok := imp.Scope().Lookup(name).(*types.Func); ok {
				return f
			}
		}
	}
	return nil
}

func (p *Prog) isHeapPopOf(e ast.Expr, heap *Term, fs *FactSet) bool {
	e = ast.Unparen(e)
	if ta, ok := e.(*ast.TypeAssertExpr); ok {
		e = ast.Unparen(ta.X)
	}
	call, ok := e.(*ast.CallExpr)
	if !ok {
		return false
	}
	f := p.Callee(call)
	if f == nil || f.Pkg() == nil || f.Pkg().Path() != "container/heap" || f.Name() != "Pop" || len(call.Args) != 1 {
		return false
	}
	return fs.Resolve(p.Term(call.Args[0])).Key() == fs.Resolve(heap).Key()
}

// findAddend: d is the canonical Diff(a, b+w) -> returns w.
func findAddend(d, a, b *Term, p *Prog) *Term {
	// Diff(x, y) expands to conv<int32>(x - y); locate x - y
	var subT *Term
	d.Walk(func(x *Term) {
		if x.Op == "-" && len(x.Args) == 2 && x.Args[0].Key() == a.Key() {
			subT = x
		}
	})
	if subT == nil {
		return nil
	}
	y := subT.Args[1]
	if y.Op != "+" || len(y.Args) != 2 {
		return nil
	}
	if y.Args[0].Key() == b.Key() {
		return y.Args[1]
	}
	if y.Args[1].Key() == b.Key() {
		return y.Args[0]
	}
	return nil
}

func checkWndUnused(p *Prog, r *Report) {
	wu := p.Method("KCP", "wnd_unused")
	fi := p.FuncOf(wu)
	if fi == nil {
		r.brokenf("wnd_unused has no body")
		return
	}
	recv := p.selfVar(fi)
	if recv == nil {
		r.brokenf("wnd_unused has no named receiver")
		return
	}
	base := tVar(recv)
	lenQ := p.M(p.F(base, "KCP", "rcv_queue"), "RingBuffer", "Len")
	wnd := p.F(base, "KCP", "rcv_wnd")
	fa := p.FactsOf(fi)
	n := 0
	ast.Inspect(fi.Body, func(x ast.Node) bool {
		ret, ok := x.(*ast.ReturnStmt)
		if !ok || len(ret.Results) != 1 {
			return true
		}
		n++
		fs := fa.AtNode(ret)
		t := fs.Resolve(p.Term(ret.Results[0]))
		construct := "return " + exprString(ret.Results[0])
		if t.IsConst() && t.Int == 0 {
			r.ok("C04.W3", fi.Name, p.Pos(ret), construct, "advertises 0")
			return true
		}
		// strip a narrowing conversion
		inner := t
		if inner.Op == "conv" {
			inner = inner.Args[0]
		}
		want := Lin(sub(wnd, lenQ))
		if Lin(inner).Equal(want) && fs.Holds(lt(lenQ, wnd)) {
			r.ok("C04.W3", fi.Name, p.Pos(ret), construct, "= rcv_wnd - rcv_queue.Len() under Len < rcv_wnd")
		} else {
			r.bad("C04.W3", fi.Name, p.Pos(ret), construct, "returned window is not 0 and not (rcv_wnd - rcv_queue.Len()) under the guard Len < rcv_wnd; value="+pretty(t.Key())+" facts="+pretty(fs.String()), "")
		}
		return true
	})
	if n == 0 {
		r.bad("C04.W3", fi.Name, p.Pos(fi.Node), "returns", "wnd_unused has no single-value return", "")
	}
	// stores to segment.wnd
	fWnd := p.Field("segment", "wnd")
	input := p.FuncOf(p.Method("KCP", "Input"))
	flush := p.FuncOf(p.Method("KCP", "flush"))
	var templates []*types.Var // locals whose .wnd was assigned from wnd_unused()
	stores := p.FieldStores(fWnd)
	for _, st := range stores {
		if st.Rhs == nil {
			continue
		}
		if call, ok := ast.Unparen(st.Rhs).(*ast.CallExpr); ok && p.Callee(call) == wu {
			if st.Base != nil && st.Base.Op == "var" {
				if v, ok := st.Base.Obj.(*types.Var); ok {
					templates = append(templates, v)
				}
			}
		}
	}
	for _, st := range stores {
		construct := "store(segment.wnd)"
		if st.Rhs != nil {
			construct = "segment.wnd = " + exprString(st.Rhs)
		}
		if st.Rhs == nil {
			r.bad("C04.W3", st.Fn.Name, p.Pos(st.Node), construct, "window field modified in place", "")
			continue
		}
		if call, ok := ast.Unparen(st.Rhs).(*ast.CallExpr); ok && p.Callee(call) == wu {
			r.ok("C04.W3", st.Fn.Name, p.Pos(st.Node), construct, "from wnd_unused()")
			continue
		}
		rt := p.Term(st.Rhs)
		if b, ok := fieldBase(rt, fWnd); ok && b.Op == "var" {
			isT := false
			for _, tv := range templates {
				if b.Obj == tv {
					isT = true
				}
			}
			if isT && st.Fn == flush {
				// the template must not be re-assigned from anything else
				r.ok("C04.W3", st.Fn.Name, p.Pos(st.Node), construct, "copy of the flush template, whose wnd comes from wnd_unused()")
				continue
			}
		}
		if st.InLit && st.Fn == input {
			// the parser: value read from the wire header
			r.ok("C04.W3", st.Fn.Name, p.Pos(st.Node), construct, "wire parser (value received, not advertised)")
			continue
		}
		r.bad("C04.W3", st.Fn.Name, p.Pos(st.Node), construct, "advertised window does not come from wnd_unused()", "")
	}

	// ---- W8: what is put on the wire carries the window computed in this flush
	enc := p.Method("segment", "encode")
	c := p.CFG(flush)
	nEnc := 0
	for _, s := range p.CallsTo(enc) {
		if rootFuncInfo(s.Fn) != flush {
			continue
		}
		nEnc++
		x := s.Recv
		for x.Op == "addr" || x.Op == "deref" {
			x = x.Args[0]
		}
		construct := exprString(s.Call.Fun) + "(…)"
		pt, _ := c.PointOf(s.Call)
		isTemplate := false
		for _, tv := range templates {
			if x.Op == "var" && x.Obj == tv {
				isTemplate = true
			}
		}
		isFresh := func(n ast.Node, _ Point) bool { // a store X.wnd = wnd_unused() or = template.wnd (assignment or literal key)
			if _, isStmt := n.(ast.Stmt); !isStmt {
				return false
			}
			for _, st := range stores {
				if rootFuncInfo(st.Fn) != flush || st.Base == nil || st.Base.Key() != x.Key() || st.Rhs == nil || st.Tok != token.ASSIGN && st.Tok != token.DEFINE {
					continue
				}
				if st.Node != n && !nodeWithin(p, st.Node, n) {
					continue
				}
				if call, ok := ast.Unparen(st.Rhs).(*ast.CallExpr); ok && p.Callee(call) == wu {
					return true
				}
				if rb, ok := fieldBase(p.Term(st.Rhs), fWnd); ok && rb.Op == "var" {
					for _, tv := range templates {
						if rb.Obj == tv {
							return true
						}
					}
				}
			}
			return false
		}
		from := Point{c.Entry(), 0}
		what := "from the entry of flush"
		if !isTemplate {
			// an element of snd_buf visited by a loop: within the iteration
			lp := enclosingLoop(p, s.Call)
			var body *ast.BlockStmt
			switch l := lp.(type) {
			case *ast.RangeStmt:
				body = l.Body
			case *ast.ForStmt:
				body = l.Body
			}
			if body == nil || len(body.List) == 0 {
				r.bad("C04.W8", flush.Name, p.Pos(s.Call), construct, "a segment other than the flush template is encoded outside a loop over snd_buf", "")
				continue
			}
			if bp, ok := c.PointOf(body.List[0]); ok {
				from = bp
			}
			what = "from the start of the loop iteration"
		}
		res := c.FindPath(PathQuery{From: from, IsBarrier: isFresh, IsTarget: func(n ast.Node, q Point) bool { return q == pt }})
		if res.Found {
			r.bad("C04.W8", flush.Name, p.Pos(s.Call), construct, "a path "+what+" reaches the encoding of this segment without storing the window computed in this flush (wnd_unused() or the template's copy) into it: the segment advertises the window of an earlier moment — more than the delivery queue has room for once the reader has stalled", c.DescribePath(res.Path))
		} else {
			r.ok("C04.W8", flush.Name, p.Pos(s.Call), construct, "wnd stored "+what+" on every path before the segment is encoded")
		}
	}
	if nEnc == 0 {
		r.bad("C04.W8", flush.Name, p.Pos(flush.Node), "segment.encode", "flush encodes nothing", "")
	}
}

// recvVar returns the receiver variable of a method declaration.
// selfVar is the receiver of a method or, for a plain function, its first parameter when that is of a named
// type of the package (or a pointer to one) — a method rewritten as a function taking the object first.
func (p *Prog) selfVar(fi *FuncInfo) *types.Var {
	if v := p.recvVar(fi); v != nil {
		return v
	}
	if fi.Decl == nil || fi.Decl.Recv != nil || fi.Decl.Type.Params == nil || len(fi.Decl.Type.Params.List) == 0 || len(fi.Decl.Type.Params.List[0].Names) == 0 {
		return nil
	}
	v, _ := p.Info.Defs[fi.Decl.Type.Params.List[0].Names[0]].(*types.Var)
	if v == nil {
		return nil
	}
	t := v.Type()
	if pt, ok := t.(*types.Pointer); ok {
		t = pt.Elem()
	}
	if n, ok := t.(*types.Named); ok && n.Obj().Pkg() == p.Types {
		return v
	}
	return nil
}

func (p *Prog) recvVar(fi *FuncInfo) *types.Var {
	if fi.Decl == nil || fi.Decl.Recv == nil || len(fi.Decl.Recv.List) != 1 || len(fi.Decl.Recv.List[0].Names) != 1 {
		return nil
	}
	v, _ := p.Info.Defs[fi.Decl.Recv.List[0].Names[0]].(*types.Var)
	return v
}

func checkSendNumbering(p *Prog, r *Report, s Site, base *Term) {
	// pushed value is a local assigned only from snd_queue.Pop(); x.sn = snd_nxt precedes; snd_nxt++ follows before the next Push/loop head
	id, ok := ast.Unparen(s.Call.Args[0]).(*ast.Ident)
	construct := "numbering of snd_buf.Push(" + exprString(s.Call.Args[0]) + ")"
	if !ok {
		r.bad("C04.W4", s.Fn.Name, p.Pos(s.Call), construct, "pushed value is not a local variable", "")
		return
	}
	v, _ := p.Info.Uses[id].(*types.Var)
	pop := p.Method("RingBuffer", "Pop")
	fromPop := func(fn *FuncInfo, v *types.Var) bool {
		okProv := false
		for _, a := range p.Assignments(fn, v) {
			as, isAs := a.Node.(*ast.AssignStmt)
			if !isAs || len(as.Rhs) != 1 {
				return false
			}
			call, isCall := ast.Unparen(as.Rhs[0]).(*ast.CallExpr)
			if !isCall || p.Callee(call) != pop {
				return false
			}
			site := p.siteOf(call, fn)
			if _, isQ := fieldBase(site.Recv, p.Field("KCP", "snd_queue")); !isQ {
				return false
			}
			okProv = true
		}
		return okProv
	}
	okProv := fromPop(s.Fn, v)
	if !okProv && v != nil && p.isParam(v) {
		// the segment is a parameter of a helper called from one place: the argument there is the popped one
		if caller, call, okL := p.singleCaller(rootFuncInfo(s.Fn)); okL {
			params := []*types.Var{}
			for _, fl := range rootFuncInfo(s.Fn).Decl.Type.Params.List {
				for _, nm := range fl.Names {
					pv, _ := p.Info.Defs[nm].(*types.Var)
					params = append(params, pv)
				}
			}
			onlyParamFieldStores := true
			for _, a := range p.Assignments(s.Fn, v) {
				_ = a
				onlyParamFieldStores = false // the parameter itself is reassigned in the helper
			}
			for i, pv := range params {
				if pv == v && i < len(call.Args) && onlyParamFieldStores {
					if aid, isId := ast.Unparen(call.Args[i]).(*ast.Ident); isId {
						if av, _ := p.Info.Uses[aid].(*types.Var); av != nil {
							okProv = fromPop(caller, av)
						}
					}
				}
			}
		}
	}
	if !okProv {
		r.bad("C04.W4", s.Fn.Name, p.Pos(s.Call), construct, "pushed segment is not (only) the result of snd_queue.Pop()", "")
		return
	}
	// x.sn = snd_nxt must hold as a definition-like fact: look for the store dominating the push with no later store to snd_nxt
	c := p.CFG(s.Fn)
	pushPt, _ := c.PointOf(s.Call)
	var snStore ast.Node
	for _, st := range p.FieldStores(p.Field("segment", "sn")) {
		if st.Fn != s.Fn || st.Base == nil || st.Base.Op != "var" || st.Base.Obj != v || st.Rhs == nil {
			continue
		}
		if p.Term(st.Rhs).Key() == p.F(base, "KCP", "snd_nxt").Key() {
			if pt, ok := c.PointOf(st.Node); ok && c.Dominates(pt, pushPt) {
				snStore = st.Node
			}
		}
	}
	if snStore == nil {
		r.bad("C04.W4", s.Fn.Name, p.Pos(s.Call), construct, "no dominating store "+v.Name()+".sn = snd_nxt", "")
		return
	}
	// exactly one snd_nxt increment after the push before the loop repeats / function continues
	incs := 0
	var inc ast.Node
	for _, st := range p.FieldStores(p.Field("KCP", "snd_nxt")) {
		if st.Fn != s.Fn {
			continue
		}
		if _, ok := p.incBy1(st.Node); ok {
			if pt, ok := c.PointOf(st.Node); ok && c.Dominates(pushPt, pt) && pt.B == pushPt.B {
				incs++
				inc = st.Node
			}
		} else {
			incs += 100 // any other store to snd_nxt in this function is not the paired increment
		}
	}
	_ = inc
	if incs == 1 {
		r.ok("C04.W4", s.Fn.Name, p.Pos(s.Call), construct, "segment from snd_queue.Pop(), sn = snd_nxt before the push, exactly one snd_nxt++ after it in the same block")
	} else {
		r.bad("C04.W4", s.Fn.Name, p.Pos(s.Call), construct, "snd_nxt is not incremented exactly once right after the push (or is stored elsewhere in the function)", "")
	}
}

func checkTimeoutCollapse(p *Prog, r *Report) {
	flush := p.FuncOf(p.Method("KCP", "flush"))
	fCwnd := p.Field("KCP", "cwnd")
	fNocwnd := p.Field("KCP", "nocwnd")
	c := p.CFG(flush)
	fa := p.FactsOf(flush)
	// find the lostSegs variable: the local that is incremented in the arm guarded by the RTO test
	// Structural definition used: a store cwnd = 1 whose facts include nocwnd == 0 and 0 < L for a local L.
	found := false
	for _, st := range p.FieldStores(fCwnd) {
		if st.Fn != flush || st.Rhs == nil {
			continue
		}
		rt := p.Term(st.Rhs)
		if !rt.IsConst() || rt.Int != 1 {
			continue
		}
		fs := fa.AtNode(st.Node)
		if !fs.Holds(eq(tFld(st.Base, fNocwnd), tConst(0))) {
			continue
		}
		var lost *Term
		var lostDisj string // key of a disjunction `0 < L || …` that controls the store (the collapse then happens at least whenever L > 0)
		for _, a0 := range fs.Atoms {
			cands := []*Term{a0}
			if a0.Op == "||" {
				cands = a0.Args
			}
			for _, a := range cands {
				if a.Op == "<" && a.Args[0].IsConst() && a.Args[0].Int == 0 && a.Args[1].Op == "var" {
					// is that local incremented in the arm guarded by the resend-timestamp test?
					if v, ok := a.Args[1].Obj.(*types.Var); ok && p.incrementedUnderRTO(flush, v) {
						lost = a.Args[1]
						if a0.Op == "||" {
							lostDisj = a0.Key()
						}
					}
				}
			}
		}
		if lost == nil {
			continue
		}
		found = true
		// no later store to cwnd on the way to the exit, except constants <= 1 or stores guarded by cwnd < 1
		pt, _ := c.PointOf(st.Node)
		// the collapse must happen whenever there was a timeout loss: its only controlling
		// conditions are nocwnd == 0 and lost > 0
		var extra []string
		for _, ct := range c.DominatingConds(pt) {
			for _, a := range Conjuncts(ct) {
				if a.Key() == eq(tFld(st.Base, fNocwnd), tConst(0)).Key() || a.Key() == lt(tConst(0), lost).Key() || (lostDisj != "" && p.ExpandHelpers(a).Key() == lostDisj) || (lostDisj != "" && a.Key() == lostDisj) {
					continue
				}
				extra = append(extra, pretty(a.Key()))
			}
		}
		if len(extra) > 0 {
			r.bad("C04.W5", flush.Name, p.Pos(st.Node), "cwnd = 1 on timeout loss", "the collapse to 1 is additionally conditional on "+joinStr(extra)+": a flush with a timeout loss can leave cwnd above 1", "")
			continue
		}
		res := c.FindPath(PathQuery{From: Point{pt.B, pt.I + 1}, IsTarget: func(n ast.Node, q Point) bool {
			bad := false
			inspectShallow(n, func(x ast.Node) bool {
				as, ok := x.(*ast.AssignStmt)
				if !ok {
					if ids, ok := x.(*ast.IncDecStmt); ok && ids.Tok == token.INC {
						if b, ok := fieldBase(p.Term(ids.X), fCwnd); ok && b.Key() == st.Base.Key() {
							bad = true
						}
					}
					return true
				}
				for i, l := range as.Lhs {
					if b, ok := fieldBase(p.Term(l), fCwnd); ok && b.Key() == st.Base.Key() {
						if len(as.Rhs) == len(as.Lhs) {
							if v := p.Term(as.Rhs[i]); v.IsConst() && v.Int <= 1 && as.Tok == token.ASSIGN {
								continue
							}
						}
						bad = true
					}
				}
				return true
			})
			return bad
		}})
		if res.Found {
			r.bad("C04.W5", flush.Name, p.Pos(st.Node), "cwnd = 1 on timeout loss", "a later store raises cwnd again before flush returns", c.DescribePath(res.Path))
		} else {
			r.ok("C04.W5", flush.Name, p.Pos(st.Node), "cwnd = 1 on timeout loss", "under nocwnd == 0 ∧ "+pretty(lost.Key())+" > 0 (counter of RTO retransmissions); no later store raises cwnd")
		}
	}
	if !found {
		r.bad("C04.W5", flush.Name, p.Pos(flush.Node), "cwnd = 1 on timeout loss", "no store cwnd = 1 guarded by nocwnd == 0 and by the RTO-retransmission counter > 0", "")
	}
}

// incrementedUnderRTO: v++ occurs in flush under the test _itimediff(current, seg.resendts) >= 0.
func (p *Prog) incrementedUnderRTO(fi *FuncInfo, v *types.Var) bool {
	fRes := p.Field("segment", "resendts")
	for _, a := range p.Assignments(fi, v) {
		if _, ok := p.incBy1(a.Node); !ok {
			continue
		}
		c := p.CFG(fi)
		pt, ok := c.PointOf(a.Node)
		if !ok {
			continue
		}
		for _, ct := range c.DominatingConds(pt) {
			for _, at := range Conjuncts(p.ExpandHelpers(ct)) {
				if at.Op != "<=" || !at.Args[0].IsConst() || at.Args[0].Int != 0 {
					continue
				}
				uses := false
				at.Args[1].Walk(func(x *Term) {
					if x.Op == "fld" && x.Obj == fRes {
						uses = true
					}
				})
				if uses {
					return true
				}
			}
		}
	}
	return false
}

func checkWriteAdmission(p *Prog, r *Report, rule string) {
	send := p.Method("KCP", "Send")
	waitSnd := p.Method("KCP", "WaitSnd")
	fKcp := p.Field("UDPSession", "kcp")
	for _, s := range p.CallsTo(send) {
		if s.Fn.Obj == nil || recvTypeName(s.Fn.Obj) != "UDPSession" {
			continue
		}
		base, ok := fieldBase(s.Recv, fKcp) // s.kcp.Send -> base = s
		if !ok {
			continue
		}
		construct := "kcp.Send(" + exprString(s.Call.Args[0]) + ")"
		// the splitting loop extracted into a helper that only one function calls (and that touches no mutex): the
		// admission is decided around that call, with the helper's receiver standing for the caller's
		for k := 0; k < 3; k++ {
			caller, call, okL := p.singleCaller(rootFuncInfo(s.Fn))
			if !okL || p.bodyHasLockOp(rootFuncInfo(s.Fn)) {
				break
			}
			sv := p.selfVar(rootFuncInfo(s.Fn))
			ls := p.siteOf(call, caller)
			if sv == nil || ls.Recv == nil || base.Op != "var" || base.Obj != types.Object(sv) {
				break
			}
			base = ls.Recv
			s = Site{Call: call, Fn: caller, Recv: ls.Recv, Args: ls.Args}
		}
		kcp := tFld(base, fKcp)
		want := lt(normTerm(tCall(waitSnd, kcp)), p.F(kcp, "KCP", "snd_wnd"))
		wantX := p.ExpandHelpers(want)
		c := p.CFG(s.Fn)
		fa := p.FactsOf(s.Fn)
		sendPt, _ := c.PointOf(s.Call)
		// find a dominating branch edge whose facts at the branch establish the admission test
		var guard *Point
		for _, b := range c.live {
			if len(b.Succs) != 2 || c.CondTerm(b) == nil {
				continue
			}
			tb := b.Succs[0]
			if !tb.Live || !c.BlockDominates(tb, sendPt.B) || len(c.preds[tb]) != 1 {
				continue
			}
			fs := fa.At(Point{tb, 0})
			if fs.Holds(want) || fs.Holds(wantX) {
				g := Point{tb, 0}
				guard = &g
			}
		}
		if guard == nil {
			r.bad(rule, s.Fn.Name, p.Pos(s.Call), construct, "no dominating branch on WaitSnd() < snd_wnd", p.unguardedPath(s.Fn, s.Call, nil))
			continue
		}
		// no Unlock of the session mutex on any path from the guard edge to the Send
		unlock := func(n ast.Node, _ Point) bool {
			found := false
			inspectShallow(n, func(x ast.Node) bool {
				if _, isDefer := x.(*ast.DeferStmt); isDefer {
					return false
				}
				if call, ok := x.(*ast.CallExpr); ok {
					if f := p.Callee(call); f != nil && isExtFunc(f, "sync", "Mutex", "Unlock") {
						found = true
					}
				}
				return true
			})
			return found
		}
		res := c.FindPath(PathQuery{From: *guard, IsTarget: unlock, IsBarrier: func(n ast.Node, pt Point) bool { return pt == sendPt }})
		if res.Found {
			// the Unlock is reachable from the guard without passing the Send; does a path continue from it to the Send?
			last := res.Path[len(res.Path)-1]
			if c.Reaches(Point{last.B, last.I + 1}, sendPt) {
				r.bad(rule, s.Fn.Name, p.Pos(s.Call), construct, "the session mutex is released between the admission test and the Send", c.DescribePath(res.Path))
				continue
			}
		}
		// the refused path reaches a blocking select
		fb := c.preds[guard.B][0]
		refused := fb.Succs[1]
		blocks := c.FindPath(PathQuery{From: Point{refused, 0}, IsTarget: func(n ast.Node, _ Point) bool {
			// a comm statement of a select without default appears in front of the select
			if cc, ok := p.parents[n].(*ast.CommClause); ok && cc.Comm == n {
				if sel, ok := p.parents[p.parents[cc]].(*ast.SelectStmt); ok {
					for _, cl := range sel.Body.List {
						if cl.(*ast.CommClause).Comm == nil {
							return false
						}
					}
					return true
				}
			}
			return false
		}, IsBarrier: func(n ast.Node, pt Point) bool { return pt == sendPt }})
		if !blocks.Found {
			r.bad(rule, s.Fn.Name, p.Pos(s.Call), construct, "the refused path does not reach a blocking select (Write would spin or return)", "")
			continue
		}
		r.ok(rule, s.Fn.Name, p.Pos(s.Call), construct, "admitted only on the true edge of WaitSnd() < snd_wnd, same critical section; refused path blocks in select")
	}
}

func checkCwndGrowth(p *Prog, r *Report) {
	input := p.FuncOf(p.Method("KCP", "Input"))
	fCwnd := p.Field("KCP", "cwnd")
	fa := p.FactsOf(input)
	c := p.CFG(input)
	recv := p.selfVar(input)
	if recv == nil {
		r.brokenf("Input has no receiver name")
		return
	}
	base := tVar(recv)
	cw := tFld(base, fCwnd)
	rmt := p.F(base, "KCP", "rmt_wnd")
	for _, st := range p.FieldStores(fCwnd) {
		if st.Fn != input {
			continue
		}
		construct := "store(KCP.cwnd)"
		if st.Rhs != nil {
			construct = "cwnd = " + exprString(st.Rhs)
		} else {
			construct = "cwnd++"
		}
		// the clamp itself: cwnd = rmt_wnd under rmt_wnd < cwnd
		if st.Rhs != nil && p.Term(st.Rhs).Key() == rmt.Key() {
			fs := fa.AtNode(st.Node)
			if fs.Holds(lt(rmt, cw)) {
				r.ok("C04.W7", input.Name, p.Pos(st.Node), construct, "the clamp (under cwnd > rmt_wnd)")
			} else {
				r.bad("C04.W7", input.Name, p.Pos(st.Node), construct, "cwnd set to rmt_wnd outside the clamp test", "")
			}
			continue
		}
		fs := fa.AtNode(st.Node)
		// dominated by "window advanced": 0 < diff(snd_una, saved) where saved is a local defined from snd_una at entry
		adv := false
		for _, a := range fs.resolvedAtoms() {
			if a.Op == "<" && a.Args[0].IsConst() && a.Args[0].Int == 0 {
				hasUna := false
				a.Args[1].Walk(func(x *Term) {
					if x.Op == "fld" && x.Obj == p.Field("KCP", "snd_una") {
						hasUna = true
					}
				})
				if hasUna {
					adv = true
				}
			}
		}
		below := fs.Holds(lt(cw, rmt))
		// followed by the clamp before any exit
		pt, _ := c.PointOf(st.Node)
		res := c.FindPath(PathQuery{From: Point{pt.B, pt.I + 1}, ExitIsTarget: true, IsBarrier: func(n ast.Node, q Point) bool {
			// the clamp test: a branch block whose condition is rmt_wnd < cwnd
			if e, ok := n.(ast.Expr); ok {
				if t := p.Term(e); t.Key() == lt(rmt, cw).Key() {
					return true
				}
			}
			return false
		}})
		if adv && below && !res.Found {
			r.ok("C04.W7", input.Name, p.Pos(st.Node), construct, "under snd_una advanced ∧ cwnd < rmt_wnd, followed on every path by the clamp cwnd <= rmt_wnd")
		} else {
			why := ""
			if !adv {
				why += "not dominated by _itimediff(snd_una, old) > 0; "
			}
			if !below {
				why += "not dominated by cwnd < rmt_wnd; "
			}
			w := ""
			if res.Found {
				why += "a path reaches the exit without the clamp test"
				w = c.DescribePath(res.Path)
			}
			r.bad("C04.W7", input.Name, p.Pos(st.Node), construct, why, w)
		}
	}
}

// hasAdmissionAtom: the facts contain a test diff(snd_nxt, snd_una + w) < 0 for the control block base.
func hasAdmissionAtom(p *Prog, fs *FactSet, base *Term) bool {
	sndNxt := p.F(base, "KCP", "snd_nxt")
	sndUna := p.F(base, "KCP", "snd_una")
	for _, a := range fs.resolvedAtoms() {
		if a.Op != "<" || !a.Args[1].IsConst() || a.Args[1].Int != 0 {
			continue
		}
		if findAddend(a.Args[0], sndNxt, sndUna, p) != nil {
			return true
		}
	}
	return false
}

// checkFlushAfterDelivery: C04.W10.
func checkFlushAfterDelivery(p *Prog, r *Report) {
	input := p.FuncOf(p.Method("KCP", "Input"))
	c := p.CFG(input)
	flushM, parseM := p.Method("KCP", "flush"), p.Method("KCP", "parse_data")
	// functions that reach parse_data / flush (helpers extracted from Input count)
	reaches := func(call *ast.CallExpr, target *types.Func) bool {
		f := p.Callee(call)
		if f == nil {
			return false
		}
		if f == target {
			return true
		}
		if fi := p.FuncOf(f); fi != nil && fi.Body != nil && f.Pkg() == p.Types {
			return p.TransEffects(fi).Calls[target]
		}
		return false
	}
	has := func(nd ast.Node, target *types.Func) bool {
		hit := false
		inspectShallow(nd, func(x ast.Node) bool {
			if call, ok := x.(*ast.CallExpr); ok && reaches(call, target) {
				hit = true
			}
			return true
		})
		return hit
	}
	n := 0
	for _, pt := range c.AllPoints() {
		if !has(pt.Node(), flushM) {
			continue
		}
		n++
		res := c.FindPath(PathQuery{From: Point{pt.B, pt.I + 1}, IsTarget: func(nd ast.Node, _ Point) bool { return has(nd, parseM) }})
		construct := fmt.Sprintf("flush #%d in Input", n)
		if res.Found {
			r.bad("C04.W10", input.Name, p.Pos(pt.Node()), construct, "a path leads from this flush to a later parse_data in the same Input call: the ACK goes out with the window computed before the acknowledged segment (and everything it releases from the reorder buffer) is queued — more free window is advertised than the delivery queue has", c.DescribePath(res.Path))
		} else {
			r.ok("C04.W10", input.Name, p.Pos(pt.Node()), construct, "no parse_data is reachable after it: the advertised window counts every segment of this datagram")
		}
	}
	if n == 0 {
		r.ok("C04.W10", input.Name, p.Pos(input.Node), "flush in Input", "Input never flushes")
	}
}

// checkWindowConfigOwners: C04.W11.
func checkWindowConfigOwners(p *Prog, r *Report) {
	owners := map[string]map[string]bool{
		"nocwnd":  {"NewKCP": true, "(*KCP).NoDelay": true},
		"snd_wnd": {"NewKCP": true, "(*KCP).WndSize": true},
		"rcv_wnd": {"NewKCP": true, "(*KCP).WndSize": true},
	}
	for _, name := range []string{"nocwnd", "snd_wnd", "rcv_wnd"} {
		okAll := true
		for _, st := range p.FieldStores(p.Field("KCP", name)) {
			fn := rootFuncInfo(st.Fn)
			nm := fn.Name
			if owners[name][nm] || owners[name]["(*KCP)."+nm] {
				continue
			}
			okAll = false
			r.bad("C04.W11", st.Fn.Name, p.Pos(st.Node), "store(KCP."+name+") in "+st.Fn.Name, "KCP."+name+" is stored outside the constructor and its configuration call: the limit min(snd_wnd, rmt_wnd, cwnd) / the advertised window the user configured is changed by "+st.Fn.Name, "")
		}
		if okAll {
			r.ok("C04.W11", "KCP."+name, "-", "stores of KCP."+name, "only in the constructor and the configuration call")
		}
	}
}
