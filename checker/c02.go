package main

import (
	"fmt"
	"go/ast"
	"go/token"
	"go/types"
	"golang.org/x/tools/go/cfg"
	"os"
	"sort"
	"strings"

	"golang.org/x/tools/go/ssa"
)

func init() {
	register(&propCheck{
		id:  "C02",
		run: checkC02,
		explain: "Liveness itself is not decidable by a structural rule. Decided are the necessary conditions the statement names — no data that is never retransmitted, no acknowledgement that is never sent, no " +
			"self-inflicted wedge: every PUSH below the upper window edge is acknowledged independently of the duplicate and lower-edge tests; what is acknowledged is also accepted (the acceptance test of " +
			"parse_data is the negation of the acknowledging test plus the lower edge); acknowledgements are encoded before the list is truncated, for both flush types; the retransmission loop examines every " +
			"unacknowledged segment (no break/return, continue only for acked ones) and arms the timer whenever it sends; the dead-link state is never consulted; the session's update callback re-submits " +
			"itself on every path of the not-closed arm with the delay flush returned; nothing blocks while the session mutex is held (must-lockset analysis); Input flushes when the window slid or a " +
			"fast-ack threshold was hit.",
		assume: []string{
			"that delivery completes, and any time bound, are not decided (liveness/timing)",
			"the scheduler runs submitted callbacks (C17)",
		},
	})
}

// pushArm describes the PUSH arm of KCP.Input.
type pushArm struct {
	input   *FuncInfo
	recv    *types.Var
	sn      *types.Var // the local holding the segment's sequence number
	ackCall *ast.CallExpr
}

func findPushArm(p *Prog) *pushArm {
	input := p.FuncOf(p.Method("KCP", "Input"))
	pa := &pushArm{input: input, recv: p.selfVar(input)}
	for _, s := range p.CallsTo(p.Method("KCP", "ack_push")) {
		if s.Fn == input {
			pa.ackCall = s.Call
			// which argument is the sequence number: the parameter of ack_push that ends up in ackItem.sn
			idx := 0
			if ap := p.FuncOf(p.Method("KCP", "ack_push")); ap != nil {
				for _, st := range p.FieldStores(p.Field("ackItem", "sn")) {
					if rootFuncInfo(st.Fn) != ap || st.Rhs == nil {
						continue
					}
					if t := p.Term(st.Rhs); t.Op == "var" {
						for i := 0; ; i++ {
							o := ap.paramObj(p, i)
							if o == nil {
								break
							}
							if o == t.Obj {
								idx = i
							}
						}
					}
				}
			}
			if idx < len(s.Args) && s.Args[idx].Op == "var" {
				pa.sn, _ = s.Args[idx].Obj.(*types.Var)
			}
		}
	}
	return pa
}

// checkAckEveryPush: C02.A1 / C03.P7.
func checkAckEveryPush(p *Prog, r *Report, rule string) {
	pa := findPushArm(p)
	if pa.ackCall == nil || pa.sn == nil {
		r.bad(rule, pa.input.Name, p.Pos(pa.input.Node), "ack_push in the PUSH arm", "Input never acknowledges a PUSH segment", "")
		return
	}
	c := p.CFG(pa.input)
	pt, _ := c.PointOf(pa.ackCall)
	kcp := tVar(pa.recv)
	rcvNxt := p.F(kcp, "KCP", "rcv_nxt")
	rcvWnd := p.F(kcp, "KCP", "rcv_wnd")
	upper := lt(p.Diff(tVar(pa.sn), add(rcvNxt, rcvWnd)), tConst(0))
	hasUpper := false
	var extra []string
	for _, ct := range c.DominatingConds(pt) {
		for _, a := range Conjuncts(p.ExpandHelpers(ct)) {
			if a.Key() == upper.Key() {
				hasUpper = true
				continue
			}
			// any other condition that depends on receive-side sequence state or on the reorder buffer is forbidden
			dep := false
			a.Walk(func(t *Term) {
				if t.Op == "fld" && (t.Obj == p.Field("KCP", "rcv_nxt") || t.Obj == p.Field("KCP", "rcv_buf") || t.Obj == p.Field("KCP", "rcv_queue")) {
					dep = true
				}
				if t.Op == "call" && t.Obj == p.Method("segmentHeap", "Has") {
					dep = true
				}
			})
			if dep {
				extra = append(extra, pretty(a.Key()))
			}
		}
	}
	switch {
	case len(extra) > 0:
		r.bad(rule, pa.input.Name, p.Pos(pa.ackCall), "ack_push in the PUSH arm", "the acknowledgement additionally depends on "+strings.Join(extra, " ∧ ")+": a duplicate of an already delivered segment is no longer re-acknowledged, so a sender whose ACK was lost retransmits forever (and never learns the window)", "")
	case !hasUpper:
		r.bad(rule, pa.input.Name, p.Pos(pa.ackCall), "ack_push in the PUSH arm", "the acknowledgement is not limited to segments below rcv_nxt + rcv_wnd", "")
	default:
		r.ok(rule, pa.input.Name, p.Pos(pa.ackCall), "ack_push in the PUSH arm", "controlled only by the upper window edge: duplicates and already delivered segments are re-acknowledged")
	}
}

// checkAckedIsAccepted: C02.A1b — parse_data refuses exactly outside [rcv_nxt, rcv_nxt+rcv_wnd).
func checkAckedIsAccepted(p *Prog, r *Report, rule string) {
	pd := p.FuncOf(p.Method("KCP", "parse_data"))
	c := p.CFG(pd)
	fa := p.FactsOf(pd)
	recv := p.selfVar(pd)
	kcp := tVar(recv)
	var seg *types.Var
	for _, fl := range pd.Decl.Type.Params.List {
		for _, nm := range fl.Names {
			seg, _ = p.Info.Defs[nm].(*types.Var)
		}
	}
	sn := p.F(tVar(seg), "segment", "sn")
	rcvNxt := p.F(kcp, "KCP", "rcv_nxt")
	rcvWnd := p.F(kcp, "KCP", "rcv_wnd")
	want := map[string]bool{
		lt(p.Diff(sn, add(rcvNxt, rcvWnd)), tConst(0)).Key(): true,
		le(tConst(0), p.Diff(sn, rcvNxt)).Key():              true,
	}
	// Every way through parse_data that does not store the segment must leave by a
	// legitimate refusal: beyond the window, below rcv_nxt (already delivered), or a
	// duplicate of a stored segment. Edges taken for one of these reasons are removed;
	// any remaining path from the entry to the exit that avoids the store is a segment
	// that Input has acknowledged and that is then dropped.
	_ = want
	allowed := map[string]bool{
		le(tConst(0), p.Diff(sn, add(rcvNxt, rcvWnd))).Key(): true,
		lt(p.Diff(sn, rcvNxt), tConst(0)).Key():              true,
	}
	fRcvBuf := p.Field("KCP", "rcv_buf")
	isAllowed := func(t *Term, fs *FactSet) bool {
		t = fs.Resolve(p.ExpandHelpers(t))
		if allowed[t.Key()] {
			return true
		}
		// duplicate test: rcv_buf.Has(sn)
		if t.Op == "call" && t.Obj != nil && t.Obj.Name() == "Has" && len(t.Args) == 2 {
			if _, ok := fieldBase(t.Args[0], fRcvBuf); ok && fs.Resolve(t.Args[1]).Key() == sn.Key() {
				return true
			}
		}
		return false
	}
	var disjuncts func(t *Term) []*Term
	disjuncts = func(t *Term) []*Term {
		if t.Op == "||" {
			var out []*Term
			for _, a := range t.Args {
				out = append(out, disjuncts(a)...)
			}
			return out
		}
		return []*Term{t}
	}
	edgeIsRefusal := func(from, to *cfg.Block) bool {
		ct := c.CondTerm(from)
		if ct == nil || len(from.Succs) != 2 {
			return false
		}
		ec := ct
		if to == from.Succs[1] {
			ec = Negate(ct)
		}
		fs := fa.At(Point{from, len(from.Nodes) - 1})
		// some conjunct of the edge condition is a disjunction of allowed reasons only
		for _, cj := range Conjuncts(ec) {
			all := true
			for _, d := range disjuncts(cj) {
				if !isAllowed(d, fs) {
					all = false
				}
			}
			if all {
				return true
			}
		}
		return false
	}
	isStore := func(n ast.Node, _ Point) bool {
		f := false
		inspectShallow(n, func(x ast.Node) bool {
			if call, ok := x.(*ast.CallExpr); ok {
				if cl := p.Callee(call); cl != nil && isExtFunc(cl, "container/heap", "", "Push") && len(call.Args) == 2 {
					if _, ok := fieldBase(p.Term(call.Args[0]), fRcvBuf); ok && p.Term(call.Args[1]).Op == "var" && p.Term(call.Args[1]).Obj == seg {
						f = true
					}
				}
			}
			return true
		})
		return f
	}
	res := c.FindPath(PathQuery{From: Point{c.Entry(), 0}, IsBarrier: isStore, ExitIsTarget: true, EdgeOK: func(from, to *cfg.Block) bool { return !edgeIsRefusal(from, to) }})
	if res.Found {
		r.bad(rule, pd.Name, p.Pos(pd.Node), "acceptance window of parse_data", "a path through parse_data drops the segment for a reason other than 'outside [rcv_nxt, rcv_nxt + rcv_wnd)' or 'duplicate', but Input has already acknowledged it: the sender frees it and never retransmits (permanent hole in the stream)", c.DescribePath(res.Path))
	} else {
		r.ok(rule, pd.Name, p.Pos(pd.Node), "acceptance window of parse_data", "every path that does not store the segment leaves by an out-of-window or duplicate refusal: every acknowledged, not yet delivered segment is stored")
	}
}

func checkC02(p *Prog, r *Report) {
	r.rule("C02.A1", "every PUSH below rcv_nxt + rcv_wnd is acknowledged: ack_push is controlled by that test only, not by the lower window edge nor the duplicate test", 1)
	r.rule("C02.A1b", "what is acknowledged is accepted: parse_data refuses exactly outside [rcv_nxt, rcv_nxt + rcv_wnd)", 1)
	r.rule("C02.A2", "flush encodes the ack list for both flush types before truncating it, and always encodes the last element", 2)
	r.rule("C02.A3", "the retransmission loop visits every segment of snd_buf: no break or return in its body, continue only under acked == 1", 1)
	r.rule("C02.A4", "every decision to (re)transmit arms the timer (rto from rx_rto, resendts = current + rto)", 4)
	r.rule("C02.A5", "the dead-link state is write-only: KCP.state is never read", 1)
	r.rule("C02.A6", "UDPSession.update re-submits itself on every path of the not-closed arm with the delay returned by flush", 1)
	r.rule("C02.A7", "no blocking operation (channel operation outside a select with default, Sleep, WaitN, WaitGroup.Wait, socket I/O) is reachable while UDPSession.mu is held; exemptions: the user callback of Control and the socket-option setters", 2)
	r.rule("C02.A7b", "every function that acquires a mutex releases it on every return path or defers the release", 1)
	r.rule("C02.A10", "data that became readable is announced to a blocked reader, also when it was recovered by FEC: after the last change of the core in kcpInput the availability is tested and the token posted (= C13.W5b)", 2)
	r.rule("C02.A14", "a header-only datagram is a valid datagram (a lone ACK, a window probe, its answer): every length refusal on the receive path of sessions and listener is a strict `len(data) < H` with H one of the header sizes the code is about to read (sums of the named header constants) — `<=` drops exactly the acknowledgements that travel alone, and the sender's backlog never drains", 4)
	r.rule("C02.A15", "a message becomes readable as soon as its last fragment is queued: PeekSize refuses exactly while rcv_queue.Len() < frg+1 of the head segment — one more makes the last message of a burst wait for a segment that never comes", 1)
	r.rule("C02.A17", "a window probe is always answered: flush emits WINS whenever ASK_TELL is set, whatever was advertised before (= C03.P2) — 'already told' is not 'known by the peer'; a suppressed answer after a lost announcement wedges the sender at rmt_wnd == 0", 3)
	r.rule("C02.A18", "the per-session timer keeps running while the session is open: every path through UDPSession.update that does not take the die arm re-submits the callback (= C15.G3 second half)", 1)
	r.rule("C02.A16", "retransmission never gives up on its own: the timeout arm of flush is governed by the timer test alone (no retry cap, no state test) — segments dropped from retransmission while the session stays open are never delivered", 1)
	r.rule("C02.A13", "no deadlock by lock order (= C13.W12): a session whose mutex is part of a lock cycle stops delivering for good", 1)
	r.rule("C02.A12", "no empty message enters the send queue (= C01.S16): behind a zero-length message the peer's reader never makes progress", 1)
	r.rule("C02.A11", "room made by the reader is used: after Recv has taken segments from the delivery queue every path to its return runs the loop that promotes parked segments from rcv_buf", 1)
	r.rule("C02.A9", "the reorder heap releases the segment rcv_nxt when it is present: its comparator orders sequence numbers through the signed difference, also across the 32-bit wrap (= C12.K3)", 1)
	r.rule("C02.A8", "Input calls flush(IKCP_FLUSH_FULL) whenever parse_una removed a segment or parse_fastack reported a hit", 1)
	delegate(p, r, "C13", checkC13, "C13.W5b", "C02.A10")
	checkPromotionInRecv(p, r, "C02.A11")
	checkEmptySendRefused(p, r, "C02.A12")
	checkLockOrder(p, r, "C02.A13")
	checkLengthRefusalsExact(p, r, "C02.A14")
	checkPeekSizeReadiness(p, r, "C02.A15")
	checkTimeoutArmUnconditional(p, r, "C02.A16")
	delegate(p, r, "C03", checkC03, "C03.P2", "C02.A17")
	checkUpdateAlwaysRearms(p, r, "C02.A18")
	{
		sub := newReport("C12", r.Tier)
		sub.curCfg = r.curCfg
		checkC12(p, sub)
		for _, o := range sub.Obs {
			if o.Rule != "C12.K3" || !strings.Contains(o.Construct, "segmentHeap") {
				continue
			}
			if o.Status == Discharged {
				r.ok("C02.A9", o.Func, o.Pos, o.Construct, o.Detail)
			} else {
				r.bad("C02.A9", o.Func, o.Pos, o.Construct, o.Detail+": once the window straddles the wrap the heap root is not rcv_nxt, the delivery queue stops advancing although every segment is present and acknowledged", o.Witness)
			}
		}
	}

	checkAckEveryPush(p, r, "C02.A1")
	checkAckedIsAccepted(p, r, "C02.A1b")
	checkAckFlush(p, r)
	checkRetransLoopComplete(p, r)
	checkArming(p, r, "C02.A4")

	// A5
	fState := p.Field("KCP", "state")
	var readers []string
	for _, fi := range p.funcs {
		if _, ok := p.Effects(fi).FieldR[fState]; ok {
			// a store also "reads" the selector: exclude pure stores
			reads := false
			inspectBody(fi, func(n ast.Node) bool {
				sel, ok := n.(*ast.SelectorExpr)
				if !ok {
					return true
				}
				if s, ok := p.Info.Selections[sel]; !ok || s.Obj() != fState {
					return true
				}
				if as, ok := p.parents[sel].(*ast.AssignStmt); ok {
					for _, l := range as.Lhs {
						if l == ast.Expr(sel) && as.Tok == token.ASSIGN {
							return true
						}
					}
				}
				reads = true
				return true
			})
			if reads {
				readers = append(readers, fi.Name)
			}
		}
	}
	r.check(len(readers) == 0, "C02.A5", "KCP", "-", "KCP.state is never consulted", "write-only", fmt.Sprintf("the dead-link state is read in %v: the connection can give up on its own", readers))

	checkUpdateRearm(p, r)
	checkNoBlockingUnderLock(p, r)
	checkLockBalance(p, r, "C02.A7b")
	checkInputFlushTrigger(p, r)
}

func checkAckFlush(p *Prog, r *Report) {
	flush := p.FuncOf(p.Method("KCP", "flush"))
	c := p.CFG(flush)
	fAck := p.Field("KCP", "acklist")
	// the loop over acklist
	var loop *ast.RangeStmt
	ast.Inspect(flush.Body, func(n ast.Node) bool {
		if rs, ok := n.(*ast.RangeStmt); ok {
			if t := p.Term(rs.X); t.Op == "fld" && t.Obj == fAck {
				loop = rs
			}
		}
		return true
	})
	if loop == nil {
		r.bad("C02.A2", flush.Name, p.Pos(flush.Node), "ack emission loop", "flush has no loop over acklist", "")
		return
	}
	// controlling conditions of the loop: only the flush-type test that is true for ACKONLY and FULL
	pt, _ := c.PointOf(loop.X)
	okType := true
	var conds []string
	for _, ct := range c.DominatingConds(pt) {
		conds = append(conds, pretty(ct.Key()))
		// must be a disjunction of equalities of the flushType parameter covering both constants
		vals := map[int64]bool{}
		for _, d := range disjuncts(ct) {
			if d.Op == "==" {
				for i := 0; i < 2; i++ {
					if d.Args[i].IsConst() {
						vals[d.Args[i].Int] = true
					}
				}
			}
		}
		if !(vals[p.ConstInt("IKCP_FLUSH_ACKONLY")] && vals[p.ConstInt("IKCP_FLUSH_FULL")]) {
			okType = false
		}
	}
	r.check(okType, "C02.A2", flush.Name, p.Pos(loop), "ack loop runs for both flush types", fmt.Sprintf("controlled by %v", conds), fmt.Sprintf("the ack emission is controlled by %v: for some flush type acknowledgements are never sent", conds))
	// truncation after the loop, same controlling conditions, never before
	for _, st := range p.FieldStores(fAck) {
		if st.Fn != flush || st.Rhs == nil {
			continue
		}
		sp, _ := c.PointOf(st.Node)
		// every path entry -> truncation passes the loop header
		var hdrSeen bool
		res := c.FindPath(PathQuery{From: Point{c.Entry(), 0}, IsTarget: func(_ ast.Node, q Point) bool { return q == sp }, IsBarrier: func(n ast.Node, q Point) bool {
			if q == pt {
				hdrSeen = true
				return true
			}
			return false
		}})
		_ = hdrSeen
		r.check(!res.Found, "C02.A2", flush.Name, p.Pos(st.Node), "acklist truncated only after emission", "the emission loop precedes the truncation on every path", "the ack list is truncated on a path that did not emit it: those acknowledgements are never sent")
	}
	// the last element is always encoded: the filter has the disjunct len(acklist)-1 == i
	okLast := false
	ast.Inspect(loop.Body, func(n ast.Node) bool {
		if is, ok := n.(*ast.IfStmt); ok {
			for _, d := range disjuncts(p.Term(is.Cond)) {
				if d.Op == "==" && termHasField(d, fAck) {
					okLast = true
				}
			}
		}
		return true
	})
	// or there is no filter at all
	noFilter := true
	ast.Inspect(loop.Body, func(n ast.Node) bool {
		if _, ok := n.(*ast.IfStmt); ok {
			noFilter = false
		}
		return true
	})
	r.check(okLast || noFilter, "C02.A2", flush.Name, p.Pos(loop), "the newest acknowledgement is always encoded", "filter has the disjunct len(acklist)-1 == i", "the ack filter can suppress every element of the list: una/wnd updates are then never carried")
}

func disjuncts(t *Term) []*Term {
	if t.Op == "||" {
		var out []*Term
		for _, a := range t.Args {
			out = append(out, disjuncts(a)...)
		}
		return out
	}
	return []*Term{t}
}

func checkRetransLoopComplete(p *Prog, r *Report) {
	flush, loop, lv := sendLoop(p)
	if loop == nil {
		r.bad("C02.A3", flush.Name, p.Pos(flush.Node), "retransmission loop", "not found", "")
		return
	}
	acked := p.F(tVar(lv), "segment", "acked")
	bad := ""
	ast.Inspect(loop.Body, func(n ast.Node) bool {
		switch x := n.(type) {
		case *ast.FuncLit:
			return false
		case *ast.ReturnStmt:
			bad = "a return at " + p.Pos(x)
		case *ast.BranchStmt:
			switch x.Tok {
			case token.BREAK:
				// a break of an inner switch/select is fine
				for y := ast.Node(x); y != nil && y != ast.Node(loop); y = p.parents[y] {
					switch p.parents[y].(type) {
					case *ast.SwitchStmt, *ast.SelectStmt, *ast.ForStmt, *ast.TypeSwitchStmt:
						return true
					}
				}
				bad = "a break at " + p.Pos(x)
			case token.GOTO:
				bad = "a goto at " + p.Pos(x)
			case token.CONTINUE:
				// branch statements are edges, not nodes, in go/cfg: read the enclosing if directly
				okC := false
				if blk, ok := p.parents[x].(*ast.BlockStmt); ok {
					if is, ok := p.parents[blk].(*ast.IfStmt); ok && is.Body == blk && is.Init == nil {
						if outer, ok := p.parents[is].(*ast.BlockStmt); ok && outer == loop.Body {
							for _, a := range Conjuncts(p.Term(is.Cond)) {
								if a.Key() == eq(acked, tConst(1)).Key() {
									okC = true
								}
							}
						}
					}
				}
				if !okC {
					bad = "a continue at " + p.Pos(x) + " that is not under acked == 1"
				}
			}
		}
		return true
	})
	r.check(bad == "", "C02.A3", flush.Name, p.Pos(loop), "every unacknowledged segment is examined", "no break/return; continue only under acked == 1", "the retransmission loop has "+bad+": segments behind it are never retransmitted")
}

func checkUpdateRearm(p *Prog, r *Report) {
	fi := p.FuncByName("(*UDPSession).update")
	c := p.CFG(fi)
	putM := p.Method("TimedSched", "Put")
	flush := p.Method("KCP", "flush")
	var flushCalls, puts []Site
	for _, s := range p.CallsTo(flush) {
		if s.Fn == fi {
			flushCalls = append(flushCalls, s)
		}
	}
	for _, s := range p.CallsTo(putM) {
		if s.Fn == fi {
			puts = append(puts, s)
		}
	}
	if len(flushCalls) == 0 || len(puts) == 0 {
		r.bad("C02.A6", fi.Name, p.Pos(fi.Node), "update re-arms itself", "update does not flush and re-submit itself", "")
		return
	}
	fp, _ := c.PointOf(flushCalls[0].Call)
	res := c.FindPath(PathQuery{From: Point{fp.B, fp.I + 1}, ExitIsTarget: true, IsBarrier: func(n ast.Node, _ Point) bool {
		hit := false
		inspectShallow(n, func(x ast.Node) bool {
			if call, ok := x.(*ast.CallExpr); ok && p.Callee(call) == putM {
				hit = true
			}
			return true
		})
		return hit
	}})
	// the delay derives from the flush result
	okDelay := false
	put := puts[0]
	if len(put.Call.Args) == 2 {
		var iv *types.Var
		if as, ok := p.parents[flushCalls[0].Call].(*ast.AssignStmt); ok && len(as.Lhs) == 1 {
			if id, ok := as.Lhs[0].(*ast.Ident); ok {
				iv, _ = p.Info.Defs[id].(*types.Var)
				if iv == nil {
					iv, _ = p.Info.Uses[id].(*types.Var)
				}
			}
		}
		if iv != nil && mentionsVars(p, put.Call.Args[1], map[*types.Var]bool{iv: true}) {
			okDelay = true
		}
		// method value of the same session
		if t := p.Term(put.Call.Args[0]); t.Op != "mval" || t.Obj.Name() != "update" {
			okDelay = false
		}
	}
	switch {
	case res.Found:
		r.bad("C02.A6", fi.Name, p.Pos(flushCalls[0].Call), "update re-arms itself", "a path through the not-closed arm returns without re-submitting update: the session is never flushed again (retransmission stops)", c.DescribePath(res.Path))
	case !okDelay:
		r.bad("C02.A6", fi.Name, p.Pos(put.Call), "update re-arms itself", "the re-submission does not use the interval returned by flush (or submits another callback)", "")
	default:
		r.ok("C02.A6", fi.Name, p.Pos(put.Call), "update re-arms itself", "SystemTimedSched.Put(s.update, now + interval returned by flush) on every path of the not-closed arm")
	}
}

func checkNoBlockingUnderLock(p *Prog, r *Report) {
	la := p.Locks()
	const mu = "UDPSession.mu"
	n := 0
	seen := map[string]bool{}
	for _, f := range la.funcs {
		if _, ok := la.entry[f]; !ok {
			continue
		}
		for _, b := range f.Blocks {
			for _, in := range b.Instrs {
				held := la.heldAt[in]
				if held == nil || !held[mu] {
					continue
				}
				what := ""
				switch x := in.(type) {
				case *ssa.Send:
					what = "channel send"
				case *ssa.UnOp:
					if x.Op == token.ARROW {
						what = "channel receive"
					}
				case *ssa.Select:
					if x.Blocking {
						what = "blocking select"
					} else {
						n++
						continue
					}
				case ssa.CallInstruction:
					if c := x.Common().StaticCallee(); c != nil && c.Pkg != nil {
						pp, nm := c.Pkg.Pkg.Path(), c.Name()
						switch {
						case pp == "time" && nm == "Sleep":
							what = "time.Sleep"
						case pp == "sync" && nm == "Wait":
							what = "sync Wait"
						case strings.HasSuffix(pp, "x/time/rate") && strings.HasPrefix(nm, "Wait"):
							what = "rate limiter wait"
						}
					}
					if x.Common().IsInvoke() {
						nm := x.Common().Method.Name()
						recvT := x.Common().Value.Type().String()
						if (strings.HasPrefix(nm, "Read") || strings.HasPrefix(nm, "Write")) && (strings.Contains(recvT, "net.") || strings.Contains(recvT, "batchConn")) {
							what = "socket " + nm
						}
					}
				}
				if what == "" {
					continue
				}
				root := rootFn(f)
				// documented exemptions
				if root.Name() == "Control" || strings.HasPrefix(root.Name(), "SetDSCP") || strings.HasPrefix(root.Name(), "SetReadBuffer") || strings.HasPrefix(root.Name(), "SetWriteBuffer") {
					continue
				}
				key := shortFn(f) + ":" + what
				if seen[key] {
					continue
				}
				seen[key] = true
				r.bad("C02.A7", shortFn(f), p.PosOf(in.Pos()), what+" while holding the session mutex", "a "+what+" is reachable with UDPSession.mu held: input processing, update and every other caller of the session stall behind it", la.Chain(f, ""))
			}
		}
	}
	if len(seen) == 0 {
		r.ok("C02.A7", "UDPSession", "-", "nothing blocks under the session mutex", fmt.Sprintf("%d non-blocking selects and no blocking operation found at program points where UDPSession.mu is held", n))
		// name the two guarded sends explicitly
		for _, fi := range p.funcs {
			for _, co := range p.Effects(fi).ChanOps {
				if co.Send && co.Chan.Op == "fld" && co.Chan.Obj.Name() == "chPostProcessing" {
					r.check(co.NonBlock, "C02.A7", rootFuncInfo(fi).Name, p.Pos(co.Node), "send on chPostProcessing", "in a select with default", "a blocking send on the post-processing queue under the session mutex")
				}
			}
		}
	}
}

// checkLockBalance: every function that takes a mutex itself releases it on every
// return path (or defers the release). Shared by C02.A7b and C19.O3b.
func checkLockBalance(p *Prog, r *Report, rule string) {
	la := p.Locks()
	leaks := la.Leaks()
	for _, lk := range leaks {
		r.bad(rule, shortFn(lk.Fn), p.PosOf(lk.Pos), "return with "+lk.Lock+" held", "the function returns on this path without releasing "+lk.Lock+" (no deferred unlock): every later user of that lock blocks forever", "")
	}
	if len(leaks) == 0 {
		n := 0
		for _, f := range la.funcs {
			for _, b := range f.Blocks {
				for _, in := range b.Instrs {
					if c, ok := in.(*ssa.Call); ok {
						if cal := c.Call.StaticCallee(); cal != nil && cal.Signature.Recv() != nil && (cal.Name() == "Lock" || cal.Name() == "RLock") && strings.HasPrefix(cal.Signature.Recv().Type().String(), "*sync.") {
							n++
						}
					}
				}
			}
		}
		r.ok(rule, "package", "-", "every acquired mutex is released on every return path", fmt.Sprintf("%d Lock/RLock sites checked", n))
	}
}

func checkInputFlushTrigger(p *Prog, r *Report) {
	input := p.FuncOf(p.Method("KCP", "Input"))
	c := p.CFG(input)
	flush := p.Method("KCP", "flush")
	full := p.ConstInt("IKCP_FLUSH_FULL")
	// the local flag that is or-ed with the results of parse_una (> 0) and parse_fastack
	var flag *types.Var
	okUna, okFast := false, false
	inspectBody(input, func(n ast.Node) bool {
		as, ok := n.(*ast.AssignStmt)
		if !ok || as.Tok != token.OR_ASSIGN || len(as.Lhs) != 1 {
			return true
		}
		id, ok := as.Lhs[0].(*ast.Ident)
		if !ok {
			return true
		}
		v, _ := p.Info.Uses[id].(*types.Var)
		rt := p.Term(as.Rhs[0])
		if rt.Op == "call" && rt.Obj == p.Method("KCP", "parse_fastack") {
			flag, okFast = v, true
		}
		if rt.IsConst() && rt.Int != 0 {
			// under parse_una(..) > 0
			if pt, ok := c.PointOf(as); ok {
				for _, ct := range c.DominatingConds(pt) {
					if ct.Op == "<" && ct.Args[0].IsConst() && ct.Args[0].Int == 0 && ct.Args[1].Op == "call" && ct.Args[1].Obj == p.Method("KCP", "parse_una") {
						if flag == nil || flag == v {
							flag, okUna = v, true
						}
					}
				}
			}
		}
		return true
	})
	okFlush := false
	if flag != nil {
		for _, s := range p.CallsTo(flush) {
			if s.Fn != input || len(s.Args) != 1 || !s.Args[0].IsConst() || s.Args[0].Int != full {
				continue
			}
			pt, _ := c.PointOf(s.Call)
			conds := c.DominatingConds(pt)
			if os.Getenv("KCPVERIF_DEBUG") != "" {
				for _, cd := range conds {
					fmt.Println("A8 cond", cd.Key(), "want", ne(tVar(flag), tConst(0)).Key())
				}
			}
			// conditions on the datagram's length alone (the framing loop) do not count
			var rel []*Term
			dataV := firstByteSliceParam(p, input)
			for _, cd := range conds {
				rs := p.termReads(cd)
				onlyLen := len(rs.fields) == 0 && len(rs.globs) == 0
				for v := range rs.vars {
					if v != dataV {
						onlyLen = false
					}
				}
				if !onlyLen {
					rel = append(rel, cd)
				}
			}
			if len(rel) == 1 && rel[0].Key() == ne(tVar(flag), tConst(0)).Key() {
				// and the test is reached on every successful path
				okFlush = true
			}
		}
	}
	r.check(okUna && okFast && okFlush, "C02.A8", input.Name, p.Pos(input.Node), "flush(FULL) when the window slid or a fast-ack hit", "flag |= (parse_una > 0) | parse_fastack; flush(FULL) under flag != 0 only", fmt.Sprintf("Input does not flush fully exactly when the send window slid or a fast-ack threshold was hit (una: %v, fastack: %v, flush under the flag only: %v): freed window or fast retransmits wait for the next interval or never happen", okUna, okFast, okFlush))
}

// checkPromotionInRecv: after Recv has taken segments from the delivery queue every path to its return runs
// the loop that promotes parked segments from rcv_buf, and that loop is entered whenever rcv_buf holds
// something. Shared by C02.A11 and C03.P10.
func checkPromotionInRecv(p *Prog, r *Report, rule string) {
	recvF := p.FuncOf(p.Method("KCP", "Recv"))
	c := p.CFG(recvF)
	fQ, fB := p.Field("KCP", "rcv_queue"), p.Field("KCP", "rcv_buf")
	var lastPop *Point
	for _, s := range p.CallsTo(p.Method("RingBuffer", "Pop")) {
		if s.Fn == recvF {
			if _, ok := fieldBase(s.Recv, fQ); ok {
				q, _ := c.PointOf(s.Call)
				lastPop = &q
			}
		}
	}
	// the promotion loop: a loop whose condition tests rcv_buf and whose body pushes into rcv_queue
	var hdr *cfg.Block
	extra := ""
	for _, s := range p.CallsTo(p.Method("RingBuffer", "Push")) {
		if s.Fn != recvF {
			continue
		}
		if _, ok := fieldBase(s.Recv, fQ); !ok {
			continue
		}
		if lp, ok := enclosingLoop(p, s.Call).(*ast.ForStmt); ok && lp.Cond != nil && termHasField(p.ExpandHelpers(p.Term(lp.Cond)), fB) {
			// go/cfg splits a && b: the header is the block of the first operand
			first := lp.Cond
			for {
				be, isB := ast.Unparen(first).(*ast.BinaryExpr)
				if !isB || be.Op != token.LAND {
					break
				}
				first = be.X
			}
			if hp, ok := c.PointOf(ast.Unparen(first)); ok {
				hdr = hp.B
			} else if hp, ok := c.PointOf(lp.Cond); ok {
				hdr = hp.B
			}
			// the loop is entered whenever rcv_buf holds something: no other conjunct may keep it from running
			for _, cj := range Conjuncts(p.Term(lp.Cond)) {
				if !termHasField(p.ExpandHelpers(cj), fB) {
					extra = pretty(cj.Key())
				}
			}
		}
	}
	switch {
	case extra != "":
		r.bad(rule, recvF.Name, p.Pos(recvF.Node), "promotion of parked segments in Recv", "the promotion loop runs only when "+extra+" holds as well: parked in-order segments (acknowledged, never retransmitted) are left in rcv_buf whenever it does not — e.g. after the receive window was enlarged while the delivery queue was full — and the connection stalls for good", "")
	case lastPop == nil:
		r.bad(rule, recvF.Name, p.Pos(recvF.Node), "promotion of parked segments in Recv", "Recv never takes a segment from the delivery queue", "")
	case hdr == nil:
		r.bad(rule, recvF.Name, p.Pos(recvF.Node), "promotion of parked segments in Recv", "Recv has no loop that moves segments from rcv_buf into rcv_queue: in-window segments that arrived while the delivery queue was full (already acknowledged, so never retransmitted) stay parked, rcv_nxt and the window stop moving and the connection stalls for good", "")
	default:
		res := c.FindPath(PathQuery{From: Point{lastPop.B, lastPop.I + 1}, ExitIsTarget: true, OnBlock: func(b *cfg.Block) (bool, bool) { return false, b == hdr }})
		if res.Found {
			r.bad(rule, recvF.Name, p.Pos(recvF.Node), "promotion of parked segments in Recv", "a path returns from Recv after taking segments without running the promotion loop", c.DescribePath(res.Path))
		} else {
			r.ok(rule, recvF.Name, p.Pos(recvF.Node), "promotion of parked segments in Recv", "every path from the last Pop to the return runs the rcv_buf -> rcv_queue loop")
		}
	}
}

// checkLengthRefusalsExact: C02.A14.
func checkLengthRefusalsExact(p *Prog, r *Report, rule string) {
	c := func(n string) int64 { return p.ConstInt(n) }
	allowed := map[int64]string{}
	add := func(v int64, name string) {
		if _, ok := allowed[v]; !ok {
			allowed[v] = name
		}
	}
	add(c("IKCP_OVERHEAD"), "IKCP_OVERHEAD")
	add(c("fecHeaderSize"), "fecHeaderSize")
	add(c("fecHeaderSizePlus2"), "fecHeaderSizePlus2")
	add(c("fecHeaderSizePlus2")+c("IKCP_OVERHEAD"), "fecHeaderSizePlus2+IKCP_OVERHEAD")
	add(c("fecHeaderSizePlus2")+c("convSize"), "fecHeaderSizePlus2+convSize")
	add(c("cryptHeaderSize"), "cryptHeaderSize")
	add(c("cryptHeaderSize")+c("IKCP_OVERHEAD"), "cryptHeaderSize+IKCP_OVERHEAD")
	add(2, "the 2-byte size prefix")
	n := 0
	for _, name := range []string{"(*UDPSession).packetInput", "(*UDPSession).kcpInput", "(*Listener).packetInput", "(*KCP).Input", "(*fecDecoder).decode"} {
		fi := p.FuncByName(name)
		if fi == nil {
			continue
		}
		var fns []*FuncInfo
		fns = append(fns, fi)
		// helpers split off these functions (decryptPacket, openPacket, recoveredPayload)
		inspectBody(fi, func(x ast.Node) bool {
			if call, ok := x.(*ast.CallExpr); ok {
				if f := p.Callee(call); f != nil && f.Pkg() == p.Types && !f.Exported() {
					if h := p.FuncOf(f); h != nil && h.Body != nil {
						if cl, _, okS := p.singleCaller(h); okS && rootFuncInfo(cl) == fi {
							fns = append(fns, h)
						}
					}
				}
			}
			return true
		})
		for _, g := range fns {
			cg := p.CFG(g)
			for _, b := range cg.live {
				ct := cg.CondTerm(b)
				if ct == nil || len(b.Succs) != 2 {
					continue
				}
				for _, a := range append(Conjuncts(ct), Conjuncts(Negate(ct))...) {
					a = stripConvs(a)
					if len(a.Args) != 2 {
						continue
					}
					x, y, op := a.Args[0], a.Args[1], a.Op
					if x.IsConst() && !y.IsConst() {
						x, y = y, x
						op = map[string]string{"<": ">", "<=": ">=", ">": "<", ">=": "<=", "==": "==", "!=": "!="}[op]
					}
					if x.Op != "len" || !y.IsConst() || x.Args[0].Op != "var" {
						continue
					}
					if v, ok := x.Args[0].Obj.(*types.Var); !ok || !isByteSliceLike(v.Type()) {
						continue
					}
					// the refusing form: len(data) < K or len(data) <= K
					var need int64
					switch op {
					case "<":
						need = y.Int
					case "<=":
						need = y.Int + 1
					default:
						continue
					}
					// only the side of the branch that holds this atom positively counts once
					if a.Key() != stripConvs(ct).Key() && !containsAtom(Conjuncts(ct), a) {
						continue
					}
					n++
					nm, ok := allowed[need]
					construct := "length refusal " + pretty(a.Key()) + " in " + g.Name
					if ok {
						r.ok(rule, g.Name, p.Pos(b.Nodes[len(b.Nodes)-1]), construct, "refuses exactly what is shorter than "+nm)
					} else {
						r.bad(rule, g.Name, p.Pos(b.Nodes[len(b.Nodes)-1]), construct, fmt.Sprintf("datagrams shorter than %d bytes are refused, but %d is not the size of any header read here (the named sizes are %v): a datagram that consists of headers only — a lone ACK, a window probe or the answer to one — is dropped, the sender never sees the acknowledgement (or the re-opened window) and its backlog never drains", need, need, sortedNames(allowed)), "")
					}
				}
			}
		}
	}
	if n == 0 {
		r.bad(rule, "receive path", "-", "length refusals", "no length test found on the receive path", "")
	}
}

func containsAtom(as []*Term, a *Term) bool {
	for _, x := range as {
		if stripConvs(x).Key() == a.Key() {
			return true
		}
	}
	return false
}

func sortedNames(m map[int64]string) []string {
	var ks []int64
	for k := range m {
		ks = append(ks, k)
	}
	sort.Slice(ks, func(i, j int) bool { return ks[i] < ks[j] })
	var out []string
	for _, k := range ks {
		out = append(out, fmt.Sprintf("%s=%d", m[k], k))
	}
	return out
}

// checkPeekSizeReadiness: C02.A15.
func checkPeekSizeReadiness(p *Prog, r *Report, rule string) {
	fi := p.FuncOf(p.Method("KCP", "PeekSize"))
	c := p.CFG(fi)
	self := tVar(p.selfVar(fi))
	qLen := normTerm(tCall(p.Method("RingBuffer", "Len"), p.F(self, "KCP", "rcv_queue")))
	fFrg := p.Field("segment", "frg")
	n := 0
	for _, b := range c.live {
		ct := c.CondTerm(b)
		if ct == nil || len(b.Succs) != 2 {
			continue
		}
		for _, a0 := range Conjuncts(ct) {
			a := stripConvs(p.resolveSingleDefs(fi, a0))
			if !a.Contains(qLen) || !termHasField(a, fFrg) {
				continue
			}
			n++
			l, ok := leZero(a)
			good := false
			if len(Conjuncts(ct)) != 1 {
				ok = false // the refusal must not depend on anything else (a full queue, a mode): an incomplete message is never readable
			}
			if ok {
				// Len - frg <= 0  (Len < frg + 1)
				if l.C == 0 && l.Coef[qLen.Key()] == 1 && nonZeroCoefs(l) == 2 {
					for k, cf := range l.Coef {
						if k != qLen.Key() && cf == -1 && l.Atoms[k] != nil && l.Atoms[k].Op == "fld" && l.Atoms[k].Obj == fFrg {
							good = true
						}
					}
				}
			}
			// the true edge refuses
			refuses := false
			for _, nd := range b.Succs[0].Nodes {
				if rs, isR := nd.(*ast.ReturnStmt); isR && len(rs.Results) == 1 {
					if v, okV := p.constVal(rs.Results[0]); okV && v < 0 {
						refuses = true
					}
				}
			}
			r.check(good && refuses, rule, fi.Name, p.Pos(b.Nodes[len(b.Nodes)-1]), "fragment completeness test "+pretty(a.Key()), "refuses exactly while Len() < frg + 1", "PeekSize does not report a message as readable exactly when Len() >= frg+1 of the head segment: with a stricter test the last multi-fragment message of a burst (already acknowledged, so nothing follows it) stays in the delivery queue for good; with a weaker one Recv copies an incomplete message")
		}
	}
	if n == 0 {
		r.bad(rule, fi.Name, p.Pos(fi.Node), "fragment completeness test", "PeekSize does not compare the queue length with the head segment's fragment count", "")
	}
}

// checkTimeoutArmUnconditional: C02.A16.
func checkTimeoutArmUnconditional(p *Prog, r *Report, rule string) {
	flush := p.FuncOf(p.Method("KCP", "flush"))
	fRes := p.Field("segment", "resendts")
	c := p.CFG(flush)
	n := 0
	// the arm (if / else-if / case of a tagless switch) whose condition tests the resend timestamp and whose body decides to send
	for _, b := range c.live {
		ct := c.CondTerm(b)
		if ct == nil || len(b.Succs) != 2 || !termHasField(ct, fRes) {
			continue
		}
		sets := false
		for _, nd := range b.Succs[0].Nodes {
			if as, isA := nd.(*ast.AssignStmt); isA && len(as.Rhs) == 1 && p.Term(as.Rhs[0]).Op == "true" {
				sets = true
			}
		}
		if !sets {
			continue
		}
		n++
		var extra []string
		for _, a := range Conjuncts(p.resolveSingleDefs(flush, ct)) {
			if !termHasField(a, fRes) {
				extra = append(extra, pretty(a.Key()))
			}
		}
		r.check(len(extra) == 0, rule, flush.Name, p.Pos(b.Nodes[len(b.Nodes)-1]), "timeout arm of flush", "governed by _itimediff(current, resendts) >= 0 alone", fmt.Sprintf("the timeout retransmission additionally requires %v: once that stops holding the segment is never sent again although the session stays open (nothing looks at the dead-link state) — after a long stall, or on a bad path, data that was accepted is silently abandoned and the transfer hangs", extra))
	}
	if n == 0 {
		r.bad(rule, flush.Name, p.Pos(flush.Node), "timeout arm of flush", "flush has no retransmission on timeout", "")
	}
}
