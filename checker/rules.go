package main

import (
	"fmt"
	"go/ast"
	"go/token"
	"go/types"
	"sort"
	"strings"
)

// Site is one call site of an anchored function.
type Site struct {
	Call *ast.CallExpr
	Fn   *FuncInfo
	Recv *Term   // receiver term for method calls (nil otherwise)
	Args []*Term // argument terms (without receiver)
}

// CallsTo lists every call in the package whose statically resolved callee is f.
func (p *Prog) CallsTo(f *types.Func) []Site {
	f = f.Origin()
	var out []Site
	for _, fi := range p.funcs {
		inspectBody(fi, func(n ast.Node) bool {
			call, ok := n.(*ast.CallExpr)
			if !ok {
				return true
			}
			if p.Callee(call) != f {
				return true
			}
			out = append(out, p.siteOf(call, fi))
			return true
		})
	}
	return out
}

func (p *Prog) siteOf(call *ast.CallExpr, fi *FuncInfo) Site {
	s := Site{Call: call, Fn: fi}
	if sel, ok := ast.Unparen(call.Fun).(*ast.SelectorExpr); ok {
		if sl, ok := p.Info.Selections[sel]; ok && sl.Kind() == types.MethodVal {
			s.Recv = p.Term(sel.X)
		}
	}
	for _, a := range call.Args {
		s.Args = append(s.Args, p.Term(a))
	}
	return s
}

// inspectBody walks the body of fi without descending into nested literals.
func inspectBody(fi *FuncInfo, f func(ast.Node) bool) {
	ast.Inspect(fi.Body, func(n ast.Node) bool {
		if n == nil {
			return false
		}
		if lit, ok := n.(*ast.FuncLit); ok && lit != fi.Node {
			return false
		}
		return f(n)
	})
}

// AllCalls visits every call expression of the package with its enclosing function.
func (p *Prog) AllCalls(f func(call *ast.CallExpr, fi *FuncInfo)) {
	for _, fi := range p.funcs {
		inspectBody(fi, func(n ast.Node) bool {
			if c, ok := n.(*ast.CallExpr); ok {
				f(c, fi)
			}
			return true
		})
	}
}

// FactsOf returns the cached must-facts analysis of fi (default options).
func (p *Prog) FactsOf(fi *FuncInfo) *Facts {
	key := "facts:" + fi.Name + "@" + p.Pos(fi.Node)
	if v, ok := p.memo[key]; ok {
		return v.(*Facts)
	}
	if _, busy := p.memo["busy:"+key]; busy {
		// asked for while its own entry facts are being derived (recursion, or a callee summary needed by a
		// caller): the analysis without entry facts
		if v, ok := p.memo["noentry:"+key]; ok {
			return v.(*Facts)
		}
		fa := p.Facts(fi, FactOpts{})
		p.memo["noentry:"+key] = fa
		return fa
	}
	p.memo["busy:"+key] = true
	entry := p.entryFactsFromCallers(fi)
	delete(p.memo, "busy:"+key)
	fa := p.Facts(fi, FactOpts{Entry: entry})
	p.memo[key] = fa
	return fa
}

// entryFactsFromCallers: what holds on entry to an unexported function all of whose call sites are known
// (it is never used as a value, never started with go or deferred): the facts common to all its call sites,
// translated to its parameters. A guard tested by the caller of an extracted helper thus guards the
// helper's body. Facts that mention locals of the caller other than the arguments are dropped.
func (p *Prog) entryFactsFromCallers(fi *FuncInfo) []*Term {
	if fi == nil || fi.Lit != nil || fi.Obj == nil || fi.Decl == nil || fi.Obj.Exported() || fi.Obj.Name() == "init" || fi.Obj.Name() == "main" {
		return nil
	}
	if p.usedAsValue(fi.Obj) || p.implementsSomeInterface(fi.Obj) {
		return nil
	}
	sites := p.CallsTo(fi.Obj)
	if len(sites) == 0 || len(sites) > 8 {
		return nil
	}
	var params []*types.Var // receiver first (nil when absent), then parameters in order
	params = append(params, p.recvVar(fi))
	for _, fl := range fi.Decl.Type.Params.List {
		if len(fl.Names) == 0 {
			params = append(params, nil)
		}
		for _, nm := range fl.Names {
			v, _ := p.Info.Defs[nm].(*types.Var)
			params = append(params, v)
		}
	}
	isParam := map[types.Object]bool{}
	for _, v := range params {
		if v != nil {
			isParam[v] = true
		}
	}
	var common map[string]*Term
	for _, s := range sites {
		switch p.parents[s.Call].(type) {
		case *ast.GoStmt, *ast.DeferStmt:
			return nil
		}
		if sig, ok := fi.Obj.Type().(*types.Signature); ok && sig.Variadic() {
			return nil
		}
		fs := p.FactsOf(s.Fn).AtNode(s.Call)
		args := append([]*Term{s.Recv}, s.Args...)
		if len(args) != len(params) {
			return nil
		}
		here := map[string]*Term{}
		cands := []*Term{}
		for _, a := range fs.Atoms {
			cands = append(cands, a)
		}
		for _, a := range fs.resolvedAtoms() {
			cands = append(cands, a)
		}
		for _, a := range cands {
			t := a
			for i, arg := range args {
				if arg == nil || params[i] == nil || arg.IsConst() {
					continue
				}
				t = replaceByKey(t, arg.Key(), tVar(params[i]))
			}
			foreign := false
			t.Walk(func(x *Term) {
				if x.Op != "var" {
					return
				}
				if v, ok := x.Obj.(*types.Var); ok && !v.IsField() && v.Parent() != p.Types.Scope() && v.Pkg() == p.Types && !isParam[v] {
					foreign = true
				}
			})
			if !foreign {
				t = normTerm(t)
				here[t.Key()] = t
			}
		}
		if common == nil {
			common = here
		} else {
			for k := range common {
				if _, ok := here[k]; !ok {
					delete(common, k)
				}
			}
		}
		if len(common) == 0 {
			return nil
		}
	}
	var out []*Term
	for _, t := range common {
		out = append(out, t)
	}
	sort.Slice(out, func(i, j int) bool { return out[i].Key() < out[j].Key() })
	return out
}

// implementsSomeInterface: f is a method whose name occurs in an interface of the package or of a type it is
// assigned to — conservatively: any method with the name of a method of an interface type declared in the package
// or in the standard interfaces the package's types are used through (it can then be called dynamically).
func (p *Prog) implementsSomeInterface(f *types.Func) bool {
	sig, ok := f.Type().(*types.Signature)
	if !ok || sig.Recv() == nil {
		return false
	}
	key := "ifaceMethodNames"
	var names map[string]bool
	if v, ok := p.memo[key]; ok {
		names = v.(map[string]bool)
	} else {
		names = map[string]bool{}
		for _, tv := range p.Info.Types {
			if it, ok := tv.Type.Underlying().(*types.Interface); ok {
				for i := 0; i < it.NumMethods(); i++ {
					names[it.Method(i).Name()] = true
				}
			}
		}
		p.memo[key] = names
	}
	return names[f.Name()]
}

// Diff is the canonical signed-difference term _itimediff(a, b) after helper expansion.
func (p *Prog) Diff(a, b *Term) *Term {
	return p.ExpandHelpers(normTerm(tCall(p.Func("_itimediff"), a, b)))
}

func lt(a, b *Term) *Term  { return normTerm(mk("<", a, b)) }
func le(a, b *Term) *Term  { return normTerm(mk("<=", a, b)) }
func eq(a, b *Term) *Term  { return normTerm(mk("==", a, b)) }
func ne(a, b *Term) *Term  { return normTerm(mk("!=", a, b)) }
func add(a, b *Term) *Term { return normTerm(mk("+", a, b)) }
func sub(a, b *Term) *Term { return normTerm(mk("-", a, b)) }
func not(a *Term) *Term    { return Negate(a) }

// F builds base.field for a field of package type typ.
func (p *Prog) F(base *Term, typ, field string) *Term { return tFld(base, p.Field(typ, field)) }

// M builds the call term recv.method(args...) for a method of package type typ.
func (p *Prog) M(recv *Term, typ, method string, args ...*Term) *Term {
	return normTerm(tCall(p.Method(typ, method), append([]*Term{recv}, args...)...))
}

// fieldBase: if t is base.field for the given field, returns base.
func fieldBase(t *Term, f *types.Var) (*Term, bool) {
	if t != nil && t.Op == "fld" && t.Obj == f {
		return t.Args[0], true
	}
	return nil, false
}

// recvIsField reports whether the (resolved) receiver of site s is X.field and returns X.
func (p *Prog) recvIsField(s Site, fs *FactSet, typ, field string) (*Term, bool) {
	if s.Recv == nil {
		return nil, false
	}
	r := s.Recv
	if fs != nil {
		r = fs.Resolve(r)
	}
	return fieldBase(r, p.Field(typ, field))
}

// Assignments lists all assignments (and definitions) to the local variable v
// inside fi: the right-hand sides, or nil entries for multi-value/range forms.
type assignInfo struct {
	Node ast.Node
	Rhs  ast.Expr // nil if not a simple 1:1 assignment
	Tok  token.Token
}

func (p *Prog) Assignments(fi *FuncInfo, v *types.Var) []assignInfo {
	var out []assignInfo
	ast.Inspect(fi.Body, func(n ast.Node) bool {
		switch x := n.(type) {
		case *ast.AssignStmt:
			for i, l := range x.Lhs {
				id, ok := ast.Unparen(l).(*ast.Ident)
				if !ok {
					continue
				}
				o := p.Info.Defs[id]
				if o == nil {
					o = p.Info.Uses[id]
				}
				if o != v {
					continue
				}
				var rhs ast.Expr
				if len(x.Lhs) == len(x.Rhs) {
					rhs = x.Rhs[i]
				}
				out = append(out, assignInfo{x, rhs, x.Tok})
			}
		case *ast.ValueSpec:
			for i, id := range x.Names {
				if p.Info.Defs[id] == v {
					var rhs ast.Expr
					if i < len(x.Values) {
						rhs = x.Values[i]
					}
					out = append(out, assignInfo{x, rhs, token.DEFINE})
				}
			}
		case *ast.IncDecStmt:
			if id, ok := ast.Unparen(x.X).(*ast.Ident); ok && p.Info.Uses[id] == v {
				out = append(out, assignInfo{x, nil, x.Tok})
			}
		case *ast.RangeStmt:
			for _, e := range []ast.Expr{x.Key, x.Value} {
				if id, ok := e.(*ast.Ident); ok {
					o := p.Info.Defs[id]
					if o == nil {
						o = p.Info.Uses[id]
					}
					if o == v {
						out = append(out, assignInfo{x, nil, x.Tok})
					}
				}
			}
		}
		return true
	})
	return out
}

// FieldStores lists every store to field f in the package: assignments
// x.f = e, x.f op= e, x.f++ and composite-literal keys f: e.
type FieldStore struct {
	Node  ast.Node
	Fn    *FuncInfo
	Base  *Term    // x (for a composite literal: the local it initialises, v := T{…} / v = &T{…} / var v = T{…}; nil otherwise)
	Rhs   ast.Expr // nil for ++/--
	Tok   token.Token
	InLit bool
}

func (p *Prog) FieldStores(f *types.Var) []FieldStore {
	f = f.Origin()
	var out []FieldStore
	for _, fi := range p.funcs {
		inspectBody(fi, func(n ast.Node) bool {
			switch x := n.(type) {
			case *ast.AssignStmt:
				for i, l := range x.Lhs {
					sel, ok := ast.Unparen(l).(*ast.SelectorExpr)
					if !ok {
						continue
					}
					s, ok := p.Info.Selections[sel]
					if !ok || s.Kind() != types.FieldVal || s.Obj().(*types.Var).Origin() != f {
						continue
					}
					var rhs ast.Expr
					if len(x.Lhs) == len(x.Rhs) {
						rhs = x.Rhs[i]
					}
					out = append(out, FieldStore{Node: x, Fn: fi, Base: p.Term(sel.X), Rhs: rhs, Tok: x.Tok})
				}
			case *ast.IncDecStmt:
				if sel, ok := ast.Unparen(x.X).(*ast.SelectorExpr); ok {
					if s, ok := p.Info.Selections[sel]; ok && s.Kind() == types.FieldVal && s.Obj().(*types.Var).Origin() == f {
						out = append(out, FieldStore{Node: x, Fn: fi, Base: p.Term(sel.X), Tok: x.Tok})
					}
				}
			case *ast.CompositeLit:
				base := p.litBoundTo(x)
				for i, el := range x.Elts {
					kv, ok := el.(*ast.KeyValueExpr)
					if !ok {
						// positional literal T{a, b}: the i-th element initialises the i-th field
						if tv, okT := p.Info.Types[x]; okT {
							if st, isS := tv.Type.Underlying().(*types.Struct); isS && i < st.NumFields() && st.Field(i).Origin() == f {
								out = append(out, FieldStore{Node: el, Fn: fi, Base: base, Rhs: el, Tok: token.ASSIGN, InLit: true})
							}
						}
						continue
					}
					if id, ok := kv.Key.(*ast.Ident); ok {
						if o, ok := p.Info.Uses[id].(*types.Var); ok && o.IsField() && o.Origin() == f {
							out = append(out, FieldStore{Node: kv, Fn: fi, Base: base, Rhs: kv.Value, Tok: token.ASSIGN, InLit: true})
						}
					}
				}
			}
			return true
		})
	}
	return out
}

// describe renders a short construct key for a call site (no positions).
func (p *Prog) callKey(call *ast.CallExpr) string {
	return exprString(call.Fun) + "(" + joinExprs(call.Args) + ")"
}

func joinExprs(es []ast.Expr) string {
	var s []string
	for _, e := range es {
		s = append(s, exprString(e))
	}
	return strings.Join(s, ",")
}

func exprString(e ast.Expr) string {
	s := types.ExprString(e)
	if len(s) > 70 {
		s = s[:67] + "..."
	}
	return s
}

// missing renders which of the required terms are not established.
func missingOf(fs *FactSet, req ...*Term) []string {
	var out []string
	for _, t := range req {
		if !fs.Holds(t) {
			out = append(out, t.Key())
		}
	}
	return out
}

// requireFacts adds one obligation: all of req hold at node n of fi.
func (p *Prog) requireFacts(r *Report, rule string, fi *FuncInfo, n ast.Node, construct string, req ...*Term) bool {
	fs := p.FactsOf(fi).AtNode(n)
	miss := missingOf(fs, req...)
	if len(miss) == 0 {
		var ks []string
		for _, t := range req {
			ks = append(ks, pretty(t.Key()))
		}
		r.ok(rule, fi.Name, p.Pos(n), construct, "guarded on every path by "+strings.Join(ks, " ∧ "))
		return true
	}
	w := p.unguardedPath(fi, n, req)
	for i := range miss {
		miss[i] = pretty(miss[i])
	}
	r.bad(rule, fi.Name, p.Pos(n), construct, "not established on every path: "+strings.Join(miss, " ∧ ")+"; facts here: "+pretty(fs.String()), w)
	return false
}

// pretty strips position suffixes of local variables from keys.
func pretty(s string) string {
	var sb strings.Builder
	for i := 0; i < len(s); i++ {
		if s[i] == '#' {
			j := i + 1
			for j < len(s) && s[j] >= '0' && s[j] <= '9' {
				j++
			}
			i = j - 1
			continue
		}
		sb.WriteByte(s[i])
	}
	return sb.String()
}

// unguardedPath finds a CFG path from the function entry to n along which no
// branch edge establishes any of the missing requirements (witness).
func (p *Prog) unguardedPath(fi *FuncInfo, n ast.Node, req []*Term) string {
	c := p.CFG(fi)
	target, ok := c.PointOf(n)
	if !ok {
		return ""
	}
	res := c.FindPath(PathQuery{From: Point{c.Entry(), 0}, IsTarget: func(_ ast.Node, pt Point) bool { return pt == target }})
	if !res.Found {
		return ""
	}
	return fmt.Sprintf("entry %s -> … -> %s (a path on which the guard is not established; shortest path shown: %s)", p.Pos(fi.Node), p.Pos(n), c.DescribePath(res.Path))
}

// incBy1 recognises the statement forms that add exactly one to an lvalue:
// x++, x += 1, x = x + 1, x = 1 + x. It returns the lvalue.
func (p *Prog) incBy1(n ast.Node) (ast.Expr, bool) {
	switch x := n.(type) {
	case *ast.IncDecStmt:
		if x.Tok == token.INC {
			return x.X, true
		}
	case *ast.AssignStmt:
		if len(x.Lhs) != 1 || len(x.Rhs) != 1 {
			return nil, false
		}
		switch x.Tok {
		case token.ADD_ASSIGN:
			if v, ok := p.constVal(x.Rhs[0]); ok && v == 1 {
				return x.Lhs[0], true
			}
		case token.ASSIGN:
			l := Lin(p.Term(x.Rhs[0]))
			if l.C == 1 && len(l.Coef) == 1 {
				for k, cf := range l.Coef {
					if cf == 1 && l.Atoms[k].Key() == p.Term(x.Lhs[0]).Key() {
						return x.Lhs[0], true
					}
				}
			}
		}
	}
	return nil, false
}

// resolveSingleDefs substitutes locals of fi that are assigned exactly once
// (x := e) by e, so that a test written through a temporary (n := len(ch);
// n < cap(ch)) is compared in the same form as the direct one.
func (p *Prog) resolveSingleDefs(fi *FuncInfo, t *Term) *Term {
	for depth := 0; depth < 3; depth++ {
		m := map[types.Object]*Term{}
		t.Walk(func(x *Term) {
			if x.Op != "var" {
				return
			}
			v, ok := x.Obj.(*types.Var)
			if !ok || v.IsField() || v.Parent() == nil || v.Parent() == p.Types.Scope() {
				return
			}
			as := p.Assignments(rootFuncInfo(fi), v)
			if len(as) != 1 || as[0].Rhs == nil || as[0].Tok != token.DEFINE {
				return
			}
			m[v] = p.Term(as[0].Rhs)
		})
		if len(m) == 0 {
			return t
		}
		t = normTerm(t.Subst(m))
	}
	return t
}

// roomTest: a is (after resolving temporaries) len(ch) < cap(ch) or len(ch) < c with c <= limit, ch the channel field f.
func (p *Prog) roomTest(fi *FuncInfo, a *Term, f *types.Var, limit int64) bool {
	a = p.resolveSingleDefs(fi, a)
	if a.Op != "<" || a.Args[0].Op != "len" || !termHasField(a.Args[0], f) {
		return false
	}
	if a.Args[1].Op == "cap" && termHasField(a.Args[1], f) {
		return true
	}
	return a.Args[1].IsConst() && a.Args[1].Int <= limit
}

// nonNegCounter: the local v only ever receives non-negative constants and
// positive constant increments (k := 0; k++), so 0 <= v at every use.
func (p *Prog) nonNegCounter(fi *FuncInfo, v *types.Var) bool {
	if v == nil || v.IsField() || p.addrTaken(v) {
		return false
	}
	as := p.Assignments(rootFuncInfo(fi), v)
	if len(as) == 0 {
		return false
	}
	for _, a := range as {
		if _, ok := p.incBy1(a.Node); ok {
			continue
		}
		if a.Rhs == nil {
			return false
		}
		c, isC := p.constVal(a.Rhs)
		if !isC || c < 0 {
			return false
		}
		if a.Tok != token.DEFINE && a.Tok != token.ASSIGN && a.Tok != token.ADD_ASSIGN {
			return false
		}
	}
	return true
}

// runningMax: the assignment `lhs = rhs` at node keeps lhs the running maximum of
// some quantity X: rhs is max(lhs, X) (either order), or rhs is X under the
// dominating fact lhs < X. It returns X (definitions resolved).
func (p *Prog) runningMax(fi *FuncInfo, node ast.Node, lhs *Term, rhs ast.Expr) (*Term, bool) {
	fs := p.FactsOf(rootFuncInfo(fi)).AtNode(node)
	t := p.Term(rhs)
	// a running maximum over a loop covers every element only if the update is not restricted to some of them:
	// inside the enclosing loop nothing but the comparison itself may govern it
	if loop := enclosingLoop(p, node); loop != nil {
		c := p.CFG(rootFuncInfo(fi))
		if pt, ok := c.PointOf(node); ok {
			cmp := map[string]bool{}
			for _, x := range []*Term{t, fs.Resolve(t), p.ExpandHelpers(t), p.ExpandHelpers(fs.Resolve(t))} {
				cmp[lt(lhs, x).Key()] = true
				cmp[normTerm(mk(">", x, lhs)).Key()] = true
			}
			for _, ca := range c.DominatingCondsAt(pt) {
				ln := lastNode(ca.B)
				if ln == nil || !nodeWithin(p, ln, loop) || ln == ast.Node(loopCond(loop)) {
					continue
				}
				for _, a := range Conjuncts(ca.T) {
					if cmp[a.Key()] || cmp[p.ExpandHelpers(a).Key()] || cmp[fs.Resolve(a).Key()] {
						continue
					}
					return nil, false
				}
			}
		}
	}
	if t.Op == "max" && len(t.Args) == 2 {
		for i := 0; i < 2; i++ {
			if t.Args[i].Key() == lhs.Key() {
				return fs.Resolve(t.Args[1-i]), true
			}
		}
		return nil, false
	}
	if fs.Holds(lt(lhs, t)) || fs.Holds(lt(lhs, fs.Resolve(t))) || fs.Holds(lt(lhs, p.ExpandHelpers(t))) || fs.Holds(lt(lhs, p.ExpandHelpers(fs.Resolve(t)))) {
		return fs.Resolve(t), true
	}
	return nil, false
}

// holdsAtAllCallers: fact(fs, subst) holds at every call site of the unexported
// function fi (recursively through unexported callers, depth-limited). subst maps
// fi's parameters to the caller's argument terms at the site being examined.
// Used by "executed only under X" rules when the guarded statement was moved into a
// helper: the guard then lives at the helper's call sites.
func (p *Prog) holdsAtAllCallers(fi *FuncInfo, depth int, pred func(fs *FactSet, caller *FuncInfo, call *ast.CallExpr) bool) bool {
	if fi == nil || fi.Obj == nil || depth > 2 || fi.Obj.Exported() {
		return false
	}
	sites := p.CallsTo(fi.Obj)
	if len(sites) == 0 {
		return false
	}
	for _, s := range sites {
		fs := p.FactsOf(rootFuncInfo(s.Fn)).AtNode(s.Call)
		if pred(fs, s.Fn, s.Call) {
			continue
		}
		if !p.holdsAtAllCallers(rootFuncInfo(s.Fn), depth+1, pred) {
			return false
		}
	}
	return true
}

// freshPoolValue: e evaluates to (a slice of) a buffer just taken from the packet pool — a Get() call, possibly
// resliced; a local all of whose assignments are such values; or a call of a package function every return
// of which is such a value (an extracted copy helper). depth bounds the helper nesting.
func (p *Prog) freshPoolValue(fi *FuncInfo, e ast.Expr, depth int) bool {
	get := p.Method("bufferPool", "Get")
	e = ast.Unparen(e)
	switch x := e.(type) {
	case *ast.SliceExpr:
		return p.freshPoolValue(fi, x.X, depth)
	case *ast.CallExpr:
		f := p.Callee(x)
		if f == nil {
			return false
		}
		if f == get {
			return true
		}
		if depth <= 0 {
			return false
		}
		h := p.FuncOf(f)
		if h == nil || h.Body == nil {
			return false
		}
		n, all := 0, true
		ast.Inspect(h.Body, func(y ast.Node) bool {
			if _, isLit := y.(*ast.FuncLit); isLit {
				return false
			}
			if rs, ok := y.(*ast.ReturnStmt); ok {
				n++
				if len(rs.Results) != 1 || !p.freshPoolValue(h, rs.Results[0], depth-1) {
					all = false
				}
			}
			return true
		})
		return n > 0 && all
	case *ast.Ident:
		v, _ := p.Info.Uses[x].(*types.Var)
		if v == nil || fi == nil || p.isParam(v) {
			return false
		}
		as := p.Assignments(fi, v)
		if len(as) == 0 {
			return false
		}
		for _, a := range as {
			if a.Rhs == nil || !p.freshPoolValue(fi, a.Rhs, depth) {
				return false
			}
		}
		return true
	}
	return false
}

// sameSeqTest: a says that the sequence numbers x and y are equal — x == y, or _itimediff(x, y) == 0 (either
// operand order), temporaries defined once resolved.
func (p *Prog) sameSeqTest(fi *FuncInfo, a, x, y *Term) bool {
	ra := normTerm(p.ExpandHelpers(p.resolveSingleDefs(fi, a)))
	for _, w := range []*Term{eq(x, y), eq(y, x), eq(p.Diff(x, y), tConst(0)), eq(p.Diff(y, x), tConst(0)), eq(tConst(0), p.Diff(x, y)), eq(tConst(0), p.Diff(y, x))} {
		if ra.Key() == w.Key() || ra.Key() == normTerm(p.ExpandHelpers(w)).Key() {
			return true
		}
	}
	return false
}

// derefNamed: the named type of t or of what t points to.
func derefNamed(t types.Type) (*types.Named, bool) {
	if pt, ok := t.(*types.Pointer); ok {
		t = pt.Elem()
	}
	n, ok := t.(*types.Named)
	return n, ok
}

// usedAsValue: the function is mentioned somewhere other than in the callee position of a call
// (stored, passed, deferred through a variable): its callers are then not all known from CallsTo.
func (p *Prog) usedAsValue(f *types.Func) bool {
	used := false
	for id, o := range p.Info.Uses {
		fo, ok := o.(*types.Func)
		if !ok || fo.Origin() != f.Origin() {
			continue
		}
		var n ast.Node = id
		par := p.parents[n]
		for {
			switch x := par.(type) {
			case *ast.SelectorExpr:
				if x.Sel == n {
					n, par = par, p.parents[par]
					continue
				}
			case *ast.IndexExpr: // explicit instantiation f[T]
				if x.X == n {
					n, par = par, p.parents[par]
					continue
				}
			case *ast.ParenExpr:
				n, par = par, p.parents[par]
				continue
			}
			break
		}
		if call, ok := par.(*ast.CallExpr); ok && call.Fun == n {
			continue
		}
		used = true
	}
	return used
}

// litBoundTo: the local variable a composite literal (possibly under &) directly initialises or is assigned to, as a term; nil otherwise.
func (p *Prog) litBoundTo(lit *ast.CompositeLit) *Term {
	var n ast.Node = lit
	par := p.parents[n]
	for {
		switch x := par.(type) {
		case *ast.ParenExpr:
			n, par = par, p.parents[par]
			continue
		case *ast.UnaryExpr:
			if x.Op == token.AND {
				n, par = par, p.parents[par]
				continue
			}
		}
		break
	}
	var lhs ast.Expr
	switch x := par.(type) {
	case *ast.AssignStmt:
		if len(x.Lhs) == len(x.Rhs) {
			for i, e := range x.Rhs {
				if e == n {
					lhs = x.Lhs[i]
				}
			}
		}
	case *ast.ValueSpec:
		for i, e := range x.Values {
			if e == n && i < len(x.Names) {
				lhs = x.Names[i]
			}
		}
	}
	id, ok := lhs.(*ast.Ident)
	if !ok || id.Name == "_" {
		return nil
	}
	o := p.Info.Defs[id]
	if o == nil {
		o = p.Info.Uses[id]
	}
	if v, ok := o.(*types.Var); ok && !v.IsField() && v.Parent() != p.Types.Scope() {
		return tVar(v)
	}
	return nil
}

// singleCaller: fi is an unexported function or method with exactly one call site in the package (not started
// with go, not deferred, never used as a value): the calling function and the call. A rule about what precedes
// a statement of fi can then be continued at that call.
func (p *Prog) singleCaller(fi *FuncInfo) (*FuncInfo, *ast.CallExpr, bool) {
	if fi == nil || fi.Lit != nil || fi.Obj == nil || fi.Obj.Exported() || p.usedAsValue(fi.Obj) || p.implementsSomeInterface(fi.Obj) {
		return nil, nil, false
	}
	sites := p.CallsTo(fi.Obj)
	if len(sites) != 1 || sites[0].Fn == fi {
		return nil, nil, false
	}
	switch p.parents[sites[0].Call].(type) {
	case *ast.GoStmt, *ast.DeferStmt:
		return nil, nil, false
	}
	return sites[0].Fn, sites[0].Call, true
}

// helperBoundArg: e is a local whose only definition is `e, … := h(args…)` with h an unexported function of the
// package (an extracted helper): h, the argument terms of that call and the other variables bound by the same
// statement (e.g. the ok flag). nil otherwise.
func (p *Prog) helperBoundArg(fi *FuncInfo, e ast.Expr) (*FuncInfo, []*Term, []*types.Var) {
	id, ok := ast.Unparen(e).(*ast.Ident)
	if !ok {
		return nil, nil, nil
	}
	v, _ := p.Info.Uses[id].(*types.Var)
	if v == nil {
		return nil, nil, nil
	}
	as := p.Assignments(rootFuncInfo(fi), v)
	if len(as) != 1 {
		return nil, nil, nil
	}
	st, ok := as[0].Node.(*ast.AssignStmt)
	if !ok || len(st.Rhs) != 1 || len(st.Lhs) < 1 {
		return nil, nil, nil
	}
	if lid, ok := st.Lhs[0].(*ast.Ident); !ok || (p.Info.Defs[lid] != v && p.Info.Uses[lid] != v) {
		return nil, nil, nil
	}
	call, ok := ast.Unparen(st.Rhs[0]).(*ast.CallExpr)
	if !ok {
		return nil, nil, nil
	}
	f := p.Callee(call)
	if f == nil || f.Pkg() != p.Types || f.Exported() {
		return nil, nil, nil
	}
	h := p.FuncOf(f)
	if h == nil || h.Body == nil {
		return nil, nil, nil
	}
	var args []*Term
	for _, a := range call.Args {
		args = append(args, p.Term(a))
	}
	var others []*types.Var
	for _, l := range st.Lhs[1:] {
		if lid, ok := l.(*ast.Ident); ok {
			if ov, ok := p.Info.Defs[lid].(*types.Var); ok {
				others = append(others, ov)
			} else if ov, ok := p.Info.Uses[lid].(*types.Var); ok {
				others = append(others, ov)
			}
		}
	}
	return h, args, others
}

// liftInto: the node of api through which the statement n of fn is reached when fn is api itself or an
// unexported helper reachable from api through a chain of single call sites (at most 3 deep; never a value,
// never go/defer) — the statement has then, for rules about what surrounds it in api, the position of that call.
func (p *Prog) liftInto(fn *FuncInfo, n ast.Node, api *FuncInfo) (ast.Node, bool) {
	fn = rootFuncInfo(fn)
	for k := 0; k < 4; k++ {
		if fn == api {
			return n, true
		}
		caller, call, ok := p.singleCaller(fn)
		if !ok {
			return nil, false
		}
		fn, n = rootFuncInfo(caller), call
	}
	return nil, false
}

// bodyHasLockOp: fi (shallowly: not its callees) locks or unlocks a sync mutex somewhere.
func (p *Prog) bodyHasLockOp(fi *FuncInfo) bool {
	found := false
	inspectBody(fi, func(x ast.Node) bool {
		if call, ok := x.(*ast.CallExpr); ok {
			if f := p.Callee(call); f != nil && f.Pkg() != nil && f.Pkg().Path() == "sync" {
				switch f.Name() {
				case "Lock", "Unlock", "RLock", "RUnlock":
					found = true
				}
			}
		}
		return true
	})
	return found
}

// loopCond: the condition expression of a for statement (nil for range loops and for {}).
func loopCond(loop ast.Node) ast.Expr {
	if fs, ok := loop.(*ast.ForStmt); ok {
		return fs.Cond
	}
	return nil
}

// sliceStart: t denotes base[off:…] — directly (nested reslices add up) or through locals defined once as such a
// view (body := buf[h:]; body[c:] is buf[h+c:]). Returns the root variable term and the offset in linear form.
func (p *Prog) sliceStart(fi *FuncInfo, t *Term, depth int) (*Term, *Linear, bool) {
	if depth > 4 || t == nil {
		return nil, nil, false
	}
	switch t.Op {
	case "slice":
		base, off, ok := p.sliceStart(fi, t.Args[0], depth+1)
		if !ok {
			return nil, nil, false
		}
		l := newLinear()
		l.addScaled(off, 1)
		if t.Args[1] != nil {
			l.addScaled(Lin(t.Args[1]), 1)
		}
		return base, l, true
	case "var":
		v, _ := t.Obj.(*types.Var)
		if v != nil && !p.isParam(v) {
			as := p.Assignments(rootFuncInfo(fi), v)
			if len(as) == 1 && as[0].Rhs != nil {
				if rt := p.Term(as[0].Rhs); rt.Op == "slice" {
					if rt.Args[0].Op == "call" {
						return t, newLinear(), true // buf := Get()[:n]: the root
					}
					return p.sliceStart(fi, rt, depth+1)
				}
			}
		}
		return t, newLinear(), true
	}
	return nil, nil, false
}

// liftPastPrefix: the statement n of fi, for a rule about the state in which it executes, may be judged at the
// single call site of fi — fi is an unexported helper called from exactly one place (never a value, never
// go/defer), n executes at most once per call (it cannot reach itself), and nothing that can run in fi before n
// writes one of the given fields (directly or through a callee). The state of those fields at n is then the
// state at the call. Returns the caller, the call and the helper's parameters (receiver first, nil when absent).
func (p *Prog) liftPastPrefix(fi *FuncInfo, n ast.Node, fields ...*types.Var) (*FuncInfo, *ast.CallExpr, []*types.Var, bool) {
	fi = rootFuncInfo(fi)
	caller, call, ok := p.singleCaller(fi)
	if !ok || fi.Decl == nil {
		return nil, nil, nil, false
	}
	if sig, isSig := fi.Obj.Type().(*types.Signature); isSig && sig.Variadic() {
		return nil, nil, nil, false
	}
	c := p.CFG(fi)
	pt, ok := c.PointOf(n)
	if !ok {
		return nil, nil, nil, false
	}
	if c.Reaches(Point{pt.B, pt.I + 1}, pt) {
		return nil, nil, nil, false
	}
	for _, q := range c.AllPoints() {
		if q == pt || c.Dominates(pt, q) {
			continue
		}
		te := p.NodeTransEffects(q.Node())
		for _, f := range fields {
			if te.FieldW[f] {
				return nil, nil, nil, false
			}
		}
	}
	params := []*types.Var{p.recvVar(fi)}
	for _, fl := range fi.Decl.Type.Params.List {
		if len(fl.Names) == 0 {
			params = append(params, nil)
		}
		for _, nm := range fl.Names {
			v, _ := p.Info.Defs[nm].(*types.Var)
			params = append(params, v)
		}
	}
	return caller, call, params, true
}
