package main

import (
	"fmt"
	"go/ast"
	"go/token"
	"go/types"
	"golang.org/x/tools/go/cfg"
	"strings"
)

func init() {
	register(&propCheck{
		id:  "C01",
		run: checkC01,
		explain: "Equality of byte streams under all fault sequences is not decidable statically. Decided is the sequence discipline the prefix property rests on, each clause a necessary condition that the " +
			"suite never exercises with a content oracle: admission to the reorder heap inside the window and once per sequence number; hand-over to the delivery queue only for sn == rcv_nxt with exactly " +
			"one increment, identically in the two move loops; send numbering from snd_nxt with exactly one increment; cumulative and selective acknowledgement free exactly the acknowledged segments; " +
			"fragment numbers count down to 0 within the 8-bit range the reader's arithmetic supports; Recv copies before recycling and stops at fragment 0; the session cuts writes into <= mss pieces " +
			"without skipping or repeating bytes, carries over partial reads from exactly where the copy stopped, and takes one message per Read; FEC-recovered packets re-enter only through KCP.Input.",
		assume: []string{
			"the ring buffer is a FIFO queue (C20), ciphers and FEC reproduce bytes (C08, C07)",
			"that the reassembled bytes equal the written bytes is not decided (runtime data)",
		},
	})
}

func checkC01(p *Prog, r *Report) {
	r.rule("C01.S1", "wire data enters rcv_buf only inside [rcv_nxt, rcv_nxt+rcv_wnd) and once per sequence number (shared with C04.W2)", 1)
	r.rule("C01.S2", "every rcv_queue.Push(seg) is dominated by seg.sn == rcv_nxt and followed in the same block by exactly one rcv_nxt++; rcv_nxt is stored nowhere else", 2)
	r.rule("C01.S3", "all loops that move rcv_buf -> rcv_queue have the same guard", 1)
	r.rule("C01.S4", "every snd_buf.Push takes a segment from snd_queue.Pop(), numbers it sn = snd_nxt and increments snd_nxt exactly once; snd_una is stored only by shrink_buf (head of snd_buf or snd_nxt)", 2)
	r.rule("C01.S5", "the cumulative acknowledgement recycles and counts a segment only under _itimediff(una, seg.sn) > 0, stops at the first other segment, and discards exactly that count", 1)
	r.rule("C01.S6", "the selective acknowledgement marks and recycles a segment only under sn == seg.sn, inside [snd_una, snd_nxt)", 1)
	r.rule("C01.S7", "message mode numbers fragments count-1-i (stream mode 0); Send refuses more than 255 fragments (the reader computes frg+1 in 8 bits); PeekSize and Recv stop at frg == 0", 4)
	r.rule("C01.S12", "KCP.Send cuts the caller's buffer without gap or overlap: every buffer = buffer[k:] follows a copy of exactly the first k bytes into a segment of (added) length k, and the piece count is ceil(len/mss)", 3)
	r.rule("C01.S8", "Recv copies a segment's data into the caller's buffer and advances by its length before recycling it", 1)
	r.rule("C01.S9", "WriteBuffers hands kcp.Send pieces of at most mss bytes and continues exactly where the piece ended; n counts each input slice once", 2)
	r.rule("C01.S10", "bufptr is assigned only recvbuf[n:] / bufptr[n:] with n the result of the copy just made; a Read takes at most one message from the core", 3)
	r.rule("C01.S19", "the parser stays aligned: in KCP.Input every way round the segment loop advances the input by the segment's length (data = data[length:]) — a `continue` that skips the advance makes the payload of that segment the next header, and data shaped like a header is accepted as a segment", 1)
	r.rule("C01.S18", "message boundaries and content survive FEC recovery and a full queue: a recovered packet's payload is copied into its own pool buffer before it is kept (= C15.O4), and PeekSize reports a message exactly when all its fragments are queued — never a partial one (= C02.A15)", 2)
	r.rule("C01.S17", "what Write reports is what was queued: in WriteBuffers every return that can follow a kcp.Send returns the running count of queued bytes (the local increased by len(b) per buffer), never a constant; and since WriteBuffers does not look at Send's result, KCP.Send refuses (negative return) only for reasons visible in its argument — the empty buffer and the fragment count — never for connection state", 3)
	r.rule("C01.S16", "no empty message enters the send queue: KCP.Send refuses len(buffer) == 0 unconditionally before it queues anything — the session reader acts on PeekSize() > 0 only, so a zero-length message at the head of the peer's delivery queue is never consumed and everything written after it is stuck behind it", 1)
	r.rule("C01.S15", "the reader's carry-over bytes stay owned: a buffer that bufptr (or another field) points into is never handed back to the pool without clearing that pointer (= C15.O6)", 0)
	r.rule("C01.S14", "the receiver stores what the header says: the segment handed to parse_data binds sn and frg to the header fields read at the encoder's offsets for sn and frg, and data to data[:len] with len read at the encoder's offset of the length", 1)
	r.rule("C01.S13", "recovered packets carry no checksum of their own, so the stream inherits the FEC framing discipline: emission of absent data slots only, cache wipe/flag pairing, padding before Encode/ReconstructData, size prefix written and validated (= C07.F1, F1b, F2, F3, F6)", 10)
	r.rule("C01.S11", "the packets returned by fecDecoder.decode are consumed only by KCP.Input (same admission as wire data) and by the pool", 1)

	push := p.Method("RingBuffer", "Push")
	fRcvQ := p.Field("KCP", "rcv_queue")
	fRcvNxt := p.Field("KCP", "rcv_nxt")
	fSndBuf := p.Field("KCP", "snd_buf")

	// ---- S1: delegate to C04.W2
	{
		sub := newReport("C04", r.Tier)
		sub.curCfg = r.curCfg
		checkC04(p, sub)
		for _, o := range sub.Obs {
			if o.Rule != "C04.W2" {
				continue
			}
			if o.Status == Discharged {
				r.ok("C01.S1", o.Func, o.Pos, o.Construct, o.Detail)
			} else {
				r.bad("C01.S1", o.Func, o.Pos, o.Construct, o.Detail, o.Witness)
			}
		}
	}

	// ---- S2, S3
	var guards []string
	allowedNxt := map[ast.Node]bool{}
	for _, s := range p.CallsTo(push) {
		fs := p.FactsOf(s.Fn).AtNode(s.Call)
		base, ok := fieldBase(fs.Resolve(s.Recv), fRcvQ)
		if !ok {
			continue
		}
		segT := s.Args[0]
		want := eq(p.F(segT, "segment", "sn"), tFld(base, fRcvNxt))
		construct := "rcv_queue.Push(" + exprString(s.Call.Args[0]) + ") in " + s.Fn.Name
		okG := fs.Holds(want)
		rootGuard := ""
		if !okG && segT.Op == "var" {
			// peek-then-pop idiom: seg := heap.Pop(H) where H's root was tested: H.segments[0].sn == rcv_nxt
			for _, as := range p.Assignments(s.Fn, segT.Obj.(*types.Var)) {
				if as.Rhs == nil {
					continue
				}
				t := p.Term(as.Rhs)
				for t.Op == "typeassert" || t.Op == "conv" {
					t = t.Args[0]
				}
				if t.Op == "call" && t.Obj != nil && isExtFunc(t.Obj.(*types.Func), "container/heap", "", "Pop") && len(t.Args) == 1 {
					hp := t.Args[0]
					if st := sliceElemStructOfHeap(p, hp); st != nil {
						root := tFld(mk("idx", tFld(hp, st), tConst(0)), p.Field("segment", "sn"))
						if p.FactsOf(s.Fn).AtNode(as.Node).Holds(eq(root, tFld(base, fRcvNxt))) {
							okG = true
							rootGuard = pretty(eq(tFld(base, fRcvNxt), root).Key())
						}
					}
				}
			}
		}
		// exactly one rcv_nxt++ after it in the same block
		c := p.CFG(s.Fn)
		pt, _ := c.PointOf(s.Call)
		incs := 0
		for i := pt.I + 1; i < len(pt.B.Nodes); i++ {
			if lhsE, ok := p.incBy1(pt.B.Nodes[i]); ok {
				if t := p.Term(lhsE); t.Key() == tFld(base, fRcvNxt).Key() {
					incs++
					allowedNxt[pt.B.Nodes[i]] = true
				}
			}
		}
		switch {
		case !okG:
			r.bad("C01.S2", s.Fn.Name, p.Pos(s.Call), construct, "a segment is handed to the reader without seg.sn == rcv_nxt on every path: data can be delivered out of order or twice; facts: "+pretty(fs.String()), p.unguardedPath(s.Fn, s.Call, nil))
		case incs != 1:
			r.bad("C01.S2", s.Fn.Name, p.Pos(s.Call), construct, fmt.Sprintf("rcv_nxt is incremented %d times after the hand-over (must be exactly once)", incs), "")
		default:
			r.ok("C01.S2", s.Fn.Name, p.Pos(s.Call), construct, "under seg.sn == rcv_nxt, followed by exactly one rcv_nxt++")
		}
		// guard of the enclosing if (for the sibling comparison)
		// the sibling comparison concerns the in-order test only (the window part is C04's)
		found := false
		for _, ct := range c.DominatingConds(pt) {
			for _, a := range Conjuncts(ct) {
				if termHasField(a, fRcvNxt) && a.Contains(segT) {
					k := pretty(a.Key())
					if segT.Op == "var" {
						k = strings.ReplaceAll(k, segT.Obj.Name()+".", "SEG.")
					}
					guards = append(guards, k)
					found = true
				}
			}
		}
		if !found && rootGuard != "" {
			guards = append(guards, "==(kcp.rcv_nxt,SEG.sn)")
		}
	}
	for _, st := range p.FieldStores(fRcvNxt) {
		if st.Fn.Name == "NewKCP" {
			continue
		}
		if !allowedNxt[st.Node] {
			r.bad("C01.S2", st.Fn.Name, p.Pos(st.Node), "store(KCP.rcv_nxt) in "+st.Fn.Name, "rcv_nxt is modified outside the hand-over to the delivery queue", "")
		}
	}
	if len(guards) >= 2 {
		same := true
		for _, g := range guards[1:] {
			if g != guards[0] {
				same = false
			}
		}
		r.check(same, "C01.S3", "(*KCP)", "-", "move loops rcv_buf -> rcv_queue agree", guards[0], fmt.Sprintf("the move loops use different guards: %v", guards))
	} else {
		r.bad("C01.S3", "(*KCP)", "-", "move loops rcv_buf -> rcv_queue agree", fmt.Sprintf("expected at least two move loops, found guards %v", guards), "")
	}

	// ---- S4
	for _, s := range p.CallsTo(push) {
		fs := p.FactsOf(s.Fn).AtNode(s.Call)
		base, ok := fieldBase(fs.Resolve(s.Recv), fSndBuf)
		if !ok {
			continue
		}
		sub := newReport("C04", r.Tier)
		sub.curCfg = r.curCfg
		checkSendNumbering(p, sub, s, base)
		for _, o := range sub.Obs {
			if o.Status == Discharged {
				r.ok("C01.S4", o.Func, o.Pos, o.Construct, o.Detail)
			} else {
				r.bad("C01.S4", o.Func, o.Pos, o.Construct, o.Detail, o.Witness)
			}
		}
	}
	checkSndUnaStores(p, r, "C01.S4")

	// ---- S5
	{
		fi := p.FuncOf(p.Method("KCP", "parse_una"))
		c := p.CFG(fi)
		fa := p.FactsOf(fi)
		recycle := p.Method("KCP", "recycleSegment")
		una := tVar(fi.paramObj(p, 0))
		ok := false
		why := "parse_una never recycles a segment"
		for _, s := range p.CallsTo(recycle) {
			if rootFuncInfo(s.Fn) != fi {
				continue
			}
			rs := enclosingRange(p, s.Call)
			if rs == nil {
				// callback form: snd_buf.ForEach(func(seg *segment) bool { ... }) — `return false` ends the scan
				if okCb, whyCb := parseUnaCallbackForm(p, fi, s, una); okCb {
					ok = true
				} else {
					why = whyCb
				}
				continue
			}
			id, _ := rs.Key.(*ast.Ident)
			if id == nil {
				continue
			}
			seg := tVar(p.Info.Defs[id])
			acked := lt(tConst(0), p.Diff(una, p.F(seg, "segment", "sn")))
			pt, _ := c.PointOf(s.Call)
			// (a) only acknowledged segments are freed
			okAck := fa.AtNode(s.Call).Holds(acked) || fa.AtNode(s.Call).Holds(p.ExpandHelpers(acked))
			if !okAck {
				for _, ct := range c.DominatingConds(pt) {
					for _, a := range Conjuncts(p.ExpandHelpers(ct)) {
						if a.Key() == p.ExpandHelpers(acked).Key() {
							okAck = true
						}
					}
				}
			}
			// (b) counted once, in the same block
			var cntVar *types.Var
			cnt := 0
			for _, nd := range pt.B.Nodes {
				if lhsE, isI := p.incBy1(nd); isI {
					if cid, isId := lhsE.(*ast.Ident); isId {
						cntVar, _ = p.Info.Uses[cid].(*types.Var)
						cnt++
					}
				}
			}
			// (c) the first segment that is not acknowledged ends the scan
			stops := false
			for _, b := range c.live {
				ct := c.CondTerm(b)
				if ct == nil || len(b.Succs) != 2 {
					continue
				}
				e := p.ExpandHelpers(ct)
				var notAck *cfg.Block
				switch {
				case e.Key() == p.ExpandHelpers(acked).Key():
					notAck = b.Succs[1]
				case e.Key() == Negate(p.ExpandHelpers(acked)).Key():
					notAck = b.Succs[0]
				default:
					continue
				}
				res := c.FindPath(PathQuery{From: Point{notAck, 0}, IsTarget: func(_ ast.Node, q Point) bool { return q == pt }})
				stops = !res.Found
			}
			// (d) exactly that many are discarded
			disc := false
			for _, d := range p.CallsTo(p.Method("RingBuffer", "Discard")) {
				if d.Fn == fi && cntVar != nil && d.Args[0].Op == "var" && d.Args[0].Obj == cntVar {
					if dp, okd := c.PointOf(d.Call); okd && !nodeWithin(p, d.Call, rs) {
						_ = dp
						disc = true
					}
				}
			}
			if okAck && cnt == 1 && stops && disc {
				ok = true
			} else {
				why = fmt.Sprintf("freed only under _itimediff(una, seg.sn) > 0: %v; counted exactly once with the recycle: %v; the scan stops at the first segment that is not acknowledged: %v; Discard(count) after the loop: %v", okAck, cnt == 1, stops, disc)
			}
		}
		r.check(ok, "C01.S5", fi.Name, p.Pos(fi.Node), "cumulative acknowledgement", "frees exactly the prefix with _itimediff(una, sn) > 0", why)
	}

	// ---- S6
	{
		fi := p.FuncOf(p.Method("KCP", "parse_ack"))
		var sn *types.Var
		for _, fl := range fi.Decl.Type.Params.List {
			for _, nm := range fl.Names {
				sn, _ = p.Info.Defs[nm].(*types.Var)
			}
		}
		n := 0
		for _, st := range p.FieldStores(p.Field("segment", "acked")) {
			if rootFuncInfo(st.Fn) != fi {
				continue
			}
			n++
			c := p.CFG(st.Fn)
			pt, _ := c.PointOf(st.Node)
			okEq := false
			for _, ct := range c.DominatingConds(pt) {
				for _, a := range Conjuncts(ct) {
					if a.Key() == eq(tVar(sn), p.F(st.Base, "segment", "sn")).Key() || p.sameSeqTest(st.Fn, a, tVar(sn), p.F(st.Base, "segment", "sn")) {
						okEq = true
					}
				}
			}
			// the range test dominates the loop
			recv := p.selfVar(fi)
			kcp := tVar(recv)
			fs := p.FactsOf(fi).AtNode(st.Node)
			okRange := fs.Holds(le(tConst(0), p.Diff(tVar(sn), p.F(kcp, "KCP", "snd_una")))) && fs.Holds(lt(p.Diff(tVar(sn), p.F(kcp, "KCP", "snd_nxt")), tConst(0)))
			r.check(okEq && okRange, "C01.S6", fi.Name, p.Pos(st.Node), "selective acknowledgement", "acked = 1 only under sn == seg.sn, with sn in [snd_una, snd_nxt)", fmt.Sprintf("a segment is marked acknowledged without sn == seg.sn (%v) or outside [snd_una, snd_nxt) (%v): unacknowledged data is freed and never retransmitted", okEq, okRange))
		}
		if n == 0 {
			r.bad("C01.S6", fi.Name, p.Pos(fi.Node), "selective acknowledgement", "parse_ack never marks a segment", "")
		}
	}

	// ---- S7
	{
		send := p.FuncOf(p.Method("KCP", "Send"))
		recv := p.selfVar(send)
		kcp := tVar(recv)
		for _, st := range p.FieldStores(p.Field("segment", "frg")) {
			if rootFuncInfo(st.Fn) != send || st.Rhs == nil {
				continue
			}
			fs := p.FactsOf(st.Fn).AtNode(st.Node)
			t := p.Term(st.Rhs)
			inner := t
			for inner.Op == "conv" {
				inner = inner.Args[0]
			}
			construct := "frg = " + exprString(st.Rhs)
			stream := p.F(kcp, "KCP", "stream")
			switch {
			case t.IsConst() && t.Int == 0:
				r.ok("C01.S7", st.Fn.Name, p.Pos(st.Node), construct, "fragment number 0 (a complete message of its own)")
			default:
				// count - i - 1 under stream == 0, with count <= 255
				l := Lin(inner)
				okForm := l.C == -1 && len(l.Coef) == 2
				var countT *Term
				for k, cf := range l.Coef {
					if cf == 1 {
						countT = l.Atoms[k]
					}
				}
				neg := 0
				for _, cf := range l.Coef {
					if cf == -1 {
						neg++
					}
				}
				okForm = okForm && countT != nil && neg == 1
				if !okForm && inner.Op == "var" {
					// the count-down form: for frg := count - 1; frg >= 0; frg-- { … seg.frg = uint8(frg) }
					if lp, isFor := enclosingLoop(p, st.Node).(*ast.ForStmt); isFor && lp.Init != nil && lp.Cond != nil && lp.Post != nil {
						if ia, isA := lp.Init.(*ast.AssignStmt); isA && len(ia.Lhs) == 1 && len(ia.Rhs) == 1 && identVar(p, ia.Lhs[0]) != nil && types.Object(identVar(p, ia.Lhs[0])) == inner.Obj {
							il := Lin(p.Term(ia.Rhs[0]))
							var cT *Term
							for k, cf := range il.Coef {
								if cf == 1 {
									cT = il.Atoms[k]
								}
							}
							dec, isDec := lp.Post.(*ast.IncDecStmt)
							ct := p.Term(lp.Cond)
							if il.C == -1 && nonZeroCoefs(il) == 1 && cT != nil && isDec && dec.Tok == token.DEC && p.Term(dec.X).Key() == inner.Key() && (ct.Key() == le(tConst(0), inner).Key() || ct.Key() == lt(tConst(-1), inner).Key()) && len(p.Assignments(send, inner.Obj.(*types.Var))) <= 2 {
								okForm, countT = true, cT
							}
						}
					}
				}
				okMsg := fs.Holds(eq(stream, tConst(0)))
				okLim := countT != nil && fs.Holds(le(countT, tConst(255)))
				r.check(okForm && okMsg && okLim, "C01.S7", st.Fn.Name, p.Pos(st.Node), construct, "count - i - 1 in message mode, count <= 255", fmt.Sprintf("fragment numbering is not count-1-i (%v) under stream == 0 (%v) with count <= 255 (%v): with 256 fragments the first carries frg = 255 and the reader's 8-bit frg+1 wraps to 0, so a partial message is delivered as complete", okForm, okMsg, okLim))
			}
		}
		// readers stop at frg == 0
		for _, name := range []string{"PeekSize", "Recv"} {
			fi := p.FuncOf(p.Method("KCP", name))
			okStop := false
			ast.Inspect(fi.Body, func(n ast.Node) bool {
				is, ok := n.(*ast.IfStmt)
				if !ok {
					return true
				}
				inLoop := false
				for q := p.parents[is]; q != nil; q = p.parents[q] {
					switch q.(type) {
					case *ast.RangeStmt, *ast.ForStmt:
						inLoop = true
					}
				}
				if !inLoop {
					return true
				}
				t := p.Term(is.Cond)
				if t.Op == "==" && t.Args[0].IsConst() && t.Args[0].Int == 0 && t.Args[1].Op == "fld" && t.Args[1].Obj == p.Field("segment", "frg") {
					for _, st := range is.Body.List {
						ast.Inspect(st, func(x ast.Node) bool {
							if bs, ok := x.(*ast.BranchStmt); ok && bs.Tok == token.BREAK {
								okStop = true
							}
							if _, ok := x.(*ast.ReturnStmt); ok {
								okStop = true
							}
							return true
						})
					}
				}
				return true
			})
			r.check(okStop, "C01.S7", fi.Name, p.Pos(fi.Node), name+" stops at frg == 0", "message boundary honoured", name+" does not stop at the last fragment of a message: messages are merged")
		}
	}

	// ---- S8
	{
		fi := p.FuncOf(p.Method("KCP", "Recv"))
		c := p.CFG(fi)
		recycle := p.Method("KCP", "recycleSegment")
		ok := false
		for _, s := range p.CallsTo(recycle) {
			if s.Fn != fi {
				continue
			}
			pt, _ := c.PointOf(s.Call)
			var cp, adv bool
			for i := 0; i < pt.I; i++ {
				n := pt.B.Nodes[i]
				inspectShallow(n, func(x ast.Node) bool {
					if call, isC := x.(*ast.CallExpr); isC && p.BuiltinName(call) == "copy" && len(call.Args) == 2 {
						if t := p.Term(call.Args[1]); t.Op == "fld" && t.Obj == p.Field("segment", "data") {
							cp = true
						}
					}
					return true
				})
				if as, isA := n.(*ast.AssignStmt); isA && len(as.Lhs) == 1 && len(as.Rhs) == 1 {
					if se, isS := ast.Unparen(as.Rhs[0]).(*ast.SliceExpr); isS && se.Low != nil && se.High == nil && p.Term(se.X).Key() == p.Term(as.Lhs[0]).Key() {
						if lt := p.Term(se.Low); lt.Op == "len" && lt.Args[0].Op == "fld" && lt.Args[0].Obj == p.Field("segment", "data") {
							adv = cp // the advance follows the copy
						}
					}
				}
			}
			if cp && adv {
				ok = true
			}
		}
		r.check(ok, "C01.S8", fi.Name, p.Pos(fi.Node), "copy before recycle", "copy(buffer, seg.data); buffer = buffer[len(seg.data):]; then recycle", "Recv recycles a segment before (or without) copying its data and advancing by its length: the reader receives another packet's bytes or a gap")
	}

	for _, fr := range []string{"C07.F1", "C07.F1b", "C07.F2", "C07.F3", "C07.F6"} {
		delegate(p, r, "C07", checkC07, fr, "C01.S13")
	}
	delegate(p, r, "C15", checkC15, "C15.O6", "C01.S15")
	checkStoredSegmentFields(p, r)
	checkCoreCutting(p, r)
	checkEmptySendRefused(p, r, "C01.S16")
	checkWriteAccounting(p, r)
	delegate(p, r, "C15", checkC15, "C15.O4", "C01.S18")
	checkPeekSizeReadiness(p, r, "C01.S18")
	checkParserAdvances(p, r)
	checkSessionChunking(p, r)
	checkReadCarryOver(p, r)

	// ---- S11
	{
		dec := p.Method("fecDecoder", "decode")
		okAll := true
		n := 0
		why := ""
		for _, s := range p.CallsTo(dec) {
			fi := s.Fn
			as, ok := p.parents[s.Call].(*ast.AssignStmt)
			if !ok || len(as.Lhs) != 1 {
				okAll, why = false, "the result of decode is not bound to a local"
				continue
			}
			rv, _ := p.Info.Defs[as.Lhs[0].(*ast.Ident)].(*types.Var)
			if rv == nil {
				rv, _ = p.Info.Uses[as.Lhs[0].(*ast.Ident)].(*types.Var)
			}
			n++
			// uses: only `for _, r := range rv`; r used in len(), Uint16(r), Input(r[2:sz], FEC, ..), Put(r)
			ast.Inspect(fi.Body, func(x ast.Node) bool {
				id, isId := x.(*ast.Ident)
				if !isId || p.Info.Uses[id] != rv {
					return true
				}
				if rs, isR := p.parents[id].(*ast.RangeStmt); !isR || rs.X != ast.Expr(id) {
					okAll, why = false, "the recovered packets are used outside a range loop at "+p.Pos(id)
					return true
				}
				rs := p.parents[id].(*ast.RangeStmt)
				ev, _ := p.Info.Defs[rs.Value.(*ast.Ident)].(*types.Var)
				ast.Inspect(rs.Body, func(y ast.Node) bool {
					call, isC := y.(*ast.CallExpr)
					if !isC {
						return true
					}
					uses := false
					for _, a := range call.Args {
						if mentionsVars(p, a, map[*types.Var]bool{ev: true}) {
							uses = true
						}
					}
					if !uses {
						return true
					}
					f := p.Callee(call)
					switch {
					case p.IsConversion(call):
					case p.BuiltinName(call) == "len", p.BuiltinName(call) == "cap", p.BuiltinName(call) == "min", p.BuiltinName(call) == "max":
					case f != nil && f.Name() == "Uint16":
					case f == p.Method("bufferPool", "Put"):
					case f == p.Method("KCP", "Input"):
					default:
						// an extracted helper that only inspects and re-slices the packet (loop-free, no stores, no calls as statements)
						if h := p.FuncOf(f); h != nil && f.Pkg() == p.Types && !f.Exported() {
							if sps, understood := p.SymPaths(h); understood {
								pure := true
								for _, sp := range sps {
									if len(sp.Stores) > 0 {
										pure = false
									}
								}
								inspectBody(h, func(z ast.Node) bool {
									if hc, isHC := z.(*ast.CallExpr); isHC {
										hf := p.Callee(hc)
										bn := p.BuiltinName(hc)
										if !(p.IsConversion(hc) || bn == "len" || bn == "cap" || bn == "min" || bn == "max" || (hf != nil && hf.Name() == "Uint16")) {
											pure = false
										}
									}
									return true
								})
								if pure {
									break
								}
							}
						}
						okAll, why = false, "a recovered packet is handed to "+exprString(call.Fun)
					}
					return true
				})
				return true
			})
		}
		r.check(okAll && n > 0, "C01.S11", "(*UDPSession).kcpInput", "-", "consumers of decode's result", "KCP.Input and the pool only", why)
	}
}

func checkSessionChunking(p *Prog, r *Report) {
	wb := p.FuncByName("(*UDPSession).WriteBuffers")
	send := p.Method("KCP", "Send")
	n := 0
	for _, s := range p.CallsTo(send) {
		// in WriteBuffers itself or in a helper only WriteBuffers calls (the splitting loop extracted)
		if _, part := p.liftInto(s.Fn, s.Call, wb); !part {
			continue
		}
		fi := s.Fn
		recv := p.selfVar(rootFuncInfo(fi))
		if recv == nil {
			continue
		}
		mss := p.F(tFld(tVar(recv), p.Field("UDPSession", "kcp")), "KCP", "mss")
		fa := p.FactsOf(fi)
		c := p.CFG(fi)
		n++
		arg := s.Call.Args[0]
		construct := "kcp.Send(" + exprString(arg) + ")"
		fs := fa.AtNode(s.Call)
		t := p.Term(arg)
		// a local copy of kcp.mss taken under the same lock (mss := s.kcp.mss) stands for the field
		isMss := func(x *Term) bool {
			if x == nil {
				return false
			}
			return stripConvKey(x) == mss.Key() || stripConvKey(p.resolveSingleDefs(fi, x)) == mss.Key()
		}
		switch {
		case t.Op == "slice" && t.Args[1] == nil && t.Args[2] != nil && isMss(t.Args[2]):
			// b[:mss] — the remainder must continue at mss: b = b[mss:] right after
			pt, _ := c.PointOf(s.Call)
			okNext := false
			base := t.Args[0]
			for i := pt.I + 1; i < len(pt.B.Nodes); i++ {
				if as, ok := pt.B.Nodes[i].(*ast.AssignStmt); ok && len(as.Lhs) == 1 && len(as.Rhs) == 1 {
					rt := p.Term(as.Rhs[0])
					if p.Term(as.Lhs[0]).Key() == base.Key() && rt.Op == "slice" && rt.Args[0].Key() == base.Key() && rt.Args[1] != nil && isMss(rt.Args[1]) && rt.Args[2] == nil {
						okNext = true
					}
				}
			}
			r.check(okNext, "C01.S9", fi.Name, p.Pos(s.Call), construct, "piece of exactly mss bytes; continues at b[mss:]", "after sending b[:mss] the remainder does not continue at b[mss:]: bytes are skipped or repeated")
		default:
			// whole remainder: needs len(b) <= mss
			ok := fs.Holds(le(mk("len", t), mss)) || fs.Holds(le(mk("len", t), &Term{Op: "conv", Str: "int", Args: []*Term{mss}}))
			if !ok {
				// the comparison may have been made against a local copy of mss
				for _, a := range fs.resolvedAtoms() {
					if a.Op == "<=" && a.Args[0].Key() == mk("len", t).Key() && isMss(a.Args[1]) {
						ok = true
					}
				}
			}
			r.check(ok, "C01.S9", fi.Name, p.Pos(s.Call), construct, "under len(b) <= mss", "a piece longer than mss can be handed to the core (it would be fragmented into a multi-segment message and, in stream mode, merged differently)")
		}
	}
	if n == 0 {
		r.bad("C01.S9", wb.Name, p.Pos(wb.Node), "chunking", "WriteBuffers never calls kcp.Send", "")
	}
}

// checkCarryOverOwnedByRead: the unread tail of a partially read message (bufptr, pointing into recvbuf) is
// modified by Read alone — any other function that stores to it (Close "releasing" the buffer, a reset) drops
// bytes that were received and acknowledged but not yet handed to the caller. Shared by C01.S10 and C13.W13.
func checkCarryOverOwnedByRead(p *Prog, r *Report, rule string) {
	fi := p.FuncByName("(*UDPSession).Read")
	n := 0
	for _, f := range []*types.Var{p.Field("UDPSession", "bufptr"), p.Field("UDPSession", "recvbuf")} {
		for _, st := range p.FieldStores(f) {
			root := rootFuncInfo(st.Fn)
			if st.InLit || root.Name == "newUDPSession" {
				continue
			}
			n++
			// a helper called by Read alone is part of Read
			for k := 0; k < 3 && root != fi; k++ {
				caller, _, okC := p.singleCaller(root)
				if !okC {
					break
				}
				root = rootFuncInfo(caller)
			}
			r.check(root == fi, rule, st.Fn.Name, p.Pos(st.Node), "store(UDPSession."+f.Name()+") in "+st.Fn.Name, "only Read moves the carry-over", "the carry-over of a partially read message is modified outside Read: bytes already received (and acknowledged to the peer) but not yet returned to the caller are dropped — after Close, Read no longer drains what had arrived")
		}
	}
	if n == 0 {
		r.bad(rule, fi.Name, p.Pos(fi.Node), "carry-over", "Read keeps no carry-over of partially read messages", "")
	}
}

func checkReadCarryOver(p *Prog, r *Report) {
	checkCarryOverOwnedByRead(p, r, "C01.S10")
	fi := p.FuncByName("(*UDPSession).Read")
	fBuf := p.Field("UDPSession", "bufptr")
	fRecvbuf := p.Field("UDPSession", "recvbuf")
	c := p.CFG(fi)
	for _, st := range p.FieldStores(fBuf) {
		if st.Fn != fi || st.Rhs == nil {
			continue
		}
		t := p.Term(st.Rhs)
		ok := false
		if t.Op == "slice" && t.Args[1] != nil && t.Args[2] == nil && t.Args[0].Op == "fld" && (t.Args[0].Obj == fBuf || t.Args[0].Obj == fRecvbuf) && t.Args[1].Op == "var" {
			nv := t.Args[1].Obj.(*types.Var)
			// n was assigned, earlier in the same block, from copy(b, <that source>)
			pt, _ := c.PointOf(st.Node)
			for i := 0; i < pt.I; i++ {
				if as, isA := pt.B.Nodes[i].(*ast.AssignStmt); isA && len(as.Lhs) == 1 && len(as.Rhs) == 1 {
					if id, isId := as.Lhs[0].(*ast.Ident); isId && (p.Info.Uses[id] == nv || p.Info.Defs[id] == nv) {
						if call, isC := ast.Unparen(as.Rhs[0]).(*ast.CallExpr); isC && p.BuiltinName(call) == "copy" && len(call.Args) == 2 {
							if p.Term(call.Args[1]).Key() == t.Args[0].Key() {
								ok = true
							} else {
								ok = false
							}
						}
					}
				}
			}
		}
		r.check(ok, "C01.S10", fi.Name, p.Pos(st.Node), "bufptr = "+exprString(st.Rhs), "continues where the copy into the caller's buffer stopped", "the carry-over pointer does not continue exactly after the bytes just copied: the next Read repeats or skips data")
	}
	// at most one Recv per Read: no path runs through two Recv calls
	recvM := p.Method("KCP", "Recv")
	var sites []Point
	for _, s := range p.CallsTo(recvM) {
		if s.Fn == fi {
			pt, _ := c.PointOf(s.Call)
			sites = append(sites, pt)
		}
	}
	// every Recv(dst) has room for the whole message; the staging buffer holds exactly the message
	peek := p.Method("KCP", "PeekSize")
	fa := p.FactsOf(fi)
	for _, s := range p.CallsTo(recvM) {
		if s.Fn != fi {
			continue
		}
		fs := fa.AtNode(s.Call)
		dst := p.Term(s.Call.Args[0])
		var size *Term
		for v, d := range fs.Defs {
			if d != nil && d.Op == "call" && d.Obj == peek {
				size = tVar(v)
			}
		}
		construct := "kcp.Recv(" + exprString(s.Call.Args[0]) + ")"
		if size == nil {
			r.bad("C01.S10", fi.Name, p.Pos(s.Call), construct, "no PeekSize result is in scope at the Recv: the destination cannot be known to hold the message; facts: "+pretty(fs.String()), "")
			continue
		}
		if dst.Op == "fld" && dst.Obj == fRecvbuf {
			// the last store to recvbuf before the call, in the same block, is recvbuf = recvbuf[:size]
			// on every path to the call the last store to recvbuf gives it exactly the message size:
			// recvbuf = recvbuf[:size] or recvbuf = make([]byte, size)
			pt, _ := c.PointOf(s.Call)
			storeKind := func(nd ast.Node) int { // 0 none, 1 exact, 2 other store
				as, isA := nd.(*ast.AssignStmt)
				if !isA {
					return 0
				}
				k := 0
				for i, l := range as.Lhs {
					if p.Term(l).Key() != dst.Key() {
						continue
					}
					k = 2
					if i < len(as.Rhs) && len(as.Lhs) == len(as.Rhs) {
						rt := p.Term(as.Rhs[i])
						if rt.Op == "slice" && rt.Args[0].Key() == dst.Key() && rt.Args[1] == nil && rt.Args[2] != nil && rt.Args[2].Key() == size.Key() {
							k = 1
						}
						if rt.Op == "builtin:make" && len(rt.Args) == 2 && rt.Args[1].Key() == size.Key() {
							k = 1
						}
					}
				}
				return k
			}
			isExact := func(nd ast.Node, _ Point) bool { return storeKind(nd) == 1 }
			ok := true
			// (1) some exact store on every path from the entry
			if res := c.FindPath(PathQuery{From: Point{c.Entry(), 0}, IsTarget: func(_ ast.Node, q Point) bool { return q == pt }, IsBarrier: isExact}); res.Found {
				ok = false
			}
			// (2) no other store between the last exact one and the call
			for _, q := range c.AllPoints() {
				if storeKind(q.Node()) != 2 {
					continue
				}
				if res := c.FindPath(PathQuery{From: Point{q.B, q.I + 1}, IsTarget: func(_ ast.Node, x Point) bool { return x == pt }, IsBarrier: isExact}); res.Found {
					ok = false
				}
			}
			r.check(ok, "C01.S10", fi.Name, p.Pos(s.Call), construct, "len(recvbuf) == PeekSize()", "the staging buffer is not cut to exactly the message size before Recv: the bytes carried over to the next Read include stale data (or the message does not fit); facts: "+pretty(fs.String()))
		} else {
			ok := fs.Holds(le(size, mk("len", dst)))
			r.check(ok, "C01.S10", fi.Name, p.Pos(s.Call), construct, "under len(dst) >= PeekSize()", "Recv into the caller's buffer without len(b) >= size: the message is refused by the core and the Read reports bytes it did not deliver; facts: "+pretty(fs.String()))
		}
	}
	twice := false
	var wit []Point
	for _, a := range sites {
		res := c.FindPath(PathQuery{From: Point{a.B, a.I + 1}, IsTarget: func(_ ast.Node, q Point) bool {
			for _, b := range sites {
				if b == q {
					return true
				}
			}
			return false
		}, IsBarrier: func(n ast.Node, _ Point) bool {
			// blocking in the select ends the attempt
			cc, ok := n.(*ast.ExprStmt)
			_ = cc
			return ok && false
		}})
		if res.Found {
			twice = true
			wit = res.Path
		}
	}
	if twice {
		r.bad("C01.S10", fi.Name, p.Pos(fi.Node), "one message per Read", "a single Read can take two messages from the core: with a message-mode peer their boundaries are lost", c.DescribePath(wit))
	} else {
		r.ok("C01.S10", fi.Name, p.Pos(fi.Node), "one message per Read", fmt.Sprintf("%d Recv sites, no path through two of them", len(sites)))
	}
}

// checkCoreCutting: KCP.Send.  Every advance of the parameter `buffer` is
// matched with the copy that precedes it in the same block.
func checkCoreCutting(p *Prog, r *Report) {
	fi := p.FuncOf(p.Method("KCP", "Send"))
	var buf *types.Var
	for _, fl := range fi.Decl.Type.Params.List {
		for _, nm := range fl.Names {
			buf, _ = p.Info.Defs[nm].(*types.Var)
		}
	}
	B := tVar(buf)
	mss := p.F(tVar(p.selfVar(fi)), "KCP", "mss")
	fa := p.FactsOf(fi)
	c := p.CFG(fi)
	fData := p.Field("segment", "data")
	nAdv := 0
	for _, a := range p.Assignments(fi, buf) {
		if a.Rhs == nil {
			continue
		}
		t := p.Term(a.Rhs)
		construct := buf.Name() + " = " + exprString(a.Rhs)
		if !(t.Op == "slice" && t.Args[0].Key() == B.Key() && t.Args[1] != nil && t.Args[2] == nil) {
			r.bad("C01.S12", fi.Name, p.Pos(a.Node), construct, "the caller's buffer is reassigned other than by buffer = buffer[k:]", "")
			continue
		}
		nAdv++
		k := t.Args[1]
		fs := fa.AtNode(a.Node)
		pt, _ := c.PointOf(a.Node)
		// find the closest copy that dominates the advance
		var cp *ast.CallExpr
		var cpPt Point
		ast.Inspect(fi.Body, func(x ast.Node) bool {
			call, isC := x.(*ast.CallExpr)
			if !isC || p.BuiltinName(call) != "copy" || len(call.Args) != 2 || !p.Term(call.Args[1]).Contains(B) {
				return true
			}
			q, okq := c.PointOf(call)
			if !okq || !c.Dominates(q, pt) {
				return true
			}
			if cp == nil || c.Dominates(cpPt, q) {
				cp, cpPt = call, q
			}
			return true
		})
		cpIdx := cpPt.I
		blk := cpPt.B
		if cp == nil {
			r.bad("C01.S12", fi.Name, p.Pos(a.Node), construct, "the buffer advances without a preceding copy of the bytes skipped", "")
			continue
		}
		dst, src := p.Term(cp.Args[0]), p.Term(cp.Args[1])
		ok, why := false, ""
		switch {
		case src.Op == "slice" && src.Args[0].Key() == B.Key() && src.Args[1] == nil && src.Args[2] != nil && src.Args[2].Key() == k.Key():
			// copy(D, buffer[:k]); D must have length k: D = seg.data, seg := newSegment(k)
			if dst.Op == "fld" && dst.Obj == fData && dst.Args[0].Op == "var" {
				seg := dst.Args[0].Obj.(*types.Var)
				for _, sa := range p.Assignments(fi, seg) {
					if sa.Rhs == nil {
						continue
					}
					if call, isC := ast.Unparen(sa.Rhs).(*ast.CallExpr); isC && p.Callee(call) == p.Method("KCP", "newSegment") && p.Term(call.Args[0]).Key() == k.Key() {
						ok = true
					}
				}
				if !ok {
					why = "the destination segment is not created with length " + pretty(k.Key())
				}
				// k <= len(buffer) and k <= mss
				if ok && !(fs.Holds(le(k, mk("len", B))) && (fs.Holds(le(k, mss)) || fs.Holds(le(k, &Term{Op: "conv", Str: "int", Args: []*Term{mss}})))) {
					ok, why = false, "the piece length "+pretty(k.Key())+" is not bounded by len(buffer) and mss; facts: "+pretty(fs.String())
				}
				// the segment is pushed after the copy
				pushed := false
				for i := cpIdx + 1; i < len(blk.Nodes); i++ {
					inspectShallow(blk.Nodes[i], func(x ast.Node) bool {
						if call, isC := x.(*ast.CallExpr); isC && p.Callee(call) == p.Method("RingBuffer", "Push") && len(call.Args) == 1 && p.Term(call.Args[0]).Key() == dst.Args[0].Key() {
							pushed = true
						}
						return true
					})
				}
				// the push may be in the block after the if/else
				if !pushed {
					res := c.FindPath(PathQuery{From: Point{blk, cpIdx + 1}, IsTarget: func(n ast.Node, _ Point) bool {
						f := false
						inspectShallow(n, func(x ast.Node) bool {
							if call, isC := x.(*ast.CallExpr); isC && p.Callee(call) == p.Method("RingBuffer", "Push") && len(call.Args) == 1 && p.Term(call.Args[0]).Key() == dst.Args[0].Key() {
								f = true
							}
							return true
						})
						return f
					}})
					pushed = res.Found
				}
				if ok && !pushed {
					ok, why = false, "the filled segment is not queued"
				}
			} else {
				why = "the copy's destination is not a fresh segment's data"
			}
		case src.Key() == B.Key() && dst.Op == "slice" && dst.Args[1] != nil && dst.Args[2] == nil:
			// X = X[:a+k]; copy(X[a:], buffer); buffer = buffer[k:]   with a = len(X) before, k <= len(buffer)
			X, a := dst.Args[0], dst.Args[1]
			grown := false
			for i := 0; i < cpIdx; i++ {
				if as, isA := blk.Nodes[i].(*ast.AssignStmt); isA && len(as.Lhs) == 1 && len(as.Rhs) == 1 && p.Term(as.Lhs[0]).Key() == X.Key() {
					rt := p.Term(as.Rhs[0])
					grown = rt.Op == "slice" && rt.Args[0].Key() == X.Key() && rt.Args[1] == nil && rt.Args[2] != nil && Lin(rt.Args[2]).Equal(Lin(add(a, k)))
				}
			}
			// a := len(X) before the growth
			aOK := false
			if a.Op == "var" {
				for _, sa := range p.Assignments(fi, a.Obj.(*types.Var)) {
					if sa.Rhs != nil && p.Term(sa.Rhs).Key() == mk("len", X).Key() {
						if q, okq := c.PointOf(sa.Node); okq && q.B == blk && q.I < cpIdx {
							aOK = true
						}
					}
				}
			}
			kOK := fs.Holds(le(k, mk("len", B)))
			ok = grown && aOK && kOK
			if !ok {
				why = fmt.Sprintf("append-to-last-segment: grown by exactly k: %v; offset is the old length: %v; k <= len(buffer): %v", grown, aOK, kOK)
			}
		default:
			why = "the copy before the advance does not take buffer[:k] (or all of buffer into a destination grown by k)"
		}
		r.check(ok, "C01.S12", fi.Name, p.Pos(a.Node), construct, "advances by exactly the bytes copied into the queued segment", why+": bytes are lost, repeated or replaced")
	}
	if nAdv == 0 {
		r.bad("C01.S12", fi.Name, p.Pos(fi.Node), "cutting", "Send never advances its buffer", "")
	}
	// piece count: ceil(len/mss) when len > mss
	okCount := false
	why := "no assignment count = (len(buffer) + mss - 1) / mss found"
	ast.Inspect(fi.Body, func(n ast.Node) bool {
		as, isA := n.(*ast.AssignStmt)
		if !isA || len(as.Lhs) != 1 || len(as.Rhs) != 1 {
			return true
		}
		t := stripConvs(p.resolveSingleDefs(fi, p.Term(as.Rhs[0])))
		if t.Op == "/" {
			want := add(add(mk("len", B), mss), tConst(-1))
			if stripConvKey(t.Args[1]) == mss.Key() && Lin(stripConvs(t.Args[0])).Equal(Lin(want)) {
				okCount = true
			} else {
				why = "the piece count is " + pretty(t.Key()) + ", not ceil(len(buffer)/mss): the tail of the write is dropped (or an extra fragment numbered)"
			}
		}
		return true
	})
	r.check(okCount, "C01.S12", fi.Name, p.Pos(fi.Node), "piece count", "ceil(len(buffer)/mss)", why)
}

// stripConvs removes every conversion node in t (used where only the
// arithmetic shape matters).
func stripConvs(t *Term) *Term {
	if t == nil {
		return nil
	}
	if t.Op == "conv" {
		return stripConvs(t.Args[0])
	}
	if len(t.Args) == 0 {
		return t
	}
	n := *t
	n.key = ""
	n.Args = make([]*Term, len(t.Args))
	for i, a := range t.Args {
		n.Args[i] = stripConvs(a)
	}
	return &n
}

// sliceElemStructOfHeap: for a heap value term of a package type whose
// underlying struct has exactly one slice-of-segment field, that field.
func sliceElemStructOfHeap(p *Prog, hp *Term) *types.Var {
	var t types.Type
	switch {
	case hp.Op == "fld" || hp.Op == "var":
		if v, ok := hp.Obj.(*types.Var); ok {
			t = v.Type()
		}
	}
	if t == nil {
		return nil
	}
	if pt, ok := t.Underlying().(*types.Pointer); ok {
		t = pt.Elem()
	}
	st := structOf(t.Underlying())
	if st == nil {
		return nil
	}
	var out *types.Var
	for i := 0; i < st.NumFields(); i++ {
		if sl, ok := st.Field(i).Type().Underlying().(*types.Slice); ok && namedOf(sl.Elem()) == p.Named("segment") {
			if out != nil {
				return nil
			}
			out = st.Field(i)
		}
	}
	return out
}

// checkStoredSegmentFields: C01.S14.
func checkStoredSegmentFields(p *Prog, r *Report) {
	input := p.FuncOf(p.Method("KCP", "Input"))
	enc := p.FuncOf(p.Method("segment", "encode"))
	wt := p.writerTable(enc, firstByteSliceParam(p, enc))
	off := map[string]int64{}
	for _, f := range wt {
		off[f.Name] = f.Off
	}
	data := firstByteSliceParam(p, input)
	// header reads: local -> offset
	readOff := map[*types.Var]int64{}
	inspectBody(input, func(n ast.Node) bool {
		as, ok := n.(*ast.AssignStmt)
		if !ok || len(as.Lhs) != 1 || len(as.Rhs) != 1 {
			return true
		}
		id, ok := as.Lhs[0].(*ast.Ident)
		if !ok {
			return true
		}
		v, _ := p.Info.Defs[id].(*types.Var)
		if v == nil {
			return true
		}
		switch x := ast.Unparen(as.Rhs[0]).(type) {
		case *ast.CallExpr:
			if f := p.Callee(x); f != nil && f.Pkg() != nil && f.Pkg().Path() == "encoding/binary" && strings.HasPrefix(f.Name(), "Uint") && len(x.Args) == 1 {
				if o, ok := p.sliceOffsetConst(x.Args[0], data); ok {
					readOff[v] = o
				}
			}
		case *ast.IndexExpr:
			if bid, ok := ast.Unparen(x.X).(*ast.Ident); ok && p.Info.Uses[bid] == data {
				if c, ok := p.constVal(x.Index); ok {
					readOff[v] = c
				}
			}
		}
		return true
	})
	n := 0
	for _, s := range p.CallsTo(p.Method("KCP", "parse_data")) {
		if s.Fn != input {
			continue
		}
		n++
		cl, ok := ast.Unparen(s.Call.Args[0]).(*ast.CompositeLit)
		if !ok {
			r.undecided("C01.S14", input.Name, p.Pos(s.Call), "segment stored by the receiver", "parse_data is not given a composite literal")
			continue
		}
		got := map[string]ast.Expr{}
		for _, el := range cl.Elts {
			if kv, ok := el.(*ast.KeyValueExpr); ok {
				if k, ok := kv.Key.(*ast.Ident); ok {
					got[k.Name] = kv.Value
				}
			}
		}
		var missing []string
		for _, fld := range []string{"sn", "frg"} {
			okF := false
			if e, has := got[fld]; has {
				if id, isId := ast.Unparen(e).(*ast.Ident); isId {
					if v, isV := p.Info.Uses[id].(*types.Var); isV {
						if o, hasO := readOff[v]; hasO && o == off[fld] {
							okF = true
						}
					}
				}
			}
			if !okF {
				missing = append(missing, fld)
			}
		}
		okD := false
		if e, has := got["data"]; has {
			if se, isS := ast.Unparen(e).(*ast.SliceExpr); isS && se.Low == nil && se.High != nil {
				if bid, isB := ast.Unparen(se.X).(*ast.Ident); isB && p.Info.Uses[bid] == data {
					if hid, isH := ast.Unparen(se.High).(*ast.Ident); isH {
						if v, isV := p.Info.Uses[hid].(*types.Var); isV {
							if o, hasO := readOff[v]; hasO && o == off["len"] {
								okD = true
							}
						}
					}
				}
			}
		}
		if !okD {
			missing = append(missing, "data")
		}
		r.check(len(missing) == 0, "C01.S14", input.Name, p.Pos(s.Call), "segment stored by the receiver", "sn, frg and data[:len] bound to the header fields of this segment", fmt.Sprintf("the stored segment does not carry %v from the header (a dropped frg makes every fragment a message of its own: message boundaries are lost; a wrong sn or length reorders or truncates the stream)", missing))
	}
	if n == 0 {
		r.bad("C01.S14", input.Name, p.Pos(input.Node), "segment stored by the receiver", "Input never calls parse_data", "")
	}
}

// parseUnaCallbackForm: the cumulative-acknowledgement rule for the callback
// spelling of the scan.
func parseUnaCallbackForm(p *Prog, fi *FuncInfo, s Site, una *Term) (bool, string) {
	lit, isLit := enclosingFuncLit(p, s.Call)
	if !isLit {
		return false, "segments are recycled outside a loop over snd_buf"
	}
	call, ok := p.parents[lit].(*ast.CallExpr)
	if !ok || p.Callee(call) != p.Method("RingBuffer", "ForEach") {
		return false, "segments are recycled outside a scan of snd_buf"
	}
	if sel, ok := ast.Unparen(call.Fun).(*ast.SelectorExpr); !ok {
		return false, "scan target not understood"
	} else if _, ok := fieldBase(p.Term(sel.X), p.Field("KCP", "snd_buf")); !ok {
		return false, "the scan is not over snd_buf"
	}
	lfi := s.Fn
	if lfi.Lit != lit {
		return false, "callback not resolved"
	}
	if len(lit.Type.Params.List) != 1 || len(lit.Type.Params.List[0].Names) != 1 {
		return false, "callback signature not understood"
	}
	seg := tVar(p.Info.Defs[lit.Type.Params.List[0].Names[0]])
	acked := p.ExpandHelpers(lt(tConst(0), p.Diff(una, p.F(seg, "segment", "sn"))))
	c := p.CFG(lfi)
	pt, _ := c.PointOf(s.Call)
	okAck := false
	for _, ct := range c.DominatingConds(pt) {
		for _, a := range Conjuncts(p.ExpandHelpers(ct)) {
			if a.Key() == acked.Key() {
				okAck = true
			}
		}
	}
	var cntVar *types.Var
	cnt := 0
	for _, nd := range pt.B.Nodes {
		if lhsE, isI := p.incBy1(nd); isI {
			if cid, isId := lhsE.(*ast.Ident); isId {
				cntVar, _ = p.Info.Uses[cid].(*types.Var)
				cnt++
			}
		}
	}
	// from the not-acknowledged edge no `return true` (continue the scan) is reachable
	stops := false
	for _, b := range c.live {
		ct := c.CondTerm(b)
		if ct == nil || len(b.Succs) != 2 {
			continue
		}
		e := p.ExpandHelpers(ct)
		var notAck *cfg.Block
		switch {
		case e.Key() == acked.Key():
			notAck = b.Succs[1]
		case e.Key() == Negate(acked).Key():
			notAck = b.Succs[0]
		default:
			continue
		}
		res := c.FindPath(PathQuery{From: Point{notAck, 0}, IsTarget: func(n ast.Node, _ Point) bool {
			if rs, ok := n.(*ast.ReturnStmt); ok && len(rs.Results) == 1 {
				return p.Term(rs.Results[0]).Op != "false"
			}
			return false
		}})
		stops = !res.Found
	}
	disc := false
	for _, d := range p.CallsTo(p.Method("RingBuffer", "Discard")) {
		if d.Fn == fi && cntVar != nil && d.Args[0].Op == "var" && d.Args[0].Obj == cntVar {
			disc = true
		}
	}
	if okAck && cnt == 1 && stops && disc {
		return true, ""
	}
	return false, fmt.Sprintf("freed only under _itimediff(una, seg.sn) > 0: %v; counted exactly once with the recycle: %v; the scan stops at the first segment that is not acknowledged: %v; Discard(count) after the scan: %v", okAck, cnt == 1, stops, disc)
}

// checkSndUnaStores: snd_una is stored by shrink_buf alone (and the constructor), and there it becomes, path by
// path, the sn of snd_buf's head when there is one and snd_nxt otherwise. Shared by C01.S4 and C04.W9.
func checkSndUnaStores(p *Prog, r *Report, rule string) {
	// shrink_buf, path by path: snd_una becomes the sn of snd_buf's head when there is one, snd_nxt otherwise
	shrinkExact := false
	if sh := p.FuncByName("(*KCP).shrink_buf"); sh != nil {
		if sps, understood := p.SymPaths(sh); understood && len(sps) > 0 {
			kcpT := tVar(p.selfVar(sh))
			peek := normTerm(tCall(p.Method("RingBuffer", "Peek"), p.F(kcpT, "KCP", "snd_buf")))
			got := &Term{Op: "proj", Int: 0, Args: []*Term{peek}}
			okT := &Term{Op: "proj", Int: 1, Args: []*Term{peek}}
			good, some, none := true, 0, 0
			var badNode ast.Node
			for _, sp := range sps {
				var v *Term
				cnt := 0
				for _, st := range sp.Stores {
					if st.Lhs.Key() == p.F(kcpT, "KCP", "snd_una").Key() {
						v = st.Val
						cnt++
						badNode = st.Node
					} else {
						good = false
					}
				}
				has := func(w *Term) bool {
					for _, ct := range sp.Conds {
						for _, a := range Conjuncts(ct) {
							if a.Key() == w.Key() {
								return true
							}
						}
					}
					return false
				}
				switch {
				case cnt >= 1 && v.Key() == p.F(got, "segment", "sn").Key() && has(okT): // the last store on the path decides
					some++
				case cnt >= 1 && v.Key() == p.F(kcpT, "KCP", "snd_nxt").Key() && has(Negate(okT)):
					none++
				default:
					good = false
				}
			}
			if good && some > 0 && none > 0 {
				shrinkExact = true
				r.ok(rule, sh.Name, p.Pos(sh.Node), "value of snd_una in shrink_buf", "on every path: the head segment's sn when Peek succeeds, snd_nxt when the buffer is empty")
			} else {
				pos := p.Pos(sh.Node)
				if badNode != nil {
					pos = p.Pos(badNode)
				}
				r.bad(rule, sh.Name, pos, "value of snd_una in shrink_buf", "some path of shrink_buf does not set snd_una to the head segment's sn (buffer not empty) resp. snd_nxt (buffer empty): acknowledged data is considered outstanding, or outstanding data acknowledged", "")
			}
		}
	}
	for _, st := range p.FieldStores(p.Field("KCP", "snd_una")) {
		if st.Fn.Name == "NewKCP" {
			continue
		}
		if shrinkExact && st.Fn.Name == "(*KCP).shrink_buf" {
			r.ok(rule, st.Fn.Name, p.Pos(st.Node), "store(KCP.snd_una) in "+st.Fn.Name, "shrink_buf (value decided path by path)")
			continue
		}
		okU := st.Fn.Name == "(*KCP).shrink_buf"
		if okU && st.Rhs != nil {
			t := p.Term(st.Rhs)
			okU = (t.Op == "fld" && (t.Obj == p.Field("segment", "sn") || t.Obj == p.Field("KCP", "snd_nxt")))
		}
		r.check(okU, rule, st.Fn.Name, p.Pos(st.Node), "store(KCP.snd_una) in "+st.Fn.Name, "shrink_buf: head of snd_buf or snd_nxt", "snd_una is stored outside shrink_buf or with another value: acknowledged data can be considered outstanding (or the reverse)")
	}
}

// checkEmptySendRefused: in KCP.Send a test equivalent to len(buffer) <= 0 whose true edge leads straight to a
// negative return dominates every snd_queue.Push (and every in-place extension of a queued segment).
// Shared by C01.S16 and C02.A12.
func checkEmptySendRefused(p *Prog, r *Report, rule string) {
	send := p.FuncOf(p.Method("KCP", "Send"))
	c := p.CFG(send)
	bufP, _ := send.paramObj(p, 0).(*types.Var)
	if bufP == nil {
		r.bad(rule, send.Name, p.Pos(send.Node), "empty message refused", "Send has no buffer parameter", "")
		return
	}
	want, _ := leZero(le(mk("len", tVar(bufP)), tConst(0)))
	var gate *cfg.Block
	for _, b := range c.live {
		ct := c.CondTerm(b)
		if ct == nil || len(b.Succs) != 2 {
			continue
		}
		isEmpty := false
		if ct.Op == "==" && len(ct.Args) == 2 {
			for i := 0; i < 2; i++ {
				if ct.Args[i].IsConst() && ct.Args[i].Int == 0 && ct.Args[1-i].Key() == mk("len", tVar(bufP)).Key() {
					isEmpty = true
				}
			}
		}
		if l, ok := leZero(ct); ok && l.Equal(want) {
			isEmpty = true
		}
		if !isEmpty {
			continue
		}
		// the true edge returns a negative constant at once
		for _, nd := range b.Succs[0].Nodes {
			if rs, ok := nd.(*ast.ReturnStmt); ok && len(rs.Results) == 1 {
				if v, ok := p.constVal(rs.Results[0]); ok && v < 0 {
					gate = b
				}
			}
		}
	}
	if gate == nil {
		r.bad(rule, send.Name, p.Pos(send.Node), "empty message refused", "Send has no test len(buffer) == 0 that returns a negative value at once: an empty message can be queued (in some mode); the peer's session reader never consumes a zero-length message, so everything behind it is never delivered", "")
		return
	}
	n := 0
	okAll := true
	why := ""
	fQ := p.Field("KCP", "snd_queue")
	for _, s := range p.CallsTo(p.Method("RingBuffer", "Push")) {
		if rootFuncInfo(s.Fn) != send {
			continue
		}
		if _, ok := fieldBase(s.Recv, fQ); !ok {
			continue
		}
		n++
		if s.Fn == send {
			if pt, ok := c.PointOf(s.Call); !ok || !c.BlockDominates(gate, pt.B) || pt.B == gate.Succs[0] {
				okAll, why = false, "snd_queue.Push at "+p.Pos(s.Call)+" is not preceded by the empty-message refusal on every path"
			}
		}
	}
	if n == 0 {
		okAll, why = false, "Send queues nothing"
	}
	// the gate itself must be reached unconditionally (entry dominates trivially; nothing may branch around it)
	for _, ct := range c.localDominatingConds(Point{gate, 0}) {
		okAll, why = false, "the refusal of empty messages is itself conditional on "+pretty(ct.Key())
	}
	r.check(okAll, rule, send.Name, p.Pos(send.Node), "empty message refused", "if len(buffer) == 0 { return <0 } before anything is queued", why+": an empty message can be queued; the peer's session reader never consumes a zero-length message, so everything behind it is never delivered")
}

// checkWriteAccounting: C01.S17.
func checkWriteAccounting(p *Prog, r *Report) {
	wb := p.FuncByName("(*UDPSession).WriteBuffers")
	sendM := p.Method("KCP", "Send")
	c := p.CFG(wb)
	// the accumulator: the local that receives += len(...)
	var acc *types.Var
	inspectBody(wb, func(x ast.Node) bool {
		if as, ok := x.(*ast.AssignStmt); ok && len(as.Lhs) == 1 && len(as.Rhs) == 1 {
			v := identVar(p, as.Lhs[0])
			t := p.Term(as.Rhs[0])
			switch {
			case v == nil:
			case as.Tok == token.ADD_ASSIGN && t.Op == "len":
				acc = v
			case as.Tok == token.ASSIGN && t.Op == "+":
				// n = n + len(b)
				self, ln := false, false
				for _, a := range t.Args {
					if a.Op == "var" && a.Obj == v {
						self = true
					}
					if a.Op == "len" {
						ln = true
					}
				}
				if self && ln {
					acc = v
				}
			}
		}
		return true
	})
	usesResult := true
	n := 0
	for _, s := range p.CallsTo(sendM) {
		at, part := p.liftInto(s.Fn, s.Call, wb)
		if !part {
			continue
		}
		n++
		if _, isStmt := p.parents[s.Call].(*ast.ExprStmt); isStmt {
			usesResult = false
		}
		pt, ok := c.PointOf(at)
		if !ok {
			continue
		}
		construct := "returns after " + exprString(s.Call.Fun) + "(" + exprString(s.Call.Args[0]) + ")"
		res := c.FindPath(PathQuery{From: Point{pt.B, pt.I + 1}, IsTarget: func(nd ast.Node, _ Point) bool {
			rs, isR := nd.(*ast.ReturnStmt)
			if !isR || len(rs.Results) == 0 {
				return false
			}
			t := p.Term(rs.Results[0])
			return !(acc != nil && t.Op == "var" && t.Obj == acc)
		}})
		if acc == nil {
			r.bad("C01.S17", wb.Name, p.Pos(s.Call), construct, "WriteBuffers keeps no running count of queued bytes", "")
		} else if res.Found {
			r.bad("C01.S17", wb.Name, p.Pos(s.Call), construct, "after data has been queued WriteBuffers can return something other than the count of queued bytes ("+acc.Name()+"): the caller is told 0 (or an error) for bytes that will be delivered — re-submitting them duplicates bytes in the stream", c.DescribePath(res.Path))
		} else {
			r.ok("C01.S17", wb.Name, p.Pos(s.Call), construct, "every return reachable after the call returns "+acc.Name())
		}
	}
	if n == 0 {
		r.bad("C01.S17", wb.Name, p.Pos(wb.Node), "kcp.Send in WriteBuffers", "WriteBuffers never calls KCP.Send", "")
		return
	}
	// refusals of Send
	send := p.FuncOf(sendM)
	sc := p.CFG(send)
	self := p.selfVar(send)
	allowedFields := map[types.Object]bool{p.Field("KCP", "mss"): true, p.Field("KCP", "stream"): true}
	m := 0
	inspectBody(send, func(x ast.Node) bool {
		rs, ok := x.(*ast.ReturnStmt)
		if !ok || len(rs.Results) != 1 {
			return true
		}
		v, isC := p.constVal(rs.Results[0])
		if !isC || v >= 0 {
			return true
		}
		m++
		pt, _ := sc.PointOf(rs)
		bad := ""
		for _, ca := range sc.DominatingCondsAt(pt) {
			// the fall-through side of an earlier refusal (if X { return … }) is not a reason for this one
			skip := false
			for _, sb := range ca.B.Succs {
				if sc.BlockDominates(sb, pt.B) {
					continue
				}
				for _, nd := range sb.Nodes {
					if _, isRet := nd.(*ast.ReturnStmt); isRet {
						skip = true
					}
				}
			}
			if skip {
				continue
			}
			for _, a := range Conjuncts(p.resolveSingleDefs(send, ca.T)) {
				a.Walk(func(t *Term) {
					if t.Op == "fld" && len(t.Args) == 1 && t.Args[0].Op == "var" && t.Args[0].Obj == self && !allowedFields[t.Obj] {
						bad = pretty(a.Key())
					}
				})
			}
		}
		if usesResult {
			r.ok("C01.S17", send.Name, p.Pos(rs), "refusal "+exprString(rs.Results[0])+" of KCP.Send", "WriteBuffers inspects Send's result")
		} else {
			r.check(bad == "", "C01.S17", send.Name, p.Pos(rs), "refusal "+exprString(rs.Results[0])+" of KCP.Send", "depends on the argument only (empty buffer, fragment count)", "Send refuses data depending on connection state ("+bad+"), but WriteBuffers does not look at Send's result: the bytes are counted as written and silently dropped — a hole in the stream")
		}
		return true
	})
	if m == 0 {
		r.ok("C01.S17", send.Name, p.Pos(send.Node), "refusals of KCP.Send", "Send never refuses")
	}
}

// checkParserAdvances: C01.S19.
func checkParserAdvances(p *Prog, r *Report) {
	input := p.FuncOf(p.Method("KCP", "Input"))
	c := p.CFG(input)
	dataP, _ := input.paramObj(p, 0).(*types.Var)
	var adv *ast.AssignStmt
	inspectBody(input, func(x ast.Node) bool {
		as, ok := x.(*ast.AssignStmt)
		if !ok || len(as.Lhs) != 1 || len(as.Rhs) != 1 || as.Tok != token.ASSIGN {
			return true
		}
		if identVar(p, as.Lhs[0]) != dataP || dataP == nil {
			return true
		}
		if rt := p.Term(as.Rhs[0]); rt.Op == "slice" && rt.Args[0].Op == "var" && rt.Args[0].Obj == types.Object(dataP) && rt.Args[1] != nil && !rt.Args[1].IsConst() && rt.Args[2] == nil {
			adv = as
		}
		return true
	})
	if adv == nil {
		r.bad("C01.S19", input.Name, p.Pos(input.Node), "advance by the segment length", "Input never advances its input by a segment's length", "")
		return
	}
	loop, _ := enclosingLoop(p, adv).(*ast.ForStmt)
	if loop == nil || len(loop.Body.List) == 0 {
		r.bad("C01.S19", input.Name, p.Pos(adv), "advance by the segment length", "the advance is not inside the segment loop", "")
		return
	}
	var bodyBlk *cfg.Block
	for _, b := range c.live {
		if b.Kind == cfg.KindForBody && b.Stmt == ast.Stmt(loop) {
			bodyBlk = b
		}
	}
	if bodyBlk == nil {
		r.undecided("C01.S19", input.Name, p.Pos(adv), "advance by the segment length", "loop body not located in the flow graph")
		return
	}
	res := c.FindPath(PathQuery{From: Point{bodyBlk, 0}, IsBarrier: func(nd ast.Node, _ Point) bool { return nd == ast.Node(adv) },
		OnBlock: func(b *cfg.Block) (bool, bool) { return b == bodyBlk, false }})
	if res.Found {
		r.bad("C01.S19", input.Name, p.Pos(adv), "advance by the segment length", "a way round the segment loop skips data = data[length:]: the next iteration parses that segment's payload as a header — payload bytes shaped like a segment of this conversation are accepted under their embedded sequence number and delivered in place of the real data", c.DescribePath(res.Path))
	} else {
		r.ok("C01.S19", input.Name, p.Pos(adv), "advance by the segment length", "every way round the loop passes data = data[length:]")
	}
}
