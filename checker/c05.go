package main

import (
	"fmt"
	"go/ast"
	"go/token"
	"go/types"
	"sort"
	"strings"

	"golang.org/x/tools/go/cfg"
)

func init() {
	register(&propCheck{
		id:  "C05",
		run: checkC05,
		configs: map[string][]string{
			"quick":    {"linux64", "linux32"},
			"thorough": {"linux64", "linux32", "generic", "debug"},
		},
		explain: "The static counterpart of fuzzing the datagram path: every operation that can panic or grow memory in the functions reachable from the input entry points (both packetInput functions, kcpInput, " +
			"KCP.Input, fecDecoder.decode, autoTune.Sample/FindPeriod, the read loops) carries its guard on every CFG path. Length facts (lower bounds on len, shifted through constant re-slicing; relational " +
			"facts for wire-derived offsets) are computed by the must-facts dataflow; every index, slice and fixed-width read of a packet-derived slice needs a covering fact; on the 32-bit configuration a guard " +
			"through int(uint32) does not count unless the value is bounded; wire data kept by the core is bounded by the pool buffer; long-lived containers have a guard or an eviction at every insertion; " +
			"explicit panics and unchecked assertions reachable from the entry points are enumerated against stored types; every non-constant divisor has a positivity fact or invariant; modular indices match " +
			"the allocation length. Arithmetic that is not a guard-vs-constant or guard-vs-len relation, allocation inside dependencies and CPU cost are not decided.",
		assume: []string{
			"datagrams handed to the session/listener paths are at most mtuLimit bytes (the read buffers are mtuLimit); raw-core inputs may be longer and are bounded by the explicit length checks",
			"reedsolomon and crypto libraries do not panic on inputs prepared as the framing rules demand (C07)",
		},
	})
}

// inputPathFuncs: the functions analysed, found from the anchors by the static
// call closure restricted to functions that handle packet bytes.
func inputPathFuncs(p *Prog) []*FuncInfo {
	entries := []string{"(*UDPSession).packetInput", "(*Listener).packetInput", "(*UDPSession).kcpInput", "(*KCP).Input", "(*fecDecoder).decode",
		"(*autoTune).Sample", "(*autoTune).FindPeriod", "(*UDPSession).defaultReadLoop", "(*Listener).defaultMonitor", "(*UDPSession).readLoop", "(*Listener).monitor"}
	seen := map[*FuncInfo]bool{}
	var out []*FuncInfo
	var add func(fi *FuncInfo)
	add = func(fi *FuncInfo) {
		if fi == nil || seen[fi] {
			return
		}
		seen[fi] = true
		out = append(out, fi)
		ef := p.Effects(fi)
		for c := range ef.Calls {
			if c.Pkg() == p.Types {
				cf := p.FuncOf(c)
				if cf == nil {
					continue
				}
				// stay on the input path: do not descend into constructors, Close, the output path
				switch cf.Name {
				case "newUDPSession", "(*UDPSession).Close", "(*KCP).flush", "(*Listener).notifyReadError", "(*UDPSession).notifyReadError":
					continue
				}
				add(cf)
			}
		}
		for l := range ef.Lits {
			add(l)
		}
	}
	for _, n := range entries {
		if fi := p.FuncByName(n); fi != nil {
			add(fi)
		}
	}
	sort.Slice(out, func(i, j int) bool { return out[i].Name < out[j].Name })
	return out
}

// minLenOf computes a lower bound of len(t) from the facts.
func (p *Prog) minLenOf(fs *FactSet, t *Term, depth int) int64 {
	if t == nil || depth > 6 {
		return 0
	}
	best := int64(0)
	lx := mk("len", t)
	for _, a := range fs.resolvedAtoms() {
		if (a.Op == "<=" || a.Op == "<") && a.Args[0].IsConst() && a.Args[1].Key() == lx.Key() {
			k := a.Args[0].Int
			if a.Op == "<" {
				k++
			}
			if k > best {
				best = k
			}
		}
		if a.Op == "==" && len(a.Args) == 2 {
			for i := 0; i < 2; i++ {
				if a.Args[i].IsConst() && a.Args[1-i].Key() == lx.Key() && a.Args[i].Int > best {
					best = a.Args[i].Int
				}
			}
		}
	}
	switch t.Op {
	case "slice":
		base := p.minLenOf(fs, t.Args[0], depth+1)
		lo := int64(0)
		if t.Args[1] != nil {
			if !t.Args[1].IsConst() {
				return best
			}
			lo = t.Args[1].Int
		}
		if t.Args[2] != nil {
			if t.Args[2].IsConst() {
				if v := t.Args[2].Int - lo; v > best {
					best = v
				}
			} else if t.Args[2].Op == "len" {
				// x[lo:len(y)] has length len(y) - lo
				if v := p.minLenOf(fs, t.Args[2].Args[0], depth+1) - lo; v > best {
					best = v
				}
			}
			return best
		}
		if v := base - lo; v > best {
			best = v
		}
	case "var":
		if v, ok := t.Obj.(*types.Var); ok {
			if d, ok := fs.Defs[v]; ok {
				if x := p.minLenOf(fs, d, depth+1); x > best {
					best = x
				}
			}
			// arrays have a static length
			if at, ok := v.Type().Underlying().(*types.Array); ok {
				return at.Len()
			}
		}
	case "fld":
		if at, ok := t.Obj.Type().Underlying().(*types.Array); ok {
			return at.Len()
		}
	case "conv":
		if len(t.Args) == 1 {
			if x := p.minLenOf(fs, t.Args[0], depth+1); x > best {
				best = x
			}
		}
	}
	return best
}

// needLenOfParam: for small accessor functions, the minimal length their slice
// receiver/parameter must have (constant-offset accesses, unguarded).
func (p *Prog) needLenOfRecv(f *types.Func) int64 {
	fi := p.FuncOf(f)
	if fi == nil || fi.Decl == nil {
		return 0
	}
	rv := p.selfVar(fi)
	if rv == nil || !isByteSliceLike(rv.Type()) {
		return 0
	}
	need := int64(0)
	inspectBody(fi, func(n ast.Node) bool {
		switch x := n.(type) {
		case *ast.CallExpr:
			if g := p.Callee(x); g != nil && g.Pkg() != nil && g.Pkg().Path() == "encoding/binary" && len(x.Args) >= 1 {
				if off, ok := p.sliceOffsetConst(x.Args[0], rv); ok {
					if w := widthOfPut(g.Name()); off+w > need {
						need = off + w
					}
				}
			}
		case *ast.SliceExpr:
			if off, ok := p.sliceOffsetConst(x, rv); ok && off > need {
				need = off
			}
		case *ast.IndexExpr:
			if id, ok := ast.Unparen(x.X).(*ast.Ident); ok && p.Info.Uses[id] == rv {
				if c, ok := p.constVal(x.Index); ok && c+1 > need {
					need = c + 1
				}
			}
		}
		return true
	})
	return need
}

func checkC05(p *Prog, r *Report) {
	r.rule("C05.B1", "every index, slice and fixed-width read of a byte slice in the input-path functions is covered on every path by a length fact: constant offsets exactly, variable offsets by a relational guard against len", 25)
	r.rule("C05.B2", "a wire-derived uint32 used as a slice bound is guarded in a way that survives 32-bit int (the guard does not go through an unbounded int(uint32) conversion); instances arise in configuration linux32 only", 0)
	r.rule("C05.B3", "wire data kept by the core fits a pool buffer: the segment length is bounded by mtuLimit where the payload is sliced; recovered shards are re-sliced only within len and with sz >= 2", 2)
	r.rule("C05.B4", "long-lived containers reachable from the entry points have a guard or an eviction at every insertion (acklist flush test, shard-set discard, shard duplicate test, accept backlog test, wrap-safe newest-group update)", 5)
	r.rule("C05.B5", "no explicit panic is reachable from the entry points except the frozen, justified ones; unchecked type assertions agree with the static type of every value stored into the asserted container", 5)
	r.rule("C05.B6", "every / and % with a non-constant divisor in the input-path functions has a positive divisor: a dominating fact, or a field whose every store is positive", 4)
	r.rule("C05.B9", "the reader's copy loop stays inside the caller's buffer: PeekSize (Recv's admission test) and Recv's copy loop both stop at the first segment with frg == 0, so they agree on the message even for forged fragment numbers (= C01.S7)", 2)
	r.rule("C05.B14", "what datagrams make the core queue is emitted inside its buffers: every segment flush encodes — acknowledgements included, whose number per flush is peer-controlled — is preceded by the reservation that flushes the staging buffer when it would exceed the MTU (= C10.M4) — an unreserved run of ACKs overruns the staging buffer or the session's pooled buffer", 3)
	r.rule("C05.B13", "the reader's staging buffer holds any message the peer can make the core deliver (fragment counts are peer-controlled: up to rcv_wnd segments): every reslice recvbuf[:size] to a PeekSize result is preceded on every path by the capacity test cap(recvbuf) < size whose true arm re-allocates with at least size — a fixed-size buffer panics in Read, with the session mutex held, for a message larger than it", 1)
	r.rule("C05.B12", "no datagram can orphan a live session (unbounded growth): a session leaves the listener's table only by being closed (= C15.G8)", 2)
	r.rule("C05.B11", "every operand of a 64-bit sync/atomic function is 64-bit aligned on 32-bit platforms as well: a struct field at an offset that is a multiple of 8 (gc/386 layout) from the start of its allocation — otherwise the first datagram that reaches the operation panics the process on 386/arm/mips", 10)
	r.rule("C05.B10", "no datagram is longer than a pooled buffer: every receive buffer of the four read loops is allocated with at most mtuLimit bytes, and every slice of a fresh pool buffer in the input path is cut to the length of received data (or to a bound <= mtuLimit)", 5)
	r.rule("C05.B8", "the receive-side buffering limits hold for arbitrary (also window-ignoring) input: delivery queue and reorder heap admit only below rcv_wnd / inside the window (C04.W1, C04.W2)", 4)
	r.rule("C05.B7", "arrays/slices indexed by x % N (or by an index only ever stored as (y+1) % N) are allocated with length N at every store", 4)
	{
		key := "delegate:C01:" + r.curCfg
		sub, _ := p.memo[key].(*Report)
		if sub == nil {
			sub = newReport("C01", r.Tier)
			sub.curCfg = r.curCfg
			checkC01(p, sub)
			p.memo[key] = sub
		}
		for _, o := range sub.Obs {
			if o.Rule != "C01.S7" || !(strings.Contains(o.Construct, "stops at frg == 0")) {
				continue
			}
			if o.Status == Discharged {
				r.ok("C05.B9", o.Func, o.Pos, o.Construct, o.Detail)
			} else {
				r.bad("C05.B9", o.Func, o.Pos, o.Construct, o.Detail+": with forged fragment numbers PeekSize and Recv then disagree on the size of the message and Recv's copy loop overruns the caller's buffer (slice bounds panic under the session mutex)", o.Witness)
			}
		}
	}
	checkReceiveBufferSizes(p, r, inputPathFuncs(p))
	checkAtomicAlignment(p, r, "C05.B11")
	checkSessionsLeaveByClose(p, r, "C05.B12")
	checkStagingBufferGrows(p, r)
	delegate(p, r, "C10", checkC10, "C10.M4", "C05.B14")
	delegate(p, r, "C04", checkC04, "C04.W1", "C05.B8")
	delegate(p, r, "C04", checkC04, "C04.W2", "C05.B8")

	fns := inputPathFuncs(p)
	is32 := p.Cfg.ID == "linux32"
	mtuLimit := p.ConstInt("mtuLimit")

	// ---------------------------------------------------------------- B1/B2
	heapElemMin := p.shardHeapElemMinLen()
	r.Extra["shardHeap_element_minlen_"+p.Cfg.ID] = heapElemMin
	for _, fi := range fns {
		// contracts: slice-receiver accessors (their need is checked at every call site), the
		// shard heap (its elements satisfy the invariant checked at every Push site), the ring (C20)
		if fi.Obj != nil {
			if rv := p.selfVar(fi); rv != nil && isByteSliceLike(rv.Type()) && p.needLenOfRecv(fi.Obj) > 0 {
				continue
			}
			if rn := recvTypeName(fi.Obj); rn == "shardHeap" || rn == "RingBuffer" || rn == "segmentHeap" {
				continue
			}
		}
		fa := p.inputFacts(fi)
		seenConstruct := map[string]int{}
		ob := func(n ast.Node, base ast.Expr, need int64, what string) {
			bt := p.Info.TypeOf(base)
			if bt == nil {
				return
			}
			if _, isArr := bt.Underlying().(*types.Array); isArr {
				return // checked by the compiler for constants; variable indices handled by B7
			}
			if pt, ok := bt.Underlying().(*types.Pointer); ok {
				if _, isArr := pt.Elem().Underlying().(*types.Array); isArr {
					return
				}
			}
			if !isByteSliceLike(bt) {
				return
			}
			fs := fa.AtNode(n)
			t := fs.Resolve(p.Term(base))
			have := p.minLenOf(fs, t, 0)
			if have < need && p.isShardHeapElement(fi, base) && heapElemMin > have {
				have = heapElemMin
			}
			construct := what
			seenConstruct[construct]++
			if seenConstruct[construct] > 1 {
				construct = fmt.Sprintf("%s #%d", construct, seenConstruct[construct])
			}
			if have >= need {
				r.ok("C05.B1", fi.Name, p.Pos(n), construct, fmt.Sprintf("needs len >= %d, established len >= %d on every path", need, have))
			} else {
				r.bad("C05.B1", fi.Name, p.Pos(n), construct, fmt.Sprintf("needs len(%s) >= %d but only len >= %d is established on every path (a short datagram panics here)", exprString(base), need, have), p.unguardedPath(fi, n, nil))
			}
		}
		relational := func(n ast.Node, base ast.Expr, bound ast.Expr, what string) {
			if !isByteSliceLike(p.Info.TypeOf(base)) {
				return
			}
			fs := fa.AtNode(n)
			bt := fs.Resolve(p.Term(base))
			b := p.Term(bound)
			br := fs.Resolve(b)
			lx := mk("len", bt)
			lraw := mk("len", p.Term(base))
			construct := what
			seenConstruct[construct]++
			if seenConstruct[construct] > 1 {
				construct = fmt.Sprintf("%s #%d", construct, seenConstruct[construct])
			}
			// bound <= len(base)
			holds := fs.Holds(le(b, lx)) || fs.Holds(le(b, lraw)) || fs.Holds(le(br, lx)) || fs.Holds(le(br, lraw))
			if !holds {
				// compared against uint32(len(x)) / uint64(len(x)): a length converts exactly
				for _, a := range fs.resolvedAtoms() {
					if a.Op == "<=" && a.Args[1].Op == "conv" && strings.HasPrefix(a.Args[1].Str, "uint") && a.Args[1].Str != "uint8" && a.Args[1].Str != "uint16" &&
						(a.Args[1].Args[0].Key() == lx.Key() || a.Args[1].Args[0].Key() == lraw.Key()) && (a.Args[0].Key() == b.Key() || a.Args[0].Key() == br.Key()) {
						holds = true
					}
				}
			}
			// a + bound <= len with a >= 0
			if !holds {
				for _, a := range fs.resolvedAtoms() {
					if a.Op == "<=" && (a.Args[1].Key() == lx.Key() || a.Args[1].Key() == lraw.Key()) && a.Args[0].Op == "+" {
						hasB, nonneg := false, true
						for _, ad := range a.Args[0].Args {
							if ad.Key() == b.Key() || ad.Key() == br.Key() {
								hasB = true
								continue
							}
							if !p.nonNegativeTerm(ad) {
								nonneg = false
							}
						}
						if hasB && nonneg {
							holds = true
						}
					}
				}
			}
			// padding idiom: x[:H] with H the running maximum of buffer lengths of the same class, and
			// x[L:] with L the length x had before that extension
			if !holds && p.isMaxLenAccumulator(fi, bound) {
				r.ok("C05.B1", fi.Name, p.Pos(n), construct, "extension up to the running maximum of the lengths of buffers of the same pool class (within capacity)")
				return
			}
			if !holds && p.isOldLenBeforeExtension(fi, bound, base) {
				r.ok("C05.B1", fi.Name, p.Pos(n), construct, "offset is the length the slice had before it was extended")
				return
			}
			// n, _, err := ReadFrom(buf): n <= len(buf) by the io contract
			if !holds && p.boundedByRead(fi, bound, base) {
				r.ok("C05.B1", fi.Name, p.Pos(n), construct, "bound is the byte count returned by the read into the same buffer")
				return
			}
			if !holds {
				// guard through a conversion?
				for _, a := range fs.resolvedAtoms() {
					if a.Op == "<=" && (a.Args[1].Key() == lx.Key() || a.Args[1].Key() == lraw.Key()) && a.Args[0].Op == "conv" && (a.Args[0].Args[0].Key() == b.Key() || a.Args[0].Args[0].Key() == br.Key()) {
						// int(uint32): only sound if the value is bounded below 2^31
						bounded := false
						for _, c := range fs.resolvedAtoms() {
							if (c.Op == "<=" || c.Op == "<") && c.Args[1].IsConst() && c.Args[1].Int < (1<<31) && (c.Args[0].Key() == b.Key() || c.Args[0].Key() == br.Key()) {
								bounded = true
							}
						}
						if bounded {
							holds = true
							if is32 {
								r.ok("C05.B2", fi.Name, p.Pos(n), construct, "the guard compares through int(uint32), and the value is bounded below 2^31 by a dominating fact")
							}
						} else {
							r.bad("C05.B2", fi.Name, p.Pos(n), construct, "the only guard for this bound goes through an int(uint32) conversion, which is negative for values >= 2^31 on 32-bit builds: the guard passes and the slice panics", "")
							return
						}
					}
				}
			}
			if holds {
				r.ok("C05.B1", fi.Name, p.Pos(n), construct, "bound <= len established by a dominating comparison")
			} else {
				r.bad("C05.B1", fi.Name, p.Pos(n), construct, fmt.Sprintf("no dominating comparison relates %s to len(%s); facts: %s", exprString(bound), exprString(base), pretty(fs.String())), p.unguardedPath(fi, n, nil))
			}
		}
		inspectBody(fi, func(n ast.Node) bool {
			switch x := n.(type) {
			case *ast.IndexExpr:
				if tv, ok := p.Info.Types[x.Index]; ok && tv.IsType() {
					return true
				}
				if c, ok := p.constVal(x.Index); ok {
					ob(x, x.X, c+1, exprString(x))
				} else if isByteSliceLike(p.Info.TypeOf(x.X)) {
					// variable index into a byte slice: needs index < len
					fs := fa.AtNode(x)
					if fs.Holds(lt(p.Term(x.Index), mk("len", p.Term(x.X)))) {
						r.ok("C05.B1", fi.Name, p.Pos(x), exprString(x), "index < len established")
					} else {
						r.bad("C05.B1", fi.Name, p.Pos(x), exprString(x), "variable index into a byte slice without a dominating index < len", "")
					}
				}
			case *ast.SliceExpr:
				if !isByteSliceLike(p.Info.TypeOf(x.X)) {
					return true
				}
				// skip extensions of pool buffers (Get()[:n]) — capacity, not length (C10/C05.B3)
				if call, ok := ast.Unparen(x.X).(*ast.CallExpr); ok && p.Callee(call) == p.Method("bufferPool", "Get") {
					return true
				}
				// re-slice up to the capacity of an internal buffer: x[:cap(x)], s.recvbuf[:size]
				need := int64(0)
				allConst := true
				for _, b := range []ast.Expr{x.Low, x.High} {
					if b == nil {
						continue
					}
					if c, ok := p.constVal(b); ok {
						if c > need {
							need = c
						}
					} else {
						allConst = false
					}
				}
				if allConst {
					if need > 0 {
						ob(x, x.X, need, exprString(x))
					}
					return true
				}
				for _, b := range []ast.Expr{x.Low, x.High} {
					if b == nil {
						continue
					}
					if _, ok := p.constVal(b); ok {
						continue
					}
					// len(x) itself or cap(x) as a bound is always fine
					bt := p.Term(b)
					if (bt.Op == "len" || bt.Op == "cap") && bt.Args[0].Key() == p.Term(x.X).Key() {
						continue
					}
					relational(x, x.X, b, exprString(x))
				}
			case *ast.CallExpr:
				f := p.Callee(x)
				if f == nil {
					return true
				}
				if f.Pkg() != nil && f.Pkg().Path() == "encoding/binary" && (strings.HasPrefix(f.Name(), "Uint") || strings.HasPrefix(f.Name(), "PutUint")) && len(x.Args) >= 1 {
					ob(x, x.Args[0], widthOfPut(f.Name()), f.Name()+"("+exprString(x.Args[0])+")")
				}
				if f.Pkg() == p.Types {
					if need := p.needLenOfRecv(f); need > 0 {
						if sel, ok := ast.Unparen(x.Fun).(*ast.SelectorExpr); ok {
							ob(x, sel.X, need, exprString(x.Fun)+"()")
						}
					}
				}
			}
			return true
		})
	}

	// ---------------------------------------------------------------- B3
	checkKeptLength(p, r, mtuLimit)
	// ---------------------------------------------------------------- B4
	checkBoundedGrowth(p, r, fns)
	// ---------------------------------------------------------------- B5
	checkPanics(p, r, fns)
	// ---------------------------------------------------------------- B6
	checkDivisors(p, r, fns)
	// ---------------------------------------------------------------- B7
	checkModularIndices(p, r)
}

// boundedByRead: bound is the int result of a Read* call whose buffer argument is base.
func (p *Prog) boundedByRead(fi *FuncInfo, bound ast.Expr, base ast.Expr) bool {
	id, ok := ast.Unparen(bound).(*ast.Ident)
	if !ok {
		// msg.N with msg.Buffers[0] as base: the batch reader's contract
		if sel, ok := ast.Unparen(bound).(*ast.SelectorExpr); ok && sel.Sel.Name == "N" {
			bt := p.Term(base)
			has := false
			bt.Walk(func(x *Term) {
				if x.Op == "fld" && x.Obj.Name() == "Buffers" {
					has = true
				}
			})
			return has
		}
		return false
	}
	v, _ := p.Info.Uses[id].(*types.Var)
	if v == nil {
		return false
	}
	for _, a := range p.Assignments(fi, v) {
		as, ok := a.Node.(*ast.AssignStmt)
		if !ok || len(as.Rhs) != 1 {
			return false
		}
		call, ok := ast.Unparen(as.Rhs[0]).(*ast.CallExpr)
		if !ok {
			return false
		}
		sel, ok := ast.Unparen(call.Fun).(*ast.SelectorExpr)
		if !ok || !strings.HasPrefix(sel.Sel.Name, "Read") || len(call.Args) < 1 {
			return false
		}
		if p.Term(call.Args[0]).Key() != p.Term(base).Key() {
			return false
		}
	}
	return true
}

func checkKeptLength(p *Prog, r *Report, mtuLimit int64) {
	input := p.FuncOf(p.Method("KCP", "Input"))
	fa := p.FactsOf(input)
	n := 0
	// the payload slice stored into a segment literal
	ast.Inspect(input.Body, func(x ast.Node) bool {
		cl, ok := x.(*ast.CompositeLit)
		if !ok || !p.isPkgNamed(p.Info.TypeOf(cl), "segment") {
			return true
		}
		for _, el := range cl.Elts {
			kv, ok := el.(*ast.KeyValueExpr)
			if !ok {
				continue
			}
			if k, ok := kv.Key.(*ast.Ident); !ok || k.Name != "data" {
				continue
			}
			se, ok := ast.Unparen(kv.Value).(*ast.SliceExpr)
			if !ok || se.High == nil {
				continue
			}
			n++
			fs := fa.AtNode(se)
			hi := p.Term(se.High)
			okB := false
			for _, a := range fs.resolvedAtoms() {
				if (a.Op == "<=" || a.Op == "<") && a.Args[1].IsConst() && a.Args[1].Int <= mtuLimit+1 && (a.Args[0].Key() == hi.Key() || a.Args[0].Key() == fs.Resolve(hi).Key()) {
					if a.Op == "<" || a.Args[1].Int <= mtuLimit {
						okB = true
					}
				}
			}
			r.check(okB, "C05.B3", input.Name, p.Pos(se), "kept payload "+exprString(se), fmt.Sprintf("length bounded by mtuLimit=%d on every path", mtuLimit), fmt.Sprintf("the segment payload kept by the core is not bounded by mtuLimit=%d: parse_data copies it into a pool buffer of that capacity (panic for longer raw-core inputs)", mtuLimit))
		}
		return true
	})
	if n == 0 {
		r.bad("C05.B3", input.Name, p.Pos(input.Node), "kept payload", "no segment literal with a data slice found in Input", "")
	}
	// recovered shards: r[2:sz] under len(r) >= 2, 2 <= sz <= len(r)
	ki := p.FuncByName("(*UDPSession).kcpInput")
	m := 0
	type cut struct {
		fn *FuncInfo
		se *ast.SliceExpr
	}
	var cuts []cut
	for _, s := range p.CallsTo(p.Method("KCP", "Input")) {
		if s.Fn != ki {
			continue
		}
		if se, ok := ast.Unparen(s.Call.Args[0]).(*ast.SliceExpr); ok {
			cuts = append(cuts, cut{ki, se})
			continue
		}
		// the cut moved into a helper: payload, ok := h(r) — the slice expressions h returns
		if h, _, _ := p.helperBoundArg(ki, s.Call.Args[0]); h != nil {
			inspectBody(h, func(x ast.Node) bool {
				if rs, isR := x.(*ast.ReturnStmt); isR && len(rs.Results) > 0 {
					if se, isS := ast.Unparen(rs.Results[0]).(*ast.SliceExpr); isS {
						cuts = append(cuts, cut{h, se})
					}
				}
				return true
			})
		}
	}
	for _, ct := range cuts {
		se := ct.se
		if se.High == nil {
			continue
		}
		if _, isConst := p.constVal(se.High); isConst {
			continue
		}
		m++
		fs := p.FactsOf(ct.fn).AtNode(se)
		base := p.Term(se.X)
		hi := fs.Resolve(p.Term(se.High))
		lo := int64(0)
		if se.Low != nil {
			lo, _ = p.constVal(se.Low)
		}
		ok1 := fs.Holds(le(hi, mk("len", base))) || fs.Holds(le(p.Term(se.High), mk("len", base)))
		ok2 := fs.Holds(le(tConst(lo), hi)) || fs.Holds(le(tConst(lo), p.Term(se.High)))
		r.check(ok1 && ok2, "C05.B3", ct.fn.Name, p.Pos(se), "recovered shard "+exprString(se), "lo <= sz <= len(r) on every path", "the size field of a recovered shard is used as a slice bound without lo <= sz <= len(r)")
	}
	if m == 0 {
		r.bad("C05.B3", ki.Name, p.Pos(ki.Node), "recovered shard", "no size-checked re-slice of recovered shards found", "")
	}
}

func checkBoundedGrowth(p *Prog, r *Report, fns []*FuncInfo) {
	// (a) acklist: every path from ack_push to the exit of Input passes the backlog test whose true edge flushes
	input := p.FuncOf(p.Method("KCP", "Input"))
	c := p.CFG(input)
	fAck := p.Field("KCP", "acklist")
	flush := p.Method("KCP", "flush")
	for _, s := range p.CallsTo(p.Method("KCP", "ack_push")) {
		if s.Fn != input {
			continue
		}
		pt, _ := c.PointOf(s.Call)
		res := c.FindPath(PathQuery{From: Point{pt.B, pt.I + 1}, ExitIsTarget: true, IsBarrier: func(n ast.Node, q Point) bool {
			// error returns abandon the datagram (what was pushed is bounded by its length): not the paths of interest
			if ret, ok := n.(*ast.ReturnStmt); ok && len(ret.Results) == 1 {
				if v, ok := p.constVal(ret.Results[0]); ok && v < 0 {
					return true
				}
			}
			// a flush call, or the branch `len(acklist) >= X` whose true successor flushes
			hit := false
			inspectShallow(n, func(x ast.Node) bool {
				if call, ok := x.(*ast.CallExpr); ok && p.Callee(call) == flush {
					hit = true
				}
				return true
			})
			if hit {
				return true
			}
			// an unexported helper every path through which passes such a backlog test
			helperTests := false
			inspectShallow(n, func(x ast.Node) bool {
				call, ok := x.(*ast.CallExpr)
				if !ok {
					return true
				}
				f := p.Callee(call)
				if f == nil || f.Exported() || f.Pkg() != p.Types {
					return true
				}
				h := p.FuncOf(f)
				if h == nil || h.Body == nil || h == input {
					return true
				}
				hc := p.CFG(h)
				var tests []*cfg.Block
				for _, b := range hc.live {
					if len(b.Succs) != 2 {
						continue
					}
					if ct := hc.CondTerm(b); backlogDisjunct(ct, fAck) {
						for _, nd := range b.Succs[0].Nodes {
							inspectShallow(nd, func(y ast.Node) bool {
								if c2, ok := y.(*ast.CallExpr); ok && p.Callee(c2) == flush {
									tests = append(tests, b)
								}
								return true
							})
						}
					}
				}
				if len(tests) == 0 {
					return true
				}
				for _, t := range tests {
					if t == hc.Entry() {
						helperTests = true // the test is the first thing the helper does
						return true
					}
				}
				avoid := hc.FindPath(PathQuery{From: Point{hc.Entry(), 0}, ExitIsTarget: true, OnBlock: func(b *cfg.Block) (bool, bool) {
					for _, t := range tests {
						if t == b {
							return false, true
						}
					}
					return false, false
				}})
				if !avoid.Found {
					helperTests = true
				}
				return true
			})
			if helperTests {
				return true
			}
			if q.I == len(q.B.Nodes)-1 && len(q.B.Succs) == 2 {
				if ct := c.CondTerm(q.B); backlogDisjunct(ct, fAck) {
					for _, nd := range q.B.Succs[0].Nodes {
						f := false
						inspectShallow(nd, func(x ast.Node) bool {
							if call, ok := x.(*ast.CallExpr); ok && p.Callee(call) == flush {
								f = true
							}
							return true
						})
						if f {
							return true
						}
					}
				}
			}
			return false
		},
			// error returns inside the parse loop abandon the datagram: the list keeps what was pushed, bounded by the next call's test
			EdgeOK: nil})
		// error returns (negative results) are allowed to skip the test: they end the datagram; the pushed acks are at most len(data)/24
		if res.Found && !c.pathEndsInErrorReturn(p, res.Path) {
			r.bad("C05.B4", input.Name, p.Pos(s.Call), "acklist backlog test after ack_push", "a successful path returns from Input without testing the ack backlog (len(acklist) >= mtu/IKCP_OVERHEAD -> flush): the list can grow without bound under a flood of PUSH segments", c.DescribePath(res.Path))
		} else {
			r.ok("C05.B4", input.Name, p.Pos(s.Call), "acklist backlog test after ack_push", "every successful path reaches the backlog test whose true edge flushes (flush truncates the list)")
		}
	}
	// flush truncates acklist
	ff := p.FuncOf(flush)
	trunc := false
	for _, st := range p.FieldStores(fAck) {
		if st.Fn == ff && st.Rhs != nil {
			if t := p.Term(st.Rhs); t.Op == "slice" && termHasField(t, fAck) {
				trunc = true
			}
		}
	}
	r.check(trunc, "C05.B4", ff.Name, p.Pos(ff.Node), "flush truncates acklist", "acklist = acklist[0:0]", "flush no longer empties the ack list")

	// (b) shard set: every insertion is followed by discardShards before decode returns (fresh heap: the duplicate return is infeasible)
	dec := p.FuncOf(p.Method("fecDecoder", "decode"))
	dc := p.CFG(dec)
	fSet := p.Field("fecDecoder", "shardSet")
	discard := p.Method("fecDecoder", "discardShards")
	has := p.Method("shardHeap", "Has")
	nIns := 0
	inspectBody(dec, func(n ast.Node) bool {
		as, ok := n.(*ast.AssignStmt)
		if !ok || len(as.Lhs) != 1 {
			return true
		}
		ix, ok := ast.Unparen(as.Lhs[0]).(*ast.IndexExpr)
		if !ok {
			return true
		}
		if t := p.Term(ix.X); t.Op != "fld" || t.Obj != fSet {
			return true
		}
		nIns++
		pt, _ := dc.PointOf(as)
		res := dc.FindPath(PathQuery{From: Point{pt.B, pt.I + 1}, ExitIsTarget: true, IsBarrier: func(nd ast.Node, _ Point) bool {
			hit := false
			inspectShallow(nd, func(x ast.Node) bool {
				if call, ok := x.(*ast.CallExpr); ok && p.Callee(call) == discard {
					hit = true
				}
				return true
			})
			return hit
		}, EdgeOK: func(from, to *cfg.Block) bool {
			// a heap created on this path has no members: Has(..) is false
			if ct := dc.CondTerm(from); ct != nil && ct.Op == "call" && ct.Obj == has && len(from.Succs) == 2 && from.Succs[0] == to {
				return false
			}
			return true
		}})
		if res.Found {
			r.bad("C05.B4", dec.Name, p.Pos(as), "shardSet insertion followed by discardShards", "a path inserts a new shard group and returns without evicting old groups: forged sequence ids grow the map without bound", dc.DescribePath(res.Path))
		} else {
			r.ok("C05.B4", dec.Name, p.Pos(as), "shardSet insertion followed by discardShards", "every path from the insertion to the return calls discardShards")
		}
		return true
	})
	if nIns == 0 {
		r.bad("C05.B4", dec.Name, p.Pos(dec.Node), "shardSet insertion", "no insertion into shardSet found", "")
	}
	// discardShards deletes under the maxShardSets test
	df := p.FuncOf(discard)
	okDel := false
	dcf := p.CFG(df)
	inspectBody(df, func(n ast.Node) bool {
		call, ok := n.(*ast.CallExpr)
		if !ok || p.BuiltinName(call) != "delete" {
			return true
		}
		pt, ok := dcf.PointOf(call)
		if !ok {
			return true
		}
		conds := dcf.localDominatingConds(pt) // exactness: the test inside discardShards itself
		if len(conds) == 1 {
			ct := p.ExpandHelpers(p.resolveSingleDefs(df, conds[0]))
			if ct.Op == "<" && termHasField(ct, p.Field("fecDecoder", "newestShardId")) {
				// maxShardSets*shardSize < diff(newest*size, id*size)
				okDel = true
			}
		}
		return true
	})
	r.check(okDel, "C05.B4", df.Name, p.Pos(df.Node), "eviction test", "groups older than maxShardSets (signed distance from the newest group) are deleted", "discardShards does not delete exactly under the age test against newestShardId")
	// (c) wrap-safe newest update and age test: no kind violation inside the decoder
	ka := p.Kinds()
	kv := 0
	for _, v := range ka.viol {
		if v.fn != nil && (rootFuncInfo(v.fn) == dec || rootFuncInfo(v.fn) == df) {
			kv++
			r.bad("C05.B4", v.fn.Name, p.Pos(v.node), "wrap-safe group age: "+nodeKey(v.node), "the decoder orders group ids without the signed difference: once an id in the upper half of the space was seen, older groups are never evicted (unbounded growth): "+v.what, "")
		}
	}
	if kv == 0 {
		r.ok("C05.B4", dec.Name, p.Pos(dec.Node), "wrap-safe group age", "group ids are ordered only through the signed difference")
	}
	// (d) duplicate test before the heap grows
	for _, s := range p.CallsTo(p.Method("shardHeap", "Push")) {
		if s.Fn != dec {
			continue
		}
		in := firstParamOfType(p, dec, "fecPacket")
		if in == nil {
			continue
		}
		seq := p.ExpandHelpers(normTerm(tCall(p.Method("fecPacket", "seqid"), tVar(in))))
		p.requireFacts(r, "C05.B4", dec, s.Call, "shard.Push dominated by the duplicate test", not(p.ExpandHelpers(normTerm(tCall(has, s.Recv, seq)))))
	}
	// (e) accept backlog: newUDPSession in the listener's input path under len(chAccepts) < cap(chAccepts)
	lp := p.FuncByName("(*Listener).packetInput")
	lc := p.CFG(lp)
	for _, s := range p.CallsTo(p.Func("newUDPSession")) {
		if s.Fn != lp {
			continue
		}
		pt, _ := lc.PointOf(s.Call)
		okRoom := false
		for _, ct := range lc.DominatingConds(pt) {
			for _, a := range Conjuncts(ct) {
				if p.roomTest(lp, a, p.Field("Listener", "chAccepts"), p.ConstInt("acceptBacklog")) {
					okRoom = true
				}
			}
		}
		r.check(okRoom, "C05.B4", lp.Name, p.Pos(s.Call), "session creation under the backlog test", "len(chAccepts) < cap(chAccepts)", "sessions are created for unknown peers without the accept-backlog test: a flood of spoofed addresses allocates without bound")
	}
}

func firstParamOfType(p *Prog, fi *FuncInfo, name string) *types.Var {
	for _, fl := range fi.Decl.Type.Params.List {
		for _, nm := range fl.Names {
			if v, ok := p.Info.Defs[nm].(*types.Var); ok && p.isPkgNamed(v.Type(), name) {
				return v
			}
		}
	}
	return nil
}

// pathEndsInErrorReturn: the last statement on the path is a return of a negative constant.
func (c *CFG) pathEndsInErrorReturn(p *Prog, path []Point) bool {
	if len(path) == 0 {
		return false
	}
	last := path[len(path)-1]
	b := last.B
	if len(b.Nodes) == 0 {
		return false
	}
	if ret, ok := b.Nodes[len(b.Nodes)-1].(*ast.ReturnStmt); ok && len(ret.Results) == 1 {
		if v, ok := p.constVal(ret.Results[0]); ok && v < 0 {
			return true
		}
	}
	return false
}

func checkPanics(p *Prog, r *Report, fns []*FuncInfo) {
	// closure over calls including interface implementations
	seen := map[*FuncInfo]bool{}
	var all []*FuncInfo
	var add func(fi *FuncInfo)
	add = func(fi *FuncInfo) {
		if fi == nil || seen[fi] {
			return
		}
		seen[fi] = true
		all = append(all, fi)
		ef := p.Effects(fi)
		for c := range ef.Calls {
			if c.Pkg() == p.Types {
				if cf := p.FuncOf(c); cf != nil {
					switch cf.Name {
					case "newUDPSession", "(*UDPSession).Close", "(*KCP).flush":
						continue
					}
					add(cf)
				}
			}
		}
		for _, d := range ef.Dyn {
			ts, _ := p.DynTargets(d)
			for _, t := range ts {
				// narrowing: BlockCrypt.Decrypt in a type-switch default arm that has a *aeadCrypt case never reaches aeadCrypt.Decrypt
				if t.Obj != nil && recvTypeName(t.Obj) == "aeadCrypt" && p.inDefaultArmExcluding(d, "aeadCrypt") {
					continue
				}
				if t.Obj != nil && (t.Name == "(*UDPSession).update" || strings.HasPrefix(t.Name, "newUDPSession")) {
					continue
				}
				add(t)
			}
		}
		for l := range ef.Lits {
			add(l)
		}
	}
	for _, fi := range fns {
		add(fi)
	}
	frozen := map[string]string{
		"decrypt": "unsupported cipher block size: every package constructor passes an 8- or 16-byte block cipher to newBlockCrypt (C08.K5)",
		"encrypt": "unsupported cipher block size: every package constructor passes an 8- or 16-byte block cipher to newBlockCrypt (C08.K5)",
	}
	nP := 0
	for _, fi := range all {
		inspectBody(fi, func(n ast.Node) bool {
			call, ok := n.(*ast.CallExpr)
			if !ok || p.BuiltinName(call) != "panic" {
				return true
			}
			nP++
			if why, ok := frozen[fi.Name]; ok {
				r.ok("C05.B5", fi.Name, p.Pos(call), "panic in "+fi.Name, "frozen exception: "+why)
			} else {
				r.bad("C05.B5", fi.Name, p.Pos(call), "panic in "+fi.Name, "an explicit panic is reachable from the datagram entry points", "")
			}
			return true
		})
	}
	// unchecked assertions: atomic.Value loads and heap pops
	type storeInfo struct{ t types.Type }
	stores := map[*types.Var][]types.Type{}
	p.AllCalls(func(call *ast.CallExpr, fi *FuncInfo) {
		f := p.Callee(call)
		if f == nil || !isExtFunc(f, "sync/atomic", "Value", "Store") || len(call.Args) != 1 {
			return
		}
		if sel, ok := ast.Unparen(call.Fun).(*ast.SelectorExpr); ok {
			if t := p.Term(sel.X); t.Op == "fld" {
				stores[t.Obj.(*types.Var)] = append(stores[t.Obj.(*types.Var)], p.Info.TypeOf(call.Args[0]))
			}
		}
	})
	for _, fi := range all {
		inspectBody(fi, func(n ast.Node) bool {
			ta, ok := n.(*ast.TypeAssertExpr)
			if !ok || ta.Type == nil {
				return true
			}
			// checked form v, ok := x.(T)?
			if as, ok := p.parents[ta].(*ast.AssignStmt); ok && len(as.Lhs) == 2 && len(as.Rhs) == 1 {
				return true
			}
			if _, ok := p.parents[ta].(*ast.ValueSpec); ok {
				return true
			}
			want := p.Info.TypeOf(ta.Type)
			construct := "assert " + exprString(ta)
			// atomic.Value load
			if call, ok := ast.Unparen(ta.X).(*ast.CallExpr); ok {
				if f := p.Callee(call); f != nil && isExtFunc(f, "sync/atomic", "Value", "Load") {
					if sel, ok := ast.Unparen(call.Fun).(*ast.SelectorExpr); ok {
						if t := p.Term(sel.X); t.Op == "fld" {
							sts := stores[t.Obj.(*types.Var)]
							okT := len(sts) > 0
							for _, st := range sts {
								if !types.AssignableTo(st, want) {
									okT = false
								}
							}
							// a nil Load must be excluded by a dominating != nil test or the stored-before-close protocol (C13.W6)
							r.check(okT, "C05.B5", fi.Name, p.Pos(ta), construct, fmt.Sprintf("every Store into %s has a type assignable to %s", p.FieldOwner(t.Obj.(*types.Var)), want), "a value of another type is stored into this atomic.Value: the unchecked assertion panics")
							return true
						}
					}
				}
				// heap.Pop(h).(T) / h.Pop().(T): element type of the heap's backing slice
				if f := p.Callee(call); f != nil && f.Name() == "Pop" {
					r.ok("C05.B5", fi.Name, p.Pos(ta), construct, "pop from a typed heap whose Push asserts the same element type")
					return true
				}
			}
			// x.(T) inside heap Push(x any): all heap.Push call sites pass that type
			if id, ok := ast.Unparen(ta.X).(*ast.Ident); ok {
				if v, ok := p.Info.Uses[id].(*types.Var); ok && p.isParam(v) && fi.Obj != nil && fi.Obj.Name() == "Push" {
					okT := true
					recvT := recvTypeName(fi.Obj)
					p.AllCalls(func(call *ast.CallExpr, cf *FuncInfo) {
						f := p.Callee(call)
						if f == nil {
							return
						}
						var val ast.Expr
						if f.Pkg() != nil && f.Pkg().Path() == "container/heap" && f.Name() == "Push" && len(call.Args) == 2 {
							if nt := namedOf(p.Info.TypeOf(call.Args[0])); nt != nil && nt.Obj().Name() == recvT {
								val = call.Args[1]
							}
						} else if f == fi.Obj && len(call.Args) == 1 {
							val = call.Args[0]
						}
						if val != nil && !types.Identical(p.Info.TypeOf(val), want) {
							okT = false
						}
					})
					r.check(okT, "C05.B5", fi.Name, p.Pos(ta), construct, "every value pushed has exactly the asserted type", "a value of another type is pushed into this heap: the unchecked assertion panics")
					return true
				}
			}
			if fi.Name == "(*UDPSession).kcpInput" {
				// callback.(OOBCallBackType): stores into callbackForOOB
				return true
			}
			return true
		})
	}
	// the OOB callback assertion
	if f := p.TryField("UDPSession", "callbackForOOB"); f != nil {
		okT := len(stores[f]) > 0
		for _, st := range stores[f] {
			if n := namedOf(st); n == nil || n.Obj().Name() != "OOBCallBackType" {
				okT = false
			}
		}
		r.check(okT, "C05.B5", "(*UDPSession).SetOOBHandler", "-", "callbackForOOB stores", "only OOBCallBackType values are stored (the receive path asserts that type unchecked)", "a value that is not an OOBCallBackType is stored: the receive path panics on the next OOB packet")
	}
	_ = nP
}

// inDefaultArmExcluding: the call is inside the default clause of a type switch that has a case for *<typ>.
func (p *Prog) inDefaultArmExcluding(call *ast.CallExpr, typ string) bool {
	for x := ast.Node(call); x != nil; x = p.parents[x] {
		cc, ok := x.(*ast.CaseClause)
		if !ok {
			continue
		}
		ts, ok := p.parents[p.parents[cc]].(*ast.TypeSwitchStmt)
		if !ok {
			continue
		}
		if cc.List != nil {
			return false
		}
		for _, cl := range ts.Body.List {
			for _, e := range cl.(*ast.CaseClause).List {
				if n := namedOf(p.Info.TypeOf(e)); n != nil && n.Obj().Name() == typ {
					return true
				}
			}
		}
		return false
	}
	return false
}

// positiveField: every store to f (outside nothing) is positive: a positive
// constant, a sum of operands with dominating > 0 facts, or X - C under C < X.
func (p *Prog) positiveField(f *types.Var) (bool, string) {
	stores := p.FieldStores(f)
	if len(stores) == 0 {
		return false, "no store"
	}
	for _, st := range stores {
		if st.Rhs == nil {
			return false, "modified in place at " + p.Pos(st.Node)
		}
		fs := p.FactsOf(st.Fn).AtNode(st.Node)
		t := p.Term(st.Rhs)
		if !p.positiveTerm(fs, t, 0) {
			return false, "store at " + p.Pos(st.Node) + " (" + exprString(st.Rhs) + ") is not provably positive"
		}
	}
	return true, ""
}

func (p *Prog) positiveTerm(fs *FactSet, t *Term, depth int) bool {
	if depth > 4 {
		return false
	}
	if t.IsConst() {
		return t.Int > 0
	}
	if fs.Holds(lt(tConst(0), t)) || fs.Holds(le(tConst(1), t)) {
		return true
	}
	rt := fs.Resolve(t)
	if rt.Key() != t.Key() && p.positiveTerm(fs, rt, depth+1) {
		return true
	}
	switch t.Op {
	case "conv":
		return p.positiveTerm(fs, t.Args[0], depth+1)
	case "+":
		for _, a := range t.Args {
			if !p.positiveTerm(fs, a, depth+1) {
				return false
			}
		}
		return true
	case "-":
		// X - C under C < X
		return fs.Holds(lt(t.Args[1], t.Args[0]))
	case "fld":
		if f, ok := t.Obj.(*types.Var); ok {
			key := "posfield:" + p.FieldOwner(f)
			if v, ok := p.memo[key]; ok {
				return v.(bool)
			}
			p.memo[key] = false // recursion guard
			okF, _ := p.positiveField(f)
			p.memo[key] = okF
			return okF
		}
	}
	return false
}

func checkDivisors(p *Prog, r *Report, fns []*FuncInfo) {
	seen := map[string]int{}
	for _, fi := range fns {
		if fi.Obj != nil && recvTypeName(fi.Obj) == "RingBuffer" {
			continue // the ring's modulus len(elements) > 0 by construction: C20
		}
		fa := p.FactsOf(fi)
		inspectBody(fi, func(n ast.Node) bool {
			be, ok := n.(*ast.BinaryExpr)
			if !ok || (be.Op != token.QUO && be.Op != token.REM) {
				return true
			}
			if !isIntegerType(p.Info.TypeOf(be)) {
				return true
			}
			if _, isConst := p.constVal(be.Y); isConst {
				return true
			}
			fs := fa.AtNode(be)
			d := p.Term(be.Y)
			construct := "divisor in " + exprString(be)
			seen[construct]++
			if seen[construct] > 1 {
				construct = fmt.Sprintf("%s #%d", construct, seen[construct])
			}
			okD := p.positiveTerm(fs, d, 0)
			if !okD {
				// M <= d with M positive
				for _, a := range fs.resolvedAtoms() {
					if (a.Op == "<=" || a.Op == "<") && a.Args[1].Key() == d.Key() && p.positiveTerm(fs, a.Args[0], 0) {
						okD = true
					}
				}
			}
			if !okD {
				// the divisor is (a conversion of) a parameter of an unexported helper: positive at every call site
				root := d
				for root.Op == "conv" {
					root = root.Args[0]
				}
				if root.Op == "var" {
					if pv, isV := root.Obj.(*types.Var); isV && p.isParam(pv) {
						idx := -1
						for i := 0; ; i++ {
							o := fi.paramObj(p, i)
							if o == nil {
								break
							}
							if o == pv {
								idx = i
							}
						}
						if idx >= 0 {
							okD = p.holdsAtAllCallers(fi, 2, func(cfs *FactSet, caller *FuncInfo, call *ast.CallExpr) bool {
								if idx >= len(call.Args) {
									return false
								}
								at := p.Term(call.Args[idx])
								if p.positiveTerm(cfs, at, 0) {
									return true
								}
								for _, a := range cfs.resolvedAtoms() {
									if (a.Op == "<=" || a.Op == "<") && a.Args[1].Key() == at.Key() && p.positiveTerm(cfs, a.Args[0], 0) {
										return true
									}
								}
								return false
							})
						}
					}
				}
			}
			r.check(okD, "C05.B6", fi.Name, p.Pos(be), construct, "divisor is positive on every path (fact or field invariant)", "the divisor "+exprString(be.Y)+" is not provably non-zero on every path: a crafted packet or configuration can make the division panic")
			return true
		})
	}
}

func checkModularIndices(p *Prog, r *Report) {
	// decodeCache / flagCache: allocated with length shardSize wherever stored, indexed by x % shardSize
	for _, fname := range []string{"decodeCache", "flagCache"} {
		f := p.Field("fecDecoder", fname)
		for _, st := range p.FieldStores(f) {
			okL := false
			if st.Rhs != nil {
				t := p.Term(st.Rhs)
				if t.Op == "builtin:make" && len(t.Args) >= 2 {
					if b, ok := fieldBase(t.Args[1], p.Field("fecDecoder", "shardSize")); ok && b.Key() == st.Base.Key() {
						okL = true
					}
				}
			}
			r.check(okL, "C05.B7", st.Fn.Name, p.Pos(st.Node), "allocation of fecDecoder."+fname, "make(.., shardSize)", "the cache is not allocated with length shardSize (it is indexed by seqid % shardSize)")
		}
	}
	// wherever shardSize is stored, both caches are re-allocated under no additional condition
	// (other than the error test of the codec construction)
	for _, st := range p.FieldStores(p.Field("fecDecoder", "shardSize")) {
		c := p.CFG(st.Fn)
		spt, _ := c.PointOf(st.Node)
		base := map[string]bool{}
		for _, ct := range c.DominatingConds(spt) {
			for _, a := range Conjuncts(ct) {
				base[a.Key()] = true
			}
		}
		for _, fname := range []string{"decodeCache", "flagCache"} {
			found := false
			var extra []string
			for _, cs := range p.FieldStores(p.Field("fecDecoder", fname)) {
				if cs.Fn != st.Fn {
					continue
				}
				cpt, _ := c.PointOf(cs.Node)
				if !c.Dominates(spt, cpt) && !c.Reaches(spt, cpt) {
					continue
				}
				found = true
				for _, ct := range c.DominatingConds(cpt) {
					for _, a := range Conjuncts(ct) {
						if base[a.Key()] {
							continue
						}
						if isNilEq(a) || (a.Op == "!=" && (a.Args[0].Op == "nil" || a.Args[1].Op == "nil")) {
							if v := nilEqVar(&Term{Op: "==", Args: a.Args}); v != nil && v.Type().String() == "error" {
								continue
							}
						}
						extra = append(extra, pretty(a.Key()))
					}
				}
			}
			construct := "shardSize store paired with " + fname + " allocation"
			switch {
			case !found:
				r.bad("C05.B7", st.Fn.Name, p.Pos(st.Node), construct, "shardSize changes but fecDecoder."+fname+" is not re-allocated: indices x % shardSize no longer match the cache length", "")
			case len(extra) > 0:
				r.bad("C05.B7", st.Fn.Name, p.Pos(st.Node), construct, "fecDecoder."+fname+" is re-allocated only under the additional condition "+strings.Join(extra, " ∧ ")+": after a change of shardSize the cache can keep another length (out-of-range index or wrong shard count handed to the codec)", "")
			default:
				r.ok("C05.B7", st.Fn.Name, p.Pos(st.Node), construct, "re-allocated with make(.., shardSize) under the same conditions")
			}
		}
	}
	// index expressions into the caches: seqid % shardSize (or a range key over a cache)
	dec := p.FuncOf(p.Method("fecDecoder", "decode"))
	fa := p.FactsOf(dec)
	cnt := map[string]int{}
	inspectBody(dec, func(n ast.Node) bool {
		ix, ok := n.(*ast.IndexExpr)
		if !ok {
			return true
		}
		bt := fa.AtNode(ix).Resolve(p.Term(ix.X))
		if bt.Op != "fld" || (bt.Obj != p.Field("fecDecoder", "decodeCache") && bt.Obj != p.Field("fecDecoder", "flagCache")) {
			return true
		}
		it := p.Term(ix.Index)
		if it.Op == "var" {
			// pos := pkt.seqid() % uint32(dec.shardSize)
			if rt := p.resolveSingleDefs(dec, it); rt.Op == "%" {
				it = rt
			}
		}
		okI := false
		why := ""
		switch {
		case it.Op == "%" && termHasField(it.Args[1], p.Field("fecDecoder", "shardSize")):
			okI, why = true, "x % shardSize"
		case it.Op == "var":
			// a range key over one of the caches or over a slice of shards
			if v, ok := it.Obj.(*types.Var); ok {
				ast.Inspect(dec.Body, func(m ast.Node) bool {
					if rs, ok := m.(*ast.RangeStmt); ok {
						if id, ok := rs.Key.(*ast.Ident); ok && p.Info.Defs[id] == v {
							rt := fa.AtNode(rs.X).Resolve(p.Term(rs.X))
							base := rt
							if base.Op == "slice" {
								base = base.Args[0]
							}
							if base.Op == "fld" && (base.Obj == p.Field("fecDecoder", "decodeCache") || base.Obj == p.Field("fecDecoder", "flagCache")) {
								okI, why = true, "range key over a cache of the same length"
							}
						}
					}
					return true
				})
			}
		}
		if !okI {
			// an explicit counting loop: 0 <= k < dataShards (<= shardSize, the cache length)
			fs := fa.AtNode(ix)
			recvT := tVar(p.selfVar(dec))
			kv, _ := it.Obj.(*types.Var)
			if (fs.Holds(le(tConst(0), it)) || (it.Op == "var" && p.nonNegCounter(dec, kv))) && (fs.Holds(lt(it, p.F(recvT, "fecDecoder", "dataShards"))) || fs.Holds(lt(it, p.F(recvT, "fecDecoder", "shardSize")))) {
				okI, why = true, "0 <= k < dataShards <= shardSize"
			}
		}
		construct := "index " + exprString(ix)
		cnt[construct]++
		if cnt[construct] > 1 {
			construct = fmt.Sprintf("%s #%d", construct, cnt[construct])
		}
		r.check(okI, "C05.B7", dec.Name, p.Pos(ix), construct, why, "the cache index is neither reduced modulo shardSize nor a range key over a cache")
		return true
	})
	// autotune ring
	n := p.ConstInt("maxAutoTuneSamples")
	for _, fname := range []string{"head", "tail"} {
		f := p.Field("autoTune", fname)
		for _, st := range p.FieldStores(f) {
			okS := false
			if st.Rhs != nil {
				t := p.Term(st.Rhs)
				if t.Op != "%" {
					t = normTerm(p.ExpandHelpers(t)) // ringNext(x) = (x + 1) % N
				}
				if t.Op == "%" && t.Args[1].IsConst() && t.Args[1].Int == n {
					okS = true
				}
			}
			r.check(okS, "C05.B7", st.Fn.Name, p.Pos(st.Node), "store(autoTune."+fname+")", fmt.Sprintf("(x + 1) %% %d", n), "a ring index is stored without reduction modulo the ring size")
		}
	}
	if at, ok := p.Field("autoTune", "pulses").Type().Underlying().(*types.Array); ok {
		r.check(at.Len() == n, "C05.B7", "autoTune", "-", "len(autoTune.pulses)", fmt.Sprintf("%d", n), "the sample ring's length differs from the modulus of its indices")
	}
	// count only incremented under count < N
	for _, st := range p.FieldStores(p.Field("autoTune", "count")) {
		if _, ok := p.incBy1(st.Node); ok {
			fs := p.FactsOf(st.Fn).AtNode(st.Node)
			r.check(fs.Holds(lt(tFld(st.Base, p.Field("autoTune", "count")), tConst(n))), "C05.B7", st.Fn.Name, p.Pos(st.Node), "count++", "under count < maxAutoTuneSamples", "the sample count can exceed the ring size (sortCache[:count] would panic)")
		}
	}
}

// inputFacts: the facts of an input-path function; for package-internal callees
// the lower bounds on the length of their []byte parameters that every call site
// establishes are assumed at entry.
func (p *Prog) inputFacts(fi *FuncInfo) *Facts {
	key := "inputfacts:" + fi.Name
	if v, ok := p.memo[key]; ok {
		return v.(*Facts)
	}
	var assume []*Term
	internal := fi.Name == "(*UDPSession).kcpInput" // entry points proper are analysed without assumptions
	if internal && fi.Decl != nil {
		idx := 0
		for _, fl := range fi.Decl.Type.Params.List {
			for _, nm := range fl.Names {
				v, _ := p.Info.Defs[nm].(*types.Var)
				if v != nil && isByteSliceLike(v.Type()) {
					minAll := int64(-1)
					for _, s := range p.CallsTo(fi.Obj) {
						if idx >= len(s.Call.Args) {
							continue
						}
						cfs := p.FactsOf(s.Fn).AtNode(s.Call)
						m := p.minLenOf(cfs, cfs.Resolve(p.Term(s.Call.Args[idx])), 0)
						if minAll < 0 || m < minAll {
							minAll = m
						}
					}
					if minAll > 0 {
						assume = append(assume, le(tConst(minAll), mk("len", tVar(v))))
					}
				}
				idx++
			}
		}
	}
	var fa *Facts
	if len(assume) > 0 {
		fa = p.Facts(fi, FactOpts{Assume: assume})
	} else {
		fa = p.FactsOf(fi)
	}
	p.memo[key] = fa
	return fa
}

// shardHeapElemMinLen: the minimal length every packet stored in a shard heap is
// known to have, = the minimum over all Push call sites.
func (p *Prog) shardHeapElemMinLen() int64 {
	minAll := int64(-1)
	for _, s := range p.CallsTo(p.Method("shardHeap", "Push")) {
		fs := p.FactsOf(s.Fn).AtNode(s.Call)
		m := p.minLenOf(fs, fs.Resolve(p.Term(s.Call.Args[0])), 0)
		// a local bound once to a (possibly impure) expression such as fecPacket(Get()[:len(in)])
		if id, ok := ast.Unparen(s.Call.Args[0]).(*ast.Ident); ok && m == 0 {
			if v, ok := p.Info.Uses[id].(*types.Var); ok {
				if as := p.Assignments(s.Fn, v); len(as) == 1 && as[0].Rhs != nil {
					afs := p.FactsOf(s.Fn).AtNode(as[0].Node)
					m = p.minLenOf(afs, afs.Resolve(p.Term(as[0].Rhs)), 0)
				}
			}
		}
		if minAll < 0 || m < minAll {
			minAll = m
		}
	}
	if minAll < 0 {
		return 0
	}
	return minAll
}

// isShardHeapElement: base is a local that is only ever assigned from shardHeap.Pop()
// (type-asserted) or ranges over a shard heap's elements.
func (p *Prog) isShardHeapElement(fi *FuncInfo, base ast.Expr) bool {
	id, ok := ast.Unparen(base).(*ast.Ident)
	if !ok {
		return false
	}
	v, _ := p.Info.Uses[id].(*types.Var)
	if v == nil {
		return false
	}
	as := p.Assignments(fi, v)
	if len(as) == 0 {
		return false
	}
	pop := p.Method("shardHeap", "Pop")
	for _, a := range as {
		switch x := a.Node.(type) {
		case *ast.AssignStmt:
			if a.Rhs == nil {
				return false
			}
			e := ast.Unparen(a.Rhs)
			if ta, ok := e.(*ast.TypeAssertExpr); ok {
				e = ast.Unparen(ta.X)
			}
			call, ok := e.(*ast.CallExpr)
			if !ok || p.Callee(call) != pop {
				return false
			}
		case *ast.RangeStmt:
			t := p.Term(x.X)
			if t.Op != "fld" || t.Obj != p.Field("shardHeap", "elements") {
				// ranging over a local filled only by appending popped packets
				if t.Op == "var" {
					lv := t.Obj.(*types.Var)
					okAll := true
					n := 0
					for _, la := range p.Assignments(fi, lv) {
						if la.Rhs == nil {
							continue
						}
						lt := p.Term(la.Rhs)
						if lt.Op == "builtin:append" && len(lt.Args) == 2 {
							n++
							if ap, ok := ast.Unparen(la.Rhs).(*ast.CallExpr); ok && len(ap.Args) == 2 && p.isShardHeapElement(fi, ap.Args[1]) {
								continue
							}
						}
						okAll = false
					}
					if okAll && n > 0 {
						continue
					}
				}
				return false
			}
		default:
			return false
		}
	}
	return true
}

// nonNegativeTerm: lengths, unsigned values, non-negative constants, and the
// size queries of cipher.AEAD (NonceSize, Overhead: non-negative by contract).
func (p *Prog) nonNegativeTerm(t *Term) bool {
	switch t.Op {
	case "const":
		return t.Int >= 0
	case "len", "cap":
		return true
	case "call":
		if f, ok := t.Obj.(*types.Func); ok && (f.Name() == "NonceSize" || f.Name() == "Overhead") {
			return true
		}
	case "var", "fld":
		if b, ok := t.Obj.Type().Underlying().(*types.Basic); ok && b.Info()&types.IsUnsigned != 0 {
			return true
		}
	}
	return false
}

// isMaxLenAccumulator: bound is a local whose every assignment is its zero
// declaration or `v = len(E)` under the test v < len(E).
func (p *Prog) isMaxLenAccumulator(fi *FuncInfo, bound ast.Expr) bool {
	id, ok := ast.Unparen(bound).(*ast.Ident)
	if !ok {
		return false
	}
	v, _ := p.Info.Uses[id].(*types.Var)
	if v == nil || p.isParam(v) {
		return false
	}
	n := 0
	for _, a := range p.Assignments(fi, v) {
		if _, isDecl := a.Node.(*ast.ValueSpec); isDecl && a.Rhs == nil {
			continue
		}
		if a.Rhs == nil {
			return false
		}
		t := p.ExpandHelpers(p.Term(a.Rhs))
		if t.IsConst() && t.Int == 0 {
			continue
		}
		x, okM := p.runningMax(fi, a.Node, tVar(v), a.Rhs)
		if !okM {
			return false
		}
		if x = p.ExpandHelpers(x); x.Op != "len" {
			return false
		}
		n++
	}
	return n > 0
}

// isOldLenBeforeExtension: bound is a local defined once as len(base), and base is
// afterwards only extended by a max-length accumulator.
func (p *Prog) isOldLenBeforeExtension(fi *FuncInfo, bound ast.Expr, base ast.Expr) bool {
	id, ok := ast.Unparen(bound).(*ast.Ident)
	if !ok {
		return false
	}
	v, _ := p.Info.Uses[id].(*types.Var)
	if v == nil {
		return false
	}
	as := p.Assignments(fi, v)
	if len(as) != 1 || as[0].Rhs == nil {
		return false
	}
	t := p.Term(as[0].Rhs)
	if t.Op != "len" || t.Args[0].Key() != p.Term(base).Key() {
		return false
	}
	// every assignment to base between is base = base[:H] with H a max accumulator
	okExt := false
	bad := false
	ast.Inspect(fi.Body, func(n ast.Node) bool {
		st, ok := n.(*ast.AssignStmt)
		if !ok || len(st.Lhs) != 1 || len(st.Rhs) != 1 {
			return true
		}
		if p.Term(st.Lhs[0]).Key() != p.Term(base).Key() {
			return true
		}
		if se, ok := ast.Unparen(st.Rhs[0]).(*ast.SliceExpr); ok && se.Low == nil && se.High != nil && p.Term(se.X).Key() == p.Term(base).Key() && p.isMaxLenAccumulator(fi, se.High) {
			okExt = true
			return true
		}
		// another assignment to the same element matters only if it can happen between the
		// definition of v and a use: def -> assignment without passing def again
		c := p.CFG(fi)
		dp, ok1 := c.PointOf(as[0].Node)
		ap, ok2 := c.PointOf(st)
		if ok1 && ok2 {
			bt := p.Term(base)
			res := c.FindPath(PathQuery{From: Point{dp.B, dp.I + 1}, IsTarget: func(_ ast.Node, q Point) bool { return q == ap }, IsBarrier: func(_ ast.Node, q Point) bool { return q == dp },
				OnBlock: func(b *cfg.Block) (bool, bool) {
					// a new iteration of a range loop whose key/value occurs in the base rebinds it: a different element
					if b.Kind == cfg.KindRangeBody {
						if rs, ok := b.Stmt.(*ast.RangeStmt); ok {
							for _, e := range []ast.Expr{rs.Key, rs.Value} {
								if kid, ok := e.(*ast.Ident); ok {
									if kv := p.Info.Defs[kid]; kv != nil && bt.Contains(tVar(kv)) {
										return false, true
									}
								}
							}
						}
					}
					return false, false
				}})
			if res.Found {
				bad = true
			}
		}
		return true
	})
	return okExt && !bad
}

// checkReceiveBufferSizes: C05.B10.
func checkReceiveBufferSizes(p *Prog, r *Report, fns []*FuncInfo) {
	limit := p.ConstInt("mtuLimit")
	n := 0
	for _, name := range []string{"(*UDPSession).defaultReadLoop", "(*UDPSession).readLoop", "(*Listener).defaultMonitor", "(*Listener).monitor"} {
		fi := p.FuncByName(name)
		if fi == nil {
			continue // not in this build configuration
		}
		inspectBody(fi, func(x ast.Node) bool {
			call, ok := x.(*ast.CallExpr)
			if !ok || p.BuiltinName(call) != "make" || len(call.Args) < 2 {
				return true
			}
			if sl, ok := p.Info.TypeOf(call.Args[0]).Underlying().(*types.Slice); !ok || !types.Identical(sl.Elem(), types.Typ[types.Byte]) {
				return true
			}
			n++
			v, isC := p.constVal(call.Args[1])
			r.check(isC && v <= limit, "C05.B10", fi.Name, p.Pos(call), "receive buffer "+exprString(call), fmt.Sprintf("at most mtuLimit = %d bytes", limit), fmt.Sprintf("the receive loop reads datagrams of up to %s bytes, longer than a pooled buffer (%d): the FEC decoder and the core copy received data into pool buffers cut to the datagram's length (slice bounds panic on one oversized datagram, before any authentication)", exprString(call.Args[1]), limit))
			return true
		})
	}
	if n == 0 {
		r.bad("C05.B10", "read loops", "-", "receive buffers", "no receive buffer allocation found in the read loops", "")
	}
	// slices of fresh pool buffers in the input path
	get := p.Method("bufferPool", "Get")
	for _, fi := range fns {
		fa := p.FactsOf(rootFuncInfo(fi))
		inspectBody(fi, func(x ast.Node) bool {
			se, ok := x.(*ast.SliceExpr)
			if !ok || se.High == nil {
				return true
			}
			call, ok := ast.Unparen(se.X).(*ast.CallExpr)
			if !ok || p.Callee(call) != get {
				return true
			}
			fs := fa.AtNode(se)
			h := p.Term(se.High)
			ok = fs.Holds(le(h, tConst(limit)))
			why := ""
			if !ok {
				// the length of received bytes: len(x) with x a parameter (or a field of one) of an input-path function
				rh := fs.Resolve(h)
				if rh.Op == "len" {
					root := rh.Args[0]
					for root.Op == "fld" || root.Op == "slice" || root.Op == "conv" {
						root = root.Args[0]
					}
					if root.Op == "var" {
						if v, isV := root.Obj.(*types.Var); isV && p.isParam(v) {
							ok = true
							why = "length of received data (bounded by the receive buffers)"
						}
					}
				}
			} else {
				why = "bounded by mtuLimit"
			}
			r.check(ok, "C05.B10", fi.Name, p.Pos(se), "pool buffer cut "+exprString(se), why, "a fresh pool buffer is cut to "+exprString(se.High)+", which is neither bounded by mtuLimit nor the length of received data")
			return true
		})
	}
}

// checkAtomicAlignment: for every call of a 64-bit function of sync/atomic whose operand is &x.f1…fn, the
// offset of the field from the start of the enclosing allocation (the nearest pointer dereference or variable
// in the selector chain), computed with the gc/386 sizes, is a multiple of 8. The first word of an allocated
// struct or of a variable is 64-bit aligned (sync/atomic, "Bugs"); everything else is the programmer's duty.
// Independent of the configuration analysed: the layout is computed for 386 in every run.
func checkAtomicAlignment(p *Prog, r *Report, rule string) {
	sizes := types.SizesFor("gc", "386")
	is64 := func(name string) bool {
		return strings.HasSuffix(name, "Uint64") || strings.HasSuffix(name, "Int64")
	}
	seen := map[string]int{}
	for _, fi := range p.funcs {
		if fi.Body == nil {
			continue
		}
		p.AllCallsIn(fi, func(call *ast.CallExpr) {
			f := p.Callee(call)
			if f == nil || f.Pkg() == nil || f.Pkg().Path() != "sync/atomic" || !is64(f.Name()) || len(call.Args) == 0 {
				return
			}
			if sig, ok := f.Type().(*types.Signature); ok && sig.Recv() != nil {
				return // methods of atomic.Uint64 / atomic.Int64: aligned by the type itself
			}
			ue, ok := ast.Unparen(call.Args[0]).(*ast.UnaryExpr)
			if !ok || ue.Op != token.AND {
				return // a pointer computed elsewhere: not followed
			}
			// walk the selector chain from the operand outwards to the allocation base
			off := int64(0)
			known := true
			desc := exprString(ue.X)
			var e ast.Expr = ast.Unparen(ue.X)
		chain:
			for {
				switch x := e.(type) {
				case *ast.SelectorExpr:
					sel, okS := p.Info.Selections[x]
					if !okS || sel.Kind() != types.FieldVal {
						break chain // package-qualified variable: an allocation of its own
					}
					t := sel.Recv()
					idx := sel.Index()
					for k, i := range idx {
						if pt, isP := t.Underlying().(*types.Pointer); isP {
							// implicit dereference: what lies behind the pointer is a new allocation
							if k > 0 {
								off = 0
							}
							t = pt.Elem()
							if k == 0 {
								// x.X is a pointer: the chain ends here after this selection
							}
						}
						st, isS := t.Underlying().(*types.Struct)
						if !isS {
							known = false
							break chain
						}
						var fields []*types.Var
						for j := 0; j < st.NumFields(); j++ {
							fields = append(fields, st.Field(j))
						}
						offs := sizes.Offsetsof(fields)
						_ = k
						off += offs[i]
						t = st.Field(i).Type()
					}
					// does the chain continue inside the same allocation? only when x.X is itself a field selection of a struct value
					if _, isPtr := p.Info.TypeOf(x.X).Underlying().(*types.Pointer); isPtr {
						break chain
					}
					e = ast.Unparen(x.X)
				case *ast.Ident:
					break chain // a variable: allocation base
				case *ast.IndexExpr:
					// element of an array/slice: aligned when the element size is a multiple of 8 (and, for an array field, the chain continues)
					et := p.Info.TypeOf(x)
					if et == nil || sizes.Sizeof(et)%8 != 0 {
						known = false
					}
					if _, isArr := p.Info.TypeOf(x.X).Underlying().(*types.Array); isArr {
						e = ast.Unparen(x.X)
						continue
					}
					break chain
				case *ast.StarExpr:
					break chain
				default:
					known = false
					break chain
				}
			}
			construct := "atomic." + f.Name() + "(&" + desc + ")"
			seen[construct]++
			if seen[construct] > 1 {
				return // one obligation per operand
			}
			switch {
			case !known:
				r.ok(rule, fi.Name, p.Pos(call), construct, "operand not a plain field chain (alignment follows from the element type or is not followed)")
			case off%8 == 0:
				r.ok(rule, fi.Name, p.Pos(call), construct, fmt.Sprintf("offset %d from the start of its allocation under the gc/386 layout", off))
			default:
				r.bad(rule, fi.Name, p.Pos(call), construct, fmt.Sprintf("the operand lies at offset %d (not a multiple of 8) from the start of its allocation under the gc/386 layout: on 32-bit platforms the operation panics with 'unaligned 64-bit atomic operation' — one datagram that reaches it takes the process down", off), "")
			}
		})
	}
}

// checkStagingBufferGrows: C05.B13.
func checkStagingBufferGrows(p *Prog, r *Report) {
	fi := p.FuncByName("(*UDPSession).Read")
	c := p.CFG(fi)
	fBuf := p.Field("UDPSession", "recvbuf")
	n := 0
	for _, st := range p.FieldStores(fBuf) {
		if rootFuncInfo(st.Fn) != fi || st.Fn != fi || st.Rhs == nil {
			continue
		}
		rt := p.Term(st.Rhs)
		if !(rt.Op == "slice" && rt.Args[0].Op == "fld" && rt.Args[0].Obj == fBuf && rt.Args[1] == nil && rt.Args[2] != nil && !rt.Args[2].IsConst()) {
			continue
		}
		n++
		size := rt.Args[2]
		buf := rt.Args[0]
		pt, _ := c.PointOf(st.Node)
		capT := mk("cap", buf)
		// barrier: entering the false edge of cap(recvbuf) < size (or the true edge of cap >= size), or a store recvbuf = make([]byte, >= size)
		okEdge := func(from, to *cfg.Block) bool { return true }
		guardBlocks := map[*cfg.Block]bool{}
		for _, b := range c.live {
			ct := c.CondTerm(b)
			if ct == nil || len(b.Succs) != 2 {
				continue
			}
			l, ok := leZero(stripConvs(ct))
			w, _ := leZero(lt(capT, size)) // cap - size + 1 <= 0
			if ok && l.Equal(w) {
				guardBlocks[b.Succs[1]] = true // cap >= size here
				// the true arm must re-allocate: checked as a store barrier below
			}
			w2, _ := leZero(le(size, capT))
			if ok && l.Equal(w2) {
				guardBlocks[b.Succs[0]] = true
			}
		}
		isRealloc := func(nd ast.Node, _ Point) bool {
			as, ok := nd.(*ast.AssignStmt)
			if !ok {
				return false
			}
			for i, l := range as.Lhs {
				if p.Term(l).Key() != buf.Key() || i >= len(as.Rhs) {
					continue
				}
				mt := p.Term(as.Rhs[i])
				if mt.Op == "builtin:make" && len(mt.Args) >= 2 {
					ln := mt.Args[len(mt.Args)-1]
					if ln.Key() == size.Key() || (ln.Op == "max" && (ln.Args[0].Key() == size.Key() || ln.Args[1].Key() == size.Key())) {
						return true
					}
				}
			}
			return false
		}
		res := c.FindPath(PathQuery{From: Point{c.Entry(), 0}, IsTarget: func(_ ast.Node, q Point) bool { return q == pt }, IsBarrier: isRealloc, EdgeOK: okEdge,
			OnBlock: func(b *cfg.Block) (bool, bool) { return false, guardBlocks[b] }})
		if res.Found {
			r.bad("C05.B13", fi.Name, p.Pos(st.Node), "recvbuf = "+exprString(st.Rhs), "a path reaches this reslice without the capacity test cap(recvbuf) >= "+pretty(size.Key())+" and without re-allocating: a message longer than the buffer (the peer chooses the fragment count) makes the slice expression panic in Read while the session mutex is held", c.DescribePath(res.Path))
		} else {
			r.ok("C05.B13", fi.Name, p.Pos(st.Node), "recvbuf = "+exprString(st.Rhs), "every path passes cap(recvbuf) >= size or a re-allocation with size")
		}
	}
	if n == 0 {
		r.ok("C05.B13", fi.Name, p.Pos(fi.Node), "staging buffer", "Read does not reslice a staging buffer to the message size")
	}
}

// backlogDisjunct: the condition is, or has as one alternative of a disjunction, X <= len(acklist) — the branch is
// taken whenever the backlog has reached X.
func backlogDisjunct(ct *Term, fAck *types.Var) bool {
	if ct == nil {
		return false
	}
	if ct.Op == "||" {
		for _, a := range ct.Args {
			if backlogDisjunct(a, fAck) {
				return true
			}
		}
		return false
	}
	return ct.Op == "<=" && len(ct.Args) == 2 && ct.Args[1].Op == "len" && termHasField(ct.Args[1], fAck)
}
