package main

import (
	"encoding/json"
	"fmt"
	"os"
	"path/filepath"
	"sort"
	"strings"
	"time"
)

// Status of one obligation.
type Status string

const (
	Discharged Status = "discharged"
	Violation  Status = "violation"
	Known      Status = "known-finding"
	Undecided  Status = "undecided"
)

// Obligation is one instance of a rule at one construct.
type Obligation struct {
	Property  string `json:"property"`
	Rule      string `json:"rule"`
	Config    string `json:"config"`
	Func      string `json:"function"`
	Pos       string `json:"pos"`
	Construct string `json:"construct"` // stable key part: what is checked (no line numbers)
	Status    Status `json:"status"`
	Detail    string `json:"detail,omitempty"`  // what was established / what is missing
	Witness   string `json:"witness,omitempty"` // path / call chain for violations
}

func (o *Obligation) Key() string {
	return fmt.Sprintf("%s/%s/%s:%s", o.Property, o.Rule, o.Func, o.Construct)
}

// RuleInfo documents one rule.
type RuleInfo struct {
	ID    string `json:"id"`
	Text  string `json:"text"`
	Floor int    `json:"floor"` // non-vacuity floor (min. number of instances expected on linux64)
}

// Report collects obligations of one property run.
type Report struct {
	Property    string
	Tier        string
	Rules       []RuleInfo
	Obs         []*Obligation
	Configs     []string
	FuncsAn     map[string]bool
	Notes       []string
	Assume      []string
	Explain     string
	Extra       map[string]any
	curCfg      string
	broken      []string
	EvidenceDir string
}

func newReport(prop, tier string) *Report {
	return &Report{Property: prop, Tier: tier, FuncsAn: map[string]bool{}, Extra: map[string]any{}}
}

func (r *Report) rule(id, text string, floor int) {
	for _, ri := range r.Rules {
		if ri.ID == id {
			return
		}
	}
	r.Rules = append(r.Rules, RuleInfo{id, text, floor})
}

func (r *Report) add(rule, fn, pos, construct string, st Status, detail, witness string) *Obligation {
	o := &Obligation{Property: r.Property, Rule: rule, Config: r.curCfg, Func: fn, Pos: pos, Construct: construct, Status: st, Detail: detail, Witness: witness}
	r.Obs = append(r.Obs, o)
	if fn != "" {
		r.FuncsAn[fn] = true
	}
	return o
}

func (r *Report) ok(rule, fn, pos, construct, detail string) {
	r.add(rule, fn, pos, construct, Discharged, detail, "")
}

func (r *Report) bad(rule, fn, pos, construct, detail, witness string) {
	r.add(rule, fn, pos, construct, Violation, detail, witness)
}

func (r *Report) undecided(rule, fn, pos, construct, detail string) {
	r.add(rule, fn, pos, construct, Undecided, detail, "")
}

// check is a convenience: discharged if cond, else violation.
func (r *Report) check(cond bool, rule, fn, pos, construct, okDetail, badDetail string) bool {
	if cond {
		r.ok(rule, fn, pos, construct, okDetail)
	} else {
		r.bad(rule, fn, pos, construct, badDetail, "")
	}
	return cond
}

func (r *Report) brokenf(format string, args ...any) {
	r.broken = append(r.broken, fmt.Sprintf(format, args...))
}

// ---------------------------------------------------------------- known findings

type KnownFinding struct {
	Kind     string `json:"kind"` // "known" or "fixed"
	Property string `json:"property"`
	Rule     string `json:"rule"`
	Key      string `json:"key"` // Obligation.Key() (without config)
	Config   string `json:"config,omitempty"`
	Commit   string `json:"commit,omitempty"`
	What     string `json:"what"`
	Line     string `json:"line,omitempty"` // the "fixed: property=... " line for fixed entries
}

type KnownFile struct {
	Comment  string         `json:"comment"`
	Findings []KnownFinding `json:"findings"`
}

func loadKnown(path string) []KnownFinding {
	b, err := os.ReadFile(path)
	if err != nil {
		return nil
	}
	var kf KnownFile
	if err := json.Unmarshal(b, &kf); err != nil {
		brokenCheck("known_findings.json does not parse: %v", err)
	}
	return kf.Findings
}

// ---------------------------------------------------------------- finish

type evidence struct {
	PropertyID  string         `json:"property_id"`
	Tier        string         `json:"tier"`
	Seed        int            `json:"seed"`
	Level       string         `json:"level"`
	Coverage    map[string]any `json:"coverage"`
	Assumptions []string       `json:"assumptions"`
	WallS       float64        `json:"wall_s"`
	Violations  int            `json:"violations"`
}

func (r *Report) finish(verifDir string, start time.Time, seed int) int {
	known := loadKnown(filepath.Join(verifDir, "known_findings.json"))
	// apply known findings
	for _, o := range r.Obs {
		if o.Status != Violation {
			continue
		}
		for _, k := range known {
			if k.Kind == "known" && k.Property == o.Property && k.Key == o.Key() && (k.Config == "" || k.Config == o.Config) {
				o.Status = Known
				o.Detail = o.Detail + " [known finding: " + k.What + "]"
			}
		}
	}
	perRule := map[string]map[string]int{}
	instLinux := map[string]int{}
	nViol, nUndec, nKnown, nDis := 0, 0, 0, 0
	for _, o := range r.Obs {
		if perRule[o.Rule] == nil {
			perRule[o.Rule] = map[string]int{}
		}
		perRule[o.Rule][string(o.Status)]++
		perRule[o.Rule]["instances"]++
		if o.Config == r.Configs[0] {
			instLinux[o.Rule]++
		}
		switch o.Status {
		case Violation:
			nViol++
		case Undecided:
			nUndec++
		case Known:
			nKnown++
		case Discharged:
			nDis++
		}
	}
	// vacuity: floors are checked on the first (reference) configuration
	var vacuous []string
	for _, ri := range r.Rules {
		if instLinux[ri.ID] < ri.Floor {
			vacuous = append(vacuous, fmt.Sprintf("%s (found %d, floor %d)", ri.ID, instLinux[ri.ID], ri.Floor))
		}
	}

	sort.SliceStable(r.Obs, func(i, j int) bool { return r.Obs[i].Status == Violation && r.Obs[j].Status != Violation })

	evDir := filepath.Join(verifDir, "evidence")
	if r.EvidenceDir != "" {
		evDir = r.EvidenceDir
	}
	replayDir := filepath.Join(evDir, "replay")
	os.MkdirAll(replayDir, 0o755)
	// remove stale replay files of this property
	if old, _ := filepath.Glob(filepath.Join(replayDir, r.Property+"-*.json")); old != nil {
		for _, f := range old {
			os.Remove(f)
		}
	}
	if os.Getenv("KCPVERIF_DUMP_OBS") != "" {
		for _, o := range r.Obs {
			fmt.Printf("OB %-10s %-8s %-34s %-16s %s :: %s\n", o.Rule, o.Status, o.Func, o.Pos, o.Construct, o.Detail)
		}
	}
	knownPrinted := map[string]bool{}
	vi := 0
	for _, o := range r.Obs {
		switch o.Status {
		case Violation:
			vi++
			rp := filepath.Join(replayDir, fmt.Sprintf("%s-%s-%d.json", r.Property, strings.ReplaceAll(o.Rule, ".", "_"), vi))
			b, _ := json.MarshalIndent(o, "", " ")
			os.WriteFile(rp, b, 0o644)
			fmt.Printf("%s: [%s] %s (%s): %s — %s\n", o.Pos, o.Rule, o.Func, o.Config, o.Construct, o.Detail)
			if o.Witness != "" {
				fmt.Printf("    witness: %s\n", o.Witness)
			}
			fmt.Printf("VIOLATION property=%s replay=%s\n", r.Property, rp)
		case Known:
			if !knownPrinted[o.Key()] {
				knownPrinted[o.Key()] = true
				fmt.Printf("KNOWN-FINDING: property=%s %s at %s: %s\n", r.Property, o.Key(), o.Pos, o.Detail)
			}
		case Undecided:
			fmt.Printf("UNDECIDED property=%s rule=%s site=%s %s: %s — %s\n", r.Property, o.Rule, o.Pos, o.Func, o.Construct, o.Detail)
		}
	}
	for _, v := range vacuous {
		fmt.Printf("VACUOUS property=%s rule=%s\n", r.Property, v)
	}
	for _, b := range r.broken {
		fmt.Printf("BROKEN-CHECK property=%s %s\n", r.Property, b)
	}

	// samples: up to 6 obligations, preferring distinct rules
	var samples []any
	seen := map[string]bool{}
	for _, o := range r.Obs {
		if len(samples) >= 8 {
			break
		}
		if seen[o.Rule] {
			continue
		}
		seen[o.Rule] = true
		samples = append(samples, o)
	}
	var funcs []string
	for f := range r.FuncsAn {
		funcs = append(funcs, f)
	}
	sort.Strings(funcs)
	distinct := map[string]bool{}
	for _, o := range r.Obs {
		distinct[o.Key()] = true
	}
	cov := map[string]any{
		"explanation":         r.Explain,
		"obligations":         len(r.Obs),
		"discharged":          nDis,
		"undecided":           nUndec,
		"known_findings":      nKnown,
		"violations":          nViol,
		"evaluations":         len(r.Obs),
		"distinct_nontrivial": len(distinct),
		"rule":                "one obligation per (rule, construct, configuration) found by enumerating the type-checked program; distinct = distinct (rule, function, construct) keys; every obligation is non-trivial in that it names a concrete construct of /repo's current source",
		"samples":             samples,
		"per_rule":            perRule,
		"rules":               r.Rules,
		"configurations":      r.Configs,
		"functions_analysed":  funcs,
		"checker_cmd":         fmt.Sprintf("./run.sh %s %s", r.Property, r.Tier),
		"trusted_base":        []string{"go/types, go/cfg, go/ssa, VTA call graph of golang.org/x/tools v0.50.0", "the rule texts in coverage.rules", "anchors resolved by type-checked lookup"},
		"exhaustive":          true,
		"notes":               r.Notes,
	}
	for k, v := range r.Extra {
		cov[k] = v
	}
	if r.Tier == "thorough" && r.EvidenceDir == "" {
		if b, err := os.ReadFile(filepath.Join(verifDir, "evidence", "selftest", r.Property+".json")); err == nil {
			var st any
			if json.Unmarshal(b, &st) == nil {
				cov["checker_selftest"] = st
			}
		}
	}
	ev := evidence{PropertyID: r.Property, Tier: r.Tier, Seed: seed, Level: "other", Coverage: cov, Assumptions: r.Assume, WallS: time.Since(start).Seconds(), Violations: nViol}
	if ev.Assumptions == nil {
		ev.Assumptions = []string{}
	}
	b, _ := json.MarshalIndent(ev, "", " ")
	os.MkdirAll(evDir, 0o755)
	if err := os.WriteFile(filepath.Join(evDir, r.Property+".json"), b, 0o644); err != nil {
		fmt.Printf("BROKEN-CHECK cannot write evidence: %v\n", err)
		return 2
	}
	fmt.Printf("%s %s: configs=%v obligations=%d discharged=%d known=%d undecided=%d violations=%d functions=%d wall=%.1fs\n",
		r.Property, r.Tier, r.Configs, len(r.Obs), nDis, nKnown, nUndec, nViol, len(funcs), time.Since(start).Seconds())
	if nViol > 0 {
		return 1
	}
	if nUndec > 0 || len(vacuous) > 0 || len(r.broken) > 0 {
		return 2
	}
	return 0
}
