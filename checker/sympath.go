package main

import (
	"go/ast"
	"go/token"
	"go/types"

	"golang.org/x/tools/go/cfg"
)

// A SymPath is one path through a small loop-free function: the branch conditions taken (with the
// locals assigned on the way substituted by their values, so that everything is expressed over the
// function's inputs — parameters, receiver fields) and the returned values expressed the same way.
type SymPath struct {
	Conds  []*Term
	Ret    []*Term
	Stores []SymStore // stores to fields / elements on the way, in order
	Pos    token.Pos
}

// SymStore is a store to something other than a local: the place and the value, both over the function's inputs.
type SymStore struct {
	Lhs, Val *Term
	Node     ast.Node
}

// SymPaths enumerates the paths of fi when fi is loop-free and consists of assignments to locals, branches
// and returns only (stores to fields or elements are recorded in order, and are assumed not to be read back
// by the function; no calls used as statements); ok is false otherwise —
// the caller then falls back to its other means or reports the function as not understood.
func (p *Prog) SymPaths(fi *FuncInfo) (paths []SymPath, ok bool) {
	if fi == nil || fi.Body == nil {
		return nil, false
	}
	c := p.CFG(fi)
	ok = true
	var named []*types.Var
	if fi.Decl != nil && fi.Decl.Type.Results != nil {
		for _, fl := range fi.Decl.Type.Results.List {
			for _, nm := range fl.Names {
				if v, isV := p.Info.Defs[nm].(*types.Var); isV {
					named = append(named, v)
				}
			}
		}
	}
	onPath := map[*cfg.Block]bool{}
	var walk func(b *cfg.Block, env map[types.Object]*Term, conds []*Term, stores []SymStore)
	walk = func(b *cfg.Block, env map[types.Object]*Term, conds []*Term, stores []SymStore) {
		if !ok || len(paths) > 64 {
			ok = ok && len(paths) <= 64
			return
		}
		if onPath[b] {
			ok = false // a loop
			return
		}
		onPath[b] = true
		defer func() { onPath[b] = false }()
		env2 := map[types.Object]*Term{}
		for k, v := range env {
			env2[k] = v
		}
		env = env2
		val := func(e ast.Expr) *Term { return normTerm(p.Term(e).Subst(env)) }
		local := func(e ast.Expr) types.Object {
			id, isId := ast.Unparen(e).(*ast.Ident)
			if !isId {
				return nil
			}
			if id.Name == "_" {
				return nil
			}
			o := p.Info.Defs[id]
			if o == nil {
				o = p.Info.Uses[id]
			}
			if v, isV := o.(*types.Var); isV && !v.IsField() && v.Parent() != p.Types.Scope() {
				return v
			}
			return nil
		}
		for i, nd := range b.Nodes {
			if i == len(b.Nodes)-1 && len(b.Succs) == 2 {
				break // the branch condition
			}
			switch s := nd.(type) {
			case *ast.AssignStmt:
				vals := make([]*Term, len(s.Lhs))
				switch {
				case len(s.Lhs) == len(s.Rhs):
					for k := range s.Rhs {
						vals[k] = val(s.Rhs[k])
					}
				case len(s.Rhs) == 1 && (s.Tok == token.ASSIGN || s.Tok == token.DEFINE):
					// v, ok := f(): the k-th result of the call
					rv := val(s.Rhs[0])
					for k := range s.Lhs {
						vals[k] = &Term{Op: "proj", Int: int64(k), Args: []*Term{rv}}
					}
				default:
					ok = false
					return
				}
				for k, l := range s.Lhs {
					if id, isId := l.(*ast.Ident); isId && id.Name == "_" {
						continue
					}
					o := local(l)
					if o == nil {
						// a store to a field or element: recorded, with plain assignment only
						if s.Tok != token.ASSIGN {
							ok = false
							return
						}
						stores = append(append([]SymStore{}, stores...), SymStore{Lhs: val(l), Val: vals[k], Node: s})
						continue
					}
					switch s.Tok {
					case token.ASSIGN, token.DEFINE:
						env[o] = vals[k]
					case token.ADD_ASSIGN:
						env[o] = normTerm(mk("+", val(l), vals[k]))
					case token.SUB_ASSIGN:
						env[o] = normTerm(mk("-", val(l), vals[k]))
					default:
						ok = false
						return
					}
				}
			case *ast.IncDecStmt:
				o := local(s.X)
				if o == nil {
					ok = false
					return
				}
				op := "+"
				if s.Tok == token.DEC {
					op = "-"
				}
				env[o] = normTerm(mk(op, val(s.X), tConst(1)))
			case *ast.ReturnStmt:
				sp := SymPath{Conds: conds, Stores: stores, Pos: s.Pos()}
				if len(s.Results) == 0 {
					for _, v := range named {
						sp.Ret = append(sp.Ret, normTerm(tVar(v).Subst(env)))
					}
				}
				for _, e := range s.Results {
					sp.Ret = append(sp.Ret, val(e))
				}
				paths = append(paths, sp)
				return
			case *ast.DeclStmt:
				gd, isG := s.Decl.(*ast.GenDecl)
				if !isG || gd.Tok != token.VAR {
					continue
				}
				for _, spec := range gd.Specs {
					vs := spec.(*ast.ValueSpec)
					for k, nm := range vs.Names {
						o := p.Info.Defs[nm]
						if o == nil {
							continue
						}
						if k < len(vs.Values) {
							env[o] = val(vs.Values[k])
						} else if b, isB := o.Type().Underlying().(*types.Basic); isB && b.Info()&types.IsNumeric != 0 {
							env[o] = tConst(0)
						}
					}
				}
			case ast.Expr:
				// an expression evaluated for a later branch (switch tag, short-circuit operand): no effect
			case *ast.ExprStmt, *ast.GoStmt, *ast.DeferStmt, *ast.SendStmt:
				ok = false
				return
			default:
				// labels, empty statements and the like
			}
		}
		succs := c.liveSuccs(b)
		switch {
		case len(b.Succs) == 2:
			ct := c.CondTerm(b)
			if ct == nil {
				ok = false
				return
			}
			ct = normTerm(ct.Subst(env))
			walk(b.Succs[0], env, append(append([]*Term{}, conds...), ct), stores)
			walk(b.Succs[1], env, append(append([]*Term{}, conds...), Negate(ct)), stores)
		case len(succs) == 1:
			walk(succs[0], env, conds, stores)
		case len(succs) == 0:
			// fell off the end of a function without results
			sp := SymPath{Conds: conds, Stores: stores}
			for _, v := range named {
				sp.Ret = append(sp.Ret, normTerm(tVar(v).Subst(env)))
			}
			paths = append(paths, sp)
		default:
			ok = false
		}
	}
	walk(c.Entry(), map[types.Object]*Term{}, nil, nil)
	if !ok {
		return nil, false
	}
	return paths, true
}

// leZero normalises an integer comparison atom to the form L <= 0 (a < b is a - b + 1 <= 0); ok is false for
// anything that is not an order comparison.
func leZero(a *Term) (*Linear, bool) {
	if len(a.Args) != 2 {
		return nil, false
	}
	x, y := Lin(a.Args[0]), Lin(a.Args[1])
	l := newLinear()
	switch a.Op {
	case "<=":
		l.addScaled(x, 1)
		l.addScaled(y, -1)
	case "<":
		l.addScaled(x, 1)
		l.addScaled(y, -1)
		l.C++
	case ">=":
		l.addScaled(y, 1)
		l.addScaled(x, -1)
	case ">":
		l.addScaled(y, 1)
		l.addScaled(x, -1)
		l.C++
	default:
		return nil, false
	}
	return l, true
}

// pathImplies: one of the path's conditions is the integer comparison `want` (compared in the normal form L <= 0).
func pathImplies(conds []*Term, want *Term) bool {
	w, ok := leZero(want)
	if !ok {
		return false
	}
	for _, ct := range conds {
		for _, a := range Conjuncts(ct) {
			if l, okl := leZero(a); okl && l.Equal(w) {
				return true
			}
		}
	}
	return false
}

// expandBoolHelpers: the conjunction cjs with every atom that is a call of a boolean helper of the package
// (unexported, loop-free, no side effects) replaced by the helper's meaning — one alternative per path of the
// helper that can return true: the path's conditions (plus the returned expression when it is not the constant
// true), with the parameters replaced by the arguments. A negated helper call is left as it is. The result
// is a disjunction of conjunctions equivalent to cjs.
func (p *Prog) expandBoolHelpers(cjs []*Term) [][]*Term {
	alts := [][]*Term{{}}
	for _, a := range cjs {
		var repl [][]*Term
		if a.Op == "call" {
			if f, ok := a.Obj.(*types.Func); ok && f.Pkg() == p.Types && !f.Exported() {
				if h := p.FuncOf(f); h != nil && h.Decl != nil {
					if sps, understood := p.SymPaths(h); understood {
						var params []*types.Var
						if rv := p.recvVar(h); rv != nil {
							params = append(params, rv)
						}
						for i := 0; ; i++ {
							o := h.paramObj(p, i)
							if o == nil {
								break
							}
							v, _ := o.(*types.Var)
							params = append(params, v)
						}
						if len(params) == len(a.Args) {
							m := map[types.Object]*Term{}
							for i, v := range params {
								if v != nil {
									m[v] = a.Args[i]
								}
							}
							okAll := true
							for _, sp := range sps {
								if len(sp.Stores) > 0 || len(sp.Ret) != 1 {
									okAll = false
									break
								}
								if sp.Ret[0].Op == "false" {
									continue
								}
								var d []*Term
								for _, ct := range sp.Conds {
									d = append(d, Conjuncts(normTerm(ct.Subst(m)))...)
								}
								if sp.Ret[0].Op != "true" {
									d = append(d, Conjuncts(normTerm(sp.Ret[0].Subst(m)))...)
								}
								repl = append(repl, d)
							}
							if !okAll {
								repl = nil
							}
						}
					}
				}
			}
		}
		if repl == nil {
			repl = [][]*Term{{a}}
		}
		var next [][]*Term
		for _, pre := range alts {
			for _, d := range repl {
				next = append(next, append(append([]*Term{}, pre...), d...))
			}
		}
		alts = next
		if len(alts) > 32 {
			return [][]*Term{cjs}
		}
	}
	return alts
}
