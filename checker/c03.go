package main

import (
	"fmt"
	"go/ast"
	"go/token"
	"go/types"
	"golang.org/x/tools/go/cfg"
)

func init() {
	register(&propCheck{
		id:  "C03",
		run: checkC03,
		explain: "Decided are the probe-flag life cycle and the window advertisement, which are structural: a WASK is answered (ASK_TELL set on every path of its arm); flush emits a WASK iff ASK_SEND and a WINS iff " +
			"ASK_TELL, reaches both emission tests on every path from its entry and clears the flags only afterwards; with a zero remote window the probe timer is initialised or, when it expired, re-armed " +
			"with the wait clamped to IKCP_PROBE_LIMIT and ASK_SEND set; otherwise both timer fields are reset; Recv announces the re-opened window when the queue was full before popping and has room " +
			"after; rmt_wnd is stored only from regular packets' headers; every emitted segment carries wnd_unused(); duplicates of delivered segments are re-acknowledged (the only carrier of una and wnd " +
			"when earlier ACKs were lost). That transfer resumes after arbitrary loss of probes is liveness and is not decided.",
		assume: []string{
			"resumption needs the probe timer to fire (runtime) and is not decided",
			"absence of data loss during the stall is covered by the C01/C04 clauses",
		},
	})
}

func checkC03(p *Prog, r *Report) {
	r.rule("C03.P1", "the WASK arm of Input sets probe |= IKCP_ASK_TELL on every path", 1)
	r.rule("C03.P2", "flush encodes a WASK segment iff probe & ASK_SEND and a WINS segment iff probe & ASK_TELL; both tests are reached on every path from the entry of flush; probe = 0 comes after both", 3)
	r.rule("C03.P3", "with rmt_wnd == 0 flush initialises the probe timer or, when it expired, sets ASK_SEND and re-arms it with probe_wait clamped to IKCP_PROBE_LIMIT; otherwise it resets ts_probe and probe_wait", 3)
	r.rule("C03.P4", "Recv sets ASK_TELL when the delivery queue was full before popping and has room afterwards", 1)
	r.rule("C03.P5", "rmt_wnd is stored only by the constructor and, in Input, from the header's wnd under pktType == IKCP_PACKET_REGULAR", 2)
	r.rule("C03.P6", "every emitted segment's wnd comes from wnd_unused() (= C04.W3)", 2)
	r.rule("C03.P9", "with congestion control on, the sender can always resume: a clamp of cwnd to another quantity stores a value >= 1 (so an advertised window of 0 cannot zero it), and if the constructor leaves cwnd below 1 every congestion-controlled flush ends with cwnd >= 1", 2)
	r.rule("C03.P11", "a delivered window update restarts the sender at once: the interval flush returns (which re-arms the session's updater) is never stretched beyond kcp.interval, also not while the peer's window is closed (= C18.R8)", 2)
	r.rule("C03.P13", "the stalled sender's application is stopped too: in WriteBuffers every kcp.Send is admitted only on the true edge of WaitSnd() < snd_wnd taken in the same critical section, and the refused path blocks (= C04.W6) — a shortcut around the gate (stream-mode tail merging, say) lets snd_queue grow without bound while the peer does not read", 2)
	r.rule("C03.P12", "segments in flight when the window closed are retransmitted until acknowledged, however long the reader pauses: the timeout arm of flush has no retry cap (= C02.A16)", 1)
	r.rule("C03.P10", "transfer resumes: the room a reader makes is used — after Recv has taken segments every path runs the loop that promotes parked (already acknowledged) segments from rcv_buf, and that loop is entered whenever rcv_buf holds something (= C02.A11)", 1)
	r.rule("C03.P8", "no data is lost under back-pressure: a segment that Input acknowledges is stored unless it is outside the window or a duplicate (= C02.A1b)", 1)
	r.rule("C03.P7", "duplicates of already delivered segments are re-acknowledged: ack_push is controlled by the upper window edge only", 1)

	askSend := p.ConstInt("IKCP_ASK_SEND")
	askTell := p.ConstInt("IKCP_ASK_TELL")
	fProbe := p.Field("KCP", "probe")

	// ---- P1
	input := p.FuncOf(p.Method("KCP", "Input"))
	{
		c := p.CFG(input)
		wask := p.ConstInt("IKCP_CMD_WASK")
		var armBlk Point
		found := false
		for _, b := range c.live {
			ct := c.CondTerm(b)
			if ct != nil && ct.Op == "==" && (ct.Args[0].IsConst() && ct.Args[0].Int == wask) && len(b.Succs) == 2 {
				armBlk, found = Point{b.Succs[0], 0}, true
			}
		}
		if !found {
			r.bad("C03.P1", input.Name, p.Pos(input.Node), "WASK arm", "Input has no arm for IKCP_CMD_WASK", "")
		} else {
			isSet := func(n ast.Node, _ Point) bool {
				as, ok := n.(*ast.AssignStmt)
				if !ok || len(as.Lhs) != 1 || len(as.Rhs) != 1 {
					return false
				}
				if t := p.Term(as.Lhs[0]); t.Op != "fld" || t.Obj != fProbe {
					return false
				}
				v := p.Term(as.Rhs[0])
				return as.Tok == token.OR_ASSIGN && v.IsConst() && v.Int&askTell != 0
			}
			// every path from the arm to the end of the switch (next read of the loop / exit) sets the flag
			res := c.FindPath(PathQuery{From: armBlk, ExitIsTarget: true, IsBarrier: isSet,
				IsTarget: func(n ast.Node, _ Point) bool {
					// leaving the arm: the statement after the switch (inSegs++)
					if ids, ok := n.(*ast.IncDecStmt); ok {
						_ = ids
						return true
					}
					return false
				}})
			r.check(!res.Found, "C03.P1", input.Name, p.Pos(armBlk.B.Nodes[0]), "WASK is answered", "probe |= IKCP_ASK_TELL on every path of the arm", "a window probe can go unanswered: the sender stays at rmt_wnd == 0")
		}
	}

	// ---- P2
	flush := p.FuncOf(p.Method("KCP", "flush"))
	c := p.CFG(flush)
	recv := p.selfVar(flush)
	probe := tFld(tVar(recv), fProbe)
	type emit struct {
		flag int64
		cmd  int64
		name string
	}
	var tests []Point
	for _, e := range []emit{{askSend, p.ConstInt("IKCP_CMD_WASK"), "WASK"}, {askTell, p.ConstInt("IKCP_CMD_WINS"), "WINS"}} {
		want := ne(normTerm(mk("&", probe, tConst(e.flag))), tConst(0))
		var tb *Point
		for _, b := range c.live {
			if ct := c.CondTerm(b); ct != nil && ct.Key() == want.Key() {
				q := Point{b, len(b.Nodes) - 1}
				tb = &q
			}
		}
		// table-driven form: for _, pc := range [...]T{{FLAG, CMD, …}, …} { if probe&pc.flag != 0 { seg.cmd = pc.cmd; …encode } }
		// — decided per row: with the row's constants substituted for the fields of the loop variable the test is
		// the flag test and the stored command is the row's command
		var rowSubst map[string]*Term
		var tableHdr *Point // header of the table loop (a loop over a non-empty literal runs every row)
		if tb == nil {
			ast.Inspect(flush.Body, func(x ast.Node) bool {
				rs, ok := x.(*ast.RangeStmt)
				if !ok || rs.Value == nil || tb != nil {
					return true
				}
				lit, ok := ast.Unparen(rs.X).(*ast.CompositeLit)
				pv := identVar(p, rs.Value)
				if !ok || pv == nil {
					return true
				}
				for _, el := range lit.Elts {
					row, isRow := ast.Unparen(el).(*ast.CompositeLit)
					if !isRow {
						continue
					}
					st, isSt := pv.Type().Underlying().(*types.Struct)
					if !isSt {
						continue
					}
					m := map[string]*Term{}
					for i, fe := range row.Elts {
						var fv *types.Var
						val := fe
						if kv, isKV := fe.(*ast.KeyValueExpr); isKV {
							if id, isId := kv.Key.(*ast.Ident); isId {
								fv, _ = p.Info.Uses[id].(*types.Var)
							}
							val = kv.Value
						} else if i < st.NumFields() {
							fv = st.Field(i)
						}
						if fv == nil {
							continue
						}
						if cv := p.Term(val); cv.IsConst() {
							m[tFld(tVar(pv), fv).Key()] = tConst(cv.Int)
						}
					}
					for _, b := range c.live {
						ct := c.CondTerm(b)
						if ct == nil || !nodeWithin(p, lastNode(b), rs.Body) {
							continue
						}
						sub := ct
						for k, v := range m {
							sub = replaceByKey(sub, k, v)
						}
						if deepNorm(sub).Key() == want.Key() {
							q := Point{b, len(b.Nodes) - 1}
							tb = &q
							rowSubst = m
							for _, hb := range c.live {
								if hb.Kind == cfg.KindRangeLoop && hb.Stmt == ast.Stmt(rs) {
									h := Point{hb, 0}
									tableHdr = &h
								}
							}
						}
					}
				}
				return true
			})
		}
		if tb == nil {
			r.bad("C03.P2", flush.Name, p.Pos(flush.Node), e.name+" emission test", "flush has no test (probe & flag) != 0 for "+e.name, "")
			continue
		}
		reach := *tb
		if tableHdr != nil {
			reach = *tableHdr
		}
		tests = append(tests, reach)
		// the true successor stores cmd = e.cmd and encodes
		okCmd, okEnc := false, false
		for _, nd := range tb.B.Succs[0].Nodes {
			if as, ok := nd.(*ast.AssignStmt); ok && len(as.Lhs) == 1 && len(as.Rhs) == 1 {
				if lt := p.Term(as.Lhs[0]); lt.Op == "fld" && lt.Obj == p.Field("segment", "cmd") {
					v := p.Term(as.Rhs[0])
					for k, cv := range rowSubst {
						v = deepNorm(replaceByKey(v, k, cv))
					}
					if v.IsConst() && v.Int == e.cmd {
						okCmd = true
					}
				}
			}
			inspectShallow(nd, func(x ast.Node) bool {
				if call, ok := x.(*ast.CallExpr); ok && p.Callee(call) == p.Method("segment", "encode") {
					okEnc = true
				}
				// a local emit helper: emitProbe(IKCP_CMD_WASK, ...) whose body stores its parameter into cmd and encodes
				if call, ok := x.(*ast.CallExpr); ok {
					if id, isId := ast.Unparen(call.Fun).(*ast.Ident); isId {
						if v, isV := p.Info.Uses[id].(*types.Var); isV {
							as := p.Assignments(flush, v)
							if len(as) == 1 && as[0].Rhs != nil {
								if lit, isLit := ast.Unparen(as[0].Rhs).(*ast.FuncLit); isLit {
									if li := p.funcBy[lit]; li != nil {
										cmdParam := -1
										enc := false
										ast.Inspect(lit.Body, func(y ast.Node) bool {
											if a2, ok := y.(*ast.AssignStmt); ok && len(a2.Lhs) == 1 && len(a2.Rhs) == 1 {
												if lt := p.Term(a2.Lhs[0]); lt.Op == "fld" && lt.Obj == p.Field("segment", "cmd") {
													if rt := p.Term(a2.Rhs[0]); rt.Op == "var" {
														for i := 0; ; i++ {
															o := li.paramObj(p, i)
															if o == nil {
																break
															}
															if o == rt.Obj {
																cmdParam = i
															}
														}
													}
												}
											}
											if c2, ok := y.(*ast.CallExpr); ok && p.Callee(c2) == p.Method("segment", "encode") {
												enc = true
											}
											return true
										})
										if cmdParam >= 0 && cmdParam < len(call.Args) && enc {
											if cv := p.Term(call.Args[cmdParam]); cv.IsConst() && cv.Int == e.cmd {
												okCmd, okEnc = true, true
											}
										}
									}
								}
							}
						}
					}
				}
				return true
			})
		}
		// and the command is stored nowhere else in flush with this value
		elsewhere := false
		for _, st := range p.FieldStores(p.Field("segment", "cmd")) {
			if st.Fn != flush || st.Rhs == nil {
				continue
			}
			if v := p.Term(st.Rhs); v.IsConst() && v.Int == e.cmd {
				if sp, ok := c.PointOf(st.Node); ok && sp.B != tb.B.Succs[0] {
					elsewhere = true
				}
			}
		}
		// reached on every path from the entry
		skip := c.FindPath(PathQuery{From: Point{c.Entry(), 0}, ExitIsTarget: true, IsBarrier: func(_ ast.Node, q Point) bool { return q == reach },
			OnBlock: func(b *cfg.Block) (bool, bool) { return false, tableHdr != nil && b == tableHdr.B }})
		switch {
		case !okCmd || !okEnc:
			r.bad("C03.P2", flush.Name, p.Pos(tb.Node()), e.name+" emitted iff its flag is set", "the flag is tested but no "+e.name+" segment is encoded on the true edge", "")
		case elsewhere:
			r.bad("C03.P2", flush.Name, p.Pos(tb.Node()), e.name+" emitted iff its flag is set", "a "+e.name+" segment is also emitted outside the flag test", "")
		case skip.Found:
			r.bad("C03.P2", flush.Name, p.Pos(tb.Node()), e.name+" emitted iff its flag is set", "a path through flush returns without reaching the "+e.name+" emission test: a pending probe/window announcement is never sent on that path (an idle receiver never tells that its window re-opened)", c.DescribePath(skip.Path))
		default:
			r.ok("C03.P2", flush.Name, p.Pos(tb.Node()), e.name+" emitted iff its flag is set", "tested on every path, encoded on the true edge only")
		}
	}
	// probe = 0 after both tests, never before
	for _, st := range p.FieldStores(fProbe) {
		if st.Fn != flush || st.Rhs == nil {
			continue
		}
		if v := p.Term(st.Rhs); !v.IsConst() || v.Int != 0 || st.Tok != token.ASSIGN {
			continue
		}
		sp, _ := c.PointOf(st.Node)
		ok := true
		for _, tb := range tests {
			if !c.Dominates(tb, sp) {
				ok = false
			}
		}
		r.check(ok && len(tests) == 2, "C03.P2", flush.Name, p.Pos(st.Node), "probe flags cleared after emission", "probe = 0 is dominated by both emission tests", "the probe flags are cleared before (or without) emitting them")
	}

	// ---- P3
	checkProbeTimer(p, r, flush)

	// ---- P4
	{
		recvF := p.FuncOf(p.Method("KCP", "Recv"))
		rc := p.CFG(recvF)
		rr := p.selfVar(recvF)
		kcp := tVar(rr)
		lenQ := p.M(p.F(kcp, "KCP", "rcv_queue"), "RingBuffer", "Len")
		wnd := p.F(kcp, "KCP", "rcv_wnd")
		pop := p.Method("RingBuffer", "Pop")
		// a local set to true only under Len >= rcv_wnd, before the first Pop
		var flag *types.Var
		okBefore := false
		var firstPop *Point
		for _, s := range p.CallsTo(pop) {
			if s.Fn == recvF {
				if _, ok := fieldBase(s.Recv, p.Field("KCP", "rcv_queue")); ok {
					q, _ := rc.PointOf(s.Call)
					if firstPop == nil {
						firstPop = &q
					}
				}
			}
		}
		// direct form: flag := Len() >= rcv_wnd (or var flag = ...), evaluated before the first Pop
		inspectBody(recvF, func(n ast.Node) bool {
			var lhs *ast.Ident
			var rhs ast.Expr
			switch x := n.(type) {
			case *ast.AssignStmt:
				if len(x.Lhs) == 1 && len(x.Rhs) == 1 {
					lhs, _ = x.Lhs[0].(*ast.Ident)
					rhs = x.Rhs[0]
				}
			case *ast.ValueSpec:
				if len(x.Names) == 1 && len(x.Values) == 1 {
					lhs, rhs = x.Names[0], x.Values[0]
				}
			}
			if lhs == nil || rhs == nil || p.Term(rhs).Key() != le(wnd, lenQ).Key() {
				return true
			}
			v, _ := p.Info.Defs[lhs].(*types.Var)
			if v == nil {
				v, _ = p.Info.Uses[lhs].(*types.Var)
			}
			if v == nil || len(p.Assignments(recvF, v)) != 1 {
				return true
			}
			if pt, ok := rc.PointOf(n); ok {
				flag = v
				if firstPop != nil && !rc.Reaches(*firstPop, pt) {
					okBefore = true
				}
			}
			return true
		})
		inspectBody(recvF, func(n ast.Node) bool {
			as, ok := n.(*ast.AssignStmt)
			if !ok || len(as.Lhs) != 1 || len(as.Rhs) != 1 || p.Term(as.Rhs[0]).Op != "true" {
				return true
			}
			id, ok := as.Lhs[0].(*ast.Ident)
			if !ok {
				return true
			}
			v, _ := p.Info.Uses[id].(*types.Var)
			pt, ok := rc.PointOf(as)
			if !ok {
				return true
			}
			for _, ct := range rc.DominatingConds(pt) {
				if ct.Key() == le(wnd, lenQ).Key() || normTerm(p.ExpandHelpers(ct)).Key() == le(wnd, lenQ).Key() {
					flag = v
					if firstPop != nil && !rc.Reaches(*firstPop, pt) {
						okBefore = true
					}
				}
			}
			return true
		})
		okSet := false
		if flag != nil {
			for _, st := range p.FieldStores(fProbe) {
				if st.Fn != recvF || st.Tok != token.OR_ASSIGN || st.Rhs == nil {
					continue
				}
				if v := p.Term(st.Rhs); !v.IsConst() || v.Int&askTell == 0 {
					continue
				}
				pt, _ := rc.PointOf(st.Node)
				conds := rc.DominatingConds(pt)
				var cj []*Term
				for _, ct := range conds {
					for _, a := range Conjuncts(ct) {
						cj = append(cj, Conjuncts(normTerm(p.ExpandHelpers(a)))...) // rcv_queue_full() and the like
					}
				}
				hasRoom, hasFlag := false, false
				nRel := 0
				for _, a := range cj {
					rs := p.termReads(a)
					if len(rs.fields) > 0 || rs.vars[flag] {
						nRel++
					}
					if a.Key() == lt(lenQ, wnd).Key() {
						hasRoom = true
					}
					if a.Op == "var" && a.Obj == flag {
						hasFlag = true
					}
				}
				// only these two conditions depend on protocol state
				if hasRoom && hasFlag && nRel == 2 {
					// after the pops
					if firstPop != nil && rc.Reaches(*firstPop, pt) {
						okSet = true
					}
				}
			}
		}
		r.check(flag != nil && okBefore && okSet, "C03.P4", recvF.Name, p.Pos(recvF.Node), "re-opened window is announced", "full before the first Pop (Len >= rcv_wnd) ∧ room afterwards (Len < rcv_wnd) -> probe |= ASK_TELL", "Recv does not announce a re-opened window exactly when the queue was full before reading and has room after: the stalled sender only learns it through its probe timer (or never, if only an empty queue is announced)")
	}

	// ---- P5
	fRmt := p.Field("KCP", "rmt_wnd")
	for _, st := range p.FieldStores(fRmt) {
		construct := "store(KCP.rmt_wnd) in " + st.Fn.Name
		switch st.Fn.Name {
		case "NewKCP":
			r.ok("C03.P5", st.Fn.Name, p.Pos(st.Node), construct, "constructor")
		case "(*KCP).Input":
			fs := p.FactsOf(st.Fn).AtNode(st.Node)
			var pkt *types.Var
			for _, fl := range st.Fn.Decl.Type.Params.List {
				for _, nm := range fl.Names {
					if v, ok := p.Info.Defs[nm].(*types.Var); ok && p.isPkgNamed(v.Type(), "PacketType") {
						pkt = v
					}
				}
			}
			okReg := pkt != nil && fs.Holds(eq(tVar(pkt), tConst(p.ConstInt("IKCP_PACKET_REGULAR"))))
			// value: the local read at the wnd offset
			okVal := false
			if st.Rhs != nil {
				t := p.Term(st.Rhs)
				if t.Op == "var" {
					for _, a := range p.Assignments(st.Fn, t.Obj.(*types.Var)) {
						if a.Rhs != nil {
							if call, ok := ast.Unparen(a.Rhs).(*ast.CallExpr); ok {
								if f := p.Callee(call); f != nil && f.Name() == "Uint16" {
									okVal = true
								}
							}
						}
					}
				}
			}
			r.check(okReg && okVal, "C03.P5", st.Fn.Name, p.Pos(st.Node), construct, "header wnd, regular packets only", "the remote window is taken from something other than a regular packet's wnd field (FEC-recovered packets carry stale windows)")
		default:
			r.bad("C03.P5", st.Fn.Name, p.Pos(st.Node), construct, "rmt_wnd is stored outside the constructor and Input", "")
		}
	}

	// ---- P6 (delegates to the C04.W3 check, reported under this property's id)
	sub := newReport("C04", r.Tier)
	sub.curCfg = r.curCfg
	checkWndUnused(p, sub)
	for _, o := range sub.Obs {
		if o.Rule != "C04.W3" {
			continue
		}
		if o.Status == Discharged {
			r.ok("C03.P6", o.Func, o.Pos, o.Construct, o.Detail)
		} else {
			r.bad("C03.P6", o.Func, o.Pos, o.Construct, o.Detail, o.Witness)
		}
	}

	// ---- P7
	checkAckEveryPush(p, r, "C03.P7")
	checkAckedIsAccepted(p, r, "C03.P8")
	checkPromotionInRecv(p, r, "C03.P10")
	checkFlushIntervalOnlyLowered(p, r, "C03.P11")
	checkTimeoutArmUnconditional(p, r, "C03.P12")
	checkWriteAdmission(p, r, "C03.P13")
	checkCwndNeverStuck(p, r, "C03.P9")
}

func checkProbeTimer(p *Prog, r *Report, flush *FuncInfo) {
	c := p.CFG(flush)
	recv := p.selfVar(flush)
	kcp := tVar(recv)
	fWait := p.Field("KCP", "probe_wait")
	fTs := p.Field("KCP", "ts_probe")
	fProbe := p.Field("KCP", "probe")
	rmt := p.F(kcp, "KCP", "rmt_wnd")
	limit := p.ConstInt("IKCP_PROBE_LIMIT")
	initV := p.ConstInt("IKCP_PROBE_INIT")
	askSend := p.ConstInt("IKCP_ASK_SEND")
	// the branch rmt_wnd == 0
	var zeroArm, otherArm *Point
	for _, b := range c.live {
		if ct := c.CondTerm(b); ct != nil && ct.Key() == eq(rmt, tConst(0)).Key() && len(b.Succs) == 2 {
			a, o := Point{b.Succs[0], 0}, Point{b.Succs[1], 0}
			zeroArm, otherArm = &a, &o
		}
	}
	if zeroArm == nil {
		r.bad("C03.P3", flush.Name, p.Pos(flush.Node), "zero-window arm", "flush has no test rmt_wnd == 0", "")
		return
	}
	// other arm resets both
	okReset := 0
	for _, nd := range otherArm.B.Nodes {
		if as, ok := nd.(*ast.AssignStmt); ok && len(as.Lhs) == 1 && len(as.Rhs) == 1 {
			lt := p.Term(as.Lhs[0])
			if v := p.Term(as.Rhs[0]); v.IsConst() && v.Int == 0 && lt.Op == "fld" && (lt.Obj == fWait || lt.Obj == fTs) {
				okReset++
			}
		}
	}
	r.check(okReset == 2, "C03.P3", flush.Name, p.Pos(otherArm.B.Nodes[0]), "probe timer reset when the window is open", "ts_probe = 0; probe_wait = 0", "the probe timer is not reset when the remote window is open: the next stall starts with a stale (long) wait")
	// zero arm: every store to ts_probe is current + probe_wait, preceded by probe_wait <= LIMIT (constant or clamp)
	fa := p.FactsOf(flush)
	nTs := 0
	for _, st := range p.FieldStores(fTs) {
		if st.Fn != flush || st.Rhs == nil {
			continue
		}
		sp, _ := c.PointOf(st.Node)
		if !c.BlockDominates(zeroArm.B, sp.B) {
			continue
		}
		nTs++
		t := p.Term(st.Rhs)
		okForm := t.Op == "+" && len(t.Args) == 2 && termHasField(t, fWait)
		fs := fa.AtNode(st.Node)
		wait := tFld(kcp, fWait)
		okClamp := fs.Holds(le(wait, tConst(limit)))
		r.check(okForm && okClamp, "C03.P3", flush.Name, p.Pos(st.Node), fmt.Sprintf("probe timer armed #%d", nTs), fmt.Sprintf("ts_probe = current + probe_wait with probe_wait <= %d", limit), fmt.Sprintf("the probe timer is armed with a wait that is not clamped to IKCP_PROBE_LIMIT (%d) (form ok: %v, clamp established: %v)", limit, okForm, okClamp))
	}
	if nTs < 2 {
		r.bad("C03.P3", flush.Name, p.Pos(zeroArm.B.Nodes[0]), "probe timer armed", "the zero-window arm does not both initialise and re-arm ts_probe", "")
	}
	// ASK_SEND set exactly where the timer expired: under 0 <= diff(current, ts_probe)
	okAsk := false
	for _, st := range p.FieldStores(fProbe) {
		if st.Fn != flush || st.Tok != token.OR_ASSIGN || st.Rhs == nil {
			continue
		}
		if v := p.Term(st.Rhs); !v.IsConst() || v.Int&askSend == 0 {
			continue
		}
		sp, _ := c.PointOf(st.Node)
		for _, ct := range c.DominatingConds(sp) {
			e := p.ExpandHelpers(ct)
			if e.Op == "<=" && e.Args[0].IsConst() && e.Args[0].Int == 0 && termHasField(e.Args[1], fTs) {
				okAsk = true
			}
		}
		// and the timer is re-armed on the same path
		re := c.FindPath(PathQuery{From: Point{sp.B, 0}, ExitIsTarget: true, IsBarrier: func(n ast.Node, _ Point) bool {
			as, ok := n.(*ast.AssignStmt)
			if !ok || len(as.Lhs) != 1 {
				return false
			}
			lt := p.Term(as.Lhs[0])
			return lt.Op == "fld" && lt.Obj == fTs
		}, IsTarget: func(_ ast.Node, q Point) bool { return q.B != sp.B && !c.BlockDominates(sp.B, q.B) }})
		_ = re
	}
	r.check(okAsk, "C03.P3", flush.Name, p.Pos(zeroArm.B.Nodes[0]), "probe requested when the timer expired", "probe |= ASK_SEND under _itimediff(current, ts_probe) >= 0", "no window probe is requested when the probe timer expires: a lost window update stalls the transfer for good")
	// initial wait
	okInit := false
	for _, st := range p.FieldStores(fWait) {
		if st.Fn != flush || st.Rhs == nil {
			continue
		}
		if v := p.Term(st.Rhs); v.IsConst() && v.Int == initV {
			sp, _ := c.PointOf(st.Node)
			for _, ct := range c.DominatingConds(sp) {
				if ct.Key() == eq(tFld(kcp, fWait), tConst(0)).Key() {
					okInit = true
				}
			}
		}
	}
	r.check(okInit, "C03.P3", flush.Name, p.Pos(zeroArm.B.Nodes[0]), "probe timer initialised", "probe_wait = IKCP_PROBE_INIT under probe_wait == 0", "the probe timer is never started when the remote window first drops to zero")
}

func dbgP4(p *Prog) {
	recvF := p.FuncOf(p.Method("KCP", "Recv"))
	rc := p.CFG(recvF)
	for _, b := range rc.live {
		if ct := rc.CondTerm(b); ct != nil {
			fmt.Println("COND", p.Pos(b.Nodes[len(b.Nodes)-1]), ct.Key())
		}
	}
	inspectBody(recvF, func(n ast.Node) bool {
		if as, ok := n.(*ast.AssignStmt); ok {
			if pt, ok := rc.PointOf(as); ok {
				for _, ct := range rc.DominatingConds(pt) {
					fmt.Println("ASSIGN", p.Pos(as), "DOM", ct.Key())
				}
			}
		}
		return true
	})
}

// checkCwndNeverStuck: cwnd only grows when snd_una advances and is only reset by a
// timeout, so a cwnd of 0 is a permanent stall: nothing is admitted, nothing is
// acknowledged, nothing times out.
func checkCwndNeverStuck(p *Prog, r *Report, rule string) {
	fCwnd := p.Field("KCP", "cwnd")
	fIncr := p.Field("KCP", "incr")
	ctorLow := true // the constructor leaves cwnd at its zero value unless it stores >= 1
	n := 0
	for _, st := range p.FieldStores(fCwnd) {
		if st.Fn.Name == "NewKCP" {
			if st.Rhs != nil {
				if v, ok := p.constVal(st.Rhs); ok && v >= 1 {
					ctorLow = false
				}
			}
			continue
		}
		if st.Rhs == nil {
			continue // ++ cannot produce 0 from a non-negative value (wrap-around aside)
		}
		fs := p.FactsOf(rootFuncInfo(st.Fn)).AtNode(st.Node)
		t := p.Term(st.Rhs)
		if v, ok := p.constVal(st.Rhs); ok {
			n++
			r.check(v >= 1, rule, st.Fn.Name, p.Pos(st.Node), "cwnd = "+exprString(st.Rhs), "constant >= 1", "cwnd is set to 0: with congestion control on nothing is ever admitted again")
			continue
		}
		// growth formulas (built from cwnd / incr themselves) are not clamps
		if termHasField(t, fCwnd) || termHasField(t, fIncr) {
			continue
		}
		n++
		ok := fs.Holds(le(tConst(1), t)) || fs.Holds(le(tConst(1), fs.Resolve(t)))
		if !ok && t.Op == "+" {
			// a sum is at least the sum of the lower bounds of its operands
			sum := int64(0)
			all := true
			for _, a := range t.Args {
				lo, okLo := fs.lowerConst(fs.resolvedAtoms(), a, 0)
				if !okLo {
					all = false
					break
				}
				sum += lo
			}
			ok = all && sum >= 1
		}
		r.check(ok, rule, st.Fn.Name, p.Pos(st.Node), "cwnd = "+exprString(st.Rhs), "the value stored is >= 1 on every path", "cwnd is clamped to "+exprString(st.Rhs)+", which can be 0 here (e.g. the peer advertises a closed window): cwnd only grows when snd_una advances and is only reset by a timeout, so with cwnd == 0 and nothing in flight the sender never transmits again although the peer's window re-opens; facts: "+pretty(fs.String()))
	}
	if n == 0 {
		r.bad(rule, "(*KCP)", "-", "stores to cwnd", "no store to cwnd found", "")
	}
	if ctorLow {
		// every congestion-controlled flush ends with cwnd >= 1: the floor test lies on every path from the
		// nocwnd == 0 branch to the return
		flush := p.FuncOf(p.Method("KCP", "flush"))
		c := p.CFG(flush)
		kcp := tVar(p.selfVar(flush))
		cw := tFld(kcp, fCwnd)
		isFloor := func(nd ast.Node, pt Point) bool {
			// the store cwnd = c (c >= 1) under cwnd < 1
			as, ok := nd.(*ast.AssignStmt)
			if !ok || len(as.Lhs) != 1 || len(as.Rhs) != 1 || p.Term(as.Lhs[0]).Key() != cw.Key() {
				return false
			}
			return false
		}
		_ = isFloor
		var floorBlk *cfg.Block
		for _, b := range c.live {
			ct := c.CondTerm(b)
			if ct == nil || len(b.Succs) != 2 {
				continue
			}
			isLow := func(t *Term) bool {
				return t.Key() == lt(cw, tConst(1)).Key() || t.Key() == eq(cw, tConst(0)).Key() || t.Key() == le(cw, tConst(0)).Key()
			}
			low := isLow(ct)
			if ct.Op == "||" {
				// lostSegs > 0 || cwnd < 1: the floor is applied at least whenever cwnd < 1
				for _, d := range ct.Args {
					if isLow(d) {
						low = true
					}
				}
			}
			if low {
				// the true edge stores a constant >= 1
				for _, nd := range b.Succs[0].Nodes {
					if as, ok := nd.(*ast.AssignStmt); ok && len(as.Lhs) == 1 && len(as.Rhs) == 1 && p.Term(as.Lhs[0]).Key() == cw.Key() {
						if v, okc := p.constVal(as.Rhs[0]); okc && v >= 1 {
							floorBlk = b
						}
					}
				}
			}
		}
		ok := false
		why := "flush has no floor `if cwnd < 1 { cwnd = 1 }` although the constructor starts cwnd at 0"
		if floorBlk != nil {
			// every full flush with nocwnd == 0 reaches it: from each block that branches on nocwnd == 0 (true edge) no path to the exit avoids it
			ok = true
			found := false
			eqKey := eq(tFld(kcp, p.Field("KCP", "nocwnd")), tConst(0)).Key()
			neKey := ne(tFld(kcp, p.Field("KCP", "nocwnd")), tConst(0)).Key()
			// ccSide: for a block that tests nocwnd == 0 or nocwnd != 0, the successor index taken with congestion control on
			ccSide := func(b *cfg.Block) int {
				ct := c.CondTerm(b)
				if ct == nil || len(b.Succs) != 2 {
					return -1
				}
				switch ct.Key() {
				case eqKey:
					return 0
				case neKey:
					return 1
				}
				return -1
			}
			for _, b := range c.live {
				side := ccSide(b)
				if side < 0 {
					continue
				}
				if !c.BlockDominates(b, floorBlk) {
					continue
				}
				found = true
				noStore := true
				for _, st := range p.FieldStores(p.Field("KCP", "nocwnd")) {
					if st.Fn == flush {
						noStore = false
					}
				}
				res := c.FindPath(PathQuery{From: Point{b.Succs[side], 0}, ExitIsTarget: true, OnBlock: func(x *cfg.Block) (bool, bool) { return false, x == floorBlk },
					EdgeOK: func(from, to *cfg.Block) bool {
						// nocwnd is not modified by flush: a later test of the same condition takes the same branch
						if s2 := ccSide(from); noStore && s2 >= 0 && to == from.Succs[1-s2] {
							return false
						}
						return true
					}})
				if res.Found {
					ok = false
					why = "a congestion-controlled flush can return without passing the floor test: " + c.DescribePath(res.Path)
				}
			}
			if !found {
				ok, why = false, "the floor test is not inside the nocwnd == 0 branch of flush"
			}
		}
		r.check(ok, rule, flush.Name, p.Pos(flush.Node), "cwnd floor at the end of flush", "if cwnd < 1 { cwnd = 1 } on every congestion-controlled path", why+": cwnd starts at 0 and would never leave it")
	}
}
