package main

import (
	"fmt"
	"go/ast"
	"go/token"
	"go/types"
	"sort"
	"strings"

	"golang.org/x/tools/go/callgraph"
	"golang.org/x/tools/go/ssa"
)

// LockSet is a set of lock classes "Type.field" (exclusive) or "Type.field(R)".
type LockSet map[string]bool

func (a LockSet) clone() LockSet {
	b := LockSet{}
	for k := range a {
		b[k] = true
	}
	return b
}

func interLS(a, b LockSet) LockSet {
	c := LockSet{}
	for k := range a {
		if b[k] {
			c[k] = true
		}
	}
	return c
}

func (a LockSet) eq(b LockSet) bool {
	if len(a) != len(b) {
		return false
	}
	for k := range a {
		if !b[k] {
			return false
		}
	}
	return true
}

func (a LockSet) String() string {
	var s []string
	for k := range a {
		s = append(s, k)
	}
	sort.Strings(s)
	return "{" + strings.Join(s, ",") + "}"
}

// Access is one field access found in the SSA form.
type Access struct {
	Field  *types.Var
	Owner  string // "Type.field"
	Write  bool
	Atomic bool // address handed to a sync/atomic function or a method of a sync type
	Fn     *ssa.Function
	Pos    token.Pos
	Held   LockSet
	Fresh  bool // the object is not yet published (constructor context)
}

type callSite struct {
	caller *ssa.Function
	site   ssa.CallInstruction
	held   LockSet
}

// LockAnalysis is the interprocedural must-lockset analysis (E-LOCK).
type LockAnalysis struct {
	p          *Prog
	cg         *callgraph.Graph
	funcs      []*ssa.Function
	roots      map[*ssa.Function]string
	entry      map[*ssa.Function]LockSet
	heldAt     map[ssa.Instruction]LockSet
	callers    map[*ssa.Function][]callSite
	fresh      map[*ssa.Function]map[int]bool // parameter index (receiver = 0) -> always fresh at call sites
	Accesses   []Access
	reachBy    map[*ssa.Function]map[string]bool
	paramW     map[*ssa.Function]map[int]bool // writes through slice/pointer parameter i
	deprecated map[*ssa.Function]bool
}

// externally synchronised state machines: their exported methods are not entry points.
var extSyncTypes = map[string]bool{"KCP": true, "RingBuffer": true, "segmentHeap": true, "fecDecoder": true, "fecEncoder": true,
	"autoTune": true, "shardHeap": true, "segment": true, "fecPacket": true, "timedFuncHeap": true, "bufferPool": true}

func ssaRecvName(f *ssa.Function) string {
	if f.Signature.Recv() == nil {
		return ""
	}
	if n := namedOf(f.Signature.Recv().Type()); n != nil {
		return n.Obj().Name()
	}
	return ""
}

func lockClassOf(v ssa.Value) string {
	switch x := v.(type) {
	case *ssa.FieldAddr:
		st := x.X.Type().Underlying().(*types.Pointer).Elem()
		name := "?"
		if n := namedOf(st); n != nil {
			name = n.Obj().Name()
		}
		f := st.Underlying().(*types.Struct).Field(x.Field)
		return name + "." + f.Name()
	case *ssa.Global:
		return "global." + x.Name()
	}
	return "?"
}

func isSyncType(t types.Type) bool {
	n := namedOf(t)
	if n == nil || n.Obj().Pkg() == nil {
		return false
	}
	pp := n.Obj().Pkg().Path()
	return pp == "sync" || pp == "sync/atomic"
}

func (p *Prog) isDeprecatedDecl(d *ast.FuncDecl) bool {
	if d == nil || d.Doc == nil {
		return false
	}
	txt := strings.ToLower(d.Doc.Text())
	return strings.Contains(txt, "deprecated:") || strings.Contains(txt, "(deprecated)")
}

func (p *Prog) Locks() *LockAnalysis {
	if v, ok := p.memo["locks"]; ok {
		return v.(*LockAnalysis)
	}
	la := &LockAnalysis{p: p, cg: p.CallGraph(), funcs: p.PkgFuncs(), roots: map[*ssa.Function]string{}, entry: map[*ssa.Function]LockSet{},
		heldAt: map[ssa.Instruction]LockSet{}, callers: map[*ssa.Function][]callSite{}, fresh: map[*ssa.Function]map[int]bool{},
		reachBy: map[*ssa.Function]map[string]bool{}, deprecated: map[*ssa.Function]bool{}}
	la.findRoots()
	la.computeParamWrites()
	la.solve()
	la.computeFresh()
	la.collectAccesses()
	la.computeReach()
	p.memo["locks"] = la
	return la
}

func (la *LockAnalysis) findRoots() {
	p := la.p
	for _, f := range la.funcs {
		if d, ok := f.Syntax().(*ast.FuncDecl); ok && p.isDeprecatedDecl(d) {
			la.deprecated[f] = true
		}
		if f.Parent() == nil && f.Synthetic == "" {
			if obj := f.Object(); obj != nil && obj.Exported() {
				recv := ssaRecvName(f)
				if recv == "" || (token.IsExported(recv) && !extSyncTypes[recv]) {
					la.roots[f] = "api:" + f.String()
				}
			}
		}
		if f.Parent() == nil && strings.HasPrefix(f.Name(), "init") && f.Signature.Recv() == nil && (f.Synthetic != "" || f.Name() != "init") {
			la.roots[f] = "init:" + f.Name()
		}
	}
	// go statements and calls from outside the package
	for _, f := range la.funcs {
		for _, b := range f.Blocks {
			for _, in := range b.Instrs {
				g, ok := in.(*ssa.Go)
				if !ok {
					continue
				}
				for _, c := range la.calleesOf(f, g) {
					if _, isRoot := la.roots[c]; !isRoot {
						la.roots[c] = "go:" + c.String()
					}
				}
			}
		}
	}
	for _, f := range la.funcs {
		n := la.cg.Nodes[f]
		if n == nil {
			continue
		}
		for _, e := range n.In {
			if !p.InPkg(e.Caller.Func) {
				// called from outside the package through an interface or a function value
				// (scheduler callbacks run through package code and are handled as ordinary edges)
				if _, isRoot := la.roots[f]; !isRoot && e.Caller.Func.Pkg != nil {
					pp := e.Caller.Func.Pkg.Pkg.Path()
					// sync.Once.Do, sort.Slice, container/heap run their callbacks synchronously
					// in the caller's context: not roots.
					if pp == "sync" || pp == "sort" || pp == "container/heap" || pp == "slices" {
						continue
					}
					la.roots[f] = "ext:" + pp + "->" + f.String()
				}
			}
		}
	}
}

func (la *LockAnalysis) calleesOf(f *ssa.Function, site ssa.CallInstruction) []*ssa.Function {
	var out []*ssa.Function
	if c := site.Common().StaticCallee(); c != nil {
		out = append(out, c)
	}
	add := func(g *callgraph.Graph) {
		if n := g.Nodes[f]; n != nil {
			for _, e := range n.Out {
				if e.Site == site {
					dup := false
					for _, o := range out {
						if o == e.Callee.Func {
							dup = true
						}
					}
					if !dup {
						out = append(out, e.Callee.Func)
					}
				}
			}
		}
	}
	add(la.cg)
	if len(out) == 0 && site.Common().IsInvoke() {
		// the dynamic type reaches this call from outside the program (e.g. a
		// BlockCrypt handed to Dial by the user): fall back to class hierarchy analysis
		add(la.p.chaCG)
	}
	// x.(I).m() with x of interface type I0: the dynamic type implements I0 as well — drop candidates whose
	// receiver type does not (a session's conn.(setDSCP) is a net.PacketConn, never a UDPSession or Listener)
	if site.Common().IsInvoke() {
		v := site.Common().Value
		if ex, ok := v.(*ssa.Extract); ok {
			v = ex.Tuple
		}
		if ta, ok := v.(*ssa.TypeAssert); ok {
			if i0, ok := ta.X.Type().Underlying().(*types.Interface); ok && i0.NumMethods() > 0 {
				var kept []*ssa.Function
				for _, c := range out {
					if c.Signature.Recv() == nil {
						kept = append(kept, c)
						continue
					}
					rt := c.Signature.Recv().Type()
					if types.Implements(rt, i0) {
						kept = append(kept, c)
					}
				}
				out = kept
			}
		}
	}
	return out
}

// pkgCalleesThroughExternal returns package functions that an external callee may
// call back synchronously (sync.Once.Do, sort.Slice, heap.Push, io.ReadFull, ...).
func (la *LockAnalysis) throughExternal(ext *ssa.Function) []*ssa.Function {
	var out []*ssa.Function
	seen := map[*ssa.Function]bool{ext: true}
	type item struct {
		f *ssa.Function
		d int
	}
	q := []item{{ext, 0}}
	for len(q) > 0 {
		it := q[0]
		q = q[1:]
		n := la.cg.Nodes[it.f]
		if n == nil {
			continue
		}
		for _, e := range n.Out {
			if _, isGo := e.Site.(*ssa.Go); isGo {
				continue
			}
			c := e.Callee.Func
			if seen[c] {
				continue
			}
			seen[c] = true
			if la.p.InPkg(c) {
				out = append(out, c)
				continue
			}
			if it.d < 3 {
				q = append(q, item{c, it.d + 1})
			}
		}
	}
	return out
}

// filterByArgs narrows the package callbacks reachable through an external
// callee to those that belong to what the call site actually hands over: methods
// of the concrete package types converted to interfaces in the arguments, and
// closures passed as arguments. (The VTA graph merges all call sites of e.g.
// container/heap.Push.) If the site passes no such value, all are kept.
func (la *LockAnalysis) filterByArgs(site ssa.CallInstruction, cands []*ssa.Function) []*ssa.Function {
	if len(cands) == 0 {
		return nil
	}
	types_ := map[string]bool{}
	fns := map[*ssa.Function]bool{}
	args := site.Common().Args
	if site.Common().IsInvoke() {
		args = append([]ssa.Value{site.Common().Value}, args...)
	}
	unknown := 0 // interface- or function-typed arguments whose dynamic value is not known to come from outside
	for _, a := range args {
		switch x := a.(type) {
		case *ssa.MakeInterface:
			if n := namedOf(x.X.Type()); n != nil && n.Obj().Pkg() == la.p.Types {
				types_[n.Obj().Name()] = true
			}
			continue
		case *ssa.MakeClosure:
			if fn, ok := x.Fn.(*ssa.Function); ok {
				fns[fn] = true
			}
			continue
		case *ssa.Function:
			fns[x] = true
			continue
		case *ssa.UnOp:
			// the value of a variable of another package (crypto/rand.Reader): that package does not import
			// this one, so what it holds is not one of our types unless this package stores into it
			if g, ok := x.X.(*ssa.Global); ok && x.Op == token.MUL && g.Pkg != nil && g.Pkg.Pkg != la.p.Types && !la.storesIntoGlobal(g) {
				continue
			}
		case *ssa.Const:
			continue
		}
		switch a.Type().Underlying().(type) {
		case *types.Interface, *types.Signature:
			unknown++
		}
	}
	if len(types_) == 0 && len(fns) == 0 {
		if unknown == 0 {
			return nil // nothing of this package can be called back through the arguments
		}
		return cands
	}
	var out []*ssa.Function
	for _, c := range cands {
		if fns[c] || (c.Parent() != nil && fns[c]) {
			out = append(out, c)
			continue
		}
		if r := ssaRecvName(c); r != "" && types_[r] {
			out = append(out, c)
			continue
		}
		// functions reached from a kept closure/method are found when that one is analysed
	}
	return out
}

// analyze runs the intra-procedural dataflow with the given entry set and
// records the lockset before every instruction.
func (la *LockAnalysis) analyze(f *ssa.Function, in LockSet) {
	ins := map[*ssa.BasicBlock]LockSet{f.Blocks[0]: in.clone()}
	outs := map[*ssa.BasicBlock]LockSet{}
	work := []*ssa.BasicBlock{f.Blocks[0]}
	for len(work) > 0 {
		b := work[0]
		work = work[1:]
		cur := ins[b].clone()
		for _, instr := range b.Instrs {
			la.heldAt[instr] = cur.clone()
			call, ok := instr.(*ssa.Call)
			if !ok {
				continue
			}
			cal := call.Call.StaticCallee()
			if cal == nil || cal.Signature.Recv() == nil || len(call.Call.Args) == 0 {
				continue
			}
			rt := cal.Signature.Recv().Type().String()
			if rt != "*sync.Mutex" && rt != "*sync.RWMutex" {
				continue
			}
			c := lockClassOf(call.Call.Args[0])
			switch cal.Name() {
			case "Lock":
				cur[c] = true
			case "RLock":
				cur[c+"(R)"] = true
			case "Unlock":
				delete(cur, c)
			case "RUnlock":
				delete(cur, c+"(R)")
			}
		}
		if o, ok := outs[b]; ok && o.eq(cur) {
			continue
		}
		outs[b] = cur
		for _, s := range b.Succs {
			if old, ok := ins[s]; ok {
				n := interLS(old, cur)
				if n.eq(old) {
					continue
				}
				ins[s] = n
			} else {
				ins[s] = cur.clone()
			}
			work = append(work, s)
		}
	}
}

// heldAtDeferred: the lockset when the deferred call d runs = the lockset at the
// function's RunDefers points minus the locks released by deferred unlocks that
// were registered after d (defers run last-in first-out).
func (la *LockAnalysis) heldAtDeferred(f *ssa.Function, d *ssa.Defer) LockSet {
	var h LockSet
	for _, b := range f.Blocks {
		for _, in := range b.Instrs {
			if rd, ok := in.(*ssa.RunDefers); ok {
				if cur := la.heldAt[rd]; cur != nil {
					if h == nil {
						h = cur.clone()
					} else {
						h = interLS(h, cur)
					}
				}
			}
		}
	}
	if h == nil {
		return LockSet{}
	}
	for _, b := range f.Blocks {
		for _, in := range b.Instrs {
			d2, ok := in.(*ssa.Defer)
			if !ok || d2 == d || d2.Pos() < d.Pos() {
				continue
			}
			cal := d2.Call.StaticCallee()
			if cal == nil || cal.Signature.Recv() == nil || len(d2.Call.Args) == 0 {
				continue
			}
			rt := cal.Signature.Recv().Type().String()
			if rt != "*sync.Mutex" && rt != "*sync.RWMutex" {
				continue
			}
			c := lockClassOf(d2.Call.Args[0])
			switch cal.Name() {
			case "Unlock":
				delete(h, c)
			case "RUnlock":
				delete(h, c+"(R)")
			}
		}
	}
	return h
}

func (la *LockAnalysis) solve() {
	for f := range la.roots {
		la.entry[f] = LockSet{}
	}
	for iter := 0; iter < 60; iter++ {
		changed := false
		la.callers = map[*ssa.Function][]callSite{}
		for _, f := range la.funcs {
			in, ok := la.entry[f]
			if !ok {
				continue
			}
			la.analyze(f, in)
			for _, b := range f.Blocks {
				for _, instr := range b.Instrs {
					site, ok := instr.(ssa.CallInstruction)
					if !ok {
						continue
					}
					if _, isGo := site.(*ssa.Go); isGo {
						continue
					}
					h := la.heldAt[instr]
					if d, isDefer := site.(*ssa.Defer); isDefer {
						h = la.heldAtDeferred(f, d)
					}
					var targets []*ssa.Function
					for _, c := range la.calleesOf(f, site) {
						if la.p.InPkg(c) {
							targets = append(targets, c)
						} else {
							targets = append(targets, la.filterByArgs(site, la.throughExternal(c))...)
						}
					}
					// a call that hands over only unpublished objects (constructor context,
					// e.g. heap.Init(h) on a heap allocated in this function) does not constrain
					// the callee's lockset: what it touches through them is exempt anyway.
					ctorCall := la.allRefArgsFresh(f, site)
					for _, c := range targets {
						if c.Blocks == nil {
							continue
						}
						if ctorCall {
							// neither a dynamic nor a static call constrains the callee here: everything it can
							// reach through its arguments is unpublished in this chain (globals are L7's business)
							if site.Common().StaticCallee() != c {
								la.callers[c] = append(la.callers[c], callSite{f, site, h})
							}
							continue
						}
						la.callers[c] = append(la.callers[c], callSite{f, site, h})
						if _, isRoot := la.roots[c]; isRoot {
							continue
						}
						old, ok := la.entry[c]
						var nw LockSet
						if !ok {
							nw = h.clone()
						} else {
							nw = interLS(old, h)
						}
						if !ok || !nw.eq(old) {
							la.entry[c] = nw
							changed = true
						}
					}
				}
			}
		}
		if !changed {
			break
		}
	}
	// final pass so that heldAt matches the fixpoint
	for _, f := range la.funcs {
		if in, ok := la.entry[f]; ok {
			la.analyze(f, in)
		}
	}
}

func (la *LockAnalysis) allRefArgsFresh(f *ssa.Function, site ssa.CallInstruction) bool {
	n := 0
	args := site.Common().Args
	if site.Common().IsInvoke() {
		args = append([]ssa.Value{site.Common().Value}, args...)
	}
	for _, a := range args {
		switch a.Type().Underlying().(type) {
		case *types.Pointer, *types.Interface, *types.Map, *types.Slice, *types.Signature, *types.Chan:
			if k, ok := a.(*ssa.Const); ok && k.IsNil() {
				continue
			}
			n++
			if !la.isFreshValue(f, a, 0) {
				return false
			}
		}
	}
	return n > 0
}

// baseRoot follows address computations inside one object (field of embedded
// struct, array element) down to the pointer the object is reached through.
func baseRoot(v ssa.Value) ssa.Value {
	for {
		switch x := v.(type) {
		case *ssa.FieldAddr:
			v = x.X
		case *ssa.IndexAddr:
			if _, isArr := x.X.Type().Underlying().(*types.Pointer); isArr {
				if _, ok := x.X.Type().Underlying().(*types.Pointer).Elem().Underlying().(*types.Array); ok {
					v = x.X
					continue
				}
			}
			return v
		case *ssa.ChangeType:
			v = x.X
		default:
			return v
		}
	}
}

func (la *LockAnalysis) paramIndex(f *ssa.Function, v ssa.Value) int {
	for i, pa := range f.Params {
		if pa == v {
			return i
		}
	}
	return -1
}

// isFreshValue: v denotes an object allocated in this activation (or handed in
// as an always-fresh parameter), i.e. not yet visible to other goroutines.
func (la *LockAnalysis) isFreshValue(f *ssa.Function, v ssa.Value, depth int) bool {
	if depth > 4 {
		return false
	}
	switch x := v.(type) {
	case *ssa.Alloc:
		return true
	case *ssa.Parameter:
		if i := la.paramIndex(f, x); i >= 0 {
			return la.fresh[f][i]
		}
	case *ssa.FreeVar:
		// captured variable of a closure defined in a constructor: the closure itself
		// may run later -> not fresh
		return false
	case *ssa.Call:
		if c := x.Call.StaticCallee(); c != nil && la.p.InPkg(c) && c.Blocks != nil {
			return la.returnsFresh(c, depth+1)
		}
	case *ssa.UnOp:
		if x.Op == token.MUL {
			// load of a local pointer variable: `x := new(T)` spilled
			if a, ok := x.X.(*ssa.Alloc); ok {
				// all stores to a are fresh values
				all := true
				n := 0
				for _, r := range *a.Referrers() {
					if st, ok := r.(*ssa.Store); ok && st.Addr == a {
						n++
						if !la.isFreshValue(f, st.Val, depth+1) {
							all = false
						}
					}
				}
				return all && n > 0
			}
		}
	case *ssa.Phi:
		for _, e := range x.Edges {
			if !la.isFreshValue(f, e, depth+1) {
				return false
			}
		}
		return true
	case *ssa.MakeInterface:
		return la.isFreshValue(f, x.X, depth+1)
	}
	return false
}

func (la *LockAnalysis) returnsFresh(c *ssa.Function, depth int) bool {
	any := false
	for _, b := range c.Blocks {
		for _, in := range b.Instrs {
			if r, ok := in.(*ssa.Return); ok {
				if len(r.Results) == 0 {
					return false
				}
				v := r.Results[0]
				if k, ok := v.(*ssa.Const); ok && k.IsNil() {
					continue
				}
				if !la.isFreshValue(c, v, depth) {
					return false
				}
				any = true
			}
		}
	}
	return any
}

func (la *LockAnalysis) computeFresh() {
	// optimistic: non-root functions' pointer params start fresh and are refined.
	for _, f := range la.funcs {
		if _, isRoot := la.roots[f]; isRoot {
			continue
		}
		if len(la.callers[f]) == 0 {
			continue
		}
		m := map[int]bool{}
		for i := range f.Params {
			m[i] = true
		}
		la.fresh[f] = m
	}
	for iter := 0; iter < 20; iter++ {
		changed := false
		for _, f := range la.funcs {
			m := la.fresh[f]
			if m == nil {
				continue
			}
			for _, cs := range la.callers[f] {
				args := cs.site.Common().Args
				// interface invoke: receiver is Value, not in Args
				off := 0
				if cs.site.Common().IsInvoke() {
					off = 1
					if m[0] && !la.isFreshValue(cs.caller, cs.site.Common().Value, 0) {
						m[0] = false
						changed = true
					}
				}
				if cs.site.Common().StaticCallee() != f && !cs.site.Common().IsInvoke() {
					// indirect (callback through external code or closure call): not fresh
					for i := range f.Params {
						if m[i] {
							m[i] = false
							changed = true
						}
					}
					continue
				}
				for i := range f.Params {
					ai := i - off
					if !m[i] || ai < 0 {
						continue
					}
					if ai >= len(args) || !la.isFreshValue(cs.caller, args[ai], 0) {
						m[i] = false
						changed = true
					}
				}
			}
		}
		if !changed {
			break
		}
	}
}

func (la *LockAnalysis) collectAccesses() {
	p := la.p
	for _, f := range la.funcs {
		if _, ok := la.entry[f]; !ok {
			continue // unreachable from any entry point
		}
		for _, b := range f.Blocks {
			for _, instr := range b.Instrs {
				fa, ok := instr.(*ssa.FieldAddr)
				if !ok {
					continue
				}
				st := fa.X.Type().Underlying().(*types.Pointer).Elem()
				nt := namedOf(st)
				if nt == nil || nt.Obj().Pkg() != p.Types {
					continue
				}
				sst, ok := st.Underlying().(*types.Struct)
				if !ok {
					continue
				}
				fld := sst.Field(fa.Field).Origin()
				owner := nt.Obj().Name() + "." + fld.Name()
				fresh := la.isFreshValue(f, baseRoot(fa.X), 0)
				held := la.heldAt[instr]
				la.classify(f, fa, fld, owner, held, fresh, fa.Pos(), 0)
			}
		}
	}
}

// classify records the accesses made through address value addr (a FieldAddr or
// something derived from it).
func (la *LockAnalysis) classify(f *ssa.Function, addr ssa.Value, fld *types.Var, owner string, held LockSet, fresh bool, pos token.Pos, depth int) {
	refs := addr.Referrers()
	if refs == nil {
		return
	}
	rec := func(write, atomic bool, at token.Pos, h LockSet) {
		if !at.IsValid() {
			at = pos
		}
		la.Accesses = append(la.Accesses, Access{Field: fld, Owner: owner, Write: write, Atomic: atomic, Fn: f, Pos: at, Held: h, Fresh: fresh})
	}
	syncField := isSyncType(fld.Type())
	for _, r := range *refs {
		h := la.heldAt[r]
		if h == nil {
			h = held
		}
		switch y := r.(type) {
		case *ssa.Store:
			if y.Addr == addr {
				rec(true, false, y.Pos(), h)
			} else {
				rec(false, false, y.Pos(), h) // address stored somewhere: treat as read
			}
		case *ssa.UnOp:
			if y.Op == token.MUL {
				rec(false, syncField, y.Pos(), h)
				// content mutation through the loaded reference
				la.contentWrites(f, y, fld, owner, fresh, depth)
			}
		case *ssa.FieldAddr:
			// nested struct by value: the inner field is classified on its own when its
			// owner is a package type; still count as read of the outer field
			if depth < 3 {
				if syncField {
					continue
				}
				in := namedOf(y.X.Type().Underlying().(*types.Pointer).Elem())
				if in != nil && in.Obj().Pkg() == la.p.Types {
					continue
				}
				la.classify(f, y, fld, owner, h, fresh, pos, depth+1)
			}
		case *ssa.IndexAddr:
			if depth < 3 {
				la.classify(f, y, fld, owner, h, fresh, pos, depth+1)
			}
		case *ssa.Slice:
			// slicing an array field: r.seed[:]
			if depth < 3 {
				la.sliceUses(f, y, fld, owner, fresh, depth+1)
			}
		case ssa.CallInstruction:
			// &x.f handed to a call: atomic.AddUint64(&s.X, ..), x.mu.Lock()
			at := false
			readOnly := false
			if c := y.Common().StaticCallee(); c != nil && c.Pkg != nil {
				pp := c.Pkg.Pkg.Path()
				at = pp == "sync/atomic" || pp == "sync"
				readOnly = readOnlyPtrArg[pp+"."+c.Name()]
			}
			if syncField {
				at = true
			}
			rec(!at && !readOnly, at, y.Pos(), h)
		default:
			rec(false, false, r.Pos(), h)
		}
	}
}

func (la *LockAnalysis) sliceUses(f *ssa.Function, v ssa.Value, fld *types.Var, owner string, fresh bool, depth int) {
	refs := v.Referrers()
	if refs == nil {
		return
	}
	for _, r := range *refs {
		h := la.heldAt[r]
		switch y := r.(type) {
		case ssa.CallInstruction:
			// passed to a call (copy, io.ReadFull, Encrypt): may read and write contents
			w := true
			if c := y.Common().StaticCallee(); c != nil {
				if pureExternalSSA(c) {
					w = false
				}
			}
			// builtin copy: destination is first arg
			if b, ok := y.Common().Value.(*ssa.Builtin); ok && b.Name() == "copy" {
				w = len(y.Common().Args) > 0 && y.Common().Args[0] == v
			}
			if b, ok := y.Common().Value.(*ssa.Builtin); ok && (b.Name() == "len" || b.Name() == "cap") {
				continue
			}
			la.Accesses = append(la.Accesses, Access{Field: fld, Owner: owner, Write: w, Fn: f, Pos: y.Pos(), Held: h, Fresh: fresh})
		case *ssa.IndexAddr:
			if depth < 4 {
				la.classify(f, y, fld, owner, h, fresh, y.Pos(), depth+1)
			}
		case *ssa.Slice:
			if depth < 4 {
				la.sliceUses(f, y, fld, owner, fresh, depth+1)
			}
		}
	}
}

// external functions that only read through a pointer-to-field argument
// (frozen table, one line of reason each).
var readOnlyPtrArg = map[string]bool{
	"golang.org/x/crypto/salsa20.XORKeyStream": true, // key *[32]byte is an input
}

func pureExternalSSA(c *ssa.Function) bool {
	if c.Pkg == nil {
		return false
	}
	switch c.Pkg.Pkg.Path() {
	case "hash/crc32":
		return true
	case "encoding/binary":
		return strings.HasPrefix(c.Name(), "Uint")
	case "net":
		return true // net.Addr / UDPAddr helpers used here only read
	case "fmt", "strconv", "errors", "github.com/pkg/errors":
		return true
	}
	return false
}

// externalWritesArg: which argument positions an external function writes
// through (frozen table from the documented contracts; default: all reference
// arguments). For interface methods the receiver is not counted.
var externalWriteArgs = map[string]map[int]bool{
	"crypto/subtle.XORBytes":                   {0: true},
	"crypto/cipher.Encrypt":                    {0: true}, // cipher.Block.Encrypt(dst, src)
	"crypto/cipher.Decrypt":                    {0: true},
	"crypto/cipher.Seal":                       {0: true}, // AEAD.Seal(dst, nonce, plaintext, ad)
	"crypto/cipher.Open":                       {0: true},
	"golang.org/x/crypto/salsa20.XORKeyStream": {0: true},
	"io.ReadFull":                              {1: true},
	"encoding/binary.PutUint16":                {0: true},
	"encoding/binary.PutUint32":                {0: true},
	"encoding/binary.PutUint64":                {0: true},
}

func externalWritesArg(c *ssa.Function, ai int) bool {
	if c.Pkg == nil {
		// interface method of an external interface (abstract): look up by the
		// method's package
		if obj := c.Object(); obj != nil && obj.Pkg() != nil {
			if m, ok := externalWriteArgs[obj.Pkg().Path()+"."+c.Name()]; ok {
				return m[ai]
			}
		}
		return true
	}
	if m, ok := externalWriteArgs[c.Pkg.Pkg.Path()+"."+c.Name()]; ok {
		return m[ai]
	}
	return true
}

func isAtomicOrSync(c *ssa.Function) bool {
	if c.Pkg == nil {
		return false
	}
	pp := c.Pkg.Pkg.Path()
	return pp == "sync" || pp == "sync/atomic"
}

// contentWrites: the value loaded from a reference-typed field is used to mutate
// the referent (map update, element store, copy destination, delete, clear).
func (la *LockAnalysis) contentWrites(f *ssa.Function, load *ssa.UnOp, fld *types.Var, owner string, fresh bool, depth int) {
	switch fld.Type().Underlying().(type) {
	case *types.Slice, *types.Map:
	default:
		return
	}
	// "take the whole container" idiom: the field is overwritten right after the
	// load (swap under the lock); the loaded value is then owned by this function.
	if fa, ok := load.X.(*ssa.FieldAddr); ok {
		seenLoad := false
		for _, in := range load.Block().Instrs {
			if in == load {
				seenLoad = true
				continue
			}
			if !seenLoad {
				continue
			}
			if st, ok := in.(*ssa.Store); ok {
				if fa2, ok := st.Addr.(*ssa.FieldAddr); ok && fa2.Field == fa.Field && fa2.X == fa.X && st.Val != load {
					return
				}
			}
		}
	}
	var visit func(v ssa.Value, d int)
	visit = func(v ssa.Value, d int) {
		if d > 3 {
			return
		}
		refs := v.Referrers()
		if refs == nil {
			return
		}
		for _, r := range *refs {
			h := la.heldAt[r]
			switch y := r.(type) {
			case *ssa.MapUpdate:
				if y.Map == v {
					la.Accesses = append(la.Accesses, Access{Field: fld, Owner: owner, Write: true, Fn: f, Pos: y.Pos(), Held: h, Fresh: fresh})
				}
			case *ssa.IndexAddr:
				if y.X == v {
					if rr := y.Referrers(); rr != nil {
						for _, s := range *rr {
							if st, ok := s.(*ssa.Store); ok && st.Addr == y {
								la.Accesses = append(la.Accesses, Access{Field: fld, Owner: owner, Write: true, Fn: f, Pos: st.Pos(), Held: la.heldAt[st], Fresh: fresh})
							}
							// an element read through the loaded slice header (possibly after the lock was dropped)
							if ld, ok := s.(*ssa.UnOp); ok && ld.Op == token.MUL && ld.X == y {
								la.Accesses = append(la.Accesses, Access{Field: fld, Owner: owner, Write: false, Fn: f, Pos: ld.Pos(), Held: la.heldAt[ld], Fresh: fresh})
							}
						}
					}
				}
			case *ssa.Slice:
				if y.X == v {
					visit(y, d+1)
				}
			case *ssa.Range:
				// iterating a map reads its contents for the whole loop: the lock must be held where the
				// iteration starts (copying the map value under the lock copies a reference, not the map)
				if _, isMap := fld.Type().Underlying().(*types.Map); isMap && y.X == v {
					la.Accesses = append(la.Accesses, Access{Field: fld, Owner: owner, Write: false, Fn: f, Pos: y.Pos(), Held: h, Fresh: fresh})
				}
			case *ssa.Lookup:
				if _, isMap := fld.Type().Underlying().(*types.Map); isMap && y.X == v {
					la.Accesses = append(la.Accesses, Access{Field: fld, Owner: owner, Write: false, Fn: f, Pos: y.Pos(), Held: h, Fresh: fresh})
				}
			case ssa.CallInstruction:
				if b, ok := y.Common().Value.(*ssa.Builtin); ok {
					switch b.Name() {
					case "delete", "clear":
						la.Accesses = append(la.Accesses, Access{Field: fld, Owner: owner, Write: true, Fn: f, Pos: y.Pos(), Held: h, Fresh: fresh})
					case "copy":
						if len(y.Common().Args) > 0 && y.Common().Args[0] == v {
							la.Accesses = append(la.Accesses, Access{Field: fld, Owner: owner, Write: true, Fn: f, Pos: y.Pos(), Held: h, Fresh: fresh})
						}
						// copying *out of* the container through an alias of its header reads its contents where the copy runs
						if len(y.Common().Args) > 1 && y.Common().Args[1] == v {
							la.Accesses = append(la.Accesses, Access{Field: fld, Owner: owner, Write: false, Fn: f, Pos: y.Pos(), Held: h, Fresh: fresh})
						}
					}
					continue
				}
				// handed to a callee that writes through that parameter
				com := y.Common()
				for ai, a := range com.Args {
					if a != v {
						continue
					}
					w := false
					callees := la.calleesOf(f, y)
					for _, c := range callees {
						if la.p.InPkg(c) {
							pi := ai
							if com.IsInvoke() {
								pi = ai + 1
							}
							if la.paramW[c][pi] {
								w = true
							}
						} else if !pureExternalSSA(c) && !isAtomicOrSync(c) && externalWritesArg(c, ai) {
							w = true
						}
					}
					if w {
						la.Accesses = append(la.Accesses, Access{Field: fld, Owner: owner, Write: true, Fn: f, Pos: y.Pos(), Held: h, Fresh: fresh})
					}
				}
			}
		}
	}
	visit(load, 0)
}

// computeReach: which roots reach each function (for the confinement rule).
func (la *LockAnalysis) computeReach() {
	for root, label := range la.roots {
		seen := map[*ssa.Function]bool{}
		var walk func(f *ssa.Function)
		walk = func(f *ssa.Function) {
			if seen[f] {
				return
			}
			seen[f] = true
			if la.reachBy[f] == nil {
				la.reachBy[f] = map[string]bool{}
			}
			la.reachBy[f][label] = true
			for _, b := range f.Blocks {
				for _, instr := range b.Instrs {
					site, ok := instr.(ssa.CallInstruction)
					if !ok {
						continue
					}
					if _, isGo := site.(*ssa.Go); isGo {
						continue
					}
					for _, c := range la.calleesOf(f, site) {
						if la.p.InPkg(c) {
							if c.Blocks != nil {
								walk(c)
							}
						} else {
							for _, d := range la.filterByArgs(site, la.throughExternal(c)) {
								if d.Blocks != nil {
									walk(d)
								}
							}
						}
					}
				}
			}
		}
		walk(root)
	}
}

// Chain returns a call chain from an entry point to f along which lock class
// `lock` is not held ("" = any chain).
func (la *LockAnalysis) Chain(f *ssa.Function, lock string) string {
	var parts []string
	seen := map[*ssa.Function]bool{}
	cur := f
	for i := 0; i < 12; i++ {
		parts = append([]string{cur.String()}, parts...)
		if lbl, ok := la.roots[cur]; ok {
			parts[0] = "[" + lbl + "]"
			break
		}
		seen[cur] = true
		var next *callSite
		for k := range la.callers[cur] {
			cs := &la.callers[cur][k]
			if seen[cs.caller] {
				continue
			}
			if lock == "" || !(cs.held[lock] || cs.held[lock+"(R)"]) {
				next = cs
				break
			}
		}
		if next == nil {
			break
		}
		parts[0] = fmt.Sprintf("%s (call at %s, held=%s)", parts[0], la.p.PosOf(next.site.Pos()), next.held)
		cur = next.caller
	}
	return strings.Join(parts, " -> ")
}

// Origins returns the functions in which the missing lock should have been
// taken: walking callers backwards from f along call sites at which `lock` is
// not held, the first function that is an entry point or that itself held the
// lock at entry (and released it before the call).
func (la *LockAnalysis) Origins(f *ssa.Function, lock string) []*ssa.Function {
	var out []*ssa.Function
	seen := map[*ssa.Function]bool{}
	var walk func(cur *ssa.Function, depth int)
	walk = func(cur *ssa.Function, depth int) {
		if seen[cur] || depth > 15 {
			return
		}
		seen[cur] = true
		if _, isRoot := la.roots[cur]; isRoot {
			out = append(out, cur)
			return
		}
		if e := la.entry[cur]; e != nil && (e[lock] || e[lock+"(R)"]) && cur != f {
			out = append(out, cur)
			return
		}
		n := 0
		for _, cs := range la.callers[cur] {
			if cs.held[lock] || cs.held[lock+"(R)"] {
				continue
			}
			n++
			walk(cs.caller, depth+1)
		}
		if n == 0 {
			out = append(out, cur)
		}
	}
	walk(f, 0)
	sort.Slice(out, func(i, j int) bool { return out[i].String() < out[j].String() })
	return out
}

// writesThrough reports whether the function writes into the memory reachable
// through value v (a slice, map or pointer): element stores, copy/clear/delete,
// or handing it (or a re-slice) to a callee that does.
func (la *LockAnalysis) writesThrough(f *ssa.Function, v ssa.Value, depth int, seen map[ssa.Value]bool) bool {
	if depth > 6 || seen[v] {
		return false
	}
	seen[v] = true
	refs := v.Referrers()
	if refs == nil {
		return false
	}
	for _, r := range *refs {
		switch y := r.(type) {
		case *ssa.MapUpdate:
			if y.Map == v {
				return true
			}
		case *ssa.IndexAddr:
			if y.X == v {
				if rr := y.Referrers(); rr != nil {
					for _, s := range *rr {
						if st, ok := s.(*ssa.Store); ok && st.Addr == y {
							return true
						}
					}
				}
			}
		case *ssa.Store:
			if y.Addr == v {
				return true
			}
		case *ssa.Slice:
			if y.X == v && la.writesThrough(f, y, depth+1, seen) {
				return true
			}
		case *ssa.ChangeType:
			if la.writesThrough(f, y, depth+1, seen) {
				return true
			}
		case *ssa.Phi:
			if la.writesThrough(f, y, depth+1, seen) {
				return true
			}
		case ssa.CallInstruction:
			com := y.Common()
			if b, ok := com.Value.(*ssa.Builtin); ok {
				switch b.Name() {
				case "copy":
					if len(com.Args) > 0 && com.Args[0] == v {
						return true
					}
				case "clear", "delete":
					return true
				}
				continue
			}
			for ai, a := range com.Args {
				if a != v {
					continue
				}
				callees := la.calleesOf(f, y)
				if len(callees) == 0 {
					return true // unknown callee
				}
				for _, c := range callees {
					if la.p.InPkg(c) {
						pi := ai
						if com.IsInvoke() {
							pi = ai + 1
						}
						if la.paramW[c][pi] {
							return true
						}
					} else if !pureExternalSSA(c) && externalWritesArg(c, ai) {
						return true
					}
				}
			}
		}
	}
	return false
}

func (la *LockAnalysis) computeParamWrites() {
	la.paramW = map[*ssa.Function]map[int]bool{}
	for iter := 0; iter < 10; iter++ {
		changed := false
		for _, f := range la.funcs {
			for i, pa := range f.Params {
				switch pa.Type().Underlying().(type) {
				case *types.Slice, *types.Map, *types.Pointer:
				default:
					continue
				}
				if la.paramW[f][i] {
					continue
				}
				if la.writesThrough(f, pa, 0, map[ssa.Value]bool{}) {
					if la.paramW[f] == nil {
						la.paramW[f] = map[int]bool{}
					}
					la.paramW[f][i] = true
					changed = true
				}
			}
		}
		if !changed {
			break
		}
	}
}

// AllocatedOnlyUnderSpawner reports whether every allocation of the package
// struct type `typ` happens in a function that can only be reached through a
// function that contains the go statement starting goroutine root `goFn`
// (i.e. one object per goroutine, created by whoever starts the goroutine).
func (la *LockAnalysis) AllocatedOnlyUnderSpawner(typ string, goLabel string) (bool, string) {
	// functions that spawn the root
	spawners := map[*ssa.Function]bool{}
	for _, f := range la.funcs {
		for _, b := range f.Blocks {
			for _, in := range b.Instrs {
				if g, ok := in.(*ssa.Go); ok {
					for _, c := range la.calleesOf(f, g) {
						if la.roots[c] == goLabel {
							spawners[f] = true
						}
					}
				}
			}
		}
	}
	if len(spawners) == 0 {
		return false, "no go statement found for " + goLabel
	}
	nAlloc := 0
	for _, f := range la.funcs {
		for _, b := range f.Blocks {
			for _, in := range b.Instrs {
				a, ok := in.(*ssa.Alloc)
				if !ok {
					continue
				}
				n := namedOf(a.Type())
				if n == nil || n.Obj().Pkg() != la.p.Types || n.Obj().Name() != typ {
					continue
				}
				nAlloc++
				// walk callers upward
				seen := map[*ssa.Function]bool{}
				var up func(cur *ssa.Function) string
				up = func(cur *ssa.Function) string {
					if seen[cur] {
						return ""
					}
					seen[cur] = true
					if spawners[cur] {
						return ""
					}
					if lbl, isRoot := la.roots[cur]; isRoot {
						return lbl
					}
					for _, cs := range la.callers[cur] {
						if r := up(cs.caller); r != "" {
							return r
						}
					}
					return ""
				}
				if r := up(f); r != "" {
					return false, typ + " is also allocated under " + shortLabel(r) + " (in " + shortFn(f) + "), not only by the function that starts the goroutine"
				}
			}
		}
	}
	if nAlloc == 0 {
		return false, "no allocation of " + typ + " found in the package (objects come from outside)"
	}
	return true, ""
}

// LockLeak: a function acquires a lock class itself and reaches a return with the
// lock still held although it does not defer the unlock (and did not hold it at entry).
type LockLeak struct {
	Fn   *ssa.Function
	Lock string
	Pos  token.Pos
}

func (la *LockAnalysis) Leaks() []LockLeak {
	var out []LockLeak
	for _, f := range la.funcs {
		entry, ok := la.entry[f]
		if !ok {
			continue
		}
		acquired := map[string]bool{}
		deferred := map[string]bool{}
		for _, b := range f.Blocks {
			for _, in := range b.Instrs {
				var com *ssa.CallCommon
				isDefer := false
				switch x := in.(type) {
				case *ssa.Call:
					com = &x.Call
				case *ssa.Defer:
					com = &x.Call
					isDefer = true
				}
				if com == nil {
					continue
				}
				cal := com.StaticCallee()
				if cal == nil || cal.Signature.Recv() == nil || len(com.Args) == 0 {
					continue
				}
				rt := cal.Signature.Recv().Type().String()
				if rt != "*sync.Mutex" && rt != "*sync.RWMutex" {
					continue
				}
				c := lockClassOf(com.Args[0])
				switch cal.Name() {
				case "Lock":
					if !isDefer {
						acquired[c] = true
					}
				case "RLock":
					if !isDefer {
						acquired[c+"(R)"] = true
					}
				case "Unlock":
					if isDefer {
						deferred[c] = true
					}
				case "RUnlock":
					if isDefer {
						deferred[c+"(R)"] = true
					}
				}
			}
		}
		if len(acquired) == 0 {
			continue
		}
		for _, b := range f.Blocks {
			for _, in := range b.Instrs {
				ret, ok := in.(*ssa.Return)
				if !ok {
					continue
				}
				held := la.heldAt[ret]
				for c := range acquired {
					if held[c] && !deferred[c] && !entry[c] {
						out = append(out, LockLeak{f, c, ret.Pos()})
					}
				}
			}
		}
	}
	return out
}

// ---------------------------------------------------------------- lock order

// LockOrderEdge: while `From` is held (must-lockset at the site), `To` may be acquired —
// directly at a Lock/RLock call or somewhere below a call made at the site.
type LockOrderEdge struct {
	From, To string
	Fn       *ssa.Function
	Pos      token.Pos
	Via      string // callee through which To is acquired ("" for a direct Lock)
}

func lockBase(c string) string { return strings.TrimSuffix(c, "(R)") }

// mayAcquire: the lock classes f may acquire, transitively through synchronous calls (not `go`).
func (la *LockAnalysis) mayAcquire() map[*ssa.Function]map[string]bool {
	acq := map[*ssa.Function]map[string]bool{}
	targetsOf := func(f *ssa.Function, site ssa.CallInstruction) []*ssa.Function {
		var targets []*ssa.Function
		for _, c := range la.calleesOf(f, site) {
			if la.p.InPkg(c) {
				targets = append(targets, c)
			} else {
				targets = append(targets, la.filterByArgs(site, la.throughExternal(c))...)
			}
		}
		return targets
	}
	for _, f := range la.funcs {
		acq[f] = map[string]bool{}
		for _, b := range f.Blocks {
			for _, instr := range b.Instrs {
				call, ok := instr.(ssa.CallInstruction)
				if !ok {
					continue
				}
				cal := call.Common().StaticCallee()
				if cal == nil || cal.Signature.Recv() == nil || len(call.Common().Args) == 0 {
					continue
				}
				rt := cal.Signature.Recv().Type().String()
				if (rt == "*sync.Mutex" || rt == "*sync.RWMutex") && (cal.Name() == "Lock" || cal.Name() == "RLock") {
					acq[f][lockBase(lockClassOf(call.Common().Args[0]))] = true
				}
			}
		}
	}
	for changed := true; changed; {
		changed = false
		for _, f := range la.funcs {
			for _, b := range f.Blocks {
				for _, instr := range b.Instrs {
					site, ok := instr.(ssa.CallInstruction)
					if !ok {
						continue
					}
					if _, isGo := site.(*ssa.Go); isGo {
						continue
					}
					for _, c := range targetsOf(f, site) {
						for k := range acq[c] {
							if !acq[f][k] {
								acq[f][k] = true
								changed = true
							}
						}
					}
				}
			}
		}
	}
	return acq
}

// LockOrder lists the order edges between distinct lock classes.
func (la *LockAnalysis) LockOrder() []LockOrderEdge {
	acq := la.mayAcquire()
	var out []LockOrderEdge
	seen := map[string]bool{}
	add := func(e LockOrderEdge) {
		if e.From == "?" || e.To == "?" {
			return
		}
		k := e.From + ">" + e.To
		if seen[k] {
			return
		}
		seen[k] = true
		out = append(out, e)
	}
	for _, f := range la.funcs {
		if _, ok := la.entry[f]; !ok {
			continue
		}
		for _, b := range f.Blocks {
			for _, instr := range b.Instrs {
				site, ok := instr.(ssa.CallInstruction)
				if !ok {
					continue
				}
				if _, isGo := site.(*ssa.Go); isGo {
					continue
				}
				h := la.heldAt[instr]
				if d, isDefer := site.(*ssa.Defer); isDefer {
					h = la.heldAtDeferred(f, d)
				}
				if len(h) == 0 {
					continue
				}
				cal := site.Common().StaticCallee()
				if cal != nil && cal.Signature.Recv() != nil && len(site.Common().Args) > 0 {
					rt := cal.Signature.Recv().Type().String()
					if rt == "*sync.Mutex" || rt == "*sync.RWMutex" {
						if cal.Name() == "Lock" || cal.Name() == "RLock" {
							to := lockBase(lockClassOf(site.Common().Args[0]))
							for hc := range h {
								add(LockOrderEdge{From: lockBase(hc), To: to, Fn: f, Pos: instr.Pos()})
							}
						}
						continue
					}
				}
				for _, c := range la.calleesOf(f, site) {
					var targets []*ssa.Function
					if la.p.InPkg(c) {
						targets = append(targets, c)
					} else {
						targets = append(targets, la.filterByArgs(site, la.throughExternal(c))...)
					}
					for _, t := range targets {
						for to := range acq[t] {
							for hc := range h {
								add(LockOrderEdge{From: lockBase(hc), To: to, Fn: f, Pos: instr.Pos(), Via: t.String()})
							}
						}
					}
				}
			}
		}
	}
	sort.Slice(out, func(i, j int) bool {
		if out[i].From != out[j].From {
			return out[i].From < out[j].From
		}
		return out[i].To < out[j].To
	})
	return out
}

// checkLockOrder: the order relation between lock classes is acyclic; one obligation per edge
// (an edge on a cycle is a violation: two goroutines taking the two locks in opposite orders block each other for good).
func checkLockOrder(p *Prog, r *Report, rule string) {
	la := p.Locks()
	edges := la.LockOrder()
	succ := map[string][]string{}
	for _, e := range edges {
		if e.From != e.To {
			succ[e.From] = append(succ[e.From], e.To)
		}
	}
	reach := func(from, to string) bool {
		seen := map[string]bool{}
		var dfs func(x string) bool
		dfs = func(x string) bool {
			if x == to {
				return true
			}
			if seen[x] {
				return false
			}
			seen[x] = true
			for _, y := range succ[x] {
				if dfs(y) {
					return true
				}
			}
			return false
		}
		return dfs(from)
	}
	for _, e := range edges {
		construct := "lock order " + e.From + " -> " + e.To
		via := ""
		if e.Via != "" {
			via = " (through " + e.Via + ")"
		}
		if e.From == e.To {
			r.bad(rule, e.Fn.String(), p.PosOf(e.Pos), "lock "+e.From+" re-acquired while held", "while "+e.From+" is held the same lock is acquired again"+via+": sync mutexes are not reentrant (a read lock followed by a write lock of the same RWMutex included) — the goroutine blocks on itself for good, and with it everybody who waits for that lock", "")
			continue
		}
		if reach(e.To, e.From) {
			r.bad(rule, e.Fn.String(), p.PosOf(e.Pos), construct, "while "+e.From+" is held, "+e.To+" is acquired"+via+", and elsewhere "+e.To+" is held while "+e.From+" is acquired: two goroutines taking them in opposite orders block each other for good (with a read lock too: a waiting writer blocks new readers) — every caller blocked on either lock never wakes", "")
		} else {
			r.ok(rule, e.Fn.String(), p.PosOf(e.Pos), construct, "no opposite order anywhere"+via)
		}
	}
	if len(edges) == 0 {
		r.ok(rule, "package", "-", "lock order", "no lock is acquired while another is held")
	}
}

// storesIntoGlobal: some function of the package stores into the (external) global g.
func (la *LockAnalysis) storesIntoGlobal(g *ssa.Global) bool {
	for _, f := range la.funcs {
		for _, b := range f.Blocks {
			for _, in := range b.Instrs {
				if st, ok := in.(*ssa.Store); ok && st.Addr == ssa.Value(g) {
					return true
				}
			}
		}
	}
	return false
}
