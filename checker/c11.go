package main

import (
	"fmt"
	"go/ast"
	"go/token"
	"go/types"
	"strings"

	"golang.org/x/tools/go/cfg"
)

func init() {
	register(&propCheck{
		id:  "C11",
		run: checkC11,
		configs: map[string][]string{
			"quick":    {"linux64"},
			"thorough": {"linux64", "generic", "linux32"},
		},
		explain: "Demultiplexing is a chain of dominance and ordering facts on the listener's single input goroutine: an existing session receives a datagram only under 'no conversation id readable or id equal', " +
			"it is reset only by a different conversation starting at sequence 0 and the old session is closed before the replacement is registered (closeSession removes by address), a session is created only " +
			"when an id was read and the accept backlog has room, and is then registered and handed to Accept exactly once; the session table is keyed only by the datagram's source address; the core rejects " +
			"segments of another conversation before any state change; both read loops of dialled sessions drop datagrams whose source mismatches and compare IP, port and zone; Close removes the session. " +
			"Interleavings at the socket do not matter to these facts because Listener.packetInput has a single caller chain (checked) and shared state is covered by C14.",
		assume: []string{
			"stream content per session is C01; spoofed source addresses identical to a real peer's are indistinguishable by design",
		},
	})
}

func checkC11(p *Prog, r *Report) {
	r.rule("C11.D1", "an existing session is fed only under !hasConv || conv == s.kcp.conv; hasConv is set exactly on the arms that read a conversation id; a new session is created with the id that was read", 3)
	r.rule("C11.D2", "the listener closes an existing session only under conv != s.kcp.conv and sn == 0, and before the replacement is registered under the same address", 2)
	r.rule("C11.D3", "newUDPSession in the listener is dominated by hasConv and by the room test on chAccepts; afterwards the session is registered (once) and sent to chAccepts (once) on every path", 3)
	r.rule("C11.D4", "every index of Listener.sessions is <address>.String() of the datagram's source (lookup, insert) or of the closing session's remote (delete)", 4)
	r.rule("C11.D5", "in KCP.Input every state-changing call and store of the segment loop is dominated by conv == kcp.conv", 6)
	r.rule("C11.D6", "both read loops of dialled sessions reach packetInput only after learning the first source or after the source matched; a mismatch continues with the next datagram; sameUDPAddr compares IP, port and zone", 3)
	r.rule("C11.D9", "traffic from one address never stalls the others: nothing blocks while a session mutex is held (= C02.A7) — the listener's single receive goroutine takes that mutex for every datagram of the session", 1)
	r.rule("C11.D8", "one session cannot stall the others: no lock-order cycle between a session's mutex and the listener's table lock (= C13.W12) — the blocked goroutine would be the listener's only receive loop, so every session on the socket goes deaf", 1)
	r.rule("C11.D10", "a socket is declared dead only by the socket: the error handed to notifyReadError comes from a variable that is assigned by the read call alone (ReadFrom / ReadBatch) — no property of a datagram (its length, its source, its contents) is turned into a read error, which would close every session of the listener", 4)
	r.rule("C11.D7", "UDPSession.Close removes the session from its listener (closeSession(s.remote)) on the first close; Listener.packetInput has a single caller chain (the monitor goroutine)", 2)

	checkLockOrder(p, r, "C11.D8")
	delegate(p, r, "C02", checkC02, "C02.A7", "C11.D9")
	lp := p.FuncByName("(*Listener).packetInput")
	if lp == nil {
		brokenCheck("ANCHOR-UNRESOLVED role=func (*Listener).packetInput")
	}
	c := p.CFG(lp)
	fa := p.FactsOf(lp)
	kcpInput := p.Method("UDPSession", "kcpInput")
	newSess := p.Func("newUDPSession")
	fSessions := p.Field("Listener", "sessions")
	fConv := p.Field("KCP", "conv")
	fKcp := p.Field("UDPSession", "kcp")

	// locals
	var hasConv, convV, snV *types.Var
	inspectBody(lp, func(n ast.Node) bool {
		if id, ok := n.(*ast.Ident); ok {
			if v, ok := p.Info.Defs[id].(*types.Var); ok {
				switch {
				case v.Type().String() == "bool" && hasConv == nil && assignedTrue(p, lp, v):
					// the boolean that is tested together with the conversation comparison: the flag some arm sets to true
					// (not the comma-ok result of the table lookup)
					hasConv = v
				}
			}
		}
		return true
	})
	// conv/sn: locals compared with s.kcp.conv / with 0 before Close
	for _, b := range c.live {
		ct := c.CondTerm(b)
		if ct == nil {
			continue
		}
		ct.Walk(func(t *Term) {
			if (t.Op == "==" || t.Op == "!=") && len(t.Args) == 2 {
				for i := 0; i < 2; i++ {
					if x, ok := fieldBase(t.Args[i], fConv); ok && t.Args[1-i].Op == "var" {
						if _, ok := fieldBase(x, fKcp); ok {
							convV, _ = t.Args[1-i].Obj.(*types.Var)
						}
					}
				}
			}
		})
	}
	if convV == nil {
		r.bad("C11.D1", lp.Name, p.Pos(lp.Node), "conversation comparison", "the listener never compares a conversation id with s.kcp.conv", "")
		return
	}
	// hasConv: the bool appearing in a disjunction with that comparison
	hasConv = nil
	for _, b := range c.live {
		ct := c.CondTerm(b)
		if ct != nil && ct.Op == "&&" {
			ct = Negate(ct) // the De Morgan spelling: hasConv && conv != s.kcp.conv guards the other arm
		}
		if ct == nil || ct.Op != "||" {
			continue
		}
		mentionsConv := false
		var bv *types.Var
		for _, a := range ct.Args {
			if a.Op == "==" && (a.Args[0].Op == "var" && a.Args[0].Obj == convV || a.Args[1].Op == "var" && a.Args[1].Obj == convV) {
				mentionsConv = true
			}
			if a.Op == "not" && a.Args[0].Op == "var" {
				bv, _ = a.Args[0].Obj.(*types.Var)
			}
		}
		if mentionsConv && bv != nil {
			hasConv = bv
		}
	}

	// ---- D1
	nFeed := 0
	for _, s := range p.CallsTo(kcpInput) {
		if s.Fn != lp {
			continue
		}
		nFeed++
		sess := s.Recv
		fs := fa.AtNode(s.Call)
		construct := fmt.Sprintf("feed #%d: %s.kcpInput(data)", nFeed, exprString(ast.Unparen(s.Call.Fun).(*ast.SelectorExpr).X))
		// created in this call?
		created := false
		if sess.Op == "var" {
			for _, a := range p.Assignments(lp, sess.Obj.(*types.Var)) {
				if a.Rhs != nil {
					if call, ok := ast.Unparen(a.Rhs).(*ast.CallExpr); ok && p.Callee(call) == newSess {
						cp, _ := c.PointOf(a.Node)
						sp, _ := c.PointOf(s.Call)
						if c.Dominates(cp, sp) {
							created = true
							okArg := len(call.Args) > 0 && p.Term(call.Args[0]).Key() == tVar(convV).Key()
							r.check(okArg, "C11.D1", lp.Name, p.Pos(call), "new session gets the id that was read", "newUDPSession("+convV.Name()+", …)", "the new session is created with another conversation id than the datagram's")
						}
					}
				}
			}
		}
		if created {
			r.ok("C11.D1", lp.Name, p.Pos(s.Call), construct, "the session was created for this datagram's conversation")
			continue
		}
		want := eq(tVar(convV), tFld(tFld(sess, fKcp), fConv))
		okF := fs.Holds(want)
		if !okF && hasConv != nil {
			or := normTerm(mk("||", not(tVar(hasConv)), want))
			okF = fs.Holds(or)
		}
		if okF {
			r.ok("C11.D1", lp.Name, p.Pos(s.Call), construct, "dominated by !hasConv || conv == s.kcp.conv")
		} else {
			r.bad("C11.D1", lp.Name, p.Pos(s.Call), construct, "an existing session is fed a datagram without the conversation check: data of another conversation from the same address is merged into its stream; facts: "+pretty(fs.String()), p.unguardedPath(lp, s.Call, nil))
		}
	}
	if nFeed == 0 {
		r.bad("C11.D1", lp.Name, p.Pos(lp.Node), "feeds", "the listener never feeds a session", "")
	}
	// hasConv pairing: every assignment conv = <read> is in a block that also sets hasConv = true, and vice versa
	if hasConv != nil {
		okPair := true
		why := ""
		for _, a := range p.Assignments(lp, convV) {
			if a.Rhs == nil {
				continue
			}
			pt, _ := c.PointOf(a.Node)
			sets := false
			for _, nd := range pt.B.Nodes {
				if as, ok := nd.(*ast.AssignStmt); ok && len(as.Lhs) == 1 && len(as.Rhs) == 1 {
					if id, ok := as.Lhs[0].(*ast.Ident); ok && p.Info.Uses[id] == hasConv && p.Term(as.Rhs[0]).Op == "true" {
						sets = true
					}
				}
			}
			if !sets {
				okPair = false
				why = "a conversation id is read at " + p.Pos(a.Node) + " without setting " + hasConv.Name()
			}
		}
		for _, a := range p.Assignments(lp, hasConv) {
			if a.Rhs == nil || p.Term(a.Rhs).Op != "true" {
				continue
			}
			pt, _ := c.PointOf(a.Node)
			reads := false
			for _, nd := range pt.B.Nodes {
				if as, ok := nd.(*ast.AssignStmt); ok && len(as.Lhs) == 1 {
					if id, ok := as.Lhs[0].(*ast.Ident); ok && p.Info.Uses[id] == convV {
						reads = true
					}
				}
			}
			if !reads {
				okPair = false
				why = hasConv.Name() + " is set at " + p.Pos(a.Node) + " on an arm that reads no conversation id"
			}
		}
		r.check(okPair, "C11.D1", lp.Name, p.Pos(lp.Node), "hasConv pairs with reading an id", "set exactly where conv is read", why)
	}

	// ---- D2
	closeM := p.Method("UDPSession", "Close")
	nClose := 0
	for _, s := range p.CallsTo(closeM) {
		if s.Fn != lp {
			continue
		}
		nClose++
		fs := fa.AtNode(s.Call)
		sess := s.Recv
		okDiff := fs.Holds(ne(tVar(convV), tFld(tFld(sess, fKcp), fConv)))
		// sn == 0: some local compared with 0 whose value came from the sequence-number offset
		okSn := false
		for _, a := range fs.Atoms {
			if a.Op == "==" && a.Args[0].IsConst() && a.Args[0].Int == 0 && a.Args[1].Op == "var" {
				v := a.Args[1].Obj.(*types.Var)
				for _, as := range p.Assignments(lp, v) {
					if as.Rhs != nil && strings.Contains(exprString(as.Rhs), "IKCP_SN_OFFSET") {
						okSn = true
						snV = v
					}
				}
			}
		}
		if okDiff && okSn {
			r.ok("C11.D2", lp.Name, p.Pos(s.Call), "reset of the existing session", "under conv != s.kcp.conv ∧ sn == 0")
		} else {
			r.bad("C11.D2", lp.Name, p.Pos(s.Call), "reset of the existing session", fmt.Sprintf("an established session is closed without both tests (different conversation: %v, sequence number 0: %v): stale or forged traffic from the peer's address can reset it", okDiff, okSn), p.unguardedPath(lp, s.Call, nil))
		}
		// ordering: never after the registration of a session under the same address
		cp, _ := c.PointOf(s.Call)
		for _, pt := range c.AllPoints() {
			if as, ok := pt.Node().(*ast.AssignStmt); ok && len(as.Lhs) == 1 {
				if lt := p.Term(as.Lhs[0]); lt.Op == "idx" && lt.Args[0].Op == "fld" && lt.Args[0].Obj == fSessions {
					if c.Reaches(Point{pt.B, pt.I + 1}, cp) {
						r.bad("C11.D2", lp.Name, p.Pos(s.Call), "old session closed before the replacement is registered", "the old session is closed after a session was registered under the same address: closeSession removes by address, so it deletes the replacement's entry (later datagrams create yet another session and a second Accept)", c.DescribePath([]Point{pt, cp}))
					} else {
						r.ok("C11.D2", lp.Name, p.Pos(s.Call), "old session closed before the replacement is registered", "no path registers a session and then closes the old one")
					}
				}
			}
		}
	}
	if nClose == 0 {
		r.ok("C11.D2", lp.Name, p.Pos(lp.Node), "reset of the existing session", "the listener never closes sessions itself")
	}
	_ = snV

	// ---- D2 (continued): the sequence number the reset test looks at is the one of the header whose id was read
	{
		snOff := p.ConstInt("IKCP_SN_OFFSET")
		n := 0
		ast.Inspect(lp.Body, func(x ast.Node) bool {
			cc, ok := x.(*ast.CaseClause)
			if !ok {
				return true
			}
			offs := map[string]int64{}
			var pos ast.Node
			for _, st := range cc.Body {
				ast.Inspect(st, func(y ast.Node) bool {
					as, ok := y.(*ast.AssignStmt)
					if !ok || len(as.Lhs) != 1 || len(as.Rhs) != 1 {
						return true
					}
					id, ok := as.Lhs[0].(*ast.Ident)
					if !ok {
						return true
					}
					t := p.Term(as.Rhs[0])
					if t.Op == "call" && t.Obj != nil && t.Obj.Name() == "Uint32" && len(t.Args) > 0 {
						a := t.Args[len(t.Args)-1]
						off := int64(0)
						if a.Op == "slice" && a.Args[1] != nil && a.Args[1].IsConst() && a.Args[2] == nil {
							off = a.Args[1].Int
						} else if a.Op != "var" {
							return true
						}
						switch o := p.Info.Uses[id]; {
						case o != nil && o == types.Object(convV):
							offs["conv"] = off
						case o != nil && snV != nil && o == types.Object(snV):
							offs["sn"] = off
						case id.Name == "sn" && snV == nil:
							offs["sn"] = off
						}
						pos = as
					}
					return true
				})
			}
			co, hasC := offs["conv"]
			so, hasS := offs["sn"]
			if hasC && hasS {
				n++
				r.check(so-co == snOff, "C11.D2", lp.Name, p.Pos(pos), "sn read relative to the header whose conv was read", fmt.Sprintf("conv at %d, sn at %d = conv + IKCP_SN_OFFSET", co, so), fmt.Sprintf("the conversation id is read at offset %d but the sequence number at %d (expected %d): the 'new conversation starts at sn == 0' test looks at other header bytes — a genuine reconnect from the same address is ignored, or a stale packet of another conversation resets the live session", co, so, co+snOff))
			}
			return true
		})
		if n == 0 {
			r.bad("C11.D2", lp.Name, p.Pos(lp.Node), "sn read relative to the header whose conv was read", "no arm of the listener reads both conv and sn", "")
		}
	}

	// ---- D3
	fAcc := p.Field("Listener", "chAccepts")
	backlog := p.ConstInt("acceptBacklog")
	for _, s := range p.CallsTo(newSess) {
		if s.Fn != lp {
			continue
		}
		pt, _ := c.PointOf(s.Call)
		okHas, okRoom := false, false
		for _, ct := range c.DominatingConds(pt) {
			for _, a := range Conjuncts(ct) {
				if hasConv != nil && a.Op == "var" && a.Obj == hasConv {
					okHas = true
				}
				if p.roomTest(lp, a, fAcc, backlog) {
					okRoom = true
				}
			}
		}
		// hasConv may be established by an early return rather than an enclosing branch: use facts
		if !okHas && hasConv != nil {
			okHas = fa.AtNode(s.Call).Holds(tVar(hasConv))
		}
		r.check(okHas, "C11.D3", lp.Name, p.Pos(s.Call), "session creation requires a conversation id", "dominated by hasConv", "a session is created although no conversation id could be read from the datagram")
		r.check(okRoom, "C11.D3", lp.Name, p.Pos(s.Call), "session creation requires room in the accept backlog", "len(chAccepts) < cap(chAccepts)", "the backlog test does not establish len(chAccepts) < cap(chAccepts): with a full backlog the listener's only receive goroutine blocks in the send and every session on the socket stalls")
		// afterwards: one registration, one send, on every path
		from := Point{pt.B, pt.I + 1}
		isReg := func(n ast.Node, _ Point) bool {
			as, ok := n.(*ast.AssignStmt)
			if !ok || len(as.Lhs) != 1 {
				return false
			}
			lt := p.Term(as.Lhs[0])
			return lt.Op == "idx" && lt.Args[0].Op == "fld" && lt.Args[0].Obj == fSessions
		}
		isSend := func(n ast.Node, _ Point) bool {
			ss, ok := n.(*ast.SendStmt)
			return ok && termHasField(p.Term(ss.Chan), fAcc)
		}
		noReg := c.FindPath(PathQuery{From: from, ExitIsTarget: true, IsBarrier: isReg})
		noSend := c.FindPath(PathQuery{From: from, ExitIsTarget: true, IsBarrier: isSend})
		twice := false
		for _, q := range c.AllPoints() {
			if isSend(q.Node(), q) {
				if again := c.FindPath(PathQuery{From: Point{q.B, q.I + 1}, IsTarget: isSend}); again.Found {
					twice = true
				}
			}
		}
		switch {
		case noReg.Found:
			r.bad("C11.D3", lp.Name, p.Pos(s.Call), "new session registered and accepted once", "a path creates a session without registering it in the table: every later datagram of that peer creates another session", c.DescribePath(noReg.Path))
		case noSend.Found:
			r.bad("C11.D3", lp.Name, p.Pos(s.Call), "new session registered and accepted once", "a path creates a session without handing it to Accept", c.DescribePath(noSend.Path))
		case twice:
			r.bad("C11.D3", lp.Name, p.Pos(s.Call), "new session registered and accepted once", "a session can be sent to chAccepts twice", "")
		default:
			r.ok("C11.D3", lp.Name, p.Pos(s.Call), "new session registered and accepted once", "every path registers it and sends it to chAccepts exactly once")
		}
	}

	// ---- D4
	nIdx := 0
	for _, fi := range p.funcs {
		inspectBody(fi, func(n ast.Node) bool {
			var idx ast.Expr
			var base ast.Expr
			switch x := n.(type) {
			case *ast.IndexExpr:
				base, idx = x.X, x.Index
			case *ast.CallExpr:
				if p.BuiltinName(x) == "delete" && len(x.Args) == 2 {
					base, idx = x.Args[0], x.Args[1]
				}
			}
			if base == nil {
				return true
			}
			if t := p.Term(base); t.Op != "fld" || t.Obj != fSessions {
				return true
			}
			nIdx++
			it := p.resolveSingleDefs(fi, p.Term(idx))
			ok := false
			what := ""
			if it.Op == "call" && it.Obj.Name() == "String" && len(it.Args) == 1 {
				a := it.Args[0]
				if a.Op == "var" {
					if v, ok2 := a.Obj.(*types.Var); ok2 && p.isParam(v) && strings.HasSuffix(v.Type().String(), "net.Addr") {
						root := rootFuncInfo(fi)
						switch root.Name {
						case "(*Listener).packetInput":
							ok, what = true, "source address of the datagram"
						case "(*Listener).closeSession":
							// its callers pass the session's own remote
							all := true
							for _, cs := range p.CallsTo(p.Method("Listener", "closeSession")) {
								at := p.Term(cs.Call.Args[0])
								isRemote := at.Op == "fld" && at.Obj == p.Field("UDPSession", "remote")
								// or the source address of the datagram being processed by the listener
								isSource := false
								if at.Op == "var" {
									if pv, okp := at.Obj.(*types.Var); okp && p.isParam(pv) && strings.HasSuffix(pv.Type().String(), "net.Addr") && rootFuncInfo(cs.Fn).Name == "(*Listener).packetInput" {
										isSource = true
									}
								}
								if !isRemote && !isSource {
									all = false
								}
							}
							ok, what = all, "the closing session's remote (or the datagram's source)"
						default:
							// a helper (e.g. an extracted lookup): every caller passes the datagram's source or a session's remote
							idx := -1
							for i := 0; ; i++ {
								o := root.paramObj(p, i)
								if o == nil {
									break
								}
								if o == v {
									idx = i
								}
							}
							sites := p.CallsTo(root.Obj)
							all := idx >= 0 && root.Obj != nil && len(sites) > 0
							for _, cs := range sites {
								if idx >= len(cs.Call.Args) {
									all = false
									continue
								}
								at := p.Term(cs.Call.Args[idx])
								isRemote := at.Op == "fld" && at.Obj == p.Field("UDPSession", "remote")
								isSource := false
								if at.Op == "var" {
									if pv, okp := at.Obj.(*types.Var); okp && p.isParam(pv) && strings.HasSuffix(pv.Type().String(), "net.Addr") && rootFuncInfo(cs.Fn).Name == "(*Listener).packetInput" {
										isSource = true
									}
								}
								if !isRemote && !isSource {
									all = false
								}
							}
							ok, what = all, "helper called with the datagram's source / a session's remote"
						}
					}
				}
			}
			r.check(ok, "C11.D4", rootFuncInfo(fi).Name, p.Pos(n), fmt.Sprintf("sessions key #%d: %s", nIdx, exprString(idx)), what, "the session table is keyed by something other than the full source address string (IP and port): sessions of different peers can collide")
			return true
		})
	}

	// ---- D5
	input := p.FuncOf(p.Method("KCP", "Input"))
	_ = p.FactsOf(input)
	recv := p.selfVar(input)
	var convLocal *types.Var
	for _, b := range p.CFG(input).live {
		if ct := p.CFG(input).CondTerm(b); ct != nil && ct.Op == "!=" {
			for i := 0; i < 2; i++ {
				if x, ok := fieldBase(ct.Args[i], fConv); ok && x.Op == "var" && x.Obj == recv && ct.Args[1-i].Op == "var" {
					convLocal, _ = ct.Args[1-i].Obj.(*types.Var)
				}
			}
		}
	}
	if convLocal == nil {
		r.bad("C11.D5", input.Name, p.Pos(input.Node), "conversation test", "Input does not compare the segment's conversation id with kcp.conv", "")
	} else {
		want := eq(tVar(convLocal), tFld(tVar(recv), fConv))
		// the id compared is the one of the segment being processed: it is read inside the
		// segment loop, from the start of the not yet consumed input
		{
			var loop ast.Node
			for _, s := range p.CallsTo(p.Method("KCP", "parse_una")) {
				if s.Fn == input {
					loop = enclosingLoop(p, s.Call)
				}
			}
			dataParam := input.paramObj(p, 0)
			okPer := loop != nil
			why := "the segment loop was not found"
			for _, as := range p.Assignments(input, convLocal) {
				if as.Rhs == nil {
					okPer, why = false, "the conversation id is modified in place"
					continue
				}
				if loop == nil || !nodeWithin(p, as.Node, loop) {
					okPer, why = false, "the conversation id is read once, before the segment loop: only the first segment of a datagram is checked, later segments of another conversation are merged into this session's stream"
					continue
				}
				t := p.Term(as.Rhs)
				if !(t.Op == "call" && t.Obj != nil && t.Obj.Name() == "Uint32" && len(t.Args) > 0 && t.Args[len(t.Args)-1].Op == "var" && t.Args[len(t.Args)-1].Obj == dataParam) {
					okPer, why = false, "the conversation id is not read from the start of the current segment: "+exprString(as.Rhs)
				}
			}
			r.check(okPer, "C11.D5", input.Name, p.Pos(input.Node), "conversation id read per segment", "conv := Uint32(data) inside the segment loop", why)
		}
		for _, name := range []string{"parse_una", "shrink_buf", "parse_ack", "parse_fastack", "ack_push", "parse_data"} {
			for _, s := range p.CallsTo(p.Method("KCP", name)) {
				if s.Fn != input {
					continue
				}
				p.requireFacts(r, "C11.D5", input, s.Call, name+"(…) in the segment loop", want)
			}
		}
		for _, fname := range []string{"rmt_wnd", "probe"} {
			for _, st := range p.FieldStores(p.Field("KCP", fname)) {
				if st.Fn == input {
					p.requireFacts(r, "C11.D5", input, st.Node, "store(KCP."+fname+")", want)
				}
			}
		}
	}

	// ---- D6
	sameAddr := p.Func("sameUDPAddr")
	pktIn := p.Method("UDPSession", "packetInput")
	for _, s := range p.CallsTo(pktIn) {
		fi := s.Fn
		lc := p.CFG(fi)
		callPt, _ := lc.PointOf(s.Call)
		// the read call that starts an iteration
		var readPt *Point
		for _, pt := range lc.AllPoints() {
			inspectShallow(pt.Node(), func(x ast.Node) bool {
				if call, ok := x.(*ast.CallExpr); ok {
					if sel, ok := ast.Unparen(call.Fun).(*ast.SelectorExpr); ok && (sel.Sel.Name == "ReadFrom" || sel.Sel.Name == "ReadBatch") {
						q := pt
						readPt = &q
					}
				}
				return true
			})
		}
		if readPt == nil {
			continue
		}
		// (a) every path read -> packetInput passes a learning assignment or an address comparison
		isCheck := func(n ast.Node, _ Point) bool {
			hit := false
			inspectShallow(n, func(x ast.Node) bool {
				switch y := x.(type) {
				case *ast.CallExpr:
					if p.Callee(y) == sameAddr {
						hit = true
					}
				case *ast.BinaryExpr:
					// X.String() != srcStr
					t := p.Term(y)
					if (t.Op == "!=" || t.Op == "==") && len(t.Args) == 2 {
						for i := 0; i < 2; i++ {
							if t.Args[i].Op == "call" && t.Args[i].Obj.Name() == "String" && t.Args[1-i].Op == "var" && t.Args[1-i].Obj.Type().String() == "string" {
								hit = true
							}
						}
					}
				case *ast.AssignStmt:
					for _, l := range y.Lhs {
						if id, ok := l.(*ast.Ident); ok {
							if v, ok := p.Info.Uses[id].(*types.Var); ok && (v.Type().String() == "*net.UDPAddr" || v.Type().String() == "string") && !p.isParam(v) {
								// learning the first source
								if v.Pos() < readPt.Node().Pos() {
									hit = true
								}
							}
						}
					}
				}
				return true
			})
			return hit
		}
		unchecked := lc.FindPath(PathQuery{From: Point{readPt.B, readPt.I + 1}, IsTarget: func(_ ast.Node, q Point) bool { return q == callPt }, IsBarrier: isCheck})
		// (b) a mismatch never reaches packetInput in the same iteration
		mismatch := false
		var mpath []Point
		for _, b := range lc.live {
			ct := lc.CondTerm(b)
			if ct == nil || len(b.Succs) != 2 {
				continue
			}
			// the edge on which the comparison failed
			failEdge := -1
			k := ct.Key()
			switch {
			case strings.Contains(k, "sameUDPAddr") && ct.Op == "||": // !ok || !sameUDPAddr(..)
				failEdge = 0
			case strings.Contains(k, "sameUDPAddr") && ct.Op == "not":
				failEdge = 0
			case strings.Contains(k, "sameUDPAddr") && ct.Op == "call":
				failEdge = 1
			case ct.Op == "!=" && strings.Contains(k, "String("):
				failEdge = 0
			case ct.Op == "==" && strings.Contains(k, "String("):
				failEdge = 1
			}
			if failEdge < 0 {
				continue
			}
			res := lc.FindPath(PathQuery{From: Point{b.Succs[failEdge], 0}, IsTarget: func(_ ast.Node, q Point) bool { return q == callPt }, IsBarrier: func(_ ast.Node, q Point) bool { return q == *readPt },
				OnBlock: func(nb *cfg.Block) (bool, bool) {
					// the next message of a batch is a new datagram
					return false, nb.Kind == cfg.KindRangeBody
				}})
			if res.Found {
				mismatch = true
				mpath = res.Path
			}
		}
		switch {
		case unchecked.Found:
			r.bad("C11.D6", fi.Name, p.Pos(s.Call), "source filter in "+fi.Name, "a path from the socket read reaches packetInput without learning or comparing the source address: a dialled session accepts datagrams from anyone", lc.DescribePath(unchecked.Path))
		case mismatch:
			r.bad("C11.D6", fi.Name, p.Pos(s.Call), "source filter in "+fi.Name, "a datagram whose source mismatched still reaches packetInput", lc.DescribePath(mpath))
		default:
			r.ok("C11.D6", fi.Name, p.Pos(s.Call), "source filter in "+fi.Name, "packetInput is reached only after learning the first source or after the source matched")
		}
	}
	if fi := p.FuncOf(sameAddr); fi != nil {
		// the predicate as a truth table over its atoms (no execution: the body is evaluated over
		// boolean assignments to the comparisons it contains)
		a, b := tVar(fi.paramObj(p, 0)), tVar(fi.paramObj(p, 1))
		fPort, fZone, fIP := fieldOfExt(fi.paramObj(p, 0).Type(), "Port"), fieldOfExt(fi.paramObj(p, 0).Type(), "Zone"), fieldOfExt(fi.paramObj(p, 0).Type(), "IP")
		role := func(t *Term) string {
			switch {
			case t.Key() == eq(a, mk("nil")).Key():
				return "anil"
			case t.Key() == eq(b, mk("nil")).Key():
				return "bnil"
			case t.Key() == eq(tFld(a, fPort), tFld(b, fPort)).Key():
				return "port"
			case t.Key() == eq(tFld(a, fZone), tFld(b, fZone)).Key():
				return "zone"
			case t.Op == "call" && t.Obj != nil && t.Obj.Name() == "Equal" && len(t.Args) == 2 &&
				((t.Args[0].Key() == tFld(a, fIP).Key() && t.Args[1].Key() == tFld(b, fIP).Key()) || (t.Args[0].Key() == tFld(b, fIP).Key() && t.Args[1].Key() == tFld(a, fIP).Key())):
				return "ip"
			}
			return ""
		}
		tbl := boolTable(p, fi, role, []string{"anil", "bnil", "port", "zone", "ip"})
		ok := tbl.ok
		why := tbl.why
		if ok {
			for env, got := range tbl.rows {
				want := env&1 == 0 && env&2 == 0 && env&4 != 0 && env&8 != 0 && env&16 != 0
				// rows with a nil argument: the field comparisons are not evaluated, any value of the other atoms must give false
				if got != want {
					ok = false
					why = fmt.Sprintf("for a==nil:%v b==nil:%v port equal:%v zone equal:%v IP equal:%v the function returns %v", env&1 != 0, env&2 != 0, env&4 != 0, env&8 != 0, env&16 != 0, got)
					break
				}
			}
		}
		if !tbl.ok {
			r.undecided("C11.D6", fi.Name, p.Pos(fi.Node), "sameUDPAddr compares IP, port and zone", "the predicate's body is outside what the truth-table evaluator understands: "+tbl.why)
		} else {
			r.check(ok, "C11.D6", fi.Name, p.Pos(fi.Node), "sameUDPAddr compares IP, port and zone", "true exactly when both are non-nil and IP, port and zone are all equal", "sameUDPAddr is not the conjunction of the three comparisons ("+why+"): a dialled session accepts datagrams from another port or zone of its peer's host (or refuses its peer)")
		}
	}

	// ---- D10
	checkReadErrorOnlyFromSocket(p, r)

	// ---- D7
	cl := p.FuncByName("(*UDPSession).Close")
	cc := p.CFG(cl)
	okRemove := false
	for _, s := range p.CallsTo(p.Method("Listener", "closeSession")) {
		if s.Fn != cl {
			continue
		}
		if at := p.Term(s.Call.Args[0]); at.Op != "fld" || at.Obj != p.Field("UDPSession", "remote") {
			continue
		}
		pt, _ := cc.PointOf(s.Call)
		okConds := true
		firstOnly := false // the call lies on the side where this Close fired the once: a later Close must not unregister again
		for _, ct := range cc.DominatingConds(pt) {
			for _, a := range Conjuncts(ct) {
				k := pretty(a.Key())
				if !(strings.Contains(k, "once") || k == "!=(nil,s.l)" || strings.Contains(k, ".l)") || strings.Contains(k, ".l,")) {
					okConds = false
				}
				if a.Op == "var" {
					if v, isV := a.Obj.(*types.Var); isV && p.isOnceFlag(cl, v, 0) {
						firstOnly = true
					}
				}
			}
		}
		if okConds && firstOnly {
			okRemove = true
		}
		if okConds && !firstOnly {
			r.bad("C11.D7", cl.Name, p.Pos(s.Call), "closeSession only on the first Close", "the session is unregistered by address on every Close, not only on the one that actually closes it: a late Close of a session that was replaced (same address, new conversation) removes its successor from the table — the next datagram of the peer creates a duplicate session (a second Accept) and the live one goes deaf", "")
		}
	}
	r.check(okRemove, "C11.D7", cl.Name, p.Pos(cl.Node), "Close removes the session from the listener", "closeSession(s.remote) on the first close when a listener exists", "a closed session stays in the listener's table: later traffic from that address is fed to a dead session and the peer can never reconnect")
	// single caller chain of Listener.packetInput
	var callers []string
	for _, s := range p.CallsTo(p.Method("Listener", "packetInput")) {
		callers = append(callers, rootFuncInfo(s.Fn).Name)
	}
	okCallers := len(callers) > 0
	for _, cn := range callers {
		if cn != "(*Listener).monitor" && cn != "(*Listener).defaultMonitor" {
			okCallers = false
		}
	}
	r.check(okCallers, "C11.D7", lp.Name, p.Pos(lp.Node), "single caller chain of Listener.packetInput", fmt.Sprintf("%v", callers), fmt.Sprintf("Listener.packetInput is also called from %v: the demultiplexing facts assume the single monitor goroutine", callers))
}

func exprStringsOf(fi *FuncInfo) string {
	var sb strings.Builder
	ast.Inspect(fi.Body, func(n ast.Node) bool {
		if e, ok := n.(ast.Expr); ok {
			sb.WriteString(types.ExprString(e))
			sb.WriteString(" ")
			return false
		}
		return true
	})
	return sb.String()
}

type boolTableResult struct {
	ok   bool
	why  string
	rows map[int]bool // assignment (bit i = atom i true) -> result
}

// boolTable evaluates a function whose body consists of if/return statements over
// boolean combinations of recognisable atoms, for every assignment to the atoms.
func boolTable(p *Prog, fi *FuncInfo, role func(*Term) string, atoms []string) boolTableResult {
	idx := map[string]int{}
	for i, a := range atoms {
		idx[a] = i
	}
	res := boolTableResult{ok: true, rows: map[int]bool{}}
	var evalT func(t *Term, env int) (bool, bool)
	evalT = func(t *Term, env int) (bool, bool) {
		switch t.Op {
		case "true":
			return true, true
		case "false":
			return false, true
		case "not":
			v, ok := evalT(t.Args[0], env)
			return !v, ok
		case "&&":
			out := true
			for _, a := range t.Args {
				v, ok := evalT(a, env)
				if !ok {
					return false, false
				}
				out = out && v
			}
			return out, true
		case "||":
			out := false
			for _, a := range t.Args {
				v, ok := evalT(a, env)
				if !ok {
					return false, false
				}
				out = out || v
			}
			return out, true
		case "!=":
			v, ok := evalT(eq(t.Args[0], t.Args[1]), env)
			return !v, ok
		}
		if ro := role(t); ro != "" {
			return env&(1<<idx[ro]) != 0, true
		}
		res.why = "unrecognised comparison " + pretty(t.Key())
		return false, false
	}
	var evalStmts func(list []ast.Stmt, env int) (val, returned, ok bool)
	evalStmts = func(list []ast.Stmt, env int) (bool, bool, bool) {
		for _, st := range list {
			switch x := st.(type) {
			case *ast.ReturnStmt:
				if len(x.Results) != 1 {
					return false, false, false
				}
				v, ok := evalT(p.Term(x.Results[0]), env)
				return v, true, ok
			case *ast.IfStmt:
				if x.Init != nil {
					return false, false, false
				}
				cv, ok := evalT(p.Term(x.Cond), env)
				if !ok {
					return false, false, false
				}
				if cv {
					v, ret, ok := evalStmts(x.Body.List, env)
					if !ok || ret {
						return v, ret, ok
					}
				} else if x.Else != nil {
					var l []ast.Stmt
					switch e := x.Else.(type) {
					case *ast.BlockStmt:
						l = e.List
					case *ast.IfStmt:
						l = []ast.Stmt{e}
					}
					v, ret, ok := evalStmts(l, env)
					if !ok || ret {
						return v, ret, ok
					}
				}
			default:
				res.why = fmt.Sprintf("statement %T", st)
				return false, false, false
			}
		}
		return false, false, true
	}
	for env := 0; env < 1<<len(atoms); env++ {
		// with a nil argument the field atoms are meaningless: only evaluate consistent rows once
		v, ret, ok := evalStmts(fi.Body.List, env)
		if !ok || !ret {
			res.ok = false
			if res.why == "" {
				res.why = "the body is not a chain of if/return over comparisons"
			}
			return res
		}
		res.rows[env] = v
	}
	return res
}

// assignedTrue: some statement of fi assigns the constant true to v.
func assignedTrue(p *Prog, fi *FuncInfo, v *types.Var) bool {
	hit := false
	inspectBody(fi, func(x ast.Node) bool {
		if as, ok := x.(*ast.AssignStmt); ok && len(as.Lhs) == len(as.Rhs) {
			for i, l := range as.Lhs {
				if identVar(p, l) == v && p.Term(as.Rhs[i]).Op == "true" && as.Tok == token.ASSIGN {
					hit = true
				}
			}
		}
		return true
	})
	return hit
}

// checkReadErrorOnlyFromSocket: C11.D10.
func checkReadErrorOnlyFromSocket(p *Prog, r *Report) {
	n := 0
	for _, tn := range []string{"UDPSession", "Listener"} {
		m := p.TryMethod(tn, "notifyReadError")
		if m == nil {
			continue
		}
		for _, s := range p.CallsTo(m) {
			root := rootFuncInfo(s.Fn)
			// the listener's own fan-out hands the same error on to its sessions (directly, or in a helper that only
			// notifyReadError calls)
			if root.Obj != nil && root.Obj.Name() == "notifyReadError" {
				continue
			}
			if caller, _, okL := p.singleCaller(root); okL {
				if cr := rootFuncInfo(caller); cr.Obj != nil && cr.Obj.Name() == "notifyReadError" {
					continue
				}
			}
			n++
			construct := "error handed to notifyReadError in " + s.Fn.Name
			var vars []*types.Var
			ast.Inspect(s.Call.Args[0], func(x ast.Node) bool {
				if id, ok := x.(*ast.Ident); ok {
					if v, ok := p.Info.Uses[id].(*types.Var); ok && !v.IsField() && v.Pkg() == p.Types && v.Parent() != p.Types.Scope() {
						vars = append(vars, v)
					}
				}
				return true
			})
			if len(vars) == 0 {
				r.bad("C11.D10", s.Fn.Name, p.Pos(s.Call), construct, "the read error is not a variable: a made-up error declares the socket dead", "")
				continue
			}
			bad := ""
			for _, v := range vars {
				as := p.Assignments(root, v)
				if len(as) == 0 && !p.isParam(v) {
					bad = v.Name() + " is never assigned"
				}
				if p.isParam(v) {
					bad = v.Name() + " is a parameter"
				}
				for _, a := range as {
					asg, isAs := a.Node.(*ast.AssignStmt)
					okA := false
					if isAs && len(asg.Rhs) == 1 {
						if call, isC := ast.Unparen(asg.Rhs[0]).(*ast.CallExpr); isC {
							if f := p.Callee(call); f != nil && strings.HasPrefix(f.Name(), "Read") {
								// a read of the socket: a function of another package, or a method of an interface (the
								// package's own batchConn wraps x/net's ReadBatch)
								isIface := false
								if sig, ok := f.Type().(*types.Signature); ok && sig.Recv() != nil {
									isIface = types.IsInterface(sig.Recv().Type())
								}
								if f.Pkg() == nil || f.Pkg() != p.Types || isIface {
									okA = true
								}
							}
						}
					}
					// err = wrap(err): a function of another package applied to the variable itself
					if !okA && isAs && len(asg.Rhs) == 1 && len(asg.Lhs) == 1 {
						if call, isC := ast.Unparen(asg.Rhs[0]).(*ast.CallExpr); isC {
							if f := p.Callee(call); f != nil && f.Pkg() != nil && f.Pkg() != p.Types {
								only, some := true, false
								for _, arg := range call.Args {
									ast.Inspect(arg, func(x ast.Node) bool {
										if id, ok := x.(*ast.Ident); ok {
											if o, isV := p.Info.Uses[id].(*types.Var); isV {
												if o == v {
													some = true
												} else {
													only = false
												}
											}
										}
										return true
									})
								}
								okA = only && some
							}
						}
					}
					if !okA {
						bad = v.Name() + " is also assigned at " + p.Pos(a.Node) + " by something other than the read call"
					}
				}
			}
			if bad != "" {
				r.bad("C11.D10", s.Fn.Name, p.Pos(s.Call), construct, bad+": a datagram (from any address) can make the loop report a dead socket, which closes the session — for a listener, every session — and stops accepting", "")
			} else {
				r.ok("C11.D10", s.Fn.Name, p.Pos(s.Call), construct, "assigned only by the read call")
			}
		}
	}
	if n == 0 {
		r.bad("C11.D10", "read loops", "-", "notifyReadError call sites", "no call site found", "")
	}
}
