package main

import (
	"fmt"
	"go/ast"
	"go/token"
	"go/types"
	"sort"
	"strings"

	"golang.org/x/tools/go/ssa"
)

// Cipher objects shared between the two directions (finding F13).
//
// blockCrypt serialises Encrypt callers behind encMu and Decrypt callers behind decMu, but one Encrypt runs beside
// one Decrypt (the transmit and the receive goroutine of a session, or of all sessions of a listener). The feedback
// registers are separate (C08.K5); the cipher.Block object is the remaining thing the two directions can share. That
// is harmless exactly when the block methods the CFB routines call do not write memory reachable from the cipher
// object. The rule decides this for every concrete cipher type that can reach the field(s) read by Encrypt/Decrypt:
//
//   - which field each direction hands to its routine (AST of (*blockCrypt).Encrypt / Decrypt);
//   - which SSA values are stored into those fields, followed through parameters to every construction site, pairwise
//     (the value for the encrypting direction with the value for the decrypting one on the same call chain);
//   - for a pair that is one and the same value: the concrete types behind it (MakeInterface in the constructor that
//     returned it) and, for each, a receiver-taint analysis of its Encrypt, Decrypt and BlockSize methods over the SSA
//     of the dependency (context-insensitive parameter taint, callees followed while they have bodies): a store,
//     copy() or map update through a receiver-derived pointer makes the type stateful.
//
// Bodyless callees (assembly) of the standard library are assumed not to write the key schedule they are handed;
// every such assumption is listed in the evidence. A dynamic call that receives a receiver-derived pointer is
// reported as undecidable (none today).

type cipherState struct {
	p        *Prog
	prog     *ssa.Program
	ptr      map[ssa.Value]bool         // points into (or is) receiver-reachable memory
	holds    map[ssa.Value]bool         // local cell holding such a pointer
	retT     map[*ssa.Function]bool     // some result is receiver-derived
	paramT   map[*ssa.Function]map[int]bool
	visited  map[*ssa.Function]bool
	writes   []string
	assumed  map[string]bool
	unknown  []string
	nFuncs   int
	changed  bool
}

func (p *Prog) statefulCipher(t types.Type) (writes []string, assumed []string, unknown []string, nFuncs int) {
	prog, _ := p.SSA()
	cs := &cipherState{p: p, prog: prog, ptr: map[ssa.Value]bool{}, holds: map[ssa.Value]bool{}, retT: map[*ssa.Function]bool{},
		paramT: map[*ssa.Function]map[int]bool{}, visited: map[*ssa.Function]bool{}, assumed: map[string]bool{}}
	ms := prog.MethodSets.MethodSet(t)
	var roots []*ssa.Function
	for _, name := range []string{"Encrypt", "Decrypt", "BlockSize"} {
		for i := 0; i < ms.Len(); i++ {
			if ms.At(i).Obj().Name() == name {
				if f := prog.MethodValue(ms.At(i)); f != nil {
					roots = append(roots, f)
				}
			}
		}
	}
	for _, f := range roots {
		cs.taintParam(f, 0)
	}
	for iter := 0; iter < 50; iter++ {
		cs.changed = false
		cs.writes, cs.unknown = nil, nil
		fs := make([]*ssa.Function, 0, len(cs.paramT))
		for f := range cs.paramT {
			fs = append(fs, f)
		}
		sort.Slice(fs, func(i, j int) bool { return fs[i].String() < fs[j].String() })
		for _, f := range fs {
			cs.scan(f)
		}
		if !cs.changed {
			break
		}
	}
	for a := range cs.assumed {
		assumed = append(assumed, a)
	}
	sort.Strings(assumed)
	sort.Strings(cs.writes)
	return dedupStrings(cs.writes), assumed, dedupStrings(cs.unknown), len(cs.paramT)
}

func dedupStrings(in []string) []string {
	var out []string
	seen := map[string]bool{}
	for _, s := range in {
		if !seen[s] {
			seen[s] = true
			out = append(out, s)
		}
	}
	return out
}

func (cs *cipherState) taintParam(f *ssa.Function, i int) {
	if cs.paramT[f] == nil {
		cs.paramT[f] = map[int]bool{}
	}
	if !cs.paramT[f][i] {
		cs.paramT[f][i] = true
		cs.changed = true
	}
	if i < len(f.Params) {
		cs.mark(f.Params[i])
	}
}

func (cs *cipherState) mark(v ssa.Value) {
	if !cs.ptr[v] {
		cs.ptr[v] = true
		cs.changed = true
	}
}

func pointerLike(t types.Type) bool {
	switch u := t.Underlying().(type) {
	case *types.Pointer, *types.Slice, *types.Map, *types.Chan, *types.Interface, *types.Signature:
		return true
	case *types.Struct:
		for i := 0; i < u.NumFields(); i++ {
			if pointerLike(u.Field(i).Type()) {
				return true
			}
		}
	case *types.Array:
		return pointerLike(u.Elem())
	case *types.Tuple:
		for i := 0; i < u.Len(); i++ {
			if pointerLike(u.At(i).Type()) {
				return true
			}
		}
	}
	return false
}

func (cs *cipherState) where(f *ssa.Function, in ssa.Instruction) string {
	ps := cs.prog.Fset.Position(in.Pos())
	fn := ps.Filename
	if i := strings.Index(fn, "/pkg/mod/"); i >= 0 {
		fn = fn[i+len("/pkg/mod/"):]
	} else if i := strings.LastIndex(fn, "/src/"); i >= 0 {
		fn = fn[i+len("/src/"):]
	}
	return fmt.Sprintf("%s (%s:%d)", f.String(), fn, ps.Line)
}

func (cs *cipherState) scan(f *ssa.Function) {
	if len(f.Blocks) == 0 {
		return
	}
	for _, b := range f.Blocks {
		for _, in := range b.Instrs {
			switch x := in.(type) {
			case *ssa.FieldAddr:
				if cs.ptr[x.X] {
					cs.mark(x)
				}
			case *ssa.Field:
				if cs.ptr[x.X] && pointerLike(x.Type()) {
					cs.mark(x)
				}
			case *ssa.IndexAddr:
				if cs.ptr[x.X] {
					cs.mark(x)
				}
			case *ssa.Index:
				if cs.ptr[x.X] && pointerLike(x.Type()) {
					cs.mark(x)
				}
			case *ssa.Slice:
				if cs.ptr[x.X] {
					cs.mark(x)
				}
			case *ssa.SliceToArrayPointer:
				if cs.ptr[x.X] {
					cs.mark(x)
				}
			case *ssa.UnOp:
				if x.Op == token.MUL && (cs.ptr[x.X] || cs.holds[x.X]) && pointerLike(x.Type()) {
					cs.mark(x)
				}
			case *ssa.Phi:
				for _, e := range x.Edges {
					if cs.ptr[e] {
						cs.mark(x)
					}
				}
			case *ssa.ChangeType:
				if cs.ptr[x.X] {
					cs.mark(x)
				}
			case *ssa.Convert:
				if cs.ptr[x.X] && pointerLike(x.Type()) {
					cs.mark(x)
				}
			case *ssa.ChangeInterface:
				if cs.ptr[x.X] {
					cs.mark(x)
				}
			case *ssa.MakeInterface:
				if cs.ptr[x.X] {
					cs.mark(x)
				}
			case *ssa.TypeAssert:
				if cs.ptr[x.X] {
					cs.mark(x)
				}
			case *ssa.Extract:
				if cs.ptr[x.Tuple] && pointerLike(x.Type()) {
					cs.mark(x)
				}
			case *ssa.Lookup:
				if cs.ptr[x.X] && pointerLike(x.Type()) {
					cs.mark(x)
				}
			case *ssa.Store:
				if cs.ptr[x.Addr] {
					cs.writes = append(cs.writes, "store through a receiver-derived pointer in "+cs.where(f, x))
				} else if cs.ptr[x.Val] {
					if !cs.holds[x.Addr] {
						cs.holds[x.Addr] = true
						cs.changed = true
					}
				}
			case *ssa.MapUpdate:
				if cs.ptr[x.Map] {
					cs.writes = append(cs.writes, "map update through a receiver-derived map in "+cs.where(f, x))
				}
			case *ssa.Send:
				if cs.ptr[x.Chan] {
					cs.writes = append(cs.writes, "send on a receiver-derived channel in "+cs.where(f, x))
				}
			case *ssa.Return:
				for _, rv := range x.Results {
					if cs.ptr[rv] && !cs.retT[f] {
						cs.retT[f] = true
						cs.changed = true
					}
				}
			case ssa.CallInstruction:
				cs.call(f, x)
			}
		}
	}
}

func (cs *cipherState) call(f *ssa.Function, ci ssa.CallInstruction) {
	cc := ci.Common()
	var tainted []int
	args := cc.Args
	if cc.IsInvoke() {
		args = append([]ssa.Value{cc.Value}, cc.Args...)
	}
	for i, a := range args {
		if cs.ptr[a] {
			tainted = append(tainted, i)
		}
	}
	if bi, ok := cc.Value.(*ssa.Builtin); ok {
		switch bi.Name() {
		case "copy", "clear":
			if len(args) > 0 && cs.ptr[args[0]] {
				cs.writes = append(cs.writes, bi.Name()+"() into receiver-derived memory in "+cs.where(f, ci))
			}
		case "append":
			if len(args) > 0 && cs.ptr[args[0]] {
				cs.writes = append(cs.writes, "append() to a receiver-derived slice in "+cs.where(f, ci))
			}
		}
		return
	}
	if len(tainted) == 0 {
		// a closure that captured a receiver-derived pointer
		if mc, ok := cc.Value.(*ssa.MakeClosure); ok {
			for _, b := range mc.Bindings {
				if cs.ptr[b] {
					cs.unknown = append(cs.unknown, "closure over a receiver-derived pointer called in "+cs.where(f, ci))
				}
			}
		}
		return
	}
	callee := cc.StaticCallee()
	if callee == nil {
		cs.unknown = append(cs.unknown, "dynamic call receiving a receiver-derived pointer in "+cs.where(f, ci))
		return
	}
	if len(callee.Blocks) == 0 {
		path := ""
		if callee.Pkg != nil {
			path = callee.Pkg.Pkg.Path()
		} else if o := callee.Object(); o != nil && o.Pkg() != nil {
			path = o.Pkg().Path()
		}
		first := path
		if i := strings.Index(first, "/"); i >= 0 {
			first = first[:i]
		}
		if path != "" && !strings.Contains(first, ".") {
			cs.assumed[callee.String()+" (no Go body; standard library: assumed not to write the cipher object it is handed)"] = true
		} else {
			cs.unknown = append(cs.unknown, "bodyless callee "+callee.String()+" receives a receiver-derived pointer in "+cs.where(f, ci))
		}
		return
	}
	for _, i := range tainted {
		cs.taintParam(callee, i)
	}
	if cs.retT[callee] {
		if v, ok := ci.(ssa.Value); ok {
			cs.mark(v)
		}
	}
}

// ---------------------------------------------------------------- the rule

type cipherOrigin struct {
	enc, dec ssa.Value
	fn       *ssa.Function
}

func checkCipherObjectPerDirection(p *Prog, r *Report, rule string) {
	prog, spkg := p.SSA()
	_ = prog
	// which field each direction reads
	fieldOf := func(method string) *types.Var {
		fi := p.TryMethod("blockCrypt", method)
		if fi == nil {
			return nil
		}
		info := p.FuncOf(fi)
		if info == nil || info.Body == nil {
			return nil
		}
		var out *types.Var
		ast.Inspect(info.Body, func(n ast.Node) bool {
			call, ok := n.(*ast.CallExpr)
			if !ok {
				return true
			}
			for _, a := range call.Args {
				if tv := p.Info.TypeOf(a); tv != nil && isCipherBlockType(tv) {
					if t := p.Term(a); t.Op == "fld" {
						if fv, ok := t.Obj.(*types.Var); ok {
							out = fv
						}
					}
				}
			}
			return true
		})
		return out
	}
	encF, decF := fieldOf("Encrypt"), fieldOf("Decrypt")
	if encF == nil || decF == nil {
		r.bad(rule, "(*blockCrypt).Encrypt/Decrypt", "-", "cipher object of each direction", "cannot find the cipher.Block field that Encrypt and Decrypt hand to the CFB routines", "")
		return
	}
	// stores into those fields
	type storeIn struct {
		fn  *ssa.Function
		val ssa.Value
		st  *ssa.Store
	}
	stores := map[*types.Var][]storeIn{}
	var fns []*ssa.Function
	for _, f := range p.PkgFuncs() {
		fns = append(fns, f)
	}
	for _, f := range fns {
		for _, b := range f.Blocks {
			for _, in := range b.Instrs {
				st, ok := in.(*ssa.Store)
				if !ok {
					continue
				}
				fa, ok := st.Addr.(*ssa.FieldAddr)
				if !ok {
					continue
				}
				pt, ok := fa.X.Type().Underlying().(*types.Pointer)
				if !ok {
					continue
				}
				stt, ok := pt.Elem().Underlying().(*types.Struct)
				if !ok || fa.Field >= stt.NumFields() {
					continue
				}
				fv := stt.Field(fa.Field)
				if fv == encF || fv == decF {
					stores[fv] = append(stores[fv], storeIn{f, st.Val, st})
				}
			}
		}
	}
	if len(stores[encF]) == 0 || len(stores[decF]) == 0 {
		r.bad(rule, "blockCrypt", "-", "cipher object of each direction", "no store into the cipher field(s) found", "")
		return
	}
	// pair the stores function by function
	var pairs []cipherOrigin
	for _, se := range stores[encF] {
		found := false
		for _, sd := range stores[decF] {
			if sd.fn == se.fn {
				pairs = append(pairs, cipherOrigin{se.val, sd.val, se.fn})
				found = true
			}
		}
		if !found {
			r.bad(rule, se.fn.String(), p.Pos2(se.st.Pos()), "cipher object of each direction", "the encrypting direction's cipher is stored here but the decrypting direction's is stored elsewhere: the pairing cannot be followed", "")
			return
		}
	}
	// follow parameters to the construction sites
	callersOf := func(f *ssa.Function) []*ssa.Call {
		var out []*ssa.Call
		for _, g := range fns {
			for _, b := range g.Blocks {
				for _, in := range b.Instrs {
					if c, ok := in.(*ssa.Call); ok && c.Call.StaticCallee() == f {
						out = append(out, c)
					}
				}
			}
		}
		return out
	}
	strip := func(v ssa.Value) ssa.Value {
		for {
			switch x := v.(type) {
			case *ssa.ChangeInterface:
				v = x.X
			case *ssa.ChangeType:
				v = x.X
			default:
				return v
			}
		}
	}
	var finals []cipherOrigin
	work := pairs
	seen := map[string]bool{}
	for depth := 0; len(work) > 0 && depth < 6; depth++ {
		var next []cipherOrigin
		for _, pr := range work {
			e, d := strip(pr.enc), strip(pr.dec)
			pe, okE := e.(*ssa.Parameter)
			pd, okD := d.(*ssa.Parameter)
			if okE && okD && pe.Parent() == pr.fn && pd.Parent() == pr.fn {
				ie, id := paramIndex(pr.fn, pe), paramIndex(pr.fn, pd)
				cs := callersOf(pr.fn)
				if len(cs) == 0 || p.usedAsValueSSA(pr.fn) {
					finals = append(finals, cipherOrigin{e, d, pr.fn})
					continue
				}
				for _, c := range cs {
					k := fmt.Sprintf("%p/%d/%d", c, ie, id)
					if seen[k] {
						continue
					}
					seen[k] = true
					next = append(next, cipherOrigin{c.Call.Args[ie], c.Call.Args[id], c.Parent()})
				}
				continue
			}
			finals = append(finals, cipherOrigin{e, d, pr.fn})
		}
		work = next
	}
	finals = append(finals, work...)
	if len(finals) == 0 {
		r.bad(rule, "blockCrypt", "-", "cipher object of each direction", "no construction site found", "")
		return
	}
	_ = spkg
	sort.Slice(finals, func(i, j int) bool { return finals[i].fn.String() < finals[j].fn.String() })
	for _, fo := range finals {
		construct := "cipher object(s) built in " + fo.fn.String()
		pos := p.Pos2(fo.fn.Pos())
		if fo.enc != fo.dec {
			// two values: distinct objects iff they come from two different calls / allocations
			if distinctAllocations(fo.enc, fo.dec) {
				r.ok(rule, fo.fn.String(), pos, construct, "each direction gets a cipher object of its own (two constructor calls)")
				continue
			}
		}
		// one object for both directions: every concrete type behind it must be stateless
		types_, why := concreteTypesOf(fo.enc, 0)
		if len(types_) == 0 {
			r.bad(rule, fo.fn.String(), pos, construct, "the concrete cipher type behind the shared object cannot be determined ("+why+")", "")
			continue
		}
		for _, ct := range types_ {
			writes, assumed, unknown, n := p.statefulCipher(ct)
			name := types.TypeString(ct, nil)
			switch {
			case len(writes) > 0:
				r.bad(rule, fo.fn.String(), pos, construct+": "+name, "one "+name+" object serves Encrypt (under encMu) and Decrypt (under decMu), which run side by side, and its block methods write memory of the object: "+writes[0]+fmt.Sprintf(" (%d such writes) — concurrent sending and receiving corrupt each other's blocks", len(writes)), strings.Join(writes, "\n"))
			case len(unknown) > 0:
				r.bad(rule, fo.fn.String(), pos, construct+": "+name, "cannot decide whether the block methods of "+name+" write the shared cipher object: "+unknown[0], strings.Join(unknown, "\n"))
			default:
				d := fmt.Sprintf("shared by both directions; Encrypt/Decrypt/BlockSize of %s and %d functions they hand the object to never write through it", name, n)
				if len(assumed) > 0 {
					d += "; assumed: " + strings.Join(assumed, "; ")
				}
				r.ok(rule, fo.fn.String(), pos, construct+": "+name, d)
			}
		}
	}
}

func isCipherBlockType(t types.Type) bool {
	n, ok := t.(*types.Named)
	return ok && n.Obj().Pkg() != nil && n.Obj().Pkg().Path() == "crypto/cipher" && n.Obj().Name() == "Block"
}

func paramIndex(f *ssa.Function, pm *ssa.Parameter) int {
	for i, q := range f.Params {
		if q == pm {
			return i
		}
	}
	return -1
}

// distinctAllocations: a and b are results of two different call instructions (or allocations).
func distinctAllocations(a, b ssa.Value) bool {
	root := func(v ssa.Value) ssa.Value {
		for {
			switch x := v.(type) {
			case *ssa.Extract:
				v = x.Tuple
			case *ssa.ChangeInterface:
				v = x.X
			case *ssa.MakeInterface:
				v = x.X
			default:
				return v
			}
		}
	}
	ra, rb := root(a), root(b)
	if ra == rb {
		return false
	}
	isNew := func(v ssa.Value) bool {
		switch v.(type) {
		case *ssa.Call, *ssa.Alloc:
			return true
		}
		return false
	}
	return isNew(ra) && isNew(rb)
}

// concreteTypesOf: the dynamic types an interface value can have, following constructor returns.
func concreteTypesOf(v ssa.Value, depth int) ([]types.Type, string) {
	if depth > 6 {
		return nil, "too deep"
	}
	switch x := v.(type) {
	case *ssa.MakeInterface:
		return []types.Type{x.X.Type()}, ""
	case *ssa.ChangeInterface:
		return concreteTypesOf(x.X, depth+1)
	case *ssa.Extract:
		call, ok := x.Tuple.(*ssa.Call)
		if !ok {
			return nil, "tuple is not a call"
		}
		return returnsOf(call, x.Index, depth)
	case *ssa.Call:
		return returnsOf(x, 0, depth)
	case *ssa.Phi:
		var out []types.Type
		for _, e := range x.Edges {
			if c, ok := e.(*ssa.Const); ok && c.IsNil() {
				continue
			}
			ts, why := concreteTypesOf(e, depth+1)
			if len(ts) == 0 {
				return nil, why
			}
			out = append(out, ts...)
		}
		return out, ""
	}
	if !types.IsInterface(v.Type()) {
		return []types.Type{v.Type()}, ""
	}
	return nil, fmt.Sprintf("%T", v)
}

func returnsOf(call *ssa.Call, idx int, depth int) ([]types.Type, string) {
	callee := call.Call.StaticCallee()
	if callee == nil || len(callee.Blocks) == 0 {
		return nil, "constructor is not a static call with a body"
	}
	var out []types.Type
	seen := map[string]bool{}
	for _, b := range liveBlocks(callee) {
		for _, in := range b.Instrs {
			ret, ok := in.(*ssa.Return)
			if !ok || idx >= len(ret.Results) {
				continue
			}
			rv := ret.Results[idx]
			if c, ok := rv.(*ssa.Const); ok && c.IsNil() {
				continue
			}
			ts, why := concreteTypesOf(rv, depth+1)
			if len(ts) == 0 {
				if why == "" {
					continue // a callee that never returns (panics)
				}
				return nil, why
			}
			for _, t := range ts {
				if k := types.TypeString(t, nil); !seen[k] {
					seen[k] = true
					out = append(out, t)
				}
			}
		}
	}
	return out, ""
}

// usedAsValueSSA: the function is referenced other than as the static callee of a call.
func (p *Prog) usedAsValueSSA(f *ssa.Function) bool {
	if refs := f.Referrers(); refs != nil {
		return len(*refs) > 0
	}
	if o, ok := f.Object().(*types.Func); ok {
		return p.usedAsValue(o)
	}
	return false
}

// Pos2: position string of a token.Pos.
func (p *Prog) Pos2(pos token.Pos) string {
	ps := p.Fset.Position(pos)
	fn := ps.Filename
	if strings.HasPrefix(fn, p.RepoDir+"/") {
		fn = fn[len(p.RepoDir)+1:]
	}
	return fmt.Sprintf("%s:%d", fn, ps.Line)
}

// liveBlocks: the blocks reachable from the entry when branches on constants are followed only on the side taken.
func liveBlocks(f *ssa.Function) []*ssa.BasicBlock {
	if len(f.Blocks) == 0 {
		return nil
	}
	seen := map[*ssa.BasicBlock]bool{}
	var out []*ssa.BasicBlock
	var visit func(b *ssa.BasicBlock)
	visit = func(b *ssa.BasicBlock) {
		if seen[b] {
			return
		}
		seen[b] = true
		out = append(out, b)
		if len(b.Instrs) > 0 {
			if br, ok := b.Instrs[len(b.Instrs)-1].(*ssa.If); ok {
				if c, ok := br.Cond.(*ssa.Const); ok && c.Value != nil {
					if c.Value.String() == "true" {
						visit(b.Succs[0])
					} else {
						visit(b.Succs[1])
					}
					return
				}
			}
		}
		for _, s := range b.Succs {
			visit(s)
		}
	}
	visit(f.Blocks[0])
	return out
}
