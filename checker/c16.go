package main

import (
	"fmt"
	"go/ast"
	"go/types"
	"golang.org/x/tools/go/cfg"
	"sort"
	"strings"
)

func init() {
	register(&propCheck{
		id:  "C16",
		run: checkC16,
		explain: "Convergence within 258+2(d+p) packets is arithmetic over the sample window (sorting, pulse widths, the id wrap) and is not decided. Decided is the stability half and the structural frame of the " +
			"rest: the decoder starts tuning only on evidence (a type that contradicts its position, tested after seqid < paws); its parameters (dataShards, parityShards, shardSize, codec, paws, both caches, " +
			"the shard sets) are written, after construction, only inside the region guarded by 'tuning, a valid period pair was found and it differs from the current ratio', all of them together and with the " +
			"same shapes as in the constructor; decoding is suspended only while tuning and the flag is cleared on every path on which a valid pair was found; every packet that reaches the decoder is sampled " +
			"with its type and id before any other decision; only data and parity packets reach the decoder; the sample window is large enough to hold one full period of the largest accepted ratio plus two " +
			"edges; a receiver without FEC configuration creates a decoder before using it; a mismatch cannot harm delivery because received data packets bypass the decoder (C07.F8) and recovered ones " +
			"are size-checked (C07.F3); a matching sender never produces a mismatch because its types follow its positions (C07.F7, C12.K5).",
		assume: []string{
			"the convergence bound and the correctness of FindPeriod are not decided",
		},
	})
}

func checkC16(p *Prog, r *Report) {
	r.rule("C16.T1", "shouldTune = true only under a type/position mismatch (seqid % shardSize < dataShards with flag != typeData, or the converse), after seqid < paws", 2)
	r.rule("C16.T2", "after construction the decoder's parameters are stored only under shouldTune && autoDS > 0 && autoPS > 0 && autoDS+autoPS < 256 && (ratio differs), all together, with the constructor's shapes", 9)
	r.rule("C16.T3", "decode returns before collecting only for a short packet, seqid >= paws, while tuning, or a duplicate; shouldTune = false on every path on which a valid period pair was found", 2)
	r.rule("C16.T4", "every packet is sampled (type, id) before any decision other than the length test", 2)
	r.rule("C16.T5", "decode is reached only from the typeData/typeParity arm of kcpInput, on a decoder that exists (lazy creation with a valid ratio)", 2)
	r.rule("C16.T6", "a mismatch is harmless: data packets bypass the decoder (C07.F8); recovered packets are size-checked (C07.F3)", 2)
	r.rule("C16.T7", "the sample window holds at least (largest accepted d+p) + 2 samples", 1)
	r.rule("C16.T9", "the newest group id (counted in units of shardSize, compared by signed difference) is meaningful before it is compared: the update newestShardId = <group of this packet> is taken unconditionally for the first packet after construction and after a retune — its condition is a disjunction with a 'not yet set' flag of the decoder that the update sets and every store to shardSize outside the constructor is followed by clearing (or newestShardId itself is re-stored there). Otherwise the first real id can compare as 'older' than the stale/zero value, the value never moves and discardShards throws away every freshly stored shard: nothing is recovered 'from then on'", 2)
	r.rule("C16.T10", "FEC enabled at one end only: the listener's own FEC parameters (dataShards, parityShards) never decide what happens to an arriving packet — they are arguments of newUDPSession, not conditions of Listener.packetInput or UDPSession.kcpInput; every FEC packet reaches the session's (lazily created) decoder so that it can learn the sender's ratio", 2)
	r.rule("C16.T8", "a matching sender never produces a mismatch: types follow positions (C07.F7), ids advance modulo a multiple of the group size (C12.K5)", 4)

	fi := p.FuncOf(p.Method("fecDecoder", "decode"))
	c := p.CFG(fi)
	fa := p.FactsOf(fi)
	recv := tVar(p.selfVar(fi))
	in := tVar(p.Info.Defs[fi.Decl.Type.Params.List[0].Names[0]])
	seq := p.ExpandHelpers(tCall(p.Method("fecPacket", "seqid"), in))
	flag := p.ExpandHelpers(tCall(p.Method("fecPacket", "flag"), in))
	F := func(n string) *Term { return p.F(recv, "fecDecoder", n) }
	fShould := p.Field("fecDecoder", "shouldTune")
	exp := func(t *Term) *Term { return stripConvs(p.ExpandHelpers(t)) }

	// ---- T1
	falseStores := checkTuneEvidence(p, r, "C16.T1")
	checkNewestGroupInit(p, r, "C16.T9")

	// ---- T2
	params := []string{"dataShards", "parityShards", "shardSize", "codec", "paws", "decodeCache", "flagCache", "shardSet"}
	ctor := p.FuncByName("newFECDecoder")
	// the region: conditions that must dominate every store
	// the detected periods: locals, or fields of a local struct value (auto.data, auto.parity)
	var autoDS, autoPS *Term
	isDetected := func(t *Term) bool {
		return t.Op == "var" || (t.Op == "fld" && len(t.Args) == 1 && t.Args[0].Op == "var")
	}
	for _, st := range p.FieldStores(p.Field("fecDecoder", "dataShards")) {
		if st.Fn == fi && st.Rhs != nil && !st.InLit {
			if t := p.Term(st.Rhs); isDetected(t) {
				autoDS = t
			}
		}
	}
	for _, st := range p.FieldStores(p.Field("fecDecoder", "parityShards")) {
		if st.Fn == fi && st.Rhs != nil && !st.InLit {
			if t := p.Term(st.Rhs); isDetected(t) {
				autoPS = t
			}
		}
	}
	if autoDS == nil || autoPS == nil {
		r.bad("C16.T2", fi.Name, p.Pos(fi.Node), "retune", "decode does not store detected periods into dataShards / parityShards", "")
	} else {
		// the detected values come from FindPeriod(true) / FindPeriod(false)
		srcOK := func(d *Term, bit string) bool {
			isFind := func(e ast.Expr) bool {
				if e == nil {
					return false
				}
				t := p.Term(e)
				return t.Op == "call" && t.Obj == p.Method("autoTune", "FindPeriod") && len(t.Args) == 2 && t.Args[1].Op == bit
			}
			if d.Op == "var" {
				v, _ := d.Obj.(*types.Var)
				for _, as := range p.Assignments(fi, v) {
					if !isFind(as.Rhs) {
						return false
					}
				}
				return true
			}
			// field of a local struct value: every store to that field of that local is the detector's result, and the local is not assigned as a whole elsewhere
			fv, _ := d.Obj.(*types.Var)
			n := 0
			for _, st := range p.FieldStores(fv) {
				if st.Fn != fi || st.Base == nil || st.Base.Key() != d.Args[0].Key() {
					continue
				}
				n++
				if !isFind(st.Rhs) {
					return false
				}
			}
			lv, _ := d.Args[0].Obj.(*types.Var)
			return n > 0 && lv != nil && len(p.Assignments(fi, lv)) <= 1
		}
		r.check(srcOK(autoDS, "true") && srcOK(autoPS, "false"), "C16.T2", fi.Name, p.Pos(fi.Node), "source of the new ratio", "FindPeriod(true) -> dataShards, FindPeriod(false) -> parityShards", "the new ratio is not the detected data period / parity period")
		need := map[string]bool{
			tFld(recv, fShould).Key():                              false,
			lt(tConst(0), autoDS).Key():                      false,
			lt(tConst(0), autoPS).Key():                      false,
			lt(add(autoDS, autoPS), tConst(256)).Key(): false,
		}
		diffKey := normTerm(mk("||", ne(autoDS, F("dataShards")), ne(autoPS, F("parityShards")))).Key()
		for _, name := range params {
			f := p.Field("fecDecoder", name)
			n := 0
			for _, st := range p.FieldStores(f) {
				if st.Fn == ctor || st.InLit {
					continue
				}
				n++
				construct := "store(fecDecoder." + name + ") in " + st.Fn.Name
				if st.Fn != fi {
					r.bad("C16.T2", st.Fn.Name, p.Pos(st.Node), construct, "a decoder parameter is modified outside construction and the tuning region", "")
					continue
				}
				pt, _ := c.PointOf(st.Node)
				got := map[string]bool{}
				var extra []string
				sawDiff := false
				for _, ca := range c.DominatingCondsAt(pt) {
					for _, a := range Conjuncts(ca.T) {
						k := a.Key()
						if _, ok := need[k]; ok {
							got[k] = true
							continue
						}
						if k == diffKey {
							sawDiff = true
							continue
						}
						// conditions tested before the tuning region is entered (decode's early
						// returns) and the codec error test are not part of the region
						if !insideRegion(c, ca.B, tFld(recv, fShould)) || isErrNil(p, fi, a) {
							continue
						}
						extra = append(extra, pretty(k))
					}
				}
				var missing []string
				for k := range need {
					if !got[k] {
						missing = append(missing, pretty(k))
					}
				}
				sort.Strings(missing)
				if !sawDiff {
					missing = append(missing, "ratio differs")
				}
				switch {
				case len(missing) > 0:
					r.bad("C16.T2", fi.Name, p.Pos(st.Node), construct, "stored without "+strings.Join(missing, ", ")+": the ratio (or a structure derived from it) changes although no different valid period pair was detected while tuning", "")
				case len(extra) > 0:
					r.bad("C16.T2", fi.Name, p.Pos(st.Node), construct, "stored only under the further condition "+strings.Join(extra, ", ")+": after a retune this structure can keep the shape of the old ratio while the others change (codec, caches, paws and shard sets must change together)", "")
				default:
					// shape as in the constructor
					if why := sameShapeAsCtor(p, ctor, fi, name, st, autoDS, autoPS); why != "" {
						r.bad("C16.T2", fi.Name, p.Pos(st.Node), construct, why, "")
					} else if why := usesNewRatio(p, c, fi, st, pt); why != "" {
						r.bad("C16.T2", fi.Name, p.Pos(st.Node), construct, why, "")
					} else {
						r.ok("C16.T2", fi.Name, p.Pos(st.Node), construct, "inside the tuning region, unconditional there, constructor's shape")
					}
				}
			}
			if n == 0 && name == "shardSet" {
				// emptying in place is the same reset
				ast.Inspect(fi.Body, func(x ast.Node) bool {
					call, ok := x.(*ast.CallExpr)
					if !ok || p.BuiltinName(call) != "clear" || len(call.Args) != 1 || p.Term(call.Args[0]).Key() != F("shardSet").Key() {
						return true
					}
					pt, _ := c.PointOf(call)
					got := map[string]bool{}
					sawDiff, extra := false, false
					for _, ca := range c.DominatingCondsAt(pt) {
						for _, a := range Conjuncts(ca.T) {
							k := a.Key()
							if _, ok := need[k]; ok {
								got[k] = true
							} else if k == diffKey {
								sawDiff = true
							} else if insideRegion(c, ca.B, tFld(recv, fShould)) && !isErrNil(p, fi, a) {
								extra = true
							}
						}
					}
					if len(got) == len(need) && sawDiff && !extra {
						n++
						r.ok("C16.T2", fi.Name, p.Pos(call), "clear(fecDecoder.shardSet) in "+fi.Name, "inside the tuning region, unconditional there")
					}
					return true
				})
			}
			if n == 0 {
				r.bad("C16.T2", fi.Name, p.Pos(fi.Node), "store(fecDecoder."+name+") in decode", "the tuning region does not rewrite "+name+": it keeps the old ratio's value", "")
			}
		}
	}

	// ---- T3
	{
		// early returns before the Push
		var pushPt Point
		havePush := false
		for _, s := range p.CallsTo(p.Method("shardHeap", "Push")) {
			if s.Fn == fi {
				pushPt, _ = c.PointOf(s.Call)
				havePush = true
			}
		}
		okAll := havePush
		why := "decode never stores a packet"
		n := 0
		ast.Inspect(fi.Body, func(x ast.Node) bool {
			rs, ok := x.(*ast.ReturnStmt)
			if !ok || !havePush {
				return true
			}
			if _, inLit := enclosingFuncLit(p, rs); inLit {
				return true
			}
			pt, _ := c.PointOf(rs)
			if c.Dominates(pushPt, pt) || c.Reaches(pushPt, pt) {
				return true
			}
			n++
			allowed := false
			fsr := fa.AtNode(rs)
			for _, ct := range c.DominatingConds(pt) {
				e := exp(fsr.Resolve(ct))
				switch {
				case e.Key() == exp(lt(mk("len", in), tConst(p.ConstInt("fecHeaderSize")))).Key():
					allowed = true
				case e.Key() == exp(le(F("paws"), seq)).Key():
					allowed = true
				case e.Key() == tFld(recv, fShould).Key():
					allowed = true
				case e.Op == "call" && e.Obj == p.Method("shardHeap", "Has"):
					allowed = true
				}
			}
			if !allowed {
				okAll = false
				why = "decode returns at " + p.Pos(rs) + " before collecting the packet for another reason than: short packet, seqid >= paws, tuning, duplicate"
			}
			return true
		})
		r.check(okAll && n >= 3, "C16.T3", fi.Name, p.Pos(fi.Node), "early returns before collecting", fmt.Sprintf("%d returns, each for an allowed reason", n), why+": genuine packets are dropped from FEC recovery although the ratio matches")
		// shouldTune = false on every path from 'valid pair found'
		ok := false
		why = "shouldTune is never cleared in decode"
		for _, st := range falseStores {
			if st.Fn != fi {
				continue
			}
			pt, _ := c.PointOf(st.Node)
			var haveValid, extra bool
			var extras []string
			for _, ca := range c.DominatingCondsAt(pt) {
				for _, a := range Conjuncts(ca.T) {
					k := a.Key()
					switch {
					case autoDS != nil && (k == lt(tConst(0), autoDS).Key() || k == lt(tConst(0), autoPS).Key() || k == lt(add(autoDS, autoPS), tConst(256)).Key()):
						haveValid = true
					case k == tFld(recv, fShould).Key() || !insideRegion(c, ca.B, tFld(recv, fShould)):
					default:
						extra = true
						extras = append(extras, pretty(k))
					}
				}
			}
			if haveValid && !extra {
				ok = true
			} else if !haveValid {
				why = fmt.Sprintf("shouldTune = false at %s is not restricted to 'a valid period pair was found': tuning is abandoned after a single attempt, decoding resumes with the old ratio, and a sender whose period does not fit the window at that moment is never adopted", p.Pos(st.Node))
			} else {
				why = fmt.Sprintf("shouldTune = false at %s is conditional on %v: when the detected pair equals the current ratio (or on that condition failing) the decoder stays suspended for ever", p.Pos(st.Node), extras)
			}
		}
		r.check(ok, "C16.T3", fi.Name, p.Pos(fi.Node), "suspension ends", "shouldTune = false whenever a valid period pair was found, also when it equals the current ratio", why)
	}

	// ---- T4
	{
		sample := p.Method("autoTune", "Sample")
		var sites []*ast.CallExpr
		okArgs := true
		whyArgs := ""
		for _, s := range p.CallsTo(sample) {
			if s.Fn != fi {
				continue
			}
			sites = append(sites, s.Call)
			pt, _ := c.PointOf(s.Call)
			bit := p.resolveSingleDefs(fi, p.Term(s.Call.Args[0]))
			id := exp(p.resolveSingleDefs(fi, p.Term(s.Call.Args[1])))
			isData := exp(eq(flag, tConst(p.ConstInt("typeData"))))
			var underData, underNotData bool
			for _, ct := range c.DominatingConds(pt) {
				if exp(ct).Key() == isData.Key() {
					underData = true
				}
				if exp(ct).Key() == exp(Negate(isData)).Key() {
					underNotData = true
				}
			}
			okBit := (bit.Op == "true" && underData) || (bit.Op == "false" && underNotData) || exp(bit).Key() == isData.Key()
			if !okBit || id.Key() != seq.Key() {
				okArgs = false
				whyArgs = fmt.Sprintf("Sample(%s, %s) at %s does not record (flag == typeData, seqid)", exprString(s.Call.Args[0]), exprString(s.Call.Args[1]), p.Pos(s.Call))
			}
		}
		r.check(okArgs && len(sites) > 0, "C16.T4", fi.Name, p.Pos(fi.Node), "sample content", "Sample(flag == typeData, seqid)", whyArgs+": the period detector sees a wrong signal and the decoder adopts a wrong ratio (or never converges)")
		// must-pass: entry -> any node that is not the length guard, without a Sample
		isSample := func(n ast.Node, _ Point) bool {
			f := false
			inspectShallow(n, func(x ast.Node) bool {
				if call, ok := x.(*ast.CallExpr); ok && p.Callee(call) == sample {
					f = true
				}
				return true
			})
			return f
		}
		res := c.FindPath(PathQuery{From: Point{c.Entry(), 0}, IsBarrier: isSample, IsTarget: func(n ast.Node, pt Point) bool {
			// any decision other than the length guard and the type test that selects the Sample call
			if pt.B == c.Entry() || isSample(n, pt) {
				return false
			}
			// only decisions count: returns and branch conditions (not plain local assignments)
			if _, isRet := n.(*ast.ReturnStmt); !isRet {
				isCond := pt.I == len(pt.B.Nodes)-1 && len(pt.B.Succs) == 2 && c.CondTerm(pt.B) != nil
				if !isCond {
					// a statement with effects on the decoder would also be a decision
					if as, isAs := n.(*ast.AssignStmt); isAs {
						local := true
						for _, l := range as.Lhs {
							if _, isId := ast.Unparen(l).(*ast.Ident); !isId {
								local = false
							}
						}
						if local {
							return false
						}
					}
					if _, isDecl := n.(*ast.DeclStmt); isDecl {
						return false
					}
				}
			}
			switch x := n.(type) {
			case *ast.ReturnStmt:
				// the return of the length guard
				for _, ct := range c.DominatingConds(pt) {
					if exp(ct).Key() == exp(lt(mk("len", in), tConst(p.ConstInt("fecHeaderSize")))).Key() {
						return false
					}
				}
				return true
			case ast.Expr:
				t := exp(p.Term(x))
				if t.Key() == exp(eq(flag, tConst(p.ConstInt("typeData")))).Key() {
					return false
				}
				return true
			default:
				return true
			}
		}})
		wit := ""
		if res.Found {
			wit = c.DescribePath(res.Path)
		}
		if res.Found {
			r.bad("C16.T4", fi.Name, p.Pos(fi.Node), "every packet is sampled first", "a path through decode takes a decision (or returns) before the packet is sampled: packets dropped early (beyond paws, duplicates, while tuning) are missing from the window, which then never shows an uninterrupted run", wit)
		} else {
			r.ok("C16.T4", fi.Name, p.Pos(fi.Node), "every packet is sampled first", fmt.Sprintf("%d Sample sites; no path from entry avoids them", len(sites)))
		}
	}

	// ---- T5
	{
		ki := p.FuncByName("(*UDPSession).kcpInput")
		kc := p.CFG(ki)
		n := 0
		for _, s := range p.CallsTo(p.Method("fecDecoder", "decode")) {
			n++
			construct := "decode call in " + s.Fn.Name
			if s.Fn != ki {
				r.bad("C16.T5", s.Fn.Name, p.Pos(s.Call), construct, "the decoder is fed from outside kcpInput's FEC arm", "")
				continue
			}
			var cc *ast.CaseClause
			for q := p.parents[s.Call]; q != nil; q = p.parents[q] {
				if x, ok := q.(*ast.CaseClause); ok {
					cc = x
					break
				}
			}
			okArm := false
			if cc != nil && len(cc.List) == 2 {
				a, b := p.Term(cc.List[0]), p.Term(cc.List[1])
				if a.IsConst() && b.IsConst() {
					vals := map[int64]bool{a.Int: true, b.Int: true}
					okArm = vals[p.ConstInt("typeData")] && vals[p.ConstInt("typeParity")]
				}
				if sw, ok := p.parents[p.parents[cc]].(*ast.SwitchStmt); ok && sw.Tag != nil {
					tag := p.FactsOf(ki).AtNode(sw.Tag).Resolve(p.Term(sw.Tag))
					d := tVar(p.Info.Defs[ki.Decl.Type.Params.List[0].Names[0]])
					want := exp(tCall(p.Method("fecPacket", "flag"), d))
					if exp(tag).Key() != want.Key() {
						okArm = false
					}
				} else {
					okArm = false
				}
			}
			r.check(okArm, "C16.T5", ki.Name, p.Pos(s.Call), construct, "only in the arm 'case typeData, typeParity' of the switch on the packet's type field", "packets of another type (OOB, raw KCP) reach the decoder: their 'ids' and 'types' enter the sample window and contradict the ratio")
			// lazy creation dominates
			pt, _ := kc.PointOf(s.Call)
			okLazy := false
			for _, st := range p.FieldStores(p.Field("UDPSession", "fecDecoder")) {
				if st.Fn != ki || st.Rhs == nil {
					continue
				}
				t := p.Term(st.Rhs)
				if t.Op == "call" && t.Obj == p.Func("newFECDecoder") && len(t.Args) == 2 && t.Args[0].IsConst() && t.Args[1].IsConst() && t.Args[0].Int > 0 && t.Args[1].Int > 0 && t.Args[0].Int+t.Args[1].Int <= 256 {
					spt, _ := kc.PointOf(st.Node)
					underNil := false
					for _, ct := range kc.DominatingConds(spt) {
						if ct.Key() == eq(tFld(tVar(p.selfVar(ki)), p.Field("UDPSession", "fecDecoder")), mk("nil")).Key() {
							underNil = true
						}
					}
					// the if statement containing the store dominates the decode call
					if is, ok := p.parents[p.parents[st.Node]].(*ast.IfStmt); ok && underNil {
						if ipt, ok := kc.PointOf(is.Cond); ok && kc.Dominates(ipt, pt) {
							okLazy = true
						}
					}
				}
			}
			r.check(okLazy, "C16.T5", ki.Name, p.Pos(s.Call), "decoder exists", "if fecDecoder == nil { fecDecoder = newFECDecoder(1, 1) } dominates the call", "a session configured without FEC that receives FEC packets calls decode on a nil decoder (or creates it with an invalid ratio)")
		}
		if n == 0 {
			r.bad("C16.T5", ki.Name, p.Pos(ki.Node), "decode call", "kcpInput never calls the decoder", "")
		}
	}

	// ---- T6
	delegate(p, r, "C07", checkC07, "C07.F8", "C16.T6")
	delegate(p, r, "C07", checkC07, "C07.F3", "C16.T6")

	// ---- T7
	{
		window := p.ConstInt("maxAutoTuneSamples")
		// the array lengths
		st := structOf(p.Named("autoTune").Underlying())
		okArr := true
		for i := 0; i < st.NumFields(); i++ {
			if a, ok := st.Field(i).Type().Underlying().(*types.Array); ok && a.Len() != window {
				okArr = false
			}
		}
		// the largest accepted sum: autoDS+autoPS < L in decode
		var limit int64 = -1
		ast.Inspect(fi.Body, func(x ast.Node) bool {
			if be, ok := x.(*ast.BinaryExpr); ok && autoDS != nil {
				t := p.Term(be)
				if t.Op == "<" && t.Args[1].IsConst() && Lin(t.Args[0]).Equal(Lin(add(autoDS, autoPS))) {
					limit = t.Args[1].Int - 1
				}
				if t.Op == "<=" && t.Args[1].IsConst() && Lin(t.Args[0]).Equal(Lin(add(autoDS, autoPS))) {
					limit = t.Args[1].Int
				}
			}
			return true
		})
		ok := okArr && limit > 0 && window >= limit+2
		r.check(ok, "C16.T7", "autoTune", "-", "window size", fmt.Sprintf("maxAutoTuneSamples = %d >= %d + 2", window, limit), fmt.Sprintf("the sample window (%d) cannot hold one full period of the largest accepted ratio (d+p = %d) plus the two edges that delimit its pulses: such a sender's ratio is never detected", window, limit))
	}

	// ---- T10
	checkListenerParamsNotConditions(p, r)

	// ---- T8
	delegate(p, r, "C07", checkC07, "C07.F7", "C16.T8")
	delegate(p, r, "C12", checkC12, "C12.K5", "C16.T8")
}

func enclosingFuncLit(p *Prog, n ast.Node) (*ast.FuncLit, bool) {
	for q := p.parents[n]; q != nil; q = p.parents[q] {
		if fl, ok := q.(*ast.FuncLit); ok {
			return fl, true
		}
	}
	return nil, false
}

// isEarlierGuard: the negation of one of decode's early-return tests on the
// packet itself (length, paws).
func isEarlierGuard(p *Prog, a *Term, in *Term) bool {
	mentionsIn := false
	other := false
	a.Walk(func(x *Term) {
		if x.Op == "var" {
			if x.Obj == in.Obj {
				mentionsIn = true
			} else if _, isVar := x.Obj.(*types.Var); isVar && !isRecvVar(x.Obj.(*types.Var)) {
				other = true
			}
		}
	})
	if !mentionsIn || other {
		return false
	}
	// only comparisons of len(in) / seqid(in) with constants or paws
	ok := true
	a.Walk(func(x *Term) {
		if x.Op == "fld" && x.Obj.Name() != "paws" {
			ok = false
		}
	})
	return ok && (a.Op == "<" || a.Op == "<=")
}

func isRecvVar(v *types.Var) bool {
	return v.Name() == "dec"
}

func isErrNil(p *Prog, fi *FuncInfo, a *Term) bool {
	if a.Op != "==" && a.Op != "!=" {
		return false
	}
	for i, s := range a.Args {
		if s.Op == "nil" && a.Args[1-i].Op == "var" {
			if v, ok := a.Args[1-i].Obj.(*types.Var); ok && types.Identical(v.Type(), types.Universe.Lookup("error").Type()) {
				return a.Op == "=="
			}
		}
	}
	return false
}

// sameShapeAsCtor compares the retune store with the constructor's store of
// the same field, after renaming the ratio variables.
func sameShapeAsCtor(p *Prog, ctor, fi *FuncInfo, name string, st FieldStore, autoDS, autoPS *Term) string {
	f := p.Field("fecDecoder", name)
	var cst *FieldStore
	for _, s := range p.FieldStores(f) {
		if s.Fn == ctor && s.Rhs != nil {
			s := s
			cst = &s
		}
	}
	if cst == nil || st.Rhs == nil {
		return "no constructor store of " + name + " to compare with"
	}
	norm := func(fn *FuncInfo, s FieldStore, d, q *Term) string {
		t := p.Term(s.Rhs)
		// codec: the local assigned from reedsolomon.New(d, p)
		if t.Op == "var" && name == "codec" {
			for _, as := range p.Assignments(fn, t.Obj.(*types.Var)) {
				if as.Rhs != nil {
					t = p.Term(as.Rhs)
				} else if asn, ok := as.Node.(*ast.AssignStmt); ok && len(asn.Rhs) == 1 {
					t = p.Term(asn.Rhs[0])
				}
			}
		}
		t = stripConvs(t)
		k := t.Key()
		k = strings.ReplaceAll(k, d.Key(), "D")
		k = strings.ReplaceAll(k, q.Key(), "P")
		if s.Base != nil {
			k = strings.ReplaceAll(k, tFld(s.Base, p.Field("fecDecoder", "dataShards")).Key(), "D")
			k = strings.ReplaceAll(k, tFld(s.Base, p.Field("fecDecoder", "parityShards")).Key(), "P")
			k = strings.ReplaceAll(k, tFld(s.Base, p.Field("fecDecoder", "shardSize")).Key(), "+(D,P)")
		}
		return k
	}
	var cd, cp types.Object
	ps := ctor.Decl.Type.Params.List
	var names []*ast.Ident
	for _, fl := range ps {
		names = append(names, fl.Names...)
	}
	if len(names) < 2 {
		return "constructor signature changed"
	}
	cd, cp = p.Info.Defs[names[0]], p.Info.Defs[names[1]]
	a := norm(ctor, *cst, tVar(cd), tVar(cp))
	b := norm(fi, st, autoDS, autoPS)
	if a != b {
		return fmt.Sprintf("the retune computes %s as %s, the constructor as %s: after adopting the sender's ratio the decoder is not in the state a decoder constructed with that ratio would be in", name, pretty(b), pretty(a))
	}
	return ""
}

// insideRegion: block b lies inside the region guarded by `flag` (it is
// dominated by the true successor of a block that branches on flag).
func insideRegion(c *CFG, b *cfg.Block, flag *Term) bool {
	for _, h := range c.live {
		ct := c.CondTerm(h)
		if ct == nil || len(h.Succs) != 2 || ct.Key() != flag.Key() {
			continue
		}
		if c.BlockDominates(h.Succs[0], b) {
			return true
		}
	}
	return false
}

// usesNewRatio: a retune store that reads dataShards/parityShards/shardSize of the
// decoder must come after the retune's own store to that field, otherwise it is
// computed from the old ratio.
func usesNewRatio(p *Prog, c *CFG, fi *FuncInfo, st FieldStore, pt Point) string {
	if st.Rhs == nil {
		return ""
	}
	rhs := st.Rhs
	// the codec is stored through a local: look at the local's definition
	t := p.Term(rhs)
	terms := []*Term{t}
	if t.Op == "var" {
		for _, as := range p.Assignments(fi, t.Obj.(*types.Var)) {
			if as.Rhs != nil {
				terms = append(terms, p.Term(as.Rhs))
			} else if asn, ok := as.Node.(*ast.AssignStmt); ok && len(asn.Rhs) == 1 {
				terms = append(terms, p.Term(asn.Rhs[0]))
			}
		}
	}
	for _, name := range []string{"dataShards", "parityShards", "shardSize"} {
		f := p.Field("fecDecoder", name)
		used := false
		for _, tt := range terms {
			if termHasField(tt, f) {
				used = true
			}
		}
		if !used {
			continue
		}
		before := false
		for _, s2 := range p.FieldStores(f) {
			if s2.Fn != fi {
				continue
			}
			if q, ok := c.PointOf(s2.Node); ok && c.Dominates(q, pt) && q != pt {
				before = true
			}
		}
		if !before {
			return "the value is computed from fecDecoder." + name + " before the retune has stored the new " + name + ": it belongs to the old ratio (e.g. a wrap point paws of the old group size refuses genuine packets of the new one near the id wrap)"
		}
	}
	return ""
}

// checkTuneEvidence: every store shouldTune = true is under a type/position
// contradiction, after the paws test (C16.T1, also the type-by-position half of C07.F10).
// It returns the stores shouldTune = false.
func checkTuneEvidence(p *Prog, r *Report, ruleT1 string) []FieldStore {
	fi := p.FuncOf(p.Method("fecDecoder", "decode"))
	c := p.CFG(fi)
	fa := p.FactsOf(fi)
	recv := tVar(p.selfVar(fi))
	in := tVar(p.Info.Defs[fi.Decl.Type.Params.List[0].Names[0]])
	seq := p.ExpandHelpers(tCall(p.Method("fecPacket", "seqid"), in))
	flag := p.ExpandHelpers(tCall(p.Method("fecPacket", "flag"), in))
	F := func(n string) *Term { return p.F(recv, "fecDecoder", n) }
	fShould := p.Field("fecDecoder", "shouldTune")
	exp := func(t *Term) *Term { return stripConvs(p.ExpandHelpers(t)) }
	nTrue := 0
	var falseStores []FieldStore
	for _, st := range p.FieldStores(fShould) {
		if st.Rhs == nil {
			r.bad(ruleT1, st.Fn.Name, p.Pos(st.Node), "store(shouldTune)", "modified in place", "")
			continue
		}
		t := p.Term(st.Rhs)
		if t.Op == "false" {
			falseStores = append(falseStores, st)
			continue
		}
		nTrue++
		if st.Fn != fi || t.Op != "true" {
			r.bad(ruleT1, st.Fn.Name, p.Pos(st.Node), "shouldTune = "+exprString(st.Rhs), "tuning is started outside decode or with a computed value", "")
			continue
		}
		pt, _ := c.PointOf(st.Node)
		conds := c.DominatingConds(pt)
		posData := exp(lt(mk("%", seq, F("shardSize")), F("dataShards")))
		var isDataPos, isParityPos, neData, neParity bool
		var cjs []*Term
		for _, ct := range conds {
			cjs = append(cjs, Conjuncts(p.resolveSingleDefs(fi, ct))...)
		}
		// a test moved into a boolean helper stands for the disjunction of its true paths: every alternative must be
		// evidence (one obligation per alternative)
		okPaws := fa.AtNode(st.Node).Holds(lt(seq, F("paws")))
		alts := p.expandBoolHelpers(cjs)
		for k, alt := range alts {
			isDataPos, isParityPos, neData, neParity = false, false, false, false
			for _, ct := range alt {
				e := exp(ct)
				switch {
				case e.Key() == posData.Key():
					isDataPos = true
				case e.Key() == exp(Negate(posData)).Key():
					isParityPos = true
				case e.Key() == exp(ne(flag, tConst(p.ConstInt("typeData")))).Key():
					neData = true
				case e.Key() == exp(ne(flag, tConst(p.ConstInt("typeParity")))).Key():
					neParity = true
				}
			}
			ok := okPaws && ((isDataPos && neData && !isParityPos) || (isParityPos && neParity && !isDataPos))
			construct := "shouldTune = true"
			if len(alts) > 1 {
				construct = fmt.Sprintf("shouldTune = true (case %d of the helper's test)", k+1)
			}
			r.check(ok, ruleT1, fi.Name, p.Pos(st.Node), construct, "under a type/position contradiction, after seqid < paws",
				fmt.Sprintf("tuning starts without evidence (data position: %v, flag != data: %v, parity position: %v, flag != parity: %v, seqid < paws: %v): genuine packets of a matching sender can suspend decoding", isDataPos, neData, isParityPos, neParity, okPaws))
		}
	}
	if nTrue == 0 {
		r.bad(ruleT1, fi.Name, p.Pos(fi.Node), "shouldTune = true", "the decoder never starts tuning: it cannot adopt the sender's ratio", "")
	}

	return falseStores
}

// checkNewestGroupInit: C16.T9 (shared with C12.K7 and C07.F13).
func checkNewestGroupInit(p *Prog, r *Report, rule string) {
	dec := p.FuncOf(p.Method("fecDecoder", "decode"))
	c := p.CFG(dec)
	fNewest := p.Field("fecDecoder", "newestShardId")
	fSize := p.Field("fecDecoder", "shardSize")
	self := tVar(p.selfVar(dec))
	// (1) the update site and its 'not yet set' flag
	var flag *types.Var
	nUpd := 0
	for _, st := range p.FieldStores(fNewest) {
		if st.InLit || st.Rhs == nil {
			continue
		}
		root := rootFuncInfo(st.Fn)
		if root != dec {
			continue
		}
		pt, ok := c.PointOf(st.Node)
		if !ok {
			continue
		}
		// a re-store inside the tuning region is the other accepted form (handled under (2))
		if t := p.Term(st.Rhs); t.IsConst() {
			continue
		}
		nUpd++
		conds := c.localDominatingConds(pt)
		okFirst := false
		why := "the update is conditional on the signed comparison with the old value alone"
		// only the conditions of the update's own if: those whose branching block's other edge skips the store
		var own []*Term
		for _, ca := range c.DominatingCondsAt(pt) {
			if ca.B == nil {
				continue
			}
			mentions := false
			ca.T.Walk(func(t *Term) {
				if t.Op == "fld" && t.Obj == fNewest {
					mentions = true
				}
			})
			if mentions {
				own = append(own, ca.T)
			}
		}
		_ = conds
		if len(own) == 0 {
			okFirst = true // unconditional (or not compared with the old value at all)
		}
		for _, ct := range own {
			ds := []*Term{ct}
			if ct.Op == "||" {
				ds = ct.Args
			}
			for _, d := range ds {
				if d.Op == "not" && d.Args[0].Op == "fld" && d.Args[0].Args[0].Key() == self.Key() {
					if fv, isV := d.Args[0].Obj.(*types.Var); isV {
						if b, isB := fv.Type().Underlying().(*types.Basic); isB && b.Kind() == types.Bool {
							flag = fv
							okFirst = true
						}
					}
				}
			}
		}
		// the flag is set together with the update
		if okFirst && flag != nil {
			set := false
			for _, fs := range p.FieldStores(flag) {
				if fs.Fn == st.Fn && fs.Rhs != nil && p.Term(fs.Rhs).Op == "true" {
					if fp, okF := c.PointOf(fs.Node); okF && fp.B == pt.B {
						set = true
					}
				}
			}
			if !set {
				okFirst, why = false, "the 'not yet set' flag "+flag.Name()+" is not set where newestShardId is taken from a packet"
			}
		}
		r.check(okFirst, rule, st.Fn.Name, p.Pos(st.Node), "first packet sets newestShardId", "if !<set> || _itimediff(group, newest) > 0 { newest = group; <set> = true }", why+": before the first packet (value 0) and after a retune (value in units of the old group size) the first real group id can compare as older — it never becomes the newest, and discardShards discards every shard just stored (no recovery until the ids catch up or wrap)")
	}
	if nUpd == 0 {
		r.bad(rule, dec.Name, p.Pos(dec.Node), "first packet sets newestShardId", "decode never records the newest group", "")
		return
	}
	// (2) every store to shardSize outside the constructor invalidates the value
	n := 0
	for _, st := range p.FieldStores(fSize) {
		if st.InLit || st.Fn.Name == "newFECDecoder" {
			continue
		}
		n++
		cc := p.CFG(st.Fn)
		pt, _ := cc.PointOf(st.Node)
		inval := func(nd ast.Node, _ Point) bool {
			as, ok := nd.(*ast.AssignStmt)
			if !ok {
				return false
			}
			for i, l := range as.Lhs {
				lt := p.Term(l)
				if lt.Op != "fld" || i >= len(as.Rhs) {
					continue
				}
				if lt.Obj == fNewest {
					return true
				}
				if flag != nil && lt.Obj == flag && p.Term(as.Rhs[i]).Op == "false" {
					return true
				}
			}
			return false
		}
		// (paths that leave through the failure of the codec constructor — `if err != nil { return }` — abandon the retune)
		errEdge := func(from, to *cfg.Block) bool {
			ct := cc.CondTerm(from)
			if ct == nil || len(from.Succs) != 2 || from.Succs[0] != to {
				return true
			}
			if ct.Op == "!=" && len(ct.Args) == 2 {
				for i := 0; i < 2; i++ {
					if ct.Args[i].Op == "nil" && ct.Args[1-i].Op == "var" {
						if v, ok := ct.Args[1-i].Obj.(*types.Var); ok && types.Identical(v.Type(), types.Universe.Lookup("error").Type()) {
							return false
						}
					}
				}
			}
			return true
		}
		res := cc.FindPath(PathQuery{From: Point{pt.B, pt.I + 1}, ExitIsTarget: true, IsBarrier: inval, EdgeOK: errEdge})
		if res.Found {
			r.bad(rule, st.Fn.Name, p.Pos(st.Node), "store(fecDecoder.shardSize) invalidates newestShardId", "the group size changes but newestShardId (counted in units of the old size) is kept and stays 'set': after a retune to a larger group at sequence id S every stored shard is discarded at once until the ids reach about S*new/old — the decoder has adopted the sender's ratio but recovers nothing", cc.DescribePath(res.Path))
		} else {
			r.ok(rule, st.Fn.Name, p.Pos(st.Node), "store(fecDecoder.shardSize) invalidates newestShardId", "the 'set' flag is cleared (or the value re-stored) on every path after the store")
		}
	}
	if n == 0 {
		r.ok(rule, dec.Name, p.Pos(dec.Node), "store(fecDecoder.shardSize) invalidates newestShardId", "the group size never changes after construction")
	}
}

// checkListenerParamsNotConditions: C16.T10.
func checkListenerParamsNotConditions(p *Prog, r *Report) {
	flds := []*types.Var{p.Field("Listener", "dataShards"), p.Field("Listener", "parityShards")}
	for _, name := range []string{"(*Listener).packetInput", "(*UDPSession).kcpInput"} {
		fi := p.FuncByName(name)
		if fi == nil || fi.Body == nil {
			r.bad("C16.T10", name, "-", "conditions of "+name, "function not found", "")
			continue
		}
		bad := ""
		check := func(fn *FuncInfo) {
			c := p.CFG(fn)
			for _, b := range c.live {
				ct := c.CondTerm(b)
				if ct == nil {
					continue
				}
				for _, f := range flds {
					if termHasField(ct, f) && bad == "" {
						pos := "-"
						if len(b.Nodes) > 0 {
							pos = p.Pos(b.Nodes[len(b.Nodes)-1])
						}
						bad = pos + ": " + pretty(ct.Key())
					}
				}
			}
		}
		check(fi)
		// switch tags and helpers with one caller are part of the function
		for g := range p.TransEffects(fi).Funcs {
			if g != fi && (g.Lit != nil && rootFuncInfo(g) == fi) {
				check(g)
			}
		}
		if bad != "" {
			r.bad("C16.T10", fi.Name, p.Pos(fi.Node), "conditions of "+name, "a branch depends on the listener's own FEC parameters ("+bad+"): packets of a sender whose FEC setting differs from the listener's are treated differently — a session without FEC never sees the parity samples it needs to adopt the sender's ratio", "")
		} else {
			r.ok("C16.T10", fi.Name, p.Pos(fi.Node), "conditions of "+name, "no branch mentions Listener.dataShards / parityShards")
		}
	}
}
