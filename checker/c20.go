package main

import (
	"fmt"
	"go/ast"
	"go/token"
	"go/types"
	"slices"
	"strings"

	"golang.org/x/tools/go/cfg"
)

func init() {
	register(&propCheck{
		id:  "C20",
		run: checkC20,
		explain: "Equivalence with a FIFO model over all operation sequences is modular index arithmetic and is not decided. Decided are the clause of the statement that is structural (vacated slots are cleared " +
			"before the index moves, on every path of Pop, Discard and Clear, with the cleared ranges equal to the range the head moves over) and the structural preconditions of the rest: the element store of " +
			"Push is preceded by grow() on the full path, the predicate helpers have the documented shape, all traversals (ForEach, ForEachReverse, Clear, grow) split the live range into the same segments " +
			"[head,tail) resp. [head,len)+[0,tail) with the direction their name promises, every index store is 0, (x+1) % len, or one of the guarded Discard/grow forms, and the three fields are touched only " +
			"by the ring's own methods.",
		assume: []string{
			"a segment extracted from a counted for loop `for i := A; i < B; i++` is [A, B); `for i := A; i >= B; i--` is [B, A] visited downwards",
		},
	})
}

type ringSeg struct {
	lo, hi string // canonical keys of the bounds: [lo, hi)
	desc   bool
	pos    token.Pos
}

func (s ringSeg) String() string {
	d := "asc"
	if s.desc {
		d = "desc"
	}
	return fmt.Sprintf("[%s, %s) %s", pretty(s.lo), pretty(s.hi), d)
}

func checkC20(p *Prog, r *Report) {
	r.rule("C20.Q1", "on every path of Pop, Discard and Clear the slots the head moves over are zeroed/cleared before the index is stored, and the cleared range equals the range vacated", 4)
	r.rule("C20.Q2", "the element store of Push is preceded on the full path by grow(); IsFull is (tail+1) % len(elements) == head; IsEmpty is head == tail; Len covers both layouts", 4)
	r.rule("C20.Q3", "ForEach, ForEachReverse, Clear and grow split the live range into the same segments — [head,tail) when head < tail (or <=), else [head,len) and [0,tail) — visited in queue order by the forward functions and in reverse by ForEachReverse; grow copies them in queue order to offset 0 and sets head = 0, tail = Len()", 4)
	r.rule("C20.Q4", "every store to head or tail is 0, (x + 1) % len(elements), the guarded Discard forms, or Len() in grow", 6)
	r.rule("C20.Q5", "head, tail and elements are accessed only by RingBuffer's methods and constructor", 3)

	fHead := p.Field("RingBuffer", "head")
	fTail := p.Field("RingBuffer", "tail")
	fElems := p.Field("RingBuffer", "elements")
	method := func(name string) *FuncInfo {
		fi := p.FuncOf(p.Method("RingBuffer", name))
		if fi == nil {
			brokenCheck("ANCHOR-UNRESOLVED role=method RingBuffer.%s", name)
		}
		return fi
	}
	// the growing routine, by role: the one function besides the constructor that replaces the element array
	growFn := func() *FuncInfo {
		var found []*FuncInfo
		for _, st := range p.FieldStores(fElems) {
			fn := rootFuncInfo(st.Fn)
			if fn.Obj == nil || fn.Obj == p.Func("NewRingBuffer") || slices.Contains(found, fn) {
				continue
			}
			found = append(found, fn)
		}
		if len(found) != 1 {
			brokenCheck("ANCHOR-UNRESOLVED role=the function that replaces RingBuffer.elements (found %d)", len(found))
		}
		return found[0]
	}
	rOf := func(fi *FuncInfo) *Term { return tVar(p.selfVar(fi)) }
	head := func(fi *FuncInfo) *Term { return tFld(rOf(fi), fHead) }
	tail := func(fi *FuncInfo) *Term { return tFld(rOf(fi), fTail) }
	elems := func(fi *FuncInfo) *Term { return tFld(rOf(fi), fElems) }
	lenE := func(fi *FuncInfo) *Term { return mk("len", elems(fi)) }

	// ---------------------------------------------------------------- Q1 Pop
	{
		fi := method("Pop")
		c := p.CFG(fi)
		for _, st := range p.FieldStores(fHead) {
			if st.Fn != fi {
				continue
			}
			pt, _ := c.PointOf(st.Node)
			// elements[head] = <zero> earlier in the same block
			okZ := false
			for i := 0; i < pt.I; i++ {
				if as, ok := pt.B.Nodes[i].(*ast.AssignStmt); ok && len(as.Lhs) == 1 && len(as.Rhs) == 1 {
					lt := p.Term(as.Lhs[0])
					if lt.Op == "idx" && lt.Args[0].Key() == elems(fi).Key() && lt.Args[1].Key() == head(fi).Key() && p.isZeroValueExpr(fi, as.Rhs[0]) {
						okZ = true
					}
				}
			}
			r.check(okZ, "C20.Q1", fi.Name, p.Pos(st.Node), "Pop clears the slot it leaves", "elements[head] = zero value before head advances", "Pop advances head without zeroing the popped slot: the ring keeps a reference to the popped element")
		}
	}
	// ---------------------------------------------------------------- Q1 Discard
	{
		fi := method("Discard")
		c := p.CFG(fi)
		fa := p.FactsOf(fi)
		n := 0
		for _, st := range p.FieldStores(fHead) {
			if st.Fn != fi || st.Rhs == nil {
				continue
			}
			n++
			pt, _ := c.PointOf(st.Node)
			fs := fa.At(pt)
			newHead := fs.Resolve(p.Term(st.Rhs))
			// clears in the same block before the store
			type clr struct{ lo, hi *Term }
			var clears []clr
			for i := 0; i < pt.I; i++ {
				inspectShallow(pt.B.Nodes[i], func(x ast.Node) bool {
					call, ok := x.(*ast.CallExpr)
					if !ok || p.BuiltinName(call) != "clear" || len(call.Args) != 1 {
						return true
					}
					t := p.Term(call.Args[0])
					if t.Op == "slice" && t.Args[0].Key() == elems(fi).Key() {
						lo, hi := t.Args[1], t.Args[2]
						if lo != nil {
							lo = fs.Resolve(lo)
						}
						if hi != nil {
							hi = fs.Resolve(hi)
						}
						clears = append(clears, clr{lo, hi})
					}
					return true
				})
			}
			keyOf := func(t *Term) string {
				if t == nil {
					return "∅"
				}
				return t.Key()
			}
			ok := false
			desc := ""
			switch len(clears) {
			case 1:
				// [head, newHead)
				ok = keyOf(clears[0].lo) == head(fi).Key() && keyOf(clears[0].hi) == newHead.Key()
				desc = "clear(elements[head:new head])"
			case 2:
				// [head, len) and [0, newHead)
				a, b := clears[0], clears[1]
				isFull := func(x clr) bool {
					return keyOf(x.lo) == head(fi).Key() && (x.hi == nil || keyOf(x.hi) == lenE(fi).Key())
				}
				isFront := func(x clr) bool {
					return (x.lo == nil || (x.lo.IsConst() && x.lo.Int == 0)) && keyOf(x.hi) == newHead.Key()
				}
				ok = (isFull(a) && isFront(b)) || (isFull(b) && isFront(a))
				desc = "clear(elements[head:len]) and clear(elements[:new head])"
			}
			var cs []string
			for _, x := range clears {
				cs = append(cs, "["+pretty(keyOf(x.lo))+":"+pretty(keyOf(x.hi))+"]")
			}
			r.check(ok, "C20.Q1", fi.Name, p.Pos(st.Node), fmt.Sprintf("Discard arm #%d clears what it vacates", n), desc, "head moves to "+pretty(newHead.Key())+" but the cleared ranges are "+strings.Join(cs, ",")+": discarded slots keep their elements")
		}
		if n == 0 {
			r.bad("C20.Q1", fi.Name, p.Pos(fi.Node), "Discard", "Discard never moves head", "")
		}
	}

	// ---------------------------------------------------------------- Q3 traversals (and Q1 for Clear)
	segsOf := func(fi *FuncInfo) map[string][]ringSeg {
		// arms keyed by the layout test: "contig" for the arm under head < tail / head <= tail, "wrapped" for the other
		out := map[string][]ringSeg{}
		c := p.CFG(fi)
		armOf := func(n ast.Node) string {
			pt, ok := c.PointOf(n)
			arm := "?"
			if ok {
				for _, ct := range c.DominatingConds(pt) {
					for _, cj := range Conjuncts(ct) {
						if (cj.Op == "<" || cj.Op == "<=") && len(cj.Args) == 2 {
							if cj.Args[0].Key() == head(fi).Key() && cj.Args[1].Key() == tail(fi).Key() {
								arm = "contig"
							}
							if cj.Args[0].Key() == tail(fi).Key() && cj.Args[1].Key() == head(fi).Key() {
								arm = "wrapped"
							}
						}
					}
				}
			}
			return arm
		}
		ast.Inspect(fi.Body, func(n ast.Node) bool {
			// clear(elements[lo:hi]) visits (and zeroes) [lo, hi)
			if call, isC := n.(*ast.CallExpr); isC && p.BuiltinName(call) == "clear" && len(call.Args) == 1 {
				if t := p.Term(call.Args[0]); t.Op == "slice" && t.Args[0].Key() == elems(fi).Key() {
					lo, hi := tConst(0).Key(), lenE(fi).Key()
					if t.Args[1] != nil {
						lo = t.Args[1].Key()
					}
					if t.Args[2] != nil {
						hi = t.Args[2].Key()
					}
					arm := armOf(call)
					out[arm] = append(out[arm], ringSeg{lo: lo, hi: hi, pos: call.Pos()})
				}
				return true
			}
			fs, ok := n.(*ast.ForStmt)
			if !ok || fs.Init == nil || fs.Cond == nil || fs.Post == nil {
				return true
			}
			init, ok := fs.Init.(*ast.AssignStmt)
			if !ok || len(init.Lhs) != 1 {
				return true
			}
			iv, _ := p.Info.Defs[init.Lhs[0].(*ast.Ident)].(*types.Var)
			post, ok := fs.Post.(*ast.IncDecStmt)
			if !ok || iv == nil {
				return true
			}
			cond := p.Term(fs.Cond)
			a := p.Term(init.Rhs[0])
			var seg ringSeg
			seg.pos = fs.Pos()
			switch {
			case post.Tok == token.INC && cond.Op == "<" && cond.Args[0].Op == "var" && cond.Args[0].Obj == iv:
				seg = ringSeg{lo: a.Key(), hi: cond.Args[1].Key(), pos: fs.Pos()}
			case post.Tok == token.DEC && cond.Op == "<=" && cond.Args[1].Op == "var" && cond.Args[1].Obj == iv:
				// for i := A; i >= B; i-- : [B, A+1) downwards; A is X-1 in practice
				hi := Lin(add(a, tConst(1)))
				hk := hi.String()
				if len(hi.Coef) == 1 && hi.C == 0 {
					for k := range hi.Coef {
						hk = k
					}
				}
				seg = ringSeg{lo: cond.Args[0].Key(), hi: hk, desc: true, pos: fs.Pos()}
			default:
				return true
			}
			// which arm?
			pt, ok := c.PointOf(fs.Cond)
			arm := "?"
			if ok {
				for _, ct := range c.DominatingConds(pt) {
					for _, cj := range Conjuncts(ct) {
						if (cj.Op == "<" || cj.Op == "<=") && len(cj.Args) == 2 {
							if cj.Args[0].Key() == head(fi).Key() && cj.Args[1].Key() == tail(fi).Key() {
								arm = "contig"
							}
							if cj.Args[0].Key() == tail(fi).Key() && cj.Args[1].Key() == head(fi).Key() {
								arm = "wrapped"
							}
						}
					}
				}
			}
			out[arm] = append(out[arm], seg)
			return true
		})
		return out
	}
	expect := func(fi *FuncInfo, reverse bool) map[string][]ringSeg {
		h, t, l := head(fi).Key(), tail(fi).Key(), lenE(fi).Key()
		zero := tConst(0).Key()
		if !reverse {
			return map[string][]ringSeg{"contig": {{lo: h, hi: t}}, "wrapped": {{lo: h, hi: l}, {lo: zero, hi: t}}}
		}
		return map[string][]ringSeg{"contig": {{lo: h, hi: t, desc: true}}, "wrapped": {{lo: zero, hi: t, desc: true}, {lo: h, hi: l, desc: true}}}
	}
	sameSegs := func(a, b []ringSeg) bool {
		if len(a) != len(b) {
			return false
		}
		for i := range a {
			if a[i].lo != b[i].lo || a[i].hi != b[i].hi || a[i].desc != b[i].desc {
				return false
			}
		}
		return true
	}
	for _, spec := range []struct {
		name    string
		reverse bool
		rule    string
	}{{"ForEach", false, "C20.Q3"}, {"ForEachReverse", true, "C20.Q3"}, {"Clear", false, "C20.Q1"}} {
		fi := method(spec.name)
		got := segsOf(fi)
		want := expect(fi, spec.reverse)
		for _, arm := range []string{"contig", "wrapped"} {
			construct := spec.name + " segments, " + arm + " layout"
			if sameSegs(got[arm], want[arm]) {
				r.ok(spec.rule, fi.Name, p.Pos(fi.Node), construct, fmt.Sprintf("%v", want[arm]))
			} else {
				pos := p.Pos(fi.Node)
				if len(got[arm]) > 0 {
					pos = p.PosOf(got[arm][0].pos)
				}
				r.bad(spec.rule, fi.Name, pos, construct, fmt.Sprintf("visits %v, the queue order requires %v", got[arm], want[arm]), "")
			}
		}
		// an empty ring (head == tail) must not be traversed: with the strict layout test head < tail it falls into
		// the wrapped arm, which covers the whole array — so either an emptiness guard returns first, or the
		// contiguous arm is selected by head <= tail
		{
			c := p.CFG(fi)
			strict, guarded := false, false
			for _, b := range c.live {
				ct := c.CondTerm(b)
				if ct == nil || len(b.Succs) != 2 {
					continue
				}
				e := p.ExpandHelpers(ct)
				if e.Op == "<" && e.Args[0].Key() == head(fi).Key() && e.Args[1].Key() == tail(fi).Key() {
					strict = true
				}
				// Len() == 0 / IsEmpty() / head == tail with a returning true edge
				isEmpty := false
				switch {
				case e.Op == "==" && ((e.Args[0].Key() == head(fi).Key() && e.Args[1].Key() == tail(fi).Key()) || (e.Args[1].Key() == head(fi).Key() && e.Args[0].Key() == tail(fi).Key())):
					isEmpty = true
				case ct.Op == "==" && len(ct.Args) == 2 && ((ct.Args[0].IsConst() && ct.Args[0].Int == 0 && ct.Args[1].Op == "call" && ct.Args[1].Obj == p.Method("RingBuffer", "Len")) || (ct.Args[1].IsConst() && ct.Args[1].Int == 0 && ct.Args[0].Op == "call" && ct.Args[0].Obj == p.Method("RingBuffer", "Len"))):
					isEmpty = true
				case ct.Op == "call" && ct.Obj == p.Method("RingBuffer", "IsEmpty"):
					isEmpty = true
				}
				if isEmpty && c.BlockDominates(c.Entry(), b) {
					for _, nd := range b.Succs[0].Nodes {
						if _, isRet := nd.(*ast.ReturnStmt); isRet {
							guarded = true
						}
					}
				}
			}
			r.check(!strict || guarded, spec.rule, fi.Name, p.Pos(fi.Node), spec.name+" on an empty ring", "emptiness guard (or layout test head <= tail)", "with head == tail the strict layout test head < tail is false, so an empty ring is traversed as 'wrapped': every slot of the array is visited although the queue holds nothing")
		}
		// the loop body touches elements[i]
		if spec.name == "Clear" {
			okBody := true
			ast.Inspect(fi.Body, func(n ast.Node) bool {
				if fs, ok := n.(*ast.ForStmt); ok {
					z := false
					for _, st := range fs.Body.List {
						if as, ok := st.(*ast.AssignStmt); ok && len(as.Lhs) == 1 && len(as.Rhs) == 1 {
							if lt := p.Term(as.Lhs[0]); lt.Op == "idx" && lt.Args[0].Key() == elems(fi).Key() && p.isZeroValueExpr(fi, as.Rhs[0]) {
								z = true
							}
						}
					}
					if !z {
						okBody = false
					}
				}
				return true
			})
			r.check(okBody, "C20.Q1", fi.Name, p.Pos(fi.Node), "Clear zeroes each visited slot", "elements[i] = zero value in every loop", "Clear resets the indices without zeroing the live slots")
			// head and tail reset after the loops
			z := 0
			for _, f := range []*types.Var{fHead, fTail} {
				for _, st := range p.FieldStores(f) {
					if st.Fn == fi && st.Rhs != nil {
						if t := p.Term(st.Rhs); t.IsConst() && t.Int == 0 {
							z++
						}
					}
				}
			}
			r.check(z == 2, "C20.Q1", fi.Name, p.Pos(fi.Node), "Clear resets head and tail", "head = 0; tail = 0", "Clear does not reset both indices")
		}
	}
	// grow
	{
		fi := growFn()
		fa := p.FactsOf(fi)
		c := p.CFG(fi)
		type cp struct {
			arm      string
			dstOff   string
			srcLo    string
			srcHi    string
			pos      token.Pos
			resolved *Term
		}
		var cps []cp
		inspectBody(fi, func(n ast.Node) bool {
			call, ok := n.(*ast.CallExpr)
			if !ok || p.BuiltinName(call) != "copy" || len(call.Args) != 2 {
				return true
			}
			src := p.Term(call.Args[1])
			if src.Op != "slice" || src.Args[0].Key() != elems(fi).Key() {
				return true
			}
			dst := p.Term(call.Args[0])
			off := "0"
			if dst.Op == "slice" && dst.Args[1] != nil {
				off = fa.AtNode(call).Resolve(dst.Args[1]).Key()
				off = dst.Args[1].Key()
			}
			k := func(t *Term) string {
				if t == nil {
					return "∅"
				}
				return t.Key()
			}
			arm := "?"
			if pt, ok := c.PointOf(call); ok {
				for _, ct := range c.DominatingConds(pt) {
					for _, cj := range Conjuncts(ct) {
						if (cj.Op == "<" || cj.Op == "<=") && cj.Args[0].Key() == head(fi).Key() && cj.Args[1].Key() == tail(fi).Key() {
							arm = "contig"
						}
						if (cj.Op == "<" || cj.Op == "<=") && cj.Args[0].Key() == tail(fi).Key() && cj.Args[1].Key() == head(fi).Key() {
							arm = "wrapped"
						}
					}
				}
			}
			cps = append(cps, cp{arm: arm, dstOff: off, srcLo: k(src.Args[1]), srcHi: k(src.Args[2]), pos: call.Pos()})
			return true
		})
		h, t := head(fi).Key(), tail(fi).Key()
		okC, okW := false, false
		var w []cp
		for _, x := range cps {
			if x.arm == "contig" && x.srcLo == h && x.srcHi == t && x.dstOff == "0" {
				okC = true
			}
			if x.arm == "wrapped" {
				w = append(w, x)
			}
		}
		if len(w) == 2 {
			// first: elements[head:] -> offset 0 ; second: elements[:tail] -> offset n (the count returned by the first copy)
			first, second := w[0], w[1]
			if first.srcLo == h && first.srcHi == "∅" && first.dstOff == "0" && (second.srcLo == "∅" || second.srcLo == "0") && second.srcHi == t && second.dstOff != "0" {
				// the second offset must be the result of the first copy
				okW = true
			}
		}
		r.check(okC, "C20.Q3", fi.Name, p.Pos(fi.Node), "grow copies the contiguous layout", "copy(new, elements[head:tail])", "grow does not copy [head,tail) to offset 0 in the contiguous layout")
		r.check(okW, "C20.Q3", fi.Name, p.Pos(fi.Node), "grow copies the wrapped layout in queue order", "copy(new, elements[head:]) then copy(new[n:], elements[:tail])", "grow does not copy [head,len) then [0,tail) in queue order")
		// head = 0, tail = Len() taken before
		okH, okT := false, false
		for _, st := range p.FieldStores(fHead) {
			if st.Fn == fi && st.Rhs != nil {
				if v := p.Term(st.Rhs); v.IsConst() && v.Int == 0 {
					okH = true
				}
			}
		}
		lenM := p.Method("RingBuffer", "Len")
		for _, st := range p.FieldStores(fTail) {
			if st.Fn == fi && st.Rhs != nil {
				v := fa.AtNode(st.Node).Resolve(p.Term(st.Rhs))
				if v.Op == "call" && v.Obj == lenM {
					okT = true
				}
				if v.Op == "var" {
					as := p.Assignments(fi, v.Obj.(*types.Var))
					if len(as) == 1 && as[0].Rhs != nil {
						if t := p.Term(as[0].Rhs); t.Op == "call" && t.Obj == lenM {
							// taken before head/tail/elements are modified
							dp, _ := c.PointOf(as[0].Node)
							sp, _ := c.PointOf(st.Node)
							if c.Dominates(dp, sp) {
								okT = true
							}
						}
					}
				}
			}
		}
		r.check(okH && okT, "C20.Q3", fi.Name, p.Pos(fi.Node), "grow re-bases the indices", "head = 0; tail = Len() measured before the copy", "after growing, head/tail do not describe the copied elements")
	}

	// ---------------------------------------------------------------- Q2
	{
		fi := method("Push")
		c := p.CFG(fi)
		isFull := p.Method("RingBuffer", "IsFull")
		grow := growFn().Obj
		n := 0
		inspectBody(fi, func(x ast.Node) bool {
			as, ok := x.(*ast.AssignStmt)
			if !ok || len(as.Lhs) != 1 {
				return true
			}
			lt := p.Term(as.Lhs[0])
			if lt.Op != "idx" || lt.Args[0].Key() != elems(fi).Key() {
				return true
			}
			n++
			okIdx := lt.Args[1].Key() == tail(fi).Key()
			pt, _ := c.PointOf(as)
			res := c.FindPath(PathQuery{From: Point{c.Entry(), 0}, IsTarget: func(_ ast.Node, q Point) bool { return q == pt },
				IsBarrier: func(nd ast.Node, _ Point) bool {
					hit := false
					inspectShallow(nd, func(y ast.Node) bool {
						if call, ok := y.(*ast.CallExpr); ok && p.Callee(call) == grow {
							hit = true
						}
						return true
					})
					return hit
				},
				EdgeOK: func(from, to *cfg.Block) bool {
					// the not-full edge is fine: exclude it from the search for an offending path
					if ct := c.CondTerm(from); ct != nil && len(from.Succs) == 2 {
						full := ct.Op == "call" && ct.Obj == isFull
						notFull := ct.Op == "not" && ct.Args[0].Op == "call" && ct.Args[0].Obj == isFull
						if full && from.Succs[1] == to {
							return false
						}
						if notFull && from.Succs[0] == to {
							return false
						}
					}
					return true
				}})
			// there must be an IsFull test at all
			tested := false
			for _, b := range c.live {
				if ct := c.CondTerm(b); ct != nil {
					ct.Walk(func(t *Term) {
						if t.Op == "call" && t.Obj == isFull {
							tested = true
						}
					})
				}
			}
			r.check(okIdx && tested && !res.Found, "C20.Q2", fi.Name, p.Pos(as), "Push stores at tail after growing when full", "elements[tail] = v; the full path calls grow() first", "Push can overwrite the head element: the store is not preceded by grow() on the full path (or does not use tail)")
			return true
		})
		if n == 0 {
			r.bad("C20.Q2", fi.Name, p.Pos(fi.Node), "Push", "Push stores no element", "")
		}
		// predicate shapes
		shape := func(name string, want *Term) {
			f := method(name)
			ok := false
			if len(f.Body.List) == 1 {
				if ret, isRet := f.Body.List[0].(*ast.ReturnStmt); isRet && len(ret.Results) == 1 {
					got := p.Term(ret.Results[0])
					ok = got.Key() == want.Key() || normTerm(p.ExpandHelpers(got)).Key() == want.Key()
				}
			}
			r.check(ok, "C20.Q2", f.Name, p.Pos(f.Node), name+" shape", pretty(want.Key()), name+" is not "+pretty(want.Key()))
		}
		fF := method("IsFull")
		shape("IsFull", eq(normTerm(mk("%", add(tail(fF), tConst(1)), lenE(fF))), head(fF)))
		fE := method("IsEmpty")
		shape("IsEmpty", eq(head(fE), tail(fE)))
		// Len: tail - head under head <= tail, else len - head + tail
		fL := method("Len")
		fa := p.FactsOf(fL)
		okLen := 0
		inspectBody(fL, func(x ast.Node) bool {
			ret, ok := x.(*ast.ReturnStmt)
			if !ok || len(ret.Results) != 1 {
				return true
			}
			l := Lin(p.Term(ret.Results[0]))
			fs := fa.AtNode(ret)
			if l.Equal(Lin(sub(tail(fL), head(fL)))) && fs.Holds(le(head(fL), tail(fL))) {
				okLen++
			}
			if l.Equal(Lin(add(sub(lenE(fL), head(fL)), tail(fL)))) && (fs.Holds(lt(tail(fL), head(fL)))) {
				okLen++
			}
			return true
		})
		if okLen != 2 {
			// the same two cases written differently (a difference corrected when negative, swapped arms, …):
			// every path returns tail - head under head <= tail or len - head + tail under tail < head, and both occur
			if sps, understood := p.SymPaths(fL); understood {
				c1, c2, bad := 0, 0, 0
				for _, sp := range sps {
					if len(sp.Ret) != 1 {
						bad++
						continue
					}
					l := Lin(sp.Ret[0])
					switch {
					case l.Equal(Lin(sub(tail(fL), head(fL)))) && pathImplies(sp.Conds, le(head(fL), tail(fL))):
						c1++
					case l.Equal(Lin(add(sub(lenE(fL), head(fL)), tail(fL)))) && pathImplies(sp.Conds, lt(tail(fL), head(fL))):
						c2++
					default:
						bad++
					}
				}
				if c1 > 0 && c2 > 0 && bad == 0 {
					okLen = 2
				}
			}
		}
		r.check(okLen == 2, "C20.Q2", fL.Name, p.Pos(fL.Node), "Len covers both layouts", "tail - head under head <= tail; len - head + tail otherwise", "Len does not compute the occupancy of both layouts")
	}

	// ---------------------------------------------------------------- Q4
	for _, f := range []*types.Var{fHead, fTail} {
		for _, st := range p.FieldStores(f) {
			construct := "store(RingBuffer." + f.Name() + ") in " + st.Fn.Name
			if st.InLit {
				if t := p.Term(st.Rhs); t.IsConst() && t.Int == 0 {
					r.ok("C20.Q4", st.Fn.Name, p.Pos(st.Node), construct, "constructor: 0")
				} else {
					r.bad("C20.Q4", st.Fn.Name, p.Pos(st.Node), construct, "constructor does not start at 0", "")
				}
				continue
			}
			if st.Rhs == nil {
				r.bad("C20.Q4", st.Fn.Name, p.Pos(st.Node), construct, "index modified in place (no modular reduction)", "")
				continue
			}
			fs := p.FactsOf(st.Fn).AtNode(st.Node)
			t := p.Term(st.Rhs)
			rt := fs.Resolve(t)
			base := st.Base
			le_ := mk("len", tFld(base, fElems))
			self := tFld(base, f)
			okS, why := false, ""
			switch {
			case t.IsConst() && t.Int == 0:
				okS, why = true, "0"
			case t.Key() == normTerm(mk("%", add(self, tConst(1)), le_)).Key() || rt.Key() == normTerm(mk("%", add(self, tConst(1)), le_)).Key() || normTerm(p.ExpandHelpers(t)).Key() == normTerm(mk("%", add(self, tConst(1)), le_)).Key():
				okS, why = true, "(x + 1) % len(elements)"
			case st.Fn.Name == "(*RingBuffer).Discard":
				// end under end < cap ; end - cap otherwise, with end = head + n, n <= Len()
				l := Lin(rt)
				hd := tFld(base, fHead)
				if l.Coef[hd.Key()] == 1 {
					if fs.Holds(lt(t, fs.Resolve(le_))) || fs.Holds(lt(t, le_)) || fs.Holds(lt(rt, le_)) {
						okS, why = true, "head + n under head + n < len(elements)"
					} else if l.Coef[le_.Key()] == -1 {
						okS, why = true, "head + n - len(elements) on the wrapping arm"
					} else {
						// cap is a local holding len(elements)
						for k, at := range l.Atoms {
							if at.Op == "var" && l.Coef[k] == -1 {
								if d, ok := fs.Defs[at.Obj.(*types.Var)]; ok && d.Key() == le_.Key() {
									okS, why = true, "head + n - len(elements) on the wrapping arm"
								}
							}
						}
						// or the non-wrapping arm with cap local
						for _, a := range fs.Atoms {
							if a.Op == "<" && a.Args[0].Key() == t.Key() && a.Args[1].Op == "var" {
								if d, ok := fs.Defs[a.Args[1].Obj.(*types.Var)]; ok && d.Key() == le_.Key() {
									okS, why = true, "head + n under head + n < len(elements)"
								}
							}
						}
					}
				}
			case st.Fn == growFn():
				if rt.Op == "call" && rt.Obj == p.Method("RingBuffer", "Len") {
					okS, why = true, "Len() in grow"
				} else if t.Op == "var" {
					as := p.Assignments(st.Fn, t.Obj.(*types.Var))
					if len(as) == 1 && as[0].Rhs != nil {
						if x := p.Term(as[0].Rhs); x.Op == "call" && x.Obj == p.Method("RingBuffer", "Len") {
							okS, why = true, "Len() in grow"
						}
					}
				}
			}
			r.check(okS, "C20.Q4", st.Fn.Name, p.Pos(st.Node), construct, why, "the index is stored as "+pretty(rt.Key())+", which is none of {0, (x+1) % len(elements), the guarded Discard forms, Len() in grow}")
		}
	}

	// ---------------------------------------------------------------- Q5
	// part of the ring: its methods, its constructor, and plain functions called by those alone (a method body
	// moved into an unexported function that takes the ring) — fixpoint over the resolved call sites
	inside := map[*FuncInfo]bool{}
	for _, fi := range p.funcs {
		if fi.Lit == nil && fi.Obj != nil && (recvTypeName(fi.Obj) == "RingBuffer" || fi.Name == "NewRingBuffer") {
			inside[fi] = true
		}
	}
	for changed := true; changed; {
		changed = false
		for _, fi := range p.funcs {
			if fi.Lit != nil || fi.Obj == nil || inside[fi] || fi.Obj.Exported() || p.selfVar(fi) == nil {
				continue
			}
			if n, ok := derefNamed(p.selfVar(fi).Type()); !ok || n.Obj().Name() != "RingBuffer" {
				continue
			}
			sites := p.CallsTo(fi.Obj)
			all := len(sites) > 0 && !p.usedAsValue(fi.Obj)
			for _, s := range sites {
				if !inside[rootFuncInfo(s.Fn)] {
					all = false
				}
			}
			if all {
				inside[fi] = true
				changed = true
			}
		}
	}
	for _, f := range []*types.Var{fHead, fTail, fElems} {
		var outside []string
		for _, fi := range p.funcs {
			ef := p.Effects(fi)
			_, rd := ef.FieldR[f]
			_, wr := ef.FieldW[f]
			_, ew := ef.ElemW[f]
			if !(rd || wr || ew) {
				continue
			}
			root := rootFuncInfo(fi)
			if inside[root] {
				continue
			}
			outside = append(outside, root.Name)
		}
		r.check(len(outside) == 0, "C20.Q5", "RingBuffer", "-", "encapsulation of RingBuffer."+f.Name(), "only the ring's methods touch it", fmt.Sprintf("accessed from outside the ring: %v", outside))
	}
}

// isZeroValueExpr: e is a zero literal, nil, or a local declared with `var zero T` and never assigned.
func (p *Prog) isZeroValueExpr(fi *FuncInfo, e ast.Expr) bool {
	t := p.Term(e)
	if t.Op == "nil" || (t.IsConst() && t.Int == 0) || t.Op == "false" {
		return true
	}
	if cl, ok := ast.Unparen(e).(*ast.CompositeLit); ok && len(cl.Elts) == 0 {
		return true
	}
	if t.Op == "var" {
		v := t.Obj.(*types.Var)
		as := p.Assignments(fi, v)
		if len(as) == 1 {
			if _, isDecl := as[0].Node.(*ast.ValueSpec); isDecl && as[0].Rhs == nil {
				return true
			}
		}
	}
	return false
}
