package main

import (
	"fmt"
	"go/ast"
	"go/token"
	"go/types"
	"strings"

	"golang.org/x/tools/go/cfg"
)

func init() {
	register(&propCheck{
		id:  "C15",
		run: checkC15,
		configs: map[string][]string{
			"quick":    {"linux64"},
			"thorough": {"linux64", "generic", "linux32"},
		},
		explain: "Two pairing properties decided on the go/cfg graphs. Buffers: every defaultBufferPool.Get() result is followed per path by at most one sink (Put, channel send, store into a container, return) and " +
			"is not touched after a Put or a send; every Put of a buffer that was loaded from a container is followed on every path to the function's exit by forgetting it (slot = nil, container replaced/deleted/" +
			"truncated, or a dead local); callees that receive queued buffers do not retain them; wire data kept by the core is a fresh copy; the pool only takes back whole buffers. " +
			"Goroutines: every unconditional loop of a goroutine body has an exit controlled by the owner's die channel or by the error of its blocking read; the post-processing loop re-arms its die arm after " +
			"every item and leaves only with an empty queue; the periodic callback is re-submitted only on the not-closed arm; Close reaches the transport when the library owns it. " +
			"That goroutines have exited by a given instant, and leaks, are not decided.",
		assume: []string{
			"sync.Pool never hands out a buffer that was not Put (buffers do not alias across Get roots)",
			"aliasing is tracked by access paths within a function and by parameter-retention summaries across calls",
		},
	})
}

type ownSink struct {
	node ast.Node
	kind string          // put, send, store, return
	comm *ast.CommClause // for sends that are select communications
}

func mentionsVars(p *Prog, n ast.Node, vars map[*types.Var]bool) bool {
	found := false
	ast.Inspect(n, func(x ast.Node) bool {
		if _, isLit := x.(*ast.FuncLit); isLit {
			return false
		}
		if id, ok := x.(*ast.Ident); ok {
			if v, ok := p.Info.Uses[id].(*types.Var); ok && vars[v] {
				found = true
			}
		}
		return true
	})
	return found
}

// paramRetained: parameter indices (receiver -1 excluded) that the function stores
// into a field, an element or an appended container (directly or via a callee).
func (p *Prog) paramRetained(fi *FuncInfo) map[int]bool {
	m, ok := p.memo["paramretained"].(map[*FuncInfo]map[int]bool)
	if !ok {
		m = map[*FuncInfo]map[int]bool{}
		p.memo["paramretained"] = m
	}
	if r, ok := m[fi]; ok {
		return r
	}
	res := map[int]bool{}
	m[fi] = res
	if fi.Decl == nil {
		return res
	}
	idx := map[*types.Var]int{}
	i := 0
	for _, fl := range fi.Decl.Type.Params.List {
		if len(fl.Names) == 0 {
			i++
			continue
		}
		for _, nm := range fl.Names {
			if v, ok := p.Info.Defs[nm].(*types.Var); ok {
				idx[v] = i
			}
			i++
		}
	}
	ast.Inspect(fi.Body, func(n ast.Node) bool {
		switch x := n.(type) {
		case *ast.AssignStmt:
			for k, l := range x.Lhs {
				fld, v := p.rootOf(l)
				_, isIdx := ast.Unparen(l).(*ast.IndexExpr)
				if fld == nil && !(v != nil && (isIdx || p.isGlobal(v))) {
					continue
				}
				var rhs ast.Expr
				if len(x.Lhs) == len(x.Rhs) {
					rhs = x.Rhs[k]
				} else if len(x.Rhs) == 1 {
					rhs = x.Rhs[0]
				}
				if rhs == nil {
					continue
				}
				for pv, pi := range idx {
					if mentionsVars(p, rhs, map[*types.Var]bool{pv: true}) && (refLike(pv.Type()) || structOf(pv.Type()) != nil || isEmptyInterface(pv.Type())) {
						res[pi] = true
					}
				}
			}
		case *ast.SendStmt:
			for pv, pi := range idx {
				if mentionsVars(p, x.Value, map[*types.Var]bool{pv: true}) {
					res[pi] = true
				}
			}
		case *ast.CallExpr:
			if f := p.Callee(x); f != nil && f.Pkg() == p.Types {
				if cf := p.FuncOf(f); cf != nil && cf != fi {
					cr := p.paramRetained(cf)
					for ai, a := range x.Args {
						if cr[ai] {
							for pv, pi := range idx {
								if mentionsVars(p, a, map[*types.Var]bool{pv: true}) {
									res[pi] = true
								}
							}
						}
					}
				}
			}
		}
		return true
	})
	return res
}

func isEmptyInterface(t types.Type) bool {
	i, ok := t.Underlying().(*types.Interface)
	return ok && i.NumMethods() == 0
}

func checkC15(p *Prog, r *Report) {
	r.rule("C15.O1", "per defaultBufferPool.Get() root and path: at most one sink (Put, send, store into a container, return); no use after a Put or a channel send; no Put after a transfer", 6)
	r.rule("C15.O2", "every Put of a buffer loaded from a container is followed on every path to the exit by forgetting it: the slot is set to nil, the container is replaced, deleted from or truncated, or it is a local that is dead afterwards", 6)
	r.rule("C15.O3", "the decoder's per-call caches (decodeCache, flagCache) alias packet buffers that are recycled before decode returns: every element read is preceded on every path by a reset of the whole cache", 2)
	r.rule("C15.O4", "callees handed queued buffers (tx) do not retain them; wire data kept by the core (parse_data) is a fresh pool copy, never a slice of the input", 2)
	r.rule("C15.O7", "eviction comes last: discardShards may recycle the packets of any group and delete its heap from the table — also the group the current packet was just stored in (a stale packet) — so in decode no path from the call of discardShards reaches a use of the group heap looked up before it (or of packets popped from it): they would be read after recycling and recycled a second time", 1)
	r.rule("C15.O6", "a buffer held in a field that other fields of the same object alias (g = f[n:]) is recycled only together with clearing every such alias in the same block", 0)
	r.rule("C15.O5", "bufferPool.Put stores into the sync.Pool only under cap(buf) == mtuLimit and stores buf[:cap(buf)]", 1)
	r.rule("C15.G1", "every unconditional loop of a goroutine body has an exit controlled by a receive from the owner's die channel or by the error of its blocking read", 6)
	r.rule("C15.G2", "postProcess re-arms its die arm after every processed item on every path and returns on die only when chPostProcessing is empty", 2)
	r.rule("C15.G3", "the periodic update callback is re-submitted only on the not-closed arm", 1)
	r.rule("C15.G4", "UDPSession.Close (no listener, owned conn) and Listener.Close (owned conn) close the transport", 2)
	r.rule("C15.G11", "closing terminates the goroutines in any order: no lock is re-acquired while held and no lock-order cycle exists (= C13.W12) — a receive goroutine that closes sessions under the table's read lock blocks on the write lock Close takes, and never ends", 1)
	r.rule("C15.G10", "a session that was started is either handed to the caller or closed: in every function other than the listener's dispatcher that calls newUDPSession (Dial*, NewConn*), no path from the call reaches a return that does not return the session without closing it — its goroutines and its scheduled callback are already running and nobody else holds a reference", 1)
	r.rule("C15.G9", "the first Close always releases what keeps goroutines alive: on every path of UDPSession.Close that is not the 'already closed' return, the dispatch on s.l is reached, its listener arm calls closeSession and its client arm reaches the ownConn test whose true arm calls conn.Close() — an early return before it (whatever error it reports) leaves the receive goroutine blocked in ReadFrom and the socket open for good", 1)
	r.rule("C15.G8", "a session leaves the listener's table only by being closed: the functions that delete from Listener.sessions are called from UDPSession.Close alone, and a store into the table that can replace an existing session is preceded on every such path by Close of the session found — otherwise the replaced session's goroutine, timer task, queues and blocked readers stay behind for good (one per datagram)", 2)
	r.rule("C15.G7", "a receive goroutine ends on every failed socket read (no path from err != nil back to the read): closing the transport terminates it whatever error the transport reports (= C13.W9)", 4)
	r.rule("C15.G6", "a session created by the listener is handed to Accept or closed on every path: nothing else holds a reference that could ever stop its goroutine and its scheduled callback", 1)
	r.rule("C15.G5", "sends on chAccepts are controlled by the room test len < cap; sends on the scheduler's chTask are in a select with die", 2)

	get := p.Method("bufferPool", "Get")
	put := p.Method("bufferPool", "Put")

	checkFieldAliasesOnPut(p, r, put)
	checkEvictionLast(p, r)

	// ---------------------------------------------------------------- O1
	for _, s := range p.CallsTo(get) {
		fi := s.Fn
		// find the statement binding the result
		var bind ast.Node
		for x := ast.Node(s.Call); x != nil; x = p.parents[x] {
			if _, ok := x.(ast.Stmt); ok {
				bind = x
				break
			}
		}
		as, ok := bind.(*ast.AssignStmt)
		if !ok || len(as.Lhs) != 1 {
			if _, isRet := bind.(*ast.ReturnStmt); isRet && fi.Obj != nil && fi.Obj == get {
				continue
			}
			if _, isRet := bind.(*ast.ReturnStmt); isRet {
				// return segment{data: Get()[:size]} / return Get()[:n]: handed to the caller at birth, nothing else in this function refers to it
				r.ok("C15.O1", fi.Name, p.Pos(s.Call), "Get() -> return", "returned at birth (single owner: the caller's binding)")
				continue
			}
			r.undecided("C15.O1", fi.Name, p.Pos(s.Call), "Get() root", "the result of Get() is not bound by a simple assignment")
			continue
		}
		fld, v := p.rootOf(as.Lhs[0])
		_, lhsIdx := ast.Unparen(as.Lhs[0]).(*ast.IndexExpr)
		construct := "Get() -> " + exprString(as.Lhs[0])
		if fld != nil || lhsIdx {
			r.ok("C15.O1", fi.Name, p.Pos(s.Call), construct, "stored into its container at birth (single owner: that container)")
			continue
		}
		if v == nil {
			r.undecided("C15.O1", fi.Name, p.Pos(s.Call), construct, "unrecognised binding of a Get() result")
			continue
		}
		checkLinearRoot(p, r, fi, as, v, construct, put)
	}

	// ---------------------------------------------------------------- O2
	for _, s := range p.CallsTo(put) {
		fi := s.Fn
		arg := s.Call.Args[0]
		fld, v := p.rootOf(arg)
		construct := "Put(" + exprString(arg) + ")"
		c := p.CFG(fi)
		pt, _ := c.PointOf(s.Call)
		after := Point{pt.B, pt.I + 1}
		switch {
		case fld != nil:
			// (i) the same slot is overwritten (nil) on every path to the exit
			slot := p.Term(arg)
			// strip index [0] etc. down to the field selection
			for slot.Op == "idx" || slot.Op == "slice" {
				slot = slot.Args[0]
			}
			res := c.FindPath(PathQuery{From: after, ExitIsTarget: true, IsBarrier: func(n ast.Node, _ Point) bool {
				as, ok := n.(*ast.AssignStmt)
				if !ok {
					return false
				}
				for i, l := range as.Lhs {
					if p.Term(l).Key() == slot.Key() && i < len(as.Rhs) {
						if t := p.Term(as.Rhs[i]); t.Op == "nil" {
							return true
						}
					}
				}
				return false
			}})
			if res.Found {
				r.bad("C15.O2", fi.Name, p.Pos(s.Call), construct, "the recycled buffer stays referenced by "+pretty(slot.Key())+" on a path to the exit (a later recycle or use of that slot hits a buffer someone else owns)", c.DescribePath(res.Path))
			} else {
				r.ok("C15.O2", fi.Name, p.Pos(s.Call), construct, "slot "+pretty(slot.Key())+" is set to nil afterwards on every path")
			}
		case v != nil:
			// where does v come from?
			src := p.rangeSourceOf(fi, v)
			if src == nil {
				// a Get() root or a parameter: handled by O1 / the caller
				if p.isParam(v) {
					r.ok("C15.O2", fi.Name, p.Pos(s.Call), construct, "parameter: ownership was handed in by the caller")
				}
				continue
			}
			// v ranges over container `src` (possibly through an outer range variable)
			rootFld, rootVar, chain := p.containerRoot(fi, src)
			switch {
			case rootFld != nil:
				// (ii) the field container is replaced, or the entry deleted, on every path to the exit
				res := c.FindPath(PathQuery{From: after, ExitIsTarget: true, IsBarrier: func(n ast.Node, _ Point) bool {
					return p.forgetsField(n, rootFld, chain)
				}})
				if res.Found {
					// a releasing helper with a single call site: the caller drops the container after the call
					cur := rootFuncInfo(fi)
					for k := 0; k < 2 && res.Found; k++ {
						caller, call, okC := p.singleCaller(cur)
						if !okC {
							break
						}
						cc := p.CFG(caller)
						cp, okP := cc.PointOf(call)
						if !okP {
							break
						}
						res = cc.FindPath(PathQuery{From: Point{cp.B, cp.I + 1}, ExitIsTarget: true, IsBarrier: func(n ast.Node, _ Point) bool {
							return p.forgetsField(n, rootFld, chain)
						}})
						cur = rootFuncInfo(caller)
					}
				}
				if res.Found {
					r.bad("C15.O2", fi.Name, p.Pos(s.Call), construct, "buffers taken from "+p.FieldOwner(rootFld)+" are recycled but the container still holds them on a path to the exit: they will be used or recycled again", c.DescribePath(res.Path))
				} else {
					r.ok("C15.O2", fi.Name, p.Pos(s.Call), construct, "container "+p.FieldOwner(rootFld)+" is replaced / the entry is deleted afterwards on every path")
				}
			case rootVar != nil:
				// (iii) local container: not returned, stored or sent afterwards; or truncated
				vars := map[*types.Var]bool{rootVar: true}
				res := c.FindPath(PathQuery{From: after, IsTarget: func(n ast.Node, _ Point) bool {
					switch x := n.(type) {
					case *ast.ReturnStmt:
						return mentionsVars(p, x, vars)
					case *ast.SendStmt:
						return mentionsVars(p, x.Value, vars)
					case *ast.AssignStmt:
						for i, l := range x.Lhs {
							lf, _ := p.rootOf(l)
							if lf != nil && i < len(x.Rhs) && mentionsVars(p, x.Rhs[i], vars) {
								return true
							}
						}
					}
					return false
				}, IsBarrier: func(n ast.Node, _ Point) bool {
					// truncated or re-initialised
					if as, ok := n.(*ast.AssignStmt); ok {
						for _, l := range as.Lhs {
							if id, ok := ast.Unparen(l).(*ast.Ident); ok && (p.Info.Uses[id] == rootVar || p.Info.Defs[id] == rootVar) {
								return true
							}
						}
					}
					return false
				}})
				if p.isParam(rootVar) {
					// a parameter container: the caller keeps it; it must be told (tx queue is recycled by its owner, not here)
					r.bad("C15.O2", fi.Name, p.Pos(s.Call), construct, "buffers of the caller's container "+rootVar.Name()+" are recycled by the callee while the caller still holds them", "")
				} else if res.Found {
					r.bad("C15.O2", fi.Name, p.Pos(s.Call), construct, "the local container "+rootVar.Name()+" still holds the recycled buffers and escapes afterwards", c.DescribePath(res.Path))
				} else {
					r.ok("C15.O2", fi.Name, p.Pos(s.Call), construct, "local container "+rootVar.Name()+" is dead (or truncated) afterwards")
				}
			default:
				r.undecided("C15.O2", fi.Name, p.Pos(s.Call), construct, "provenance of the recycled buffer is outside the idioms known to the rule")
			}
		default:
			r.undecided("C15.O2", fi.Name, p.Pos(s.Call), construct, "provenance of the recycled buffer is outside the idioms known to the rule")
		}
	}

	checkStaleCache(p, r)
	checkCalleeContracts(p, r)
	checkPoolPut(p, r)
	checkGoroutineLoops(p, r)
	checkPostProcessDrain(p, r)
	checkUpdateResubmit(p, r)
	checkCloseTransport(p, r)
	{
		key := "delegate:C13:" + r.curCfg
		sub, _ := p.memo[key].(*Report)
		if sub == nil {
			sub = newReport("C13", r.Tier)
			sub.curCfg = r.curCfg
			checkC13(p, sub)
			p.memo[key] = sub
		}
		for _, o := range sub.Obs {
			if o.Rule != "C13.W9" || !strings.Contains(o.Construct, "loop ends") {
				continue
			}
			if o.Status == Discharged {
				r.ok("C15.G7", o.Func, o.Pos, o.Construct, o.Detail)
			} else {
				r.bad("C15.G7", o.Func, o.Pos, o.Construct, o.Detail, o.Witness)
			}
		}
	}
	checkCreatedSessionsOwned(p, r)
	checkSessionsLeaveByClose(p, r, "C15.G8")
	checkCloseReleases(p, r)
	checkStartedSessionsReturned(p, r)
	checkLockOrder(p, r, "C15.G11")
	checkBoundedSends(p, r)
}

// rangeSourceOf: if v is the value variable of a range statement in fi, returns the ranged expression.
func (p *Prog) rangeSourceOf(fi *FuncInfo, v *types.Var) ast.Expr {
	var out ast.Expr
	ast.Inspect(fi.Body, func(n ast.Node) bool {
		if rs, ok := n.(*ast.RangeStmt); ok {
			for _, e := range []ast.Expr{rs.Value} {
				if id, ok := e.(*ast.Ident); ok && (p.Info.Defs[id] == v || p.Info.Uses[id] == v) {
					out = rs.X
				}
			}
		}
		return true
	})
	return out
}

// containerRoot follows range variables outward: `for _, shard := range dec.shardSet { for _, pkt := range shard.elements` ->
// field fecDecoder.shardSet; a local slice -> that variable. chain lists the range key variables met (for delete(m, key)).
func (p *Prog) containerRoot(fi *FuncInfo, src ast.Expr) (*types.Var, *types.Var, []*types.Var) {
	var chain []*types.Var
	for depth := 0; depth < 4; depth++ {
		fld, v := p.rootOf(src)
		// the innermost base variable of the expression
		base := src
		for {
			switch x := ast.Unparen(base).(type) {
			case *ast.SelectorExpr:
				base = x.X
				continue
			case *ast.IndexExpr:
				base = x.X
				continue
			case *ast.SliceExpr:
				base = x.X
				continue
			}
			break
		}
		if id, ok := ast.Unparen(base).(*ast.Ident); ok {
			if bv, ok := p.Info.Uses[id].(*types.Var); ok && !p.isParam(bv) {
				if outer := p.rangeSourceOf(fi, bv); outer != nil {
					// record the key variable of that outer range
					ast.Inspect(fi.Body, func(n ast.Node) bool {
						if rs, ok := n.(*ast.RangeStmt); ok && rs.X == outer {
							if kid, ok := rs.Key.(*ast.Ident); ok {
								if kv, ok := p.Info.Defs[kid].(*types.Var); ok {
									chain = append(chain, kv)
								}
							}
						}
						return true
					})
					src = outer
					continue
				}
				// a parameter or local that is itself a container element (shard): if the expression selects a field of it, the
				// container is that field reached through a non-range variable
			}
		}
		if fld != nil {
			// field of the receiver/parameter object, or of a local struct?
			return fld, nil, chain
		}
		return nil, v, chain
	}
	return nil, nil, chain
}

// forgetsField: node n replaces the container field (X.f = ..), or deletes the
// current key from it (delete(X.f, k) with k a range key met on the way).
func (p *Prog) forgetsField(n ast.Node, f *types.Var, keys []*types.Var) bool {
	found := false
	inspectShallow(n, func(x ast.Node) bool {
		switch y := x.(type) {
		case *ast.AssignStmt:
			for _, l := range y.Lhs {
				if t := p.Term(l); t.Op == "fld" && t.Obj == f {
					found = true
				}
			}
		case *ast.CallExpr:
			if p.BuiltinName(y) == "delete" && len(y.Args) == 2 {
				if t := p.Term(y.Args[0]); t.Op == "fld" && t.Obj == f {
					if id, ok := ast.Unparen(y.Args[1]).(*ast.Ident); ok {
						for _, k := range keys {
							if p.Info.Uses[id] == k {
								found = true
							}
						}
					}
				}
			}
			if p.BuiltinName(y) == "clear" && len(y.Args) == 1 {
				if t := p.Term(y.Args[0]); t.Op == "fld" && t.Obj == f {
					found = true
				}
			}
		}
		return true
	})
	return found
}

func checkLinearRoot(p *Prog, r *Report, fi *FuncInfo, bind *ast.AssignStmt, v *types.Var, construct string, put *types.Func) {
	c := p.CFG(fi)
	// aliases: locals assigned from expressions rooted at v (flow-insensitive)
	alias := map[*types.Var]bool{v: true}
	for changed := true; changed; {
		changed = false
		ast.Inspect(fi.Body, func(n ast.Node) bool {
			as, ok := n.(*ast.AssignStmt)
			if !ok || len(as.Lhs) != len(as.Rhs) {
				return true
			}
			for i, l := range as.Lhs {
				id, ok := ast.Unparen(l).(*ast.Ident)
				if !ok {
					continue
				}
				o := p.Info.Defs[id]
				if o == nil {
					o = p.Info.Uses[id]
				}
				lv, ok := o.(*types.Var)
				if !ok || alias[lv] || !refLike(lv.Type()) {
					continue
				}
				if _, rv := p.rootOf(as.Rhs[i]); rv != nil && alias[rv] {
					alias[lv] = true
					changed = true
				}
			}
			return true
		})
	}
	// sinks
	var sinks []ownSink
	isBind := func(n ast.Node) bool { return n == bind }
	ast.Inspect(fi.Body, func(n ast.Node) bool {
		if lit, ok := n.(*ast.FuncLit); ok && lit != fi.Node {
			return false
		}
		switch x := n.(type) {
		case *ast.CallExpr:
			f := p.Callee(x)
			if f == put && len(x.Args) == 1 {
				if _, rv := p.rootOf(x.Args[0]); rv != nil && alias[rv] {
					sinks = append(sinks, ownSink{node: x, kind: "put"})
				}
				return true
			}
			if p.BuiltinName(x) == "append" {
				for _, a := range x.Args[1:] {
					if mentionsVars(p, a, alias) {
						sinks = append(sinks, ownSink{node: x, kind: "store"})
					}
				}
				return true
			}
			if f != nil && f.Pkg() == p.Types {
				if cf := p.FuncOf(f); cf != nil {
					pr := p.paramRetained(cf)
					for ai, a := range x.Args {
						if pr[ai] && mentionsVars(p, a, alias) {
							sinks = append(sinks, ownSink{node: x, kind: "store"})
						}
					}
				}
			} else if f != nil && f.Pkg() != nil && f.Pkg().Path() == "container/heap" && f.Name() == "Push" && len(x.Args) == 2 && mentionsVars(p, x.Args[1], alias) {
				sinks = append(sinks, ownSink{node: x, kind: "store"})
			}
		case *ast.SendStmt:
			if mentionsVars(p, x.Value, alias) {
				cc, _ := p.parents[x].(*ast.CommClause)
				sinks = append(sinks, ownSink{node: x, kind: "send", comm: cc})
			}
		case *ast.AssignStmt:
			if isBind(x) {
				return true
			}
			for i, l := range x.Lhs {
				lf, lv := p.rootOf(l)
				_, isIdx := ast.Unparen(l).(*ast.IndexExpr)
				if lf == nil && !(lv != nil && isIdx) {
					continue
				}
				if i < len(x.Rhs) && mentionsVars(p, x.Rhs[i], alias) {
					// storing a value derived from the buffer (len, a byte) is not a transfer: only reference-typed values
					if t := p.Info.TypeOf(x.Rhs[i]); t != nil && (refLike(t) || structOf(t) != nil) {
						sinks = append(sinks, ownSink{node: x, kind: "store"})
					}
				}
			}
		case *ast.ReturnStmt:
			if mentionsVars(p, x, alias) {
				sinks = append(sinks, ownSink{node: x, kind: "return"})
			}
		}
		return true
	})
	if len(sinks) == 0 {
		r.ok("C15.O1", fi.Name, p.Pos(bind), construct, "no sink: the buffer is never recycled or handed on here (a leak is allowed by the property)")
		return
	}
	sinkAt := func(n ast.Node, _ Point) *ownSink {
		for i := range sinks {
			if sinks[i].comm != nil {
				continue
			}
			hit := false
			inspectShallow(n, func(x ast.Node) bool {
				if x == sinks[i].node {
					hit = true
				}
				return true
			})
			if hit {
				return &sinks[i]
			}
		}
		return nil
	}
	commSinkAtBlock := func(b *cfg.Block) *ownSink {
		if b.Kind != cfg.KindSelectCaseBody {
			return nil
		}
		for i := range sinks {
			if sinks[i].comm != nil && b.Stmt == sinks[i].comm {
				return &sinks[i]
			}
		}
		return nil
	}
	isHoistedComm := func(n ast.Node) bool {
		cc, ok := p.parents[n].(*ast.CommClause)
		return ok && cc.Comm == n
	}
	rebind := func(n ast.Node, _ Point) bool {
		if n == bind {
			return true
		}
		if as, ok := n.(*ast.AssignStmt); ok {
			for _, l := range as.Lhs {
				if id, ok := ast.Unparen(l).(*ast.Ident); ok && (p.Info.Defs[id] == v || p.Info.Uses[id] == v) {
					return true
				}
			}
		}
		return false
	}
	bad := false
	for i := range sinks {
		s := &sinks[i]
		var from Point
		if s.comm != nil {
			var blk *cfg.Block
			for _, b := range c.live {
				if b.Kind == cfg.KindSelectCaseBody && b.Stmt == s.comm {
					blk = b
				}
			}
			if blk == nil {
				continue
			}
			from = Point{blk, 0}
		} else {
			pt, ok := c.PointOf(s.node)
			if !ok {
				continue
			}
			from = Point{pt.B, pt.I + 1}
		}
		strict := s.kind == "put" || s.kind == "send" // nothing at all may touch the buffer afterwards
		res := c.FindPath(PathQuery{From: from,
			IsTarget: func(n ast.Node, q Point) bool {
				if isHoistedComm(n) {
					return false
				}
				if o := sinkAt(n, q); o != nil && o != s {
					return true
				}
				if strict && mentionsVars(p, n, alias) {
					// the rebinding statement itself does not count
					return !rebind(n, q)
				}
				return false
			},
			IsBarrier: func(n ast.Node, q Point) bool { return rebind(n, q) },
			OnBlock: func(b *cfg.Block) (bool, bool) {
				if o := commSinkAtBlock(b); o != nil && o != s {
					return true, false
				}
				return false, false
			}})
		if res.Found {
			bad = true
			last := res.Path[len(res.Path)-1]
			what := "is used again"
			if n := last.Node(); n != nil {
				if o := sinkAt(n, last); o != nil {
					what = "reaches a second sink (" + o.kind + ")"
				}
			}
			r.bad("C15.O1", fi.Name, p.Pos(s.node), construct+": after "+s.kind, "after this "+s.kind+" the buffer "+what+" on some path (double recycle / use after recycle / two owners)", c.DescribePath(res.Path))
		}
	}
	if !bad {
		var ks []string
		for _, s := range sinks {
			ks = append(ks, s.kind)
		}
		r.ok("C15.O1", fi.Name, p.Pos(bind), construct, fmt.Sprintf("sinks %v are mutually exclusive per path; no use after Put/send", ks))
	}
}

func checkCalleeContracts(p *Prog, r *Report) {
	// tx does not retain
	for _, name := range []string{"(*UDPSession).tx", "(*UDPSession).defaultTx"} {
		fi := p.FuncByName(name)
		if fi == nil {
			continue
		}
		pr := p.paramRetained(fi)
		te := p.TransEffects(fi)
		retains := pr[0]
		var flds []string
		for f := range te.FieldW {
			if hasByteSlice(f.Type()) {
				retains = true
				flds = append(flds, p.FieldOwner(f))
			}
		}
		r.check(!retains, "C15.O4", fi.Name, p.Pos(fi.Node), "tx queue not retained", "the transmit function stores none of the queued buffers", "the transmit function keeps a reference to queued buffers (which its caller recycles right after) "+strings.Join(flds, ","))
	}
	// parse_data copies
	pd := p.FuncOf(p.Method("KCP", "parse_data"))
	heapPush := heapFunc(p, "Push")
	if pd != nil && heapPush != nil {
		c := p.CFG(pd)
		n := 0
		for _, s := range p.CallsTo(heapPush) {
			if s.Fn != pd {
				continue
			}
			id, ok := ast.Unparen(s.Call.Args[1]).(*ast.Ident)
			if !ok {
				continue
			}
			v, _ := p.Info.Uses[id].(*types.Var)
			if v == nil || !p.isParam(v) {
				continue // the re-insert of a popped element
			}
			n++
			// a dominating store v.data = X where X is bound to Get()
			pushPt, _ := c.PointOf(s.Call)
			okCopy := false
			for _, st := range p.FieldStores(p.Field("segment", "data")) {
				if st.Fn != pd || st.Base == nil || st.Base.Op != "var" || st.Base.Obj != v || st.Rhs == nil {
					continue
				}
				sp, ok := c.PointOf(st.Node)
				if !ok || !c.Dominates(sp, pushPt) {
					continue
				}
				if p.freshPoolValue(pd, st.Rhs, 2) {
					okCopy = true
				}
			}
			r.check(okCopy, "C15.O4", pd.Name, p.Pos(s.Call), "wire data copied before it is kept", "the segment stored in rcv_buf carries a fresh pool copy of the payload", "the segment stored in rcv_buf still points into the caller's input buffer (which is reused for the next datagram)")
		}
		if n == 0 {
			r.bad("C15.O4", pd.Name, p.Pos(pd.Node), "wire data copied before it is kept", "no insertion of the incoming segment into rcv_buf found", "")
		}
	}
}

func hasByteSlice(t types.Type) bool {
	switch x := t.Underlying().(type) {
	case *types.Slice:
		if isByteSliceLike(x) {
			return true
		}
		return hasByteSlice(x.Elem())
	case *types.Array:
		return hasByteSlice(x.Elem())
	case *types.Map:
		return hasByteSlice(x.Elem())
	case *types.Struct:
		for i := 0; i < x.NumFields(); i++ {
			if hasByteSlice(x.Field(i).Type()) {
				return true
			}
		}
	}
	return false
}

func checkPoolPut(p *Prog, r *Report) {
	fi := p.FuncOf(p.Method("bufferPool", "Put"))
	if fi == nil {
		r.bad("C15.O5", "(*bufferPool).Put", "-", "pool Put", "not found", "")
		return
	}
	mtuLimit := p.ConstInt("mtuLimit")
	n := 0
	inspectBody(fi, func(x ast.Node) bool {
		call, ok := x.(*ast.CallExpr)
		if !ok {
			return true
		}
		f := p.Callee(call)
		if f == nil || !isExtFunc(f, "sync", "Pool", "Put") || len(call.Args) != 1 {
			return true
		}
		n++
		arg := p.Term(call.Args[0])
		// buf[:cap(buf)]
		okShape := arg.Op == "slice" && arg.Args[1] == nil && arg.Args[2] != nil && arg.Args[2].Op == "cap" && arg.Args[2].Args[0].Key() == arg.Args[0].Key()
		fs := p.FactsOf(fi).AtNode(call)
		okCap := okShape && fs.Holds(eq(mk("cap", arg.Args[0]), tConst(mtuLimit)))
		r.check(okShape && okCap, "C15.O5", fi.Name, p.Pos(call), "sync.Pool.Put("+exprString(call.Args[0])+")", "whole buffer, under cap(buf) == mtuLimit", "the pool takes back a buffer that is not a whole mtuLimit buffer (a later Get()[:n] can panic or alias)")
		return true
	})
	if n == 0 {
		r.bad("C15.O5", fi.Name, p.Pos(fi.Node), "pool Put", "bufferPool.Put never stores into the sync.Pool", "")
	}
}

// ---------------------------------------------------------------- goroutines

func (p *Prog) goTargets() []*FuncInfo {
	var out []*FuncInfo
	seen := map[*FuncInfo]bool{}
	var add func(fi *FuncInfo)
	add = func(fi *FuncInfo) {
		if fi == nil || seen[fi] {
			return
		}
		seen[fi] = true
		out = append(out, fi)
		// functions it delegates its loop to (tail calls of same receiver: readLoop -> defaultReadLoop, monitor -> defaultMonitor)
		inspectBody(fi, func(n ast.Node) bool {
			if call, ok := n.(*ast.CallExpr); ok {
				if f := p.Callee(call); f != nil && f.Pkg() == p.Types && recvTypeName(f) != "" && fi.Obj != nil && recvTypeName(f) == recvTypeName(fi.Obj) {
					if cf := p.FuncOf(f); cf != nil && hasInfiniteLoop(cf) {
						add(cf)
					}
				}
			}
			return true
		})
	}
	for _, fi := range p.funcs {
		for _, g := range p.Effects(fi).Gos {
			if f := p.Callee(g.Call); f != nil {
				add(p.FuncOf(f))
			} else if lit, ok := ast.Unparen(g.Call.Fun).(*ast.FuncLit); ok {
				add(p.funcBy[lit])
			}
		}
	}
	return out
}

func hasInfiniteLoop(fi *FuncInfo) bool {
	found := false
	inspectBody(fi, func(n ast.Node) bool {
		if fs, ok := n.(*ast.ForStmt); ok && fs.Cond == nil {
			found = true
		}
		return true
	})
	return found
}

func checkGoroutineLoops(p *Prog, r *Report) {
	for _, fi := range p.goTargets() {
		c := p.CFG(fi)
		inspectBody(fi, func(n ast.Node) bool {
			fs, ok := n.(*ast.ForStmt)
			if !ok || fs.Cond != nil {
				return true
			}
			// is the loop nested in another unconditional loop of the same function whose exits we check? every such loop is checked on its own
			construct := "for { … } in " + fi.Name
			// exits: return statements (and breaks/gotos leaving the loop) inside the body
			var exits []ast.Node
			ast.Inspect(fs.Body, func(x ast.Node) bool {
				if _, isLit := x.(*ast.FuncLit); isLit {
					return false
				}
				switch y := x.(type) {
				case *ast.ReturnStmt:
					exits = append(exits, y)
				case *ast.BranchStmt:
					if y.Tok == token.BREAK && breaksLoop(p, y, fs) {
						exits = append(exits, y)
					}
				}
				return true
			})
			var kinds []string
			okExit := false
			for _, e := range exits {
				// controlled by a receive from die?
				for x := ast.Node(e); x != nil && x != fs; x = p.parents[x] {
					if cc, ok := p.parents[x].(*ast.CommClause); ok {
						if ch, isSend := commChan(p, cc); ch != nil && !isSend {
							// resolve a local alias such as chDie := s.die
							name := ""
							if ch.Op == "fld" {
								name = ch.Obj.Name()
							} else if ch.Op == "var" {
								for _, a := range p.Assignments(fi, ch.Obj.(*types.Var)) {
									if a.Rhs != nil {
										if t := p.Term(a.Rhs); t.Op == "fld" {
											name = t.Obj.Name()
										}
									}
								}
							}
							if name == "die" {
								kinds = append(kinds, "die")
								okExit = true
							}
						}
					}
				}
				// controlled by err != nil of a blocking read
				pt, ok := c.PointOf(e)
				if !ok {
					continue
				}
				for _, ct := range c.DominatingConds(pt) {
					for _, a := range Conjuncts(ct) {
						if a.Op == "!=" && (a.Args[0].Op == "nil" || a.Args[1].Op == "nil") {
							v := nilEqVar(&Term{Op: "==", Args: a.Args})
							if v != nil && p.assignedFromRead(fi, v) {
								kinds = append(kinds, "read error")
								okExit = true
							}
						}
						// isClosed()
						a.Walk(func(t *Term) {
							if t.Op == "call" {
								if f, ok := t.Obj.(*types.Func); ok && f.Pkg() == p.Types {
									if cf := p.FuncOf(f); cf != nil {
										for _, co := range p.Effects(cf).ChanOps {
											if !co.Send && !co.Close && co.Chan.Op == "fld" && co.Chan.Obj.Name() == "die" {
												kinds = append(kinds, "die (via "+f.Name()+")")
												okExit = true
											}
										}
									}
								}
							}
						})
					}
				}
			}
			if okExit {
				r.ok("C15.G1", fi.Name, p.Pos(fs), construct, fmt.Sprintf("exits controlled by %v", uniq(kinds)))
			} else {
				r.bad("C15.G1", fi.Name, p.Pos(fs), construct, "the goroutine's loop has no exit controlled by its owner's die channel or by the error of its blocking read: Close cannot terminate it", "")
			}
			return true
		})
	}
}

func uniq(ss []string) []string {
	m := map[string]bool{}
	var out []string
	for _, s := range ss {
		if !m[s] {
			m[s] = true
			out = append(out, s)
		}
	}
	return out
}

func breaksLoop(p *Prog, b *ast.BranchStmt, loop *ast.ForStmt) bool {
	if b.Label != nil {
		return false
	}
	for x := ast.Node(b); x != nil; x = p.parents[x] {
		switch p.parents[x].(type) {
		case *ast.ForStmt:
			return p.parents[x] == ast.Node(loop)
		case *ast.RangeStmt, *ast.SwitchStmt, *ast.TypeSwitchStmt, *ast.SelectStmt:
			return false
		}
	}
	return false
}

// assignedFromRead: v is assigned from a call of a read method (ReadFrom, ReadBatch).
func (p *Prog) assignedFromRead(fi *FuncInfo, v *types.Var) bool {
	for _, a := range p.Assignments(fi, v) {
		as, ok := a.Node.(*ast.AssignStmt)
		if !ok || len(as.Rhs) != 1 {
			continue
		}
		if call, ok := ast.Unparen(as.Rhs[0]).(*ast.CallExpr); ok {
			if sel, ok := ast.Unparen(call.Fun).(*ast.SelectorExpr); ok && strings.HasPrefix(sel.Sel.Name, "Read") {
				return true
			}
		}
	}
	return false
}

func checkPostProcessDrain(p *Prog, r *Report) {
	fi := p.FuncByName("(*UDPSession).postProcess")
	if fi == nil {
		brokenCheck("ANCHOR-UNRESOLVED role=func (*UDPSession).postProcess")
	}
	c := p.CFG(fi)
	fQ := p.Field("UDPSession", "chPostProcessing")
	// the select that receives from chPostProcessing
	var sel *ast.SelectStmt
	var dataArm, dieArm *ast.CommClause
	var dieVar *types.Var
	inspectBody(fi, func(n ast.Node) bool {
		s, ok := n.(*ast.SelectStmt)
		if !ok {
			return true
		}
		for _, cl := range s.Body.List {
			cc := cl.(*ast.CommClause)
			ch, isSend := commChan(p, cc)
			if ch == nil || isSend {
				continue
			}
			if ch.Op == "fld" && ch.Obj == fQ {
				sel, dataArm = s, cc
			}
		}
		return true
	})
	if sel == nil {
		r.bad("C15.G2", fi.Name, p.Pos(fi.Node), "post-processing select", "no select receiving from chPostProcessing", "")
		return
	}
	for _, cl := range sel.Body.List {
		cc := cl.(*ast.CommClause)
		if cc == dataArm {
			continue
		}
		ch, isSend := commChan(p, cc)
		if ch == nil || isSend {
			continue
		}
		if ch.Op == "fld" && ch.Obj.Name() == "die" {
			dieArm = cc
		}
		if ch.Op == "var" {
			v := ch.Obj.(*types.Var)
			for _, a := range p.Assignments(fi, v) {
				if a.Rhs != nil {
					if t := p.Term(a.Rhs); t.Op == "fld" && t.Obj.Name() == "die" {
						dieArm, dieVar = cc, v
					}
				}
			}
		}
	}
	if dieArm == nil {
		r.bad("C15.G2", fi.Name, p.Pos(sel), "die arm", "the post-processing select has no die arm", "")
		return
	}
	// (1) re-arm after every item
	if dieVar != nil {
		var dataBlk *cfg.Block
		for _, b := range c.live {
			if b.Kind == cfg.KindSelectCaseBody && b.Stmt == dataArm {
				dataBlk = b
			}
		}
		var selPt Point
		okSel := false
		for _, cl := range sel.Body.List {
			if cm := cl.(*ast.CommClause).Comm; cm != nil {
				if pt, ok := c.where[cm]; ok && !okSel {
					selPt, okSel = pt, true
				}
			}
		}
		// is the variable ever disabled (set to nil)? then re-arming is required
		disabled := false
		for _, a := range p.Assignments(fi, dieVar) {
			if a.Rhs != nil && p.Term(a.Rhs).Op == "nil" {
				disabled = true
			}
		}
		if disabled && dataBlk != nil && okSel {
			res := c.FindPath(PathQuery{From: Point{dataBlk, 0}, IsTarget: func(_ ast.Node, q Point) bool { return q == selPt }, IsBarrier: func(n ast.Node, _ Point) bool {
				as, ok := n.(*ast.AssignStmt)
				if !ok {
					return false
				}
				for i, l := range as.Lhs {
					if id, ok := ast.Unparen(l).(*ast.Ident); ok && p.Info.Uses[id] == dieVar && i < len(as.Rhs) {
						if t := p.Term(as.Rhs[i]); t.Op == "fld" && t.Obj.Name() == "die" {
							return true
						}
					}
				}
				return false
			}})
			if res.Found {
				r.bad("C15.G2", fi.Name, p.Pos(dataArm), "re-arm die after an item", "a path processes an item and returns to the select without re-enabling the die arm: once it was disabled for draining the goroutine can never see Close again", c.DescribePath(res.Path))
			} else {
				r.ok("C15.G2", fi.Name, p.Pos(dataArm), "re-arm die after an item", "every path from an item back to the select re-enables the die arm")
			}
		} else {
			r.ok("C15.G2", fi.Name, p.Pos(dataArm), "re-arm die after an item", "the die arm is never disabled")
		}
	} else {
		r.ok("C15.G2", fi.Name, p.Pos(dataArm), "re-arm die after an item", "the die arm selects on the field directly")
	}
	// (2) return only with an empty queue
	okDrain := false
	for _, st := range dieArm.Body {
		ast.Inspect(st, func(x ast.Node) bool {
			if ret, ok := x.(*ast.ReturnStmt); ok {
				pt, ok := c.PointOf(ret)
				if !ok {
					return true
				}
				for _, ct := range c.DominatingConds(pt) {
					for _, a := range Conjuncts(ct) {
						// len(chPostProcessing) <= 0  /  == 0
						if (a.Op == "<=" || a.Op == "==") && termHasField(a, fQ) {
							okDrain = true
						}
					}
				}
			}
			return true
		})
	}
	r.check(okDrain, "C15.G2", fi.Name, p.Pos(dieArm), "drain before exit", "returns on die only under len(chPostProcessing) == 0", "the goroutine leaves on die while packets are still queued (or never leaves)")
}

func checkUpdateResubmit(p *Prog, r *Report) {
	fi := p.FuncByName("(*UDPSession).update")
	putM := p.Method("TimedSched", "Put")
	n := 0
	p.AllCalls(func(call *ast.CallExpr, cf *FuncInfo) {
		if p.Callee(call) != putM || len(call.Args) != 2 {
			return
		}
		// only session callbacks
		t := p.Term(call.Args[0])
		if t.Op != "mval" || recvTypeName(t.Obj.(*types.Func)) != "UDPSession" {
			return
		}
		if rootFuncInfo(cf).Name == "newUDPSession" {
			return // the initial submission
		}
		n++
		okArm := false
		for x := ast.Node(call); x != nil; x = p.parents[x] {
			if cc, ok := p.parents[x].(*ast.CommClause); ok && cc.Comm == nil {
				if sel, ok := p.parents[p.parents[cc]].(*ast.SelectStmt); ok {
					for _, cl := range sel.Body.List {
						if ch, isSend := commChan(p, cl.(*ast.CommClause)); ch != nil && !isSend && ch.Op == "fld" && ch.Obj.Name() == "die" {
							okArm = true
						}
					}
				}
			}
		}
		if !okArm {
			// alternatively dominated by !isClosed()
			c := p.CFG(cf)
			if pt, ok := c.PointOf(call); ok {
				for _, ct := range c.DominatingConds(pt) {
					if strings.Contains(ct.Key(), "isClosed") && ct.Op == "not" {
						okArm = true
					}
				}
			}
		}
		r.check(okArm, "C15.G3", cf.Name, p.Pos(call), "re-submission of "+t.Obj.Name(), "only on the not-closed arm", "the periodic callback is re-submitted even after Close: it runs forever")
	})
	if n == 0 && fi != nil {
		r.bad("C15.G3", fi.Name, p.Pos(fi.Node), "re-submission", "update does not re-submit itself", "")
	}
	checkUpdateAlwaysRearms(p, r, "C15.G3")
}

// checkUpdateAlwaysRearms: the other half — while the session is open the updater never stops: every path through
// update that does not take the die arm re-submits the callback. (A path that returns early on some other condition —
// a latched socket error, an idle connection — ends retransmission, acknowledgement and probing for good.)
// Shared by C15.G3 and C02.A18.
func checkUpdateAlwaysRearms(p *Prog, r *Report, rule string) {
	fi := p.FuncByName("(*UDPSession).update")
	if fi == nil {
		return
	}
	c := p.CFG(fi)
	putM := p.Method("TimedSched", "Put")
	isPut := func(nd ast.Node, _ Point) bool {
		hit := false
		inspectShallow(nd, func(x ast.Node) bool {
			if call, ok := x.(*ast.CallExpr); ok && p.Callee(call) == putM {
				hit = true
			}
			return true
		})
		return hit
	}
	// the die arm(s): select clauses receiving from die, and branches on isClosed()
	dieBlocks := map[*cfg.Block]bool{}
	for _, b := range c.live {
		if cc, ok := b.Stmt.(*ast.CommClause); ok && b.Kind == cfg.KindSelectCaseBody {
			if ch, isSend := commChan(p, cc); ch != nil && !isSend && ch.Op == "fld" && ch.Obj.Name() == "die" {
				dieBlocks[b] = true
			}
		}
		if ct := c.CondTerm(b); ct != nil && len(b.Succs) == 2 && strings.Contains(ct.Key(), "isClosed") {
			if ct.Op == "not" {
				dieBlocks[b.Succs[1]] = true
			} else {
				dieBlocks[b.Succs[0]] = true
			}
		}
	}
	res := c.FindPath(PathQuery{From: Point{c.Entry(), 0}, ExitIsTarget: true, IsBarrier: isPut, OnBlock: func(b *cfg.Block) (bool, bool) { return false, dieBlocks[b] }})
	if res.Found {
		r.bad(rule, fi.Name, p.Pos(fi.Node), "update re-arms itself while the session is open", "a path through update returns without re-submitting the callback although the session was not closed: from then on nothing retransmits, acknowledges or probes for this session — data already accepted by Write is never delivered", c.DescribePath(res.Path))
	} else {
		r.ok(rule, fi.Name, p.Pos(fi.Node), "update re-arms itself while the session is open", "every path that does not take the die arm re-submits the callback")
	}
}

func checkCloseTransport(p *Prog, r *Report) {
	for _, spec := range []struct {
		fn      string
		allowed []string
	}{{"(*UDPSession).Close", []string{"once", "l", "ownConn"}}, {"(*Listener).Close", []string{"once", "ownConn"}}} {
		fi := p.FuncByName(spec.fn)
		if fi == nil {
			continue
		}
		c := p.CFG(fi)
		found := false
		inspectBody(fi, func(n ast.Node) bool {
			call, ok := n.(*ast.CallExpr)
			if !ok {
				return true
			}
			sel, ok := ast.Unparen(call.Fun).(*ast.SelectorExpr)
			if !ok || sel.Sel.Name != "Close" {
				return true
			}
			if t := p.Term(sel.X); t.Op != "fld" || t.Obj.Name() != "conn" {
				return true
			}
			pt, ok := c.PointOf(call)
			if !ok {
				return true
			}
			okConds := true
			for _, ct := range c.DominatingConds(pt) {
				for _, a := range Conjuncts(ct) {
					a.Walk(func(x *Term) {
						if x.Op != "var" && x.Op != "fld" {
							return
						}
						if x.Op == "var" {
							if v, ok := x.Obj.(*types.Var); ok && v == p.selfVar(fi) {
								return
							}
						}
						allowed := false
						for _, al := range spec.allowed {
							if x.Obj.Name() == al {
								allowed = true
							}
						}
						if !allowed {
							okConds = false
						}
					})
				}
			}
			if okConds {
				found = true
			}
			return true
		})
		r.check(found, "C15.G4", fi.Name, p.Pos(fi.Node), "conn.Close()", "called, conditional only on first-close / ownership", "Close does not close the owned transport (the read loop would never be unblocked)")
	}
}

// checkCreatedSessionsOwned: C15.G6.
func checkCreatedSessionsOwned(p *Prog, r *Report) {
	lp := p.FuncByName("(*Listener).packetInput")
	c := p.CFG(lp)
	fAcc := p.Field("Listener", "chAccepts")
	n := 0
	for _, s := range p.CallsTo(p.Func("newUDPSession")) {
		if s.Fn != lp {
			continue
		}
		n++
		// the variable the session is bound to
		var sv types.Object
		if as, ok := p.parents[s.Call].(*ast.AssignStmt); ok && len(as.Lhs) == 1 {
			if id, ok := as.Lhs[0].(*ast.Ident); ok {
				sv = p.Info.Defs[id]
				if sv == nil {
					sv = p.Info.Uses[id]
				}
			}
		}
		pt, _ := c.PointOf(s.Call)
		isOwned := func(nd ast.Node, _ Point) bool {
			f := false
			inspectShallow(nd, func(x ast.Node) bool {
				switch y := x.(type) {
				case *ast.SendStmt:
					if t := p.Term(y.Chan); t.Op == "fld" && t.Obj == fAcc {
						if id, ok := ast.Unparen(y.Value).(*ast.Ident); ok && p.Info.Uses[id] == sv {
							// a send that is a select arm takes effect in the arm's body (OnBlock below)
							if cc, isCC := p.parents[y].(*ast.CommClause); !(isCC && cc.Comm == ast.Stmt(y)) {
								f = true
							}
						}
					}
				case *ast.CallExpr:
					if p.Callee(y) == p.Method("UDPSession", "Close") {
						if sel, ok := ast.Unparen(y.Fun).(*ast.SelectorExpr); ok {
							if id, ok := ast.Unparen(sel.X).(*ast.Ident); ok && p.Info.Uses[id] == sv {
								f = true
							}
						}
					}
				}
				return true
			})
			return f
		}
		res := c.FindPath(PathQuery{From: Point{pt.B, pt.I + 1}, IsBarrier: isOwned, ExitIsTarget: true,
			OnBlock: func(b *cfg.Block) (bool, bool) {
				if b.Kind == cfg.KindSelectCaseBody {
					if cc, ok := b.Stmt.(*ast.CommClause); ok {
						if ss, ok := cc.Comm.(*ast.SendStmt); ok {
							if t := p.Term(ss.Chan); t.Op == "fld" && t.Obj == fAcc {
								return false, true
							}
						}
					}
				}
				return false, false
			}})
		if res.Found {
			r.bad("C15.G6", lp.Name, p.Pos(s.Call), "ownership of a created session", "a path creates a session (its postProcess goroutine and its scheduled update callback are already running) and returns without handing it to Accept or closing it: no Close call can ever reach it", c.DescribePath(res.Path))
		} else {
			r.ok("C15.G6", lp.Name, p.Pos(s.Call), "ownership of a created session", "sent to chAccepts or closed on every path")
		}
	}
	if n == 0 {
		r.bad("C15.G6", lp.Name, p.Pos(lp.Node), "ownership of a created session", "the listener never creates a session", "")
	}
}

func checkBoundedSends(p *Prog, r *Report) {
	for _, fi := range p.funcs {
		c := p.CFG(fi)
		for _, co := range p.Effects(fi).ChanOps {
			if !co.Send || co.Chan.Op != "fld" {
				continue
			}
			switch co.Chan.Obj.Name() {
			case "chAccepts":
				pt, ok := c.PointOf(co.Node)
				okRoom := false
				if ok {
					for _, ct := range c.DominatingConds(pt) {
						for _, a := range Conjuncts(ct) {
							if f, isF := co.Chan.Obj.(*types.Var); isF && p.roomTest(fi, a, f, p.ConstInt("acceptBacklog")) {
								okRoom = true
							}
						}
					}
				}
				// a select with a default arm does not block either
				if !okRoom {
					if cc, isCC := p.parents[co.Node].(*ast.CommClause); isCC && cc.Comm == co.Node {
						if blk, isB := p.parents[cc].(*ast.BlockStmt); isB {
							if sel, isS := p.parents[blk].(*ast.SelectStmt); isS {
								for _, cl := range sel.Body.List {
									if cl.(*ast.CommClause).Comm == nil {
										okRoom = true
									}
								}
							}
						}
					}
				}
				r.check(okRoom, "C15.G5", rootFuncInfo(fi).Name, p.Pos(co.Node), "send on chAccepts", "controlled by len(chAccepts) < cap(chAccepts) (or non-blocking)", "the monitor goroutine can block forever on a full accept backlog")
			case "chTask":
				okSel := false
				if cc, ok := p.parents[co.Node].(*ast.CommClause); ok {
					if sel, ok := p.parents[p.parents[cc]].(*ast.SelectStmt); ok {
						for _, cl := range sel.Body.List {
							if ch, isSend := commChan(p, cl.(*ast.CommClause)); ch != nil && !isSend && ch.Op == "fld" && ch.Obj.Name() == "die" {
								okSel = true
							}
						}
					}
				}
				r.check(okSel, "C15.G5", rootFuncInfo(fi).Name, p.Pos(co.Node), "send on chTask", "in a select with die", "the hand-off goroutine can block forever after Close")
			}
		}
	}
}

// checkStaleCache: C15.O3. fecDecoder.decodeCache keeps, from one decode call to
// the next, slices of packet buffers that are recycled before the call returns
// (and flagCache their presence bits). Every element read of these caches must
// therefore be preceded, on every path from the function entry, by a reset of the
// whole cache (a range loop over the cache assigning the zero value to each
// element, or clear()).
func checkStaleCache(p *Prog, r *Report) {
	for _, fname := range []string{"decodeCache", "flagCache"} {
		f := p.Field("fecDecoder", fname)
		users := map[*FuncInfo]bool{}
		for _, fi := range p.funcs {
			if _, ok := p.Effects(fi).FieldR[f]; ok && fi.Decl != nil && fi.Name != "newFECDecoder" {
				users[fi] = true
			}
		}
		for fi := range users {
			c := p.CFG(fi)
			// local aliases of the field
			alias := map[*types.Var]bool{}
			ast.Inspect(fi.Body, func(n ast.Node) bool {
				if as, ok := n.(*ast.AssignStmt); ok && len(as.Lhs) == len(as.Rhs) {
					for i, l := range as.Lhs {
						if t := p.Term(as.Rhs[i]); t.Op == "fld" && t.Obj == f {
							if id, ok := l.(*ast.Ident); ok {
								if v, ok := p.Info.Defs[id].(*types.Var); ok {
									alias[v] = true
								} else if v, ok := p.Info.Uses[id].(*types.Var); ok {
									alias[v] = true
								}
							}
						}
					}
				}
				return true
			})
			isCache := func(e ast.Expr) bool {
				t := p.Term(e)
				if t.Op == "fld" && t.Obj == f {
					return true
				}
				if t.Op == "var" {
					if v, ok := t.Obj.(*types.Var); ok && alias[v] {
						return true
					}
				}
				return false
			}
			// reset nodes
			isReset := func(n ast.Node, _ Point) bool {
				if rs, ok := n.(*ast.RangeStmt); ok {
					// ranges over the cache (or an equally long sibling alias) and zeroes cache[k]
					kid, _ := rs.Key.(*ast.Ident)
					if kid == nil {
						return false
					}
					kv := p.Info.Defs[kid]
					zeroes := false
					for _, st := range rs.Body.List {
						if as, ok := st.(*ast.AssignStmt); ok && len(as.Lhs) == 1 && len(as.Rhs) == 1 {
							if ix, ok := ast.Unparen(as.Lhs[0]).(*ast.IndexExpr); ok && isCache(ix.X) {
								if id, ok := ast.Unparen(ix.Index).(*ast.Ident); ok && p.Info.Uses[id] == kv {
									if t := p.Term(as.Rhs[0]); t.Op == "nil" || t.Op == "false" {
										zeroes = true
									}
								}
							}
						}
					}
					// the ranged expression must be one of the decoder's caches (all have length shardSize)
					rt := p.Term(rs.X)
					lenOK := rt.Op == "fld" && (rt.Obj == p.Field("fecDecoder", "decodeCache") || rt.Obj == p.Field("fecDecoder", "flagCache")) || isCache(rs.X)
					return zeroes && lenOK
				}
				found := false
				inspectShallow(n, func(x ast.Node) bool {
					if call, ok := x.(*ast.CallExpr); ok && p.BuiltinName(call) == "clear" && len(call.Args) == 1 && isCache(call.Args[0]) {
						found = true
					}
					return true
				})
				return found
			}
			// element reads
			nReads := 0
			okAll := true
			var wit string
			var firstBad ast.Node
			inspectBody(fi, func(n ast.Node) bool {
				var readExpr ast.Expr
				switch x := n.(type) {
				case *ast.IndexExpr:
					if isCache(x.X) {
						// not the target of a plain assignment
						if as, ok := p.parents[x].(*ast.AssignStmt); ok {
							isLhs := false
							for _, l := range as.Lhs {
								if l == ast.Expr(x) {
									isLhs = true
								}
							}
							if isLhs {
								return true
							}
						}
						readExpr = x
					}
				case *ast.CallExpr:
					for _, a := range x.Args {
						if isCache(a) && p.BuiltinName(x) != "len" && p.BuiltinName(x) != "clear" {
							readExpr = a
						}
					}
				case *ast.SliceExpr:
					if isCache(x.X) {
						readExpr = x
					}
				case *ast.RangeStmt:
					if isCache(x.X) && x.Value != nil {
						readExpr = x.X
					}
				}
				if readExpr == nil {
					return true
				}
				pt, ok := c.PointOf(readExpr)
				if !ok {
					return true
				}
				// reads inside the reset loop itself do not count
				for y := ast.Node(readExpr); y != nil && y != fi.Node; y = p.parents[y] {
					if rs, ok := y.(*ast.RangeStmt); ok && isReset(rs, Point{}) {
						return true
					}
				}
				nReads++
				res := c.FindPath(PathQuery{From: Point{c.Entry(), 0}, IsTarget: func(_ ast.Node, q Point) bool { return q == pt }, IsBarrier: isReset,
					OnBlock: func(b *cfg.Block) (bool, bool) {
						// the reset loop: go/cfg gives range loops an empty header block
						if b.Kind == cfg.KindRangeLoop {
							if rs, ok := b.Stmt.(*ast.RangeStmt); ok && isReset(rs, Point{}) {
								return false, true
							}
						}
						return false, false
					}})
				if res.Found && okAll {
					okAll = false
					wit = c.DescribePath(res.Path)
					firstBad = readExpr
				}
				return true
			})
			if nReads == 0 {
				continue
			}
			// no element read after a Put on the same path (the cache aliases the recycled packets)
			if fname == "decodeCache" {
				put := p.Method("bufferPool", "Put")
				for _, ps := range p.CallsTo(put) {
					if ps.Fn != fi {
						continue
					}
					pp, _ := c.PointOf(ps.Call)
					res := c.FindPath(PathQuery{From: Point{pp.B, pp.I + 1}, IsBarrier: isReset,
						IsTarget: func(n ast.Node, _ Point) bool {
							hit := false
							inspectShallow(n, func(x ast.Node) bool {
								switch y := x.(type) {
								case *ast.CallExpr:
									for _, a := range y.Args {
										if isCache(a) && p.BuiltinName(y) != "len" && p.BuiltinName(y) != "clear" {
											hit = true
										}
									}
								}
								return true
							})
							return hit
						},
						OnBlock: func(b *cfg.Block) (bool, bool) {
							if b.Kind == cfg.KindRangeLoop {
								if rs, ok := b.Stmt.(*ast.RangeStmt); ok && isReset(rs, Point{}) {
									return false, true
								}
							}
							return false, false
						}})
					if res.Found {
						okAll = false
						wit = c.DescribePath(res.Path)
						firstBad = ps.Call
						r.bad("C15.O3", fi.Name, p.Pos(ps.Call), "cache handed to the codec after Put("+exprString(ps.Call.Args[0])+")", "packets are recycled while fecDecoder.decodeCache still aliases them and the cache is handed to the codec afterwards (use after recycle)", wit)
					}
				}
			}
			if okAll {
				r.ok("C15.O3", fi.Name, p.Pos(fi.Node), "reads of fecDecoder."+fname, fmt.Sprintf("all %d element reads are preceded on every path by a reset of the whole cache", nReads))
			} else {
				r.bad("C15.O3", fi.Name, p.Pos(firstBad), "reads of fecDecoder."+fname, "an element of the cache is read on a path that did not reset the whole cache first: entries left over from the previous group alias buffers that were already recycled (stale shard emitted / recycled twice)", wit)
			}
		}
	}
}

// checkFieldAliasesOnPut: C15.O6. Field g aliases field f when some store is
// x.g = x.f[...] (same base object).
func checkFieldAliasesOnPut(p *Prog, r *Report, put *types.Func) {
	aliases := map[*types.Var][]*types.Var{} // f -> fields that alias it
	for _, pkgT := range []string{"UDPSession", "KCP", "fecDecoder", "fecEncoder", "Listener"} {
		st := structOf(p.Named(pkgT).Underlying())
		if st == nil {
			continue
		}
		for i := 0; i < st.NumFields(); i++ {
			g := st.Field(i)
			if _, isSlice := g.Type().Underlying().(*types.Slice); !isSlice {
				continue
			}
			for _, s := range p.FieldStores(g) {
				if s.Rhs == nil || s.Base == nil {
					continue
				}
				t := p.Term(s.Rhs)
				root := t
				for root.Op == "slice" {
					root = root.Args[0]
				}
				if t.Op == "slice" && root.Op == "fld" && root.Args[0].Key() == s.Base.Key() {
					if f, ok := root.Obj.(*types.Var); ok && f != g {
						dup := false
						for _, x := range aliases[f] {
							if x == g {
								dup = true
							}
						}
						if !dup {
							aliases[f] = append(aliases[f], g)
						}
					}
				}
			}
		}
	}
	for _, s := range p.CallsTo(put) {
		if len(s.Args) != 1 || s.Args[0].Op != "fld" {
			continue
		}
		f, _ := s.Args[0].Obj.(*types.Var)
		al := aliases[f]
		if len(al) == 0 {
			continue
		}
		base := s.Args[0].Args[0]
		c := p.CFG(s.Fn)
		pt, _ := c.PointOf(s.Call)
		var missing []string
		for _, g := range al {
			cleared := false
			for _, nd := range pt.B.Nodes {
				if as, ok := nd.(*ast.AssignStmt); ok {
					for i, l := range as.Lhs {
						if p.Term(l).Key() == tFld(base, g).Key() && i < len(as.Rhs) && p.Term(as.Rhs[i]).Op == "nil" {
							cleared = true
						}
					}
				}
			}
			if !cleared {
				missing = append(missing, g.Name())
			}
		}
		r.check(len(missing) == 0, "C15.O6", s.Fn.Name, p.Pos(s.Call), "Put("+exprString(s.Call.Args[0])+")", "all aliasing fields cleared with it", fmt.Sprintf("the buffer is recycled while %v still points into it: a later read through that field returns bytes another owner of the pooled buffer has written (the stream is altered after Close, for example)", missing))
	}
}

// checkSessionsLeaveByClose: C15.G8 / C05.B12.
func checkSessionsLeaveByClose(p *Prog, r *Report, rule string) {
	fSess := p.Field("Listener", "sessions")
	closeM := p.Method("UDPSession", "Close")
	// (a) who deletes from the table, and who calls them
	n := 0
	for _, fi := range p.funcs {
		if fi.Body == nil {
			continue
		}
		deletes := false
		inspectBody(fi, func(x ast.Node) bool {
			if call, ok := x.(*ast.CallExpr); ok && p.BuiltinName(call) == "delete" && len(call.Args) == 2 {
				if t := p.Term(call.Args[0]); t.Op == "fld" && t.Obj == fSess {
					deletes = true
				}
			}
			return true
		})
		if !deletes {
			continue
		}
		root := rootFuncInfo(fi)
		if root.Obj == closeM {
			n++
			r.ok(rule, root.Name, p.Pos(root.Node), "deletion from Listener.sessions in "+root.Name, "inside UDPSession.Close")
			continue
		}
		if root.Obj == nil {
			r.bad(rule, root.Name, p.Pos(root.Node), "deletion from Listener.sessions in "+root.Name, "the table is modified in a function whose callers are not known", "")
			continue
		}
		sites := p.CallsTo(root.Obj)
		if len(sites) == 0 || p.usedAsValue(root.Obj) {
			n++
			r.check(!p.usedAsValue(root.Obj), rule, root.Name, p.Pos(root.Node), "callers of "+root.Name, "never called", root.Name+" (which deletes from Listener.sessions) is used as a value: its callers are not known")
			continue
		}
		for _, s := range sites {
			n++
			caller := rootFuncInfo(s.Fn)
			r.check(caller.Obj == closeM, rule, caller.Name, p.Pos(s.Call), "call of "+root.Name+" in "+caller.Name, "only UDPSession.Close takes a session out of the listener's table", caller.Name+" removes a session from the listener's table without closing it: the session's goroutine, scheduler task, buffers and blocked readers stay behind, and the listener can no longer reach it — repeated per datagram this grows without bound")
		}
	}
	// (b) a store into the table on a path where a session was found under the key
	for _, fi := range p.funcs {
		if fi.Body == nil {
			continue
		}
		c := p.CFG(fi)
		inspectBody(fi, func(x ast.Node) bool {
			as, ok := x.(*ast.AssignStmt)
			if !ok {
				return true
			}
			for _, l := range as.Lhs {
				ie, isIdx := ast.Unparen(l).(*ast.IndexExpr)
				if !isIdx {
					continue
				}
				if t := p.Term(ie.X); !(t.Op == "fld" && t.Obj == fSess) {
					continue
				}
				n++
				spt, _ := c.PointOf(as)
				// lookups of the table in the same function: s, ok := l.sessions[k]
				bad := ""
				found := 0
				inspectBody(fi, func(y ast.Node) bool {
					las, isAs := y.(*ast.AssignStmt)
					if !isAs || len(las.Lhs) != 2 || len(las.Rhs) != 1 {
						return true
					}
					lie, isL := ast.Unparen(las.Rhs[0]).(*ast.IndexExpr)
					if !isL {
						return true
					}
					if t := p.Term(lie.X); !(t.Op == "fld" && t.Obj == fSess) {
						return true
					}
					sv := identVar(p, las.Lhs[0])
					okv := identVar(p, las.Lhs[1])
					if sv == nil || okv == nil {
						return true
					}
					found++
					// from every true edge of a test of okv, a path to the store without sv.Close()
					for _, b := range c.live {
						ct := c.CondTerm(b)
						if ct == nil || len(b.Succs) != 2 {
							continue
						}
						var from *cfg.Block
						if ct.Op == "var" && ct.Obj == okv {
							from = b.Succs[0]
						} else if ct.Op == "not" && ct.Args[0].Op == "var" && ct.Args[0].Obj == okv {
							from = b.Succs[1]
						}
						if from == nil {
							continue
						}
						res := c.FindPath(PathQuery{From: Point{from, 0}, IsTarget: func(_ ast.Node, q Point) bool { return q == spt },
							IsBarrier: func(nd ast.Node, _ Point) bool {
								hit := false
								inspectShallow(nd, func(z ast.Node) bool {
									if call, isC := z.(*ast.CallExpr); isC && p.Callee(call) == closeM {
										if sel, isS := ast.Unparen(call.Fun).(*ast.SelectorExpr); isS {
											if id, isI := ast.Unparen(sel.X).(*ast.Ident); isI && p.Info.Uses[id] == sv {
												hit = true
											}
										}
									}
									return true
								})
								return hit
							}})
						if res.Found {
							bad = c.DescribePath(res.Path)
						}
					}
					return true
				})
				switch {
				case found == 0:
					r.ok(rule, fi.Name, p.Pos(as), "store into Listener.sessions in "+fi.Name, "no lookup of an existing session in this function")
				case bad != "":
					r.bad(rule, fi.Name, p.Pos(as), "store into Listener.sessions in "+fi.Name, "a path on which a session was found in the table reaches this store without closing that session: the replaced session is orphaned (its goroutine, scheduler task, buffers and blocked readers stay behind)", bad)
				default:
					r.ok(rule, fi.Name, p.Pos(as), "store into Listener.sessions in "+fi.Name, "every path on which a session was found closes it before the store")
				}
			}
			return true
		})
	}
	if n == 0 {
		r.bad(rule, "Listener", "-", "session table", "no deletion from or store into Listener.sessions found", "")
	}
}

func identVar(p *Prog, e ast.Expr) *types.Var {
	id, ok := ast.Unparen(e).(*ast.Ident)
	if !ok || id.Name == "_" {
		return nil
	}
	if v, ok := p.Info.Defs[id].(*types.Var); ok {
		return v
	}
	v, _ := p.Info.Uses[id].(*types.Var)
	return v
}

// checkEvictionLast: C15.O7.
func checkEvictionLast(p *Prog, r *Report) {
	dec := p.FuncOf(p.Method("fecDecoder", "decode"))
	c := p.CFG(dec)
	fSet := p.Field("fecDecoder", "shardSet")
	// the locals that hold the group heap: bound from an index of shardSet (v, ok := dec.shardSet[id]) or stored into it
	held := map[*types.Var]bool{}
	inspectBody(dec, func(x ast.Node) bool {
		as, ok := x.(*ast.AssignStmt)
		if !ok {
			return true
		}
		for i, rhs := range as.Rhs {
			if ie, isI := ast.Unparen(rhs).(*ast.IndexExpr); isI {
				if t := p.Term(ie.X); t.Op == "fld" && t.Obj == fSet && i < len(as.Lhs) {
					if v := identVar(p, as.Lhs[i]); v != nil {
						held[v] = true
					}
				}
			}
		}
		for i, l := range as.Lhs {
			if ie, isI := ast.Unparen(l).(*ast.IndexExpr); isI && i < len(as.Rhs) {
				if t := p.Term(ie.X); t.Op == "fld" && t.Obj == fSet {
					if v := identVar(p, as.Rhs[i]); v != nil {
						held[v] = true
					}
				}
			}
		}
		return true
	})
	n := 0
	for _, s := range p.CallsTo(p.Method("fecDecoder", "discardShards")) {
		if s.Fn != dec {
			continue
		}
		n++
		pt, _ := c.PointOf(s.Call)
		var usedAt ast.Node
		res := c.FindPath(PathQuery{From: Point{pt.B, pt.I + 1}, IsTarget: func(nd ast.Node, _ Point) bool {
			hit := false
			inspectShallow(nd, func(y ast.Node) bool {
				if id, ok := y.(*ast.Ident); ok {
					if v, ok := p.Info.Uses[id].(*types.Var); ok && held[v] {
						hit = true
					}
				}
				return true
			})
			if hit {
				usedAt = nd
			}
			return hit
		}})
		if res.Found {
			r.bad("C15.O7", dec.Name, p.Pos(s.Call), "nothing uses the group heap after discardShards()", "the group heap looked up before the eviction is used again at "+p.Pos(usedAt)+": when the current packet belongs to a group that has just fallen out of the window its buffer was recycled (and its heap deleted) by discardShards — it is then read after recycling and put into the pool a second time, so two owners get the same buffer", c.DescribePath(res.Path))
		} else {
			r.ok("C15.O7", dec.Name, p.Pos(s.Call), "nothing uses the group heap after discardShards()", "no use of the looked-up heap is reachable after the eviction")
		}
	}
	if n == 0 {
		r.bad("C15.O7", dec.Name, p.Pos(dec.Node), "eviction", "decode never evicts old groups (C05.B4)", "")
	}
}

// checkCloseReleases: C15.G9.
func checkCloseReleases(p *Prog, r *Report) {
	fi := p.FuncByName("(*UDPSession).Close")
	c := p.CFG(fi)
	self := tVar(p.selfVar(fi))
	fL, fOwn, fConn := p.Field("UDPSession", "l"), p.Field("UDPSession", "ownConn"), p.Field("UDPSession", "conn")
	// the local set to true inside the function literal handed to Once.Do ("this call closed the session")
	var onceV *types.Var
	for _, g := range p.funcs {
		if g.Lit == nil || rootFuncInfo(g) != fi {
			continue
		}
		inspectBody(g, func(x ast.Node) bool {
			if as, ok := x.(*ast.AssignStmt); ok && len(as.Lhs) == 1 && len(as.Rhs) == 1 && p.Term(as.Rhs[0]).Op == "true" {
				if v := identVar(p, as.Lhs[0]); v != nil {
					onceV = v
				}
			}
			return true
		})
	}
	// a helper may return it instead: first := s.signalDie()
	if onceV == nil {
		inspectBody(fi, func(x ast.Node) bool {
			if as, ok := x.(*ast.AssignStmt); ok && len(as.Lhs) == 1 && len(as.Rhs) == 1 {
				if v := identVar(p, as.Lhs[0]); v != nil {
					if b, isB := v.Type().Underlying().(*types.Basic); isB && b.Kind() == types.Bool {
						if _, isCall := ast.Unparen(as.Rhs[0]).(*ast.CallExpr); isCall {
							onceV = v
						}
					}
				}
			}
			return true
		})
	}
	var dispatch, ownTest *cfg.Block
	dispatchTrue := 0
	for _, b := range c.live {
		ct := c.CondTerm(b)
		if ct == nil || len(b.Succs) != 2 {
			continue
		}
		if (ct.Op == "!=" || ct.Op == "==") && len(ct.Args) == 2 {
			for i := 0; i < 2; i++ {
				if ct.Args[i].Op == "nil" && ct.Args[1-i].Key() == tFld(self, fL).Key() {
					dispatch = b
					if ct.Op == "==" {
						dispatchTrue = 1
					}
				}
			}
		}
		if ct.Key() == tFld(self, fOwn).Key() {
			ownTest = b
		}
	}
	construct := "first Close releases the socket / unregisters"
	if dispatch == nil || ownTest == nil {
		r.bad("C15.G9", fi.Name, p.Pos(fi.Node), construct, "Close has no dispatch on s.l followed by a test of s.ownConn", "")
		return
	}
	alreadyClosed := func(from, to *cfg.Block) bool {
		// prune the edge on which this call did not close the session (the ErrClosedPipe return)
		ct := c.CondTerm(from)
		if ct == nil || onceV == nil || len(from.Succs) != 2 {
			return true
		}
		if ct.Op == "not" && ct.Args[0].Op == "var" && ct.Args[0].Obj == onceV {
			return to != from.Succs[0]
		}
		if ct.Op == "var" && ct.Obj == onceV {
			return to != from.Succs[1]
		}
		return true
	}
	isCall := func(nd ast.Node, f *types.Func, recvFld *types.Var, name string) bool {
		hit := false
		inspectShallow(nd, func(x ast.Node) bool {
			call, ok := x.(*ast.CallExpr)
			if !ok {
				return true
			}
			if f != nil && p.Callee(call) == f {
				hit = true
			}
			if recvFld != nil {
				if sel, ok := ast.Unparen(call.Fun).(*ast.SelectorExpr); ok && sel.Sel.Name == name {
					if t := p.Term(sel.X); t.Op == "fld" && t.Obj == recvFld {
						hit = true
					}
				}
			}
			return true
		})
		return hit
	}
	why := ""
	var wit string
	if res := c.FindPath(PathQuery{From: Point{c.Entry(), 0}, ExitIsTarget: true, EdgeOK: alreadyClosed, OnBlock: func(b *cfg.Block) (bool, bool) { return false, b == dispatch }}); res.Found {
		why, wit = "a path of the first Close returns before the dispatch on s.l", c.DescribePath(res.Path)
	}
	if why == "" {
		lst := dispatch.Succs[dispatchTrue]
		if res := c.FindPath(PathQuery{From: Point{lst, 0}, ExitIsTarget: true, IsBarrier: func(nd ast.Node, _ Point) bool { return isCall(nd, p.Method("Listener", "closeSession"), nil, "") }}); res.Found {
			why, wit = "the listener arm can return without closeSession", c.DescribePath(res.Path)
		}
	}
	if why == "" {
		cl := dispatch.Succs[1-dispatchTrue]
		if cl == ownTest {
			// the dispatch falls straight into the ownConn test
		} else if res := c.FindPath(PathQuery{From: Point{cl, 0}, ExitIsTarget: true, OnBlock: func(b *cfg.Block) (bool, bool) { return false, b == ownTest }}); res.Found {
			why, wit = "the client arm can return without testing ownConn", c.DescribePath(res.Path)
		}
	}
	if why == "" {
		if res := c.FindPath(PathQuery{From: Point{ownTest.Succs[0], 0}, ExitIsTarget: true, IsBarrier: func(nd ast.Node, _ Point) bool { return isCall(nd, nil, fConn, "Close") }}); res.Found {
			why, wit = "a session that owns its socket can return without conn.Close()", c.DescribePath(res.Path)
		}
	}
	if why == "" {
		r.ok("C15.G9", fi.Name, p.Pos(fi.Node), construct, "every path of the first Close reaches closeSession (accepted session) or conn.Close() (owned socket)")
	} else {
		r.bad("C15.G9", fi.Name, p.Pos(fi.Node), construct, why+": the receive goroutine of a dialled session stays blocked in ReadFrom on a socket nobody can close any more (a second Close only reports ErrClosedPipe); an accepted session stays in the listener's table", wit)
	}
}

// checkStartedSessionsReturned: C15.G10.
func checkStartedSessionsReturned(p *Prog, r *Report) {
	lp := p.FuncByName("(*Listener).packetInput")
	closeM := p.Method("UDPSession", "Close")
	n := 0
	for _, s := range p.CallsTo(p.Func("newUDPSession")) {
		fi := rootFuncInfo(s.Fn)
		if fi == lp || s.Fn != fi {
			continue
		}
		n++
		construct := "session started in " + fi.Name
		// returned directly
		if _, isRet := p.parents[s.Call].(*ast.ReturnStmt); isRet {
			r.ok("C15.G10", fi.Name, p.Pos(s.Call), construct, "returned to the caller")
			continue
		}
		var sv *types.Var
		if as, ok := p.parents[s.Call].(*ast.AssignStmt); ok && len(as.Lhs) == 1 {
			sv = identVar(p, as.Lhs[0])
		}
		if sv == nil {
			r.bad("C15.G10", fi.Name, p.Pos(s.Call), construct, "the started session is not bound to a local: it cannot be followed to a return or a Close", "")
			continue
		}
		c := p.CFG(fi)
		pt, _ := c.PointOf(s.Call)
		res := c.FindPath(PathQuery{From: Point{pt.B, pt.I + 1}, IsTarget: func(nd ast.Node, _ Point) bool {
			rs, isR := nd.(*ast.ReturnStmt)
			if !isR {
				return false
			}
			for _, e := range rs.Results {
				if mentionsVars(p, e, map[*types.Var]bool{sv: true}) {
					return false
				}
			}
			return true
		}, IsBarrier: func(nd ast.Node, _ Point) bool {
			hit := false
			inspectShallow(nd, func(x ast.Node) bool {
				if call, ok := x.(*ast.CallExpr); ok && p.Callee(call) == closeM {
					if sel, ok := ast.Unparen(call.Fun).(*ast.SelectorExpr); ok {
						if id, ok := ast.Unparen(sel.X).(*ast.Ident); ok && p.Info.Uses[id] == types.Object(sv) {
							hit = true
						}
					}
				}
				return true
			})
			return hit
		}})
		if res.Found {
			r.bad("C15.G10", fi.Name, p.Pos(s.Call), construct, "a path returns without the session and without closing it: its postProcess and receive goroutines, its scheduled update callback and (for Dial) its socket stay behind, and no Close call can ever reach them", c.DescribePath(res.Path))
		} else {
			r.ok("C15.G10", fi.Name, p.Pos(s.Call), construct, "every return after the call returns the session (or the session is closed first)")
		}
	}
	if n == 0 {
		r.bad("C15.G10", "constructors", "-", "sessions started", "no public constructor calls newUDPSession", "")
	}
}
