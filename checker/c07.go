package main

import (
	"fmt"
	"go/ast"
	"go/token"
	"go/types"
	"golang.org/x/tools/go/cfg"
	"os"
	"strings"
)

func init() {
	register(&propCheck{
		id:  "C07",
		run: checkC07,
		explain: "That Reed-Solomon reconstruction returns the original bytes for any k of n is a property of the external codec and of runtime data; it is not decided. Decided is the framing the library " +
			"wraps around the codec, each clause a necessary condition of 'exactly the missing packets, byte for byte, with their length': the decode cache is wiped before each use and a slot is flagged " +
			"present exactly when it is filled from a received packet, at index seqid % shardSize; only unflagged data slots of a successful reconstruction are emitted; all present shards are extended " +
			"to the longest and their tails cleared before ReconstructData, all data shards cleared up to maxSize and cut [payloadOffset:maxSize] before Encode; the size prefix is written before the " +
			"packet is copied into the group and checked (2 <= sz <= len) before a recovered packet is cut to it; packets enter a group only with seqid < paws, once, in the group seqid / shardSize; " +
			"the reconstruction triggers at >= dataShards regardless of the packet type; every complete group advances the id over the whole parity block (sealParity for every parity shard or " +
			"skipParity) and resets shardCount/maxSize; received data packets are fed to KCP independently of the decoder.",
		assume: []string{
			"klauspost/reedsolomon Encode/ReconstructData are correct for equal-sized shards",
			"paws is a multiple of the group size and ids advance modulo paws (C12.K5, re-used here)",
		},
	})
}

func checkC07(p *Prog, r *Report) {
	r.rule("C07.F1", "a recovered packet is emitted only for a data slot (k < dataShards) that was not received (!shardsflag[k]) after a successful ReconstructData", 1)
	r.rule("C07.F1b", "the decode cache is wiped (all slots nil / false) before it is filled; shardsflag[i] = true exactly where shards[i] is filled from a received packet, i = seqid % shardSize", 3)
	r.rule("C07.F2", "before ReconstructData every present shard is extended to maxlen (the maximum over the group) and its tail cleared; before Encode every data shard is cleared up to maxSize (the maximum over the group, reset per group) and every shard cut [payloadOffset:maxSize]", 6)
	r.rule("C07.F3", "a recovered packet is fed to KCP only as r[2:sz] under len(r) >= 2, 2 <= sz <= len(r), sz = Uint16(r)", 1)
	r.rule("C07.F4", "a packet enters a group only under seqid < paws and !Has(seqid), in the group shardSet[seqid / shardSize], as a private copy", 1)
	r.rule("C07.F5", "reconstruction is attempted under shard.Len() >= dataShards and is not control-dependent on the packet type", 1)
	r.rule("C07.F6", "the size prefix uint16(len(b[payloadOffset:])) is written at payloadOffset before the packet is copied into the group from payloadOffset; the reader's data() starts at the same offset (fecHeaderSize)", 3)
	r.rule("C07.F7", "every path through a complete group seals every parity shard or calls skipParity, then resets shardCount and maxSize; sealData runs exactly once per encode", 3)
	r.rule("C07.F8", "received data packets are fed to KCP.Input before and independently of fecDecoder.decode", 1)
	r.rule("C07.F9", "paws = 0xffffffff / shardSize * shardSize at every store; ids advance modulo paws (C12.K5)", 3)
	r.rule("C07.F15", "a sealed packet is the packet that is sent: the slice returned by an AEAD Seal (16 bytes longer than its input) is stored where the transmit step reads it — an element of the parity set, or a variable that is read afterwards; a result left in a loop variable or dropped sends parity without its tag, which the receiver's Open rejects before the FEC decoder sees it", 2)
	r.rule("C07.F14", "what was reconstructed reaches the reader: after KCP.Input of recovered packets every path tests the availability and posts the wake-up token, whichever packet type completed the group (= C13.W5b) — recovered segments are acknowledged, so nothing else will ever wake a reader that is already blocked", 2)
	r.rule("C07.F13", "shards survive until their group is complete: the eviction horizon (newest group id) is set from the first packet and invalidated by a retune (= C16.T9) — a stale or zero horizon evicts every shard as soon as it is stored and nothing is ever reconstructed", 2)
	r.rule("C07.F12", "parity reaches the decoder on the listener path too: in Listener.packetInput a datagram from which no conversation id could be read (every parity packet) is fed to the session that exists for its source — no condition between the lookup and the feed requires hasConv", 1)
	r.rule("C07.F11", "every construction site of the codec (encoder, decoder, decoder retune) passes the same options to reedsolomon.New: sender and receiver compute parity with the same matrix", 3)
	r.rule("C07.F10", "expected type by position: seqid % shardSize < dataShards <=> data; the discard horizon compares group ages with the wrap-safe signed difference", 2)

	dec := p.FuncOf(p.Method("fecDecoder", "decode"))
	enc := p.FuncOf(p.Method("fecEncoder", "encode"))
	{
		type site struct {
			fn, pos, opts string
		}
		var sites []site
		p.AllCalls(func(call *ast.CallExpr, fi *FuncInfo) {
			f := p.Callee(call)
			if f == nil || f.Pkg() == nil || !strings.HasSuffix(f.Pkg().Path(), "klauspost/reedsolomon") || f.Name() != "New" {
				return
			}
			var opts []string
			for _, a := range call.Args[min(2, len(call.Args)):] {
				opts = append(opts, exprString(a))
			}
			sites = append(sites, site{rootFuncInfo(fi).Name, p.Pos(call), strings.Join(opts, ",")})
		})
		for _, st := range sites {
			same := st.opts == sites[0].opts
			r.check(same, "C07.F11", st.fn, st.pos, "reedsolomon.New options in "+st.fn, "same options at every construction site ("+sites[0].opts+")", "this site constructs the codec with options ("+st.opts+"), "+sites[0].fn+" with ("+sites[0].opts+"): parity computed by one is decoded with another matrix by the other, every reconstruction returns garbage")
		}
		if len(sites) == 0 {
			r.bad("C07.F11", "-", "-", "reedsolomon.New", "no codec construction found", "")
		}
	}
	checkFECDecode(p, r, dec)
	checkFECEncode(p, r, enc)
	checkFECSession(p, r)
	checkListenerFeedsParity(p, r)
	checkNewestGroupInit(p, r, "C07.F13")
	delegate(p, r, "C13", checkC13, "C13.W5b", "C07.F14")
	checkSealResultKept(p, r, "C07.F15")

	// ---- F9: delegate to C12.K5
	{
		sub := newReport("C12", r.Tier)
		sub.curCfg = r.curCfg
		checkC12(p, sub)
		for _, o := range sub.Obs {
			if o.Rule != "C12.K5" {
				continue
			}
			if o.Status == Discharged {
				r.ok("C07.F9", o.Func, o.Pos, o.Construct, o.Detail)
			} else {
				r.bad("C07.F9", o.Func, o.Pos, o.Construct, o.Detail, o.Witness)
			}
		}
	}
}

// resolveLocal replaces locals by their (single) defining expression when
// that is a plain field path (shards := dec.decodeCache).
func aliasMap(p *Prog, fi *FuncInfo) map[types.Object]*Term {
	m := map[types.Object]*Term{}
	ast.Inspect(fi.Body, func(n ast.Node) bool {
		as, ok := n.(*ast.AssignStmt)
		if !ok || as.Tok != token.DEFINE || len(as.Lhs) != len(as.Rhs) {
			return true
		}
		for i, l := range as.Lhs {
			id, ok := l.(*ast.Ident)
			if !ok {
				continue
			}
			v, _ := p.Info.Defs[id].(*types.Var)
			if v == nil {
				continue
			}
			t := p.Term(as.Rhs[i])
			if t.Op == "fld" && len(p.Assignments(fi, v)) == 1 {
				m[v] = t
			}
			// a local that names a pure expression over an accessor of a packet (payload := pkt.data(); pos := pkt.seqid() % n)
			if len(p.Assignments(fi, v)) == 1 && p.pureTerm(t) && (t.Op == "call" || t.Op == "%") {
				isAcc := false
				t.Walk(func(x *Term) {
					if x.Op == "call" {
						if f, ok := x.Obj.(*types.Func); ok && recvTypeName(f) == "fecPacket" {
							isAcc = true
						}
					}
				})
				if isAcc {
					m[v] = t
				}
			}
			// a local that names a view of a buffer or the address of a container slot (payload := b[off:];
			// slot := &x.cache[x.n]) — valid as long as nothing the expression mentions is written between the
			// definition and a use
			if (t.Op == "slice" || t.Op == "addr") && len(p.Assignments(fi, v)) == 1 && p.pureTerm(t) && p.viewStable(fi, as, v, t) {
				m[v] = t
			}
		}
		return true
	})
	return m
}

// viewStable: on no path from the definition def of the local v (= t) to a use of v is a field or variable
// that t mentions written (directly or through a callee).
func (p *Prog) viewStable(fi *FuncInfo, def ast.Node, v *types.Var, t *Term) bool {
	c := p.CFG(fi)
	defPt, ok := c.PointOf(def)
	if !ok {
		return false
	}
	flds := map[*types.Var]bool{}
	vars := map[*types.Var]bool{}
	bad := false
	t.Walk(func(x *Term) {
		switch x.Op {
		case "fld":
			if f, ok := x.Obj.(*types.Var); ok {
				flds[f] = true
			}
		case "var":
			if lv, ok := x.Obj.(*types.Var); ok {
				vars[lv] = true
			}
		case "call", "deref":
			bad = true
		}
	})
	if bad {
		return false
	}
	var uses []Point
	okUses := true
	inspectBody(fi, func(n ast.Node) bool {
		if id, ok := n.(*ast.Ident); ok && p.Info.Uses[id] == types.Object(v) {
			if pt, ok := c.PointOf(id); ok {
				uses = append(uses, pt)
			} else {
				okUses = false
			}
		}
		return true
	})
	if !okUses {
		return false
	}
	isDef := func(_ ast.Node, q Point) bool { return q == defPt }
	for _, q := range c.AllPoints() {
		if q == defPt {
			continue
		}
		writes := false
		te := p.NodeTransEffects(q.Node())
		for f := range flds {
			if te.FieldW[f] {
				writes = true
			}
		}
		for lv := range vars {
			if te.LocalW[lv] {
				writes = true
			}
		}
		if !writes || !c.Reaches(defPt, q) {
			continue
		}
		for _, u := range uses {
			if u == q {
				continue
			}
			res := c.FindPath(PathQuery{From: Point{q.B, q.I + 1}, IsTarget: func(_ ast.Node, x Point) bool { return x == u }, IsBarrier: isDef})
			if res.Found {
				return false
			}
		}
	}
	return true
}

type elemStore struct {
	Node  *ast.AssignStmt
	Base  *Term // container (aliases resolved)
	Index *Term
	Rhs   ast.Expr
}

func elemStores(p *Prog, fi *FuncInfo, al map[types.Object]*Term) []elemStore {
	var out []elemStore
	ast.Inspect(fi.Body, func(n ast.Node) bool {
		as, ok := n.(*ast.AssignStmt)
		if !ok || len(as.Lhs) != len(as.Rhs) {
			return true
		}
		for i, l := range as.Lhs {
			if ix, ok := ast.Unparen(l).(*ast.IndexExpr); ok {
				out = append(out, elemStore{as, p.Term(ix.X).Subst(al), p.Term(ix.Index).Subst(al), as.Rhs[i]})
			}
		}
		return true
	})
	return out
}

func rangeKeyVar(p *Prog, rs *ast.RangeStmt) *types.Var {
	if id, ok := rs.Key.(*ast.Ident); ok && id.Name != "_" {
		v, _ := p.Info.Defs[id].(*types.Var)
		return v
	}
	return nil
}

func enclosingRange(p *Prog, n ast.Node) *ast.RangeStmt {
	for q := p.parents[n]; q != nil; q = p.parents[q] {
		if rs, ok := q.(*ast.RangeStmt); ok {
			return rs
		}
		if _, ok := q.(*ast.FuncLit); ok {
			return nil
		}
	}
	return nil
}

func checkFECDecode(p *Prog, r *Report, fi *FuncInfo) {
	recv := tVar(p.selfVar(fi))
	al := aliasMap(p, fi)
	c := p.CFG(fi)
	fa := p.FactsOf(fi)
	cache := p.F(recv, "fecDecoder", "decodeCache")
	flags := p.F(recv, "fecDecoder", "flagCache")
	dataShards := p.F(recv, "fecDecoder", "dataShards")
	shardSize := p.F(recv, "fecDecoder", "shardSize")
	reconstruct := func(call *ast.CallExpr) bool {
		f := p.Callee(call)
		return f != nil && f.Name() == "ReconstructData" && len(call.Args) == 1 && p.Term(call.Args[0]).Subst(al).Key() == cache.Key()
	}
	var recCall *ast.CallExpr
	ast.Inspect(fi.Body, func(n ast.Node) bool {
		if call, ok := n.(*ast.CallExpr); ok && reconstruct(call) {
			recCall = call
		}
		return true
	})
	if recCall == nil {
		r.bad("C07.F1", fi.Name, p.Pos(fi.Node), "ReconstructData(decodeCache)", "decode does not call the codec on the decode cache", "")
		return
	}
	recPt, _ := c.PointOf(recCall)

	// ---- F1: emission
	var result *types.Var
	if fi.Decl.Type.Results != nil {
		for _, fl := range fi.Decl.Type.Results.List {
			for _, nm := range fl.Names {
				result, _ = p.Info.Defs[nm].(*types.Var)
			}
		}
	}
	nEmit := 0
	ast.Inspect(fi.Body, func(n ast.Node) bool {
		call, ok := n.(*ast.CallExpr)
		if !ok || p.BuiltinName(call) != "append" || len(call.Args) < 2 {
			return true
		}
		if t := p.Term(call.Args[0]); !(t.Op == "var" && t.Obj == result) {
			return true
		}
		nEmit++
		pt, _ := c.PointOf(call)
		construct := "append(recovered, " + exprString(call.Args[1]) + ")"
		x := p.Term(call.Args[1]).Subst(al)
		if len(call.Args) != 2 || call.Ellipsis.IsValid() || x.Op != "idx" || x.Args[0].Key() != cache.Key() {
			r.bad("C07.F1", fi.Name, p.Pos(call), construct, "something other than one slot of the decode cache is emitted as a recovered packet", "")
			return true
		}
		k := x.Args[1]
		conds := c.DominatingConds(pt)
		var okFlag, okErr bool
		for _, ct := range conds {
			for _, a := range Conjuncts(ct) {
				a = a.Subst(al)
				if a.Key() == Negate(mk("idx", flags, k)).Key() {
					okFlag = true
				}
				// err == nil where err := ReconstructData(...)
				if a.Op == "==" {
					for _, side := range a.Args {
						if side.Op == "var" {
							for _, as := range p.Assignments(fi, side.Obj.(*types.Var)) {
								if cl, isC := ast.Unparen(as.Rhs).(*ast.CallExpr); as.Rhs != nil && isC && reconstruct(cl) {
									okErr = true
								}
							}
						}
					}
				}
			}
		}
		// k < dataShards: range over shards[:dataShards] or an explicit condition
		okData := false
		if rs := enclosingRange(p, call); rs != nil && k.Op == "var" && rangeKeyVar(p, rs) == k.Obj {
			xt := p.Term(rs.X).Subst(al)
			if xt.Op == "slice" && xt.Args[0].Key() == cache.Key() && xt.Args[1] == nil && xt.Args[2] != nil && xt.Args[2].Key() == dataShards.Key() {
				okData = true
			}
			if xt.Key() == dataShards.Key() { // for k := range dec.dataShards
				okData = true
			}
		}
		if !okData && fa.AtNode(call).Holds(lt(k, dataShards)) {
			okData = true
		}
		ok = okFlag && okErr && okData
		r.check(ok, "C07.F1", fi.Name, p.Pos(call), construct, "under !shardsflag[k], k < dataShards, ReconstructData == nil",
			fmt.Sprintf("emission not restricted to absent (%v) data (%v) slots of a successful (%v) reconstruction: the decoder returns packets that were received already, parity, or garbage", okFlag, okData, okErr))
		return true
	})
	if nEmit == 0 {
		r.bad("C07.F1", fi.Name, p.Pos(fi.Node), "append(recovered, …)", "decode never emits a recovered packet", "")
	}

	// ---- F1b: stores into the two caches
	stores := elemStores(p, fi, al)
	var fillStores []elemStore
	var wipe *ast.RangeStmt
	for _, st := range stores {
		if st.Base.Key() != cache.Key() && st.Base.Key() != flags.Key() {
			continue
		}
		rt := p.Term(st.Rhs).Subst(al)
		isFlag := st.Base.Key() == flags.Key()
		construct := pretty(st.Base.Key()) + "[" + pretty(st.Index.Key()) + "] = " + exprString(st.Rhs)
		switch {
		case (!isFlag && rt.Op == "nil") || (isFlag && rt.Op == "false"):
			// wipe: must be in a range over the cache at the range key
			rs := enclosingRange(p, st.Node)
			ok := false
			if rs != nil && st.Index.Op == "var" && rangeKeyVar(p, rs) == st.Index.Obj {
				xt := p.Term(rs.X).Subst(al)
				if xt.Key() == cache.Key() || xt.Key() == flags.Key() {
					ok = true
					wipe = rs
				}
			}
			_ = ok // clearing a slot elsewhere is harmless; only the whole-cache wipe is required (below)
		case isFlag && rt.Op == "true":
			fillStores = append(fillStores, st)
		case !isFlag && rt.Op == "call" && rt.Obj == p.Method("fecPacket", "data"):
			fillStores = append(fillStores, st)
		case !isFlag && rt.Op == "slice" && rt.Args[0].Key() == mk("idx", st.Base, st.Index).Key():
			// padding reslice: F2
		case !isFlag && rt.Op == "slice" && rt.Args[0].Op == "call" && rt.Args[0].Obj == p.Method("bufferPool", "Get"):
			// fresh buffer for a missing data shard: under shards[k] == nil and k < dataShards
			pt, _ := c.PointOf(st.Node)
			okNil, okData := false, false
			for _, ct := range c.DominatingConds(pt) {
				for _, a := range Conjuncts(ct) {
					a = a.Subst(al)
					if a.Key() == eq(mk("idx", cache, st.Index), mk("nil")).Key() {
						okNil = true
					}
					if a.Key() == lt(st.Index, dataShards).Key() {
						okData = true
					}
				}
			}
			r.check(okNil && okData, "C07.F1b", fi.Name, p.Pos(st.Node), construct, "fresh buffer only for an absent data slot", fmt.Sprintf("a fresh buffer replaces a slot that is present (%v) or not a data slot (%v)", !okNil, !okData))
		default:
			r.bad("C07.F1b", fi.Name, p.Pos(st.Node), construct, "unrecognised store into the decode cache", "")
		}
	}
	// fill stores: paired, same index, index = seqid % shardSize of the popped packet
	{
		byBlock := map[ast.Node][]elemStore{}
		for _, st := range fillStores {
			byBlock[p.parents[st.Node]] = append(byBlock[p.parents[st.Node]], st)
		}
		if len(fillStores) == 0 {
			r.bad("C07.F1b", fi.Name, p.Pos(fi.Node), "fill of the decode cache", "no store shards[i] = pkt.data() found", "")
		}
		for _, sts := range byBlock {
			var data, flag *elemStore
			for i := range sts {
				if sts[i].Base.Key() == cache.Key() {
					data = &sts[i]
				} else {
					flag = &sts[i]
				}
			}
			first := sts[0]
			switch {
			case data == nil || flag == nil || len(sts) != 2:
				r.bad("C07.F1b", fi.Name, p.Pos(first.Node), "fill of the decode cache", "shards[i] is filled from a received packet without shardsflag[i] = true in the same block (or the reverse): the slot is treated as missing and emitted again, or as present while empty", "")
			case data.Index.Key() != flag.Index.Key():
				r.bad("C07.F1b", fi.Name, p.Pos(first.Node), "fill of the decode cache", "data and flag are stored at different indexes: "+pretty(data.Index.Key())+" vs "+pretty(flag.Index.Key()), "")
			default:
				// index = pkt.seqid() % shardSize, pkt the receiver of data()
				fs := fa.AtNode(data.Node)
				ix := fs.Resolve(p.Term(ast.Unparen(data.Node.Lhs[0]).(*ast.IndexExpr).Index))
				pk := p.Term(data.Rhs).Subst(al).Args[0] // (payload := pkt.data(); shards[pos] = payload)
				want := p.ExpandHelpers(mk("%", tCall(p.Method("fecPacket", "seqid"), pk), shardSize))
				okIx := stripConvs(p.ExpandHelpers(ix.Subst(al))).Key() == stripConvs(want).Key()
				// the packet comes from shard.Pop()
				okPop := false
				if pk.Op == "var" {
					for _, as := range p.Assignments(fi, pk.Obj.(*types.Var)) {
						if as.Rhs != nil {
							t := p.Term(as.Rhs)
							for t.Op == "typeassert" || t.Op == "conv" {
								t = t.Args[0]
							}
							if t.Op == "call" && t.Obj == p.Method("shardHeap", "Pop") {
								okPop = true
							}
						}
					}
				}
				// the fill happens after the wipe
				okWipe := false
				if wipe != nil {
					// the wipe loop's exit dominates the fill
					wpt, okw := c.PointOf(wipe.X)
					dpt, _ := c.PointOf(data.Node)
					okWipe = okw && c.Dominates(wpt, dpt)
				}
				r.check(okIx && okPop && okWipe, "C07.F1b", fi.Name, p.Pos(first.Node), "fill of the decode cache", "shards[i] = pkt.data(); shardsflag[i] = true; i = pkt.seqid() % shardSize; after the wipe",
					fmt.Sprintf("slot index is seqid %% shardSize: %v (%s); packet popped from the group: %v; whole cache wiped before the fill: %v — a stale slot of an earlier group is taken for a received shard (a packet of another group is emitted, or the reconstruction is fed foreign data)", okIx, pretty(ix.Key()), okPop, okWipe))
			}
		}
		// the wipe must cover both caches at its key
		if wipe == nil {
			r.bad("C07.F1b", fi.Name, p.Pos(fi.Node), "wipe of the decode cache", "no loop clears every slot of decodeCache and flagCache before the fill", "")
		} else {
			var sawData, sawFlag bool
			for _, st := range stores {
				if enclosingRange(p, st.Node) == wipe {
					if st.Base.Key() == cache.Key() {
						sawData = true
					}
					if st.Base.Key() == flags.Key() {
						sawFlag = true
					}
				}
			}
			// not conditional, no break
			cond := false
			ast.Inspect(wipe.Body, func(n ast.Node) bool {
				switch n.(type) {
				case *ast.IfStmt, *ast.BranchStmt, *ast.SwitchStmt:
					cond = true
				}
				return true
			})
			r.check(sawData && sawFlag && !cond, "C07.F1b", fi.Name, p.Pos(wipe), "wipe of the decode cache", "every slot: shards[k] = nil, shardsflag[k] = false", fmt.Sprintf("the wipe does not clear both caches unconditionally (data %v, flags %v, conditional %v)", sawData, sawFlag, cond))
		}
	}

	// ---- F2 (decode side): padding loop dominates ReconstructData
	{
		var padOK bool
		why := "no loop extends every present shard to maxlen and clears its tail before ReconstructData"
		var maxlen *types.Var
		for _, st := range stores {
			if st.Base.Key() != cache.Key() {
				continue
			}
			rt := p.Term(st.Rhs).Subst(al)
			self := mk("idx", cache, st.Index)
			if !(rt.Op == "slice" && rt.Args[0].Key() == self.Key()) {
				continue
			}
			rs := enclosingRange(p, st.Node)
			if rs == nil || rangeKeyVar(p, rs) == nil || st.Index.Op != "var" || st.Index.Obj != rangeKeyVar(p, rs) {
				why = "the padding reslice is not inside a loop over the slots at the loop key"
				continue
			}
			if xt := p.Term(rs.X).Subst(al); xt.Key() != cache.Key() {
				why = "the padding loop does not range over the whole decode cache"
				continue
			}
			if !(rt.Args[1] == nil && rt.Args[2] != nil && rt.Args[2].Op == "var") {
				why = "present shards are not extended to a common length"
				continue
			}
			maxlen = rt.Args[2].Obj.(*types.Var)
			// dominated by shards[k] != nil; preceded by dlen := len(shards[k]); followed by clear(shards[k][dlen:])
			pt, _ := c.PointOf(st.Node)
			okNN := false
			for _, ct := range c.DominatingConds(pt) {
				if ct.Subst(al).Key() == ne(self, mk("nil")).Key() {
					okNN = true
				}
			}
			var dlen *types.Var
			for i := 0; i < pt.I; i++ {
				if as, ok := pt.B.Nodes[i].(*ast.AssignStmt); ok && len(as.Lhs) == 1 && len(as.Rhs) == 1 {
					if p.Term(as.Rhs[0]).Subst(al).Key() == mk("len", self).Key() {
						if id, ok := as.Lhs[0].(*ast.Ident); ok {
							dlen, _ = p.Info.Defs[id].(*types.Var)
						}
					}
				}
			}
			okClear := false
			for i := pt.I + 1; i < len(pt.B.Nodes); i++ {
				inspectShallow(pt.B.Nodes[i], func(x ast.Node) bool {
					if call, ok := x.(*ast.CallExpr); ok && p.BuiltinName(call) == "clear" && len(call.Args) == 1 && dlen != nil {
						t := p.Term(call.Args[0]).Subst(al)
						if t.Op == "slice" && t.Args[0].Key() == self.Key() && t.Args[1] != nil && t.Args[1].Op == "var" && t.Args[1].Obj == dlen && t.Args[2] == nil {
							okClear = true
						}
					}
					return true
				})
			}
			// the loop precedes the reconstruction
			lpt, okl := c.PointOf(rs.X)
			okDom := okl && c.Dominates(lpt, recPt)
			// the else-branch of shards[k] != nil must not skip present shards: loop body has no break/continue
			brk := false
			ast.Inspect(rs.Body, func(n ast.Node) bool {
				if _, ok := n.(*ast.BranchStmt); ok {
					brk = true
				}
				return true
			})
			if okNN && dlen != nil && okClear && okDom && !brk {
				padOK = true
			} else {
				why = fmt.Sprintf("padding of present shards: under shards[k] != nil: %v; old length taken first: %v; tail cleared from the old length: %v; before ReconstructData: %v; loop left early: %v", okNN, dlen != nil, okClear, okDom, brk)
			}
		}
		r.check(padOK, "C07.F2", fi.Name, p.Pos(recCall), "padding before ReconstructData", "every present shard: shards[k] = shards[k][:maxlen]; clear(shards[k][dlen:])", why+": shards of unequal length or with stale tail bytes are fed to the codec — the recovered bytes are wrong")
		// maxlen is the maximum over the popped packets
		okMax := false
		whyMax := "maxlen is not tracked"
		if maxlen != nil {
			as := p.Assignments(fi, maxlen)
			n := 0
			for _, a := range as {
				if a.Rhs == nil {
					if _, isDecl := a.Node.(*ast.ValueSpec); isDecl {
						continue
					}
					continue
				}
				n++
				rt := p.Term(a.Rhs)
				pt, _ := c.PointOf(a.Node)
				okC := false
				for _, ct := range c.DominatingConds(pt) {
					if ct.Key() == lt(tVar(maxlen), rt).Key() {
						okC = true
					}
				}
				isMaxForm := false
				if x, okM := p.runningMax(fi, a.Node, tVar(maxlen), a.Rhs); okM && rt.Op == "max" {
					okC, rt, isMaxForm = true, x, true
				}
				rt = normTerm(rt.Subst(al)) // payload := pkt.data()
				// rt = len(pkt.data()) where shards[..] = pkt.data() for the same pkt in the same loop
				okSrc := rt.Op == "len" && rt.Args[0].Op == "call" && rt.Args[0].Obj == p.Method("fecPacket", "data")
				if !okSrc && rt.Op == "len" {
					// the accessor already expanded (data() is bts[6:]): compared in expanded form below
					for _, fsx := range fillStores {
						if fsx.Base.Key() == cache.Key() && p.ExpandHelpers(p.Term(fsx.Rhs).Subst(al)).Key() == rt.Args[0].Key() {
							okSrc = true
						}
					}
				}
				sameLoop := false
				for _, fsx := range fillStores {
					if fsx.Base.Key() == cache.Key() && enclosingLoop(p, fsx.Node) == enclosingLoop(p, a.Node) && enclosingLoop(p, a.Node) != nil && okSrc && (p.Term(fsx.Rhs).Subst(al).Key() == rt.Args[0].Key() || p.ExpandHelpers(p.Term(fsx.Rhs).Subst(al)).Key() == rt.Args[0].Key()) {
						sameLoop = true
						// for every packet stored: no further condition on the update than the comparison itself
						fpt, _ := c.PointOf(fsx.Node)
						base := map[string]bool{}
						for _, ct := range c.DominatingConds(fpt) {
							base[ct.Key()] = true
						}
						for _, ct := range c.DominatingConds(pt) {
							if !base[ct.Key()] && (isMaxForm || ct.Key() != lt(tVar(maxlen), rt).Key()) {
								sameLoop = false
							}
						}
					}
				}
				if okC && okSrc && sameLoop {
					okMax = true
				} else {
					okMax = false
					whyMax = fmt.Sprintf("maxlen = %s: under maxlen < it: %v; it is len(pkt.data()) of the packet stored in the same loop: %v", exprString(a.Rhs), okC, okSrc && sameLoop)
					break
				}
			}
			if n == 0 {
				okMax = false
			}
		}
		r.check(okMax, "C07.F2", fi.Name, p.Pos(recCall), "maxlen", "maximum of len(pkt.data()) over the popped packets", whyMax+": a longer shard is truncated and the recovered packet corrupted")
	}

	// ---- F4: admission to a group
	{
		push := p.Method("shardHeap", "Push")
		n := 0
		for _, s := range p.CallsTo(push) {
			if s.Fn != fi {
				continue
			}
			n++
			fs := fa.AtNode(s.Call)
			in := fi.Decl.Type.Params.List[0].Names[0]
			inT := tVar(p.Info.Defs[in])
			seq := p.ExpandHelpers(tCall(p.Method("fecPacket", "seqid"), inT))
			okPaws := fs.Holds(lt(seq, p.F(recv, "fecDecoder", "paws")))
			hp := fs.Resolve(s.Recv)
			okDup := fs.Holds(Negate(tCall(p.Method("shardHeap", "Has"), s.Recv, seq))) || fs.Holds(Negate(tCall(p.Method("shardHeap", "Has"), hp, seq)))
			// the pushed value is a private copy: pkt := fecPacket(Get()[:len(in)]); copy(pkt, in)
			arg := s.Call.Args[0]
			okCopy := false
			if id, ok := ast.Unparen(arg).(*ast.Ident); ok {
				v, _ := p.Info.Uses[id].(*types.Var)
				pt, _ := c.PointOf(s.Call)
				var alloc, copied bool
				for i := 0; i < pt.I; i++ {
					nd := pt.B.Nodes[i]
					if as, ok := nd.(*ast.AssignStmt); ok && len(as.Lhs) == 1 && len(as.Rhs) == 1 {
						if lid, ok := as.Lhs[0].(*ast.Ident); ok && p.Info.Defs[lid] == v {
							t := stripConvs(p.Term(as.Rhs[0]))
							if t.Op == "slice" && t.Args[0].Op == "call" && t.Args[0].Obj == p.Method("bufferPool", "Get") && t.Args[2] != nil && t.Args[2].Key() == mk("len", inT).Key() {
								alloc = true
							}
						}
					}
					inspectShallow(nd, func(x ast.Node) bool {
						if call, ok := x.(*ast.CallExpr); ok && p.BuiltinName(call) == "copy" && len(call.Args) == 2 {
							if d := p.Term(call.Args[0]); d.Op == "var" && d.Obj == v && p.Term(call.Args[1]).Key() == inT.Key() {
								copied = alloc
							}
						}
						return true
					})
				}
				okCopy = alloc && copied
			}
			// the group: shard is shardSet[getShardId(seqid)] (looked up or just inserted)
			okGroup := false
			if s.Recv.Op == "var" {
				for _, as := range p.Assignments(fi, s.Recv.Obj.(*types.Var)) {
					_ = as
				}
				// lookup: shard, ok := dec.shardSet[shardId]
				ast.Inspect(fi.Body, func(x ast.Node) bool {
					as, ok := x.(*ast.AssignStmt)
					if !ok || len(as.Lhs) != 2 || len(as.Rhs) != 1 {
						return true
					}
					if lid, ok := as.Lhs[0].(*ast.Ident); !ok || p.Info.Defs[lid] != s.Recv.Obj {
						return true
					}
					t := p.Term(as.Rhs[0])
					if t.Op == "idx" && t.Args[0].Key() == p.F(recv, "fecDecoder", "shardSet").Key() {
						key := fa.AtNode(as).Resolve(t.Args[1])
						key = p.ExpandHelpers(key)
						want := mk("/", seq, shardSize)
						if stripConvs(key).Key() == stripConvs(want).Key() {
							okGroup = true
						}
					}
					return true
				})
			}
			r.check(okPaws && okDup && okCopy && okGroup, "C07.F4", fi.Name, p.Pos(s.Call), "shard.Push("+exprString(arg)+")", "under seqid < paws, !Has(seqid), private copy, group seqid / shardSize",
				fmt.Sprintf("admission to a group: seqid < paws: %v; duplicate refused: %v; private copy of the packet: %v; group is shardSet[seqid / shardSize]: %v — a duplicate counts twice towards the quorum, a foreign packet joins the group, or the stored packet changes when the caller reuses its buffer; facts: %s", okPaws, okDup, okCopy, okGroup, pretty(fs.String())))
		}
		if n == 0 {
			r.bad("C07.F4", fi.Name, p.Pos(fi.Node), "shard.Push", "decode never stores a packet", "")
		}
	}

	// ---- F5: trigger
	{
		conds := c.DominatingConds(recPt)
		okGE, okType := false, true
		for _, ct := range conds {
			for _, a := range Conjuncts(ct) {
				if a.Op == "<=" && a.Args[0].Key() == dataShards.Key() && a.Args[1].Op == "call" && a.Args[1].Obj == p.Method("shardHeap", "Len") {
					okGE = true
				}
			}
		}
		// not control dependent on in.flag(): none of the conditions whose true/false edge (with a live alternative that continues) mention flag()
		// DominatingConds include early-return guards; flag() conditions appear only for shouldTune (nested). Check those that mention flag():
		for _, ct := range conds {
			ct.Walk(func(x *Term) {
				if x.Op == "call" && x.Obj == p.Method("fecPacket", "flag") {
					okType = false
				}
			})
		}
		r.check(okGE && okType, "C07.F5", fi.Name, p.Pos(recCall), "trigger of the reconstruction", "shard.Len() >= dataShards, for data and parity arrivals alike",
			fmt.Sprintf("trigger is Len() >= dataShards: %v; independent of the packet type: %v — with exactly dataShards packets present (or when the last one to arrive is of one type) the missing packets are not reconstructed", okGE, okType))
	}

	// ---- F10: type by position (the same obligations as C16.T1), discard horizon
	{
		checkTuneEvidence(p, r, "C07.F10")
		// discard horizon
		dfi := p.FuncOf(p.Method("fecDecoder", "discardShards"))
		okD := false
		drecv := tVar(p.selfVar(dfi))
		ast.Inspect(dfi.Body, func(n ast.Node) bool {
			is, isIf := n.(*ast.IfStmt)
			if !isIf {
				return true
			}
			t := p.ExpandHelpers(p.resolveSingleDefs(dfi, p.Term(is.Cond)))
			if os.Getenv("KCPVERIF_DEBUG") != "" {
				fmt.Fprintln(os.Stderr, "discard cond:", t.Key())
			}
			// lt(K, diff(newest*ss, id*ss)) with K = maxShardSets*shardSize
			if t.Op == "<" && len(t.Args) == 2 && t.Args[1].Op == "conv" && t.Args[1].Str == "int32" {
				d := stripConvs(t.Args[1])
				ss := p.F(drecv, "fecDecoder", "shardSize")
				newest := p.F(drecv, "fecDecoder", "newestShardId")
				if d.Op == "-" && d.Args[0].Op == "*" && d.Args[1].Op == "*" && d.Args[0].Contains(ss) && d.Args[1].Contains(ss) && d.Args[0].Contains(newest) && !d.Args[1].Contains(newest) {
					lim := stripConvs(t.Args[0])
					if lim.Op == "*" && lim.Contains(ss) && lim.Contains(tConst(p.ConstInt("maxShardSets"))) {
						okD = true
					}
				}
			}
			return true
		})
		r.check(okD, "C07.F10", dfi.Name, p.Pos(dfi.Node), "discard horizon", "_itimediff(newest*shardSize, id*shardSize) > maxShardSets*shardSize", "groups are not aged by the signed difference of their first ids: a group is discarded while it is among the most recent ones (or never), in particular across the id wrap")
	}
}

func enclosingLoop(p *Prog, n ast.Node) ast.Node {
	for q := p.parents[n]; q != nil; q = p.parents[q] {
		switch q.(type) {
		case *ast.RangeStmt, *ast.ForStmt:
			return q
		case *ast.FuncLit:
			return nil
		}
	}
	return nil
}

func checkFECEncode(p *Prog, r *Report, fi *FuncInfo) {
	recv := tVar(p.selfVar(fi))
	c := p.CFG(fi)
	al := aliasMap(p, fi)
	b := tVar(p.Info.Defs[fi.Decl.Type.Params.List[0].Names[0]])
	payloadOff := p.F(recv, "fecEncoder", "payloadOffset")
	headerOff := p.F(recv, "fecEncoder", "headerOffset")
	shardCache := p.F(recv, "fecEncoder", "shardCache")
	encodeCache := p.F(recv, "fecEncoder", "encodeCache")
	shardCount := p.F(recv, "fecEncoder", "shardCount")
	maxSize := p.F(recv, "fecEncoder", "maxSize")
	dataShards := p.F(recv, "fecEncoder", "dataShards")

	// ---- F6: prefix then copy
	var putPt, copyPt Point
	var havePut, haveCopy bool
	ast.Inspect(fi.Body, func(n ast.Node) bool {
		call, ok := n.(*ast.CallExpr)
		if !ok {
			return true
		}
		if f := p.Callee(call); f != nil && f.Name() == "PutUint16" && len(call.Args) == 2 {
			d := p.Term(call.Args[0]).Subst(al)
			v := stripConvs(p.Term(call.Args[1]).Subst(al))
			wantD := mk("slice", b, payloadOff, nil, nil)
			wantV := mk("len", wantD)
			okP := d.Key() == wantD.Key() && v.Key() == wantV.Key()
			r.check(okP, "C07.F6", fi.Name, p.Pos(call), "size prefix", "PutUint16(b[payloadOffset:], uint16(len(b[payloadOffset:])))", "the size prefix is not len(b[payloadOffset:]) written at payloadOffset: the receiver cuts a recovered packet at the wrong length")
			putPt, _ = c.PointOf(call)
			havePut = true
		}
		if p.BuiltinName(call) == "copy" && len(call.Args) == 2 {
			d, s := p.Term(call.Args[0]).Subst(al), p.Term(call.Args[1]).Subst(al)
			wantS := mk("slice", b, payloadOff, nil, nil)
			wantD := mk("slice", mk("idx", shardCache, shardCount), payloadOff, nil, nil)
			okC := d.Key() == wantD.Key() && s.Key() == wantS.Key()
			// the slot was cut to len(b) just before
			pt, _ := c.PointOf(call)
			okCut := false
			for i := 0; i < pt.I; i++ {
				if as, ok := pt.B.Nodes[i].(*ast.AssignStmt); ok && len(as.Lhs) == 1 && len(as.Rhs) == 1 {
					slot := mk("idx", shardCache, shardCount)
					if p.Term(as.Lhs[0]).Subst(al).Key() == slot.Key() {
						rt := p.FactsOf(fi).AtNode(as).Resolve(p.Term(as.Rhs[0])).Subst(al)
						okCut = rt.Op == "slice" && rt.Args[0].Key() == slot.Key() && rt.Args[1] == nil && rt.Args[2] != nil && rt.Args[2].Key() == mk("len", b).Key()
					}
				}
			}
			r.check(okC && okCut, "C07.F6", fi.Name, p.Pos(call), "copy into the group", "shardCache[shardCount] = …[:len(b)]; copy(…[payloadOffset:], b[payloadOffset:])", fmt.Sprintf("the packet is not copied into its slot from the size prefix on (%v), or the slot is not cut to the packet's length (%v): parity is computed over other bytes than the ones sent", okC, okCut))
			copyPt = pt
			haveCopy = true
		}
		return true
	})
	if !havePut || !haveCopy {
		r.bad("C07.F6", fi.Name, p.Pos(fi.Node), "size prefix and copy", "encode does not write the size prefix or does not copy the packet into the group", "")
	} else if !c.Dominates(putPt, copyPt) {
		r.bad("C07.F6", fi.Name, p.Pos(fi.Node), "size prefix before copy", "the packet is copied into the group before its size prefix is written: parity covers a stale prefix", "")
	}
	// reader offset
	{
		dfi := p.FuncOf(p.Method("fecPacket", "data"))
		ok := false
		ast.Inspect(dfi.Body, func(n ast.Node) bool {
			if rs, isR := n.(*ast.ReturnStmt); isR && len(rs.Results) == 1 {
				t := p.Term(rs.Results[0])
				ok = t.Op == "slice" && t.Args[1] != nil && t.Args[1].IsConst() && t.Args[1].Int == p.ConstInt("fecHeaderSize") && t.Args[2] == nil
			}
			return true
		})
		// payloadOffset = headerOffset + fecHeaderSize at every store
		okOff := true
		for _, st := range p.FieldStores(p.Field("fecEncoder", "payloadOffset")) {
			if st.Rhs == nil {
				okOff = false
				continue
			}
			t := p.Term(st.Rhs)
			want := add(tFld(st.Base, p.Field("fecEncoder", "headerOffset")), tConst(p.ConstInt("fecHeaderSize")))
			if !Lin(t).Equal(Lin(want)) {
				okOff = false
			}
		}
		r.check(ok && okOff, "C07.F6", dfi.Name, p.Pos(dfi.Node), "reader offset", "data() = bts[fecHeaderSize:]; payloadOffset = headerOffset + fecHeaderSize", "the sender's payload offset and the receiver's data() offset differ: the shards fed to the two codecs are not the same byte ranges")
	}
	_ = headerOff

	// ---- F2 (encode side)
	var encCall *ast.CallExpr
	ast.Inspect(fi.Body, func(n ast.Node) bool {
		if call, ok := n.(*ast.CallExpr); ok {
			if f := p.Callee(call); f != nil && f.Name() == "Encode" && len(call.Args) == 1 {
				encCall = call
			}
		}
		return true
	})
	if encCall == nil {
		r.bad("C07.F2", fi.Name, p.Pos(fi.Node), "codec.Encode", "encode never calls the codec", "")
		return
	}
	encPt, _ := c.PointOf(encCall)
	{
		// argument is encodeCache (alias)
		arg := p.Term(encCall.Args[0]).Subst(al)
		okArg := arg.Key() == encodeCache.Key()
		// every slot of encodeCache = shardCache[k][payloadOffset:maxSize], in a range over the cache, dominating Encode
		okCut := false
		for _, st := range elemStores(p, fi, al) {
			if st.Base.Key() != encodeCache.Key() {
				continue
			}
			rs := enclosingRange(p, st.Node)
			if rs == nil || st.Index.Op != "var" || rangeKeyVar(p, rs) != st.Index.Obj {
				continue
			}
			if xt := p.Term(rs.X).Subst(al); xt.Key() != encodeCache.Key() {
				continue
			}
			rt := p.Term(st.Rhs).Subst(al)
			want := mk("slice", mk("idx", shardCache, st.Index), payloadOff, maxSize, nil)
			lpt, okl := c.PointOf(rs.X)
			if rt.Key() == want.Key() && okl && c.Dominates(lpt, encPt) {
				okCut = true
			}
		}
		r.check(okArg && okCut, "C07.F2", fi.Name, p.Pos(encCall), "shards given to Encode", "encodeCache[k] = shardCache[k][payloadOffset:maxSize] for every k", "the codec is not given every shard of the group cut to [payloadOffset:maxSize]: parity is computed over the header, over unequal lengths or over a stale group")
		// clear loop: for i < dataShards: shard := shardCache[i]; clear(shard[len(shard):maxSize])
		okClear := false
		why := "no loop clears the tail of every data shard up to maxSize before Encode"
		ast.Inspect(fi.Body, func(n ast.Node) bool {
			call, ok := n.(*ast.CallExpr)
			if !ok || p.BuiltinName(call) != "clear" || len(call.Args) != 1 {
				return true
			}
			pt, _ := c.PointOf(call)
			fs := p.FactsOf(fi).AtNode(call)
			t := fs.Resolve(p.Term(call.Args[0]))
			// slice(shardCache[i], len(shardCache[i]), maxSize)
			if t.Op != "slice" || t.Args[0].Op != "idx" || t.Args[0].Args[0].Key() != shardCache.Key() {
				return true
			}
			i := t.Args[0].Args[1]
			okLo := t.Args[1] != nil && t.Args[1].Key() == mk("len", t.Args[0]).Key()
			okHi := t.Args[2] != nil && t.Args[2].Key() == maxSize.Key()
			// i ranges over [0, dataShards)
			okRange := false
			if lp, isFor := enclosingLoop(p, call).(*ast.ForStmt); isFor && lp.Cond != nil && i.Op == "var" {
				if ct := p.Term(lp.Cond); ct.Key() == lt(i, dataShards).Key() {
					if init, isA := lp.Init.(*ast.AssignStmt); isA && len(init.Rhs) == 1 && p.Term(init.Rhs[0]).IsConst() && p.Term(init.Rhs[0]).Int == 0 {
						if post, isI := lp.Post.(*ast.IncDecStmt); isI && post.Tok == token.INC {
							okRange = true
						}
					}
				}
			}
			if rs, isR := enclosingLoop(p, call).(*ast.RangeStmt); isR && i.Op == "var" && rangeKeyVar(p, rs) == i.Obj {
				xt := p.Term(rs.X).Subst(al)
				if xt.Key() == dataShards.Key() || (xt.Op == "slice" && xt.Args[0].Key() == shardCache.Key() && xt.Args[1] == nil && xt.Args[2] != nil && xt.Args[2].Key() == dataShards.Key()) {
					okRange = true
				}
			}
			okDom := c.Dominates(Point{c.Entry(), 0}, pt) && c.Reaches(pt, encPt)
			// the loop as a whole must dominate Encode: its header does
			if lp := enclosingLoop(p, call); lp != nil {
				var hdr ast.Node
				switch l := lp.(type) {
				case *ast.ForStmt:
					hdr = l.Cond
				case *ast.RangeStmt:
					hdr = l.X
				}
				if hp, okh := c.PointOf(hdr); okh {
					okDom = c.Dominates(hp, encPt)
				}
			}
			if okLo && okHi && okRange && okDom {
				okClear = true
			} else {
				why = fmt.Sprintf("clear of data shards: from the shard's own length: %v; up to maxSize: %v; for every i < dataShards: %v; before Encode: %v", okLo, okHi, okRange, okDom)
			}
			return true
		})
		r.check(okClear, "C07.F2", fi.Name, p.Pos(encCall), "zero padding before Encode", "clear(shardCache[i][len:maxSize]) for every i < dataShards", why+": parity covers stale bytes of an earlier, longer packet; the receiver pads with zeros and reconstructs wrong bytes")
		// maxSize stores
		okMax, okReset := false, false
		for _, st := range p.FieldStores(p.Field("fecEncoder", "maxSize")) {
			if st.Fn != fi || st.Rhs == nil {
				continue
			}
			t := p.FactsOf(fi).AtNode(st.Node).Resolve(p.Term(st.Rhs))
			pt, _ := c.PointOf(st.Node)
			if t.IsConst() && t.Int == 0 {
				// same block as shardCount = 0
				for _, n := range pt.B.Nodes {
					if as, ok := n.(*ast.AssignStmt); ok && len(as.Lhs) == 1 && p.Term(as.Lhs[0]).Key() == shardCount.Key() && p.Term(as.Rhs[0]).IsConst() && p.Term(as.Rhs[0]).Int == 0 {
						okReset = true
					}
				}
				continue
			}
			if x, okM := p.runningMax(fi, st.Node, maxSize, st.Rhs); okM && x.Key() == mk("len", b).Key() {
				okMax = true
				continue
			}
			okMax = false
			r.bad("C07.F2", fi.Name, p.Pos(st.Node), "store(fecEncoder.maxSize)", "maxSize is set to something other than the packet length or 0", "")
		}
		r.check(okMax, "C07.F2", fi.Name, p.Pos(fi.Node), "maxSize tracks the longest packet", "maxSize = len(b) under len(b) > maxSize", "maxSize is not the maximum packet length of the group: a longer packet is cut off in the parity computation")
		r.check(okReset, "C07.F2", fi.Name, p.Pos(fi.Node), "maxSize reset per group", "maxSize = 0 together with shardCount = 0", "maxSize is not reset with the group: every later group is padded to the longest packet ever sent (parity longer than MTU accounting assumes) or a stale maximum is used")
	}

	// ---- F7: id advance over the parity block on every path through a complete group
	{
		sealP := p.Method("fecEncoder", "sealParity")
		skipP := p.Method("fecEncoder", "skipParity")
		sealD := p.Method("fecEncoder", "sealData")
		// the reset store shardCount = 0
		var reset ast.Node
		for _, st := range p.FieldStores(p.Field("fecEncoder", "shardCount")) {
			if st.Fn == fi && st.Rhs != nil && p.Term(st.Rhs).IsConst() && p.Term(st.Rhs).Int == 0 {
				reset = st.Node
			}
		}
		if reset == nil {
			r.bad("C07.F7", fi.Name, p.Pos(fi.Node), "group reset", "shardCount is never reset", "")
		} else {
			rpt, _ := c.PointOf(reset)
			// dominated by shardCount == dataShards
			okCond := false
			var condBlk Point
			for _, ct := range c.DominatingConds(rpt) {
				if ct.Key() == eq(shardCount, dataShards).Key() {
					okCond = true
				}
			}
			_ = condBlk
			// no path from function entry to reset that avoids both sealParity and skipParity
			var sealLoops []ast.Node // range expressions of loops that seal every parity shard (ps is not empty: parityShards > 0 by construction)
			for _, s := range p.CallsTo(sealP) {
				if rs := enclosingRange(p, s.Call); s.Fn == fi && rs != nil {
					sealLoops = append(sealLoops, rs.X)
				}
			}
			isAdvance := func(n ast.Node, _ Point) bool {
				f := false
				for _, x := range sealLoops {
					if n == x {
						return true
					}
				}
				inspectShallow(n, func(x ast.Node) bool {
					if call, ok := x.(*ast.CallExpr); ok {
						if cl := p.Callee(call); cl == sealP || cl == skipP {
							f = true
						}
					}
					return true
				})
				return f
			}
			res := c.FindPath(PathQuery{From: Point{c.Entry(), 0}, IsTarget: func(n ast.Node, _ Point) bool { return n == reset }, IsBarrier: isAdvance})
			okAdv := !res.Found
			wit := ""
			if res.Found {
				wit = c.DescribePath(res.Path)
			}
			// sealParity is called for every element of ps = shardCache[dataShards:], unconditionally in the loop body
			okAll := false
			for _, s := range p.CallsTo(sealP) {
				if s.Fn != fi {
					continue
				}
				rs := enclosingRange(p, s.Call)
				if rs == nil {
					continue
				}
				// statement directly in the loop body
				direct := false
				for _, st := range rs.Body.List {
					if es, ok := st.(*ast.ExprStmt); ok && es.X == ast.Expr(s.Call) {
						direct = true
					}
				}
				xt := p.FactsOf(fi).AtNode(rs.X).Resolve(p.Term(rs.X))
				if xt.Op == "var" {
					for _, as := range p.Assignments(fi, xt.Obj.(*types.Var)) {
						if as.Rhs != nil {
							xt = p.Term(as.Rhs)
						}
					}
				}
				okPs := xt.Op == "slice" && xt.Args[0].Key() == shardCache.Key() && xt.Args[1] != nil && xt.Args[1].Key() == dataShards.Key() && xt.Args[2] == nil
				// sealed slice is ps[k][headerOffset:]
				brk := false
				ast.Inspect(rs.Body, func(n ast.Node) bool {
					if _, ok := n.(*ast.BranchStmt); ok {
						brk = true
					}
					return true
				})
				if direct && okPs && !brk {
					okAll = true
				}
			}
			if okCond && okAdv && okAll {
				r.ok("C07.F7", fi.Name, p.Pos(reset), "id advance per complete group", "every path to the group reset seals every parity shard or skips the parity block")
			} else {
				r.bad("C07.F7", fi.Name, p.Pos(reset), "id advance per complete group", fmt.Sprintf("group reset under shardCount == dataShards: %v; every path advances the id over the parity block: %v; sealParity runs for every parity shard: %v — after such a group the data/parity positions of all later ids are shifted and the receiver pairs packets of different groups", okCond, okAdv, okAll), wit)
			}
		}
		// ps[k] cut to maxSize after sealing (the parity packet sent has the group's length)
		okLen := false
		for _, st := range elemStores(p, fi, al) {
			rt := p.Term(st.Rhs).Subst(al)
			self := mk("idx", st.Base, st.Index)
			if rt.Op == "slice" && rt.Args[0].Key() == self.Key() && rt.Args[1] == nil && rt.Args[2] != nil && rt.Args[2].Key() == maxSize.Key() {
				if rs := enclosingRange(p, st.Node); rs != nil && st.Index.Op == "var" && rangeKeyVar(p, rs) == st.Index.Obj {
					okLen = true
				}
			}
		}
		r.check(okLen, "C07.F7", fi.Name, p.Pos(encCall), "parity length", "ps[k] = ps[k][:maxSize]", "parity packets are not cut to the group's length: the receiver's shards differ in length from the sender's")
		// sealData exactly once, first
		n := 0
		var sd *ast.CallExpr
		for _, s := range p.CallsTo(sealD) {
			if s.Fn == fi {
				n++
				sd = s.Call
			}
		}
		okOnce := n == 1
		if okOnce {
			spt, _ := c.PointOf(sd)
			okOnce = spt.B == c.Entry()
			a := p.Term(sd.Args[0])
			okOnce = okOnce && a.Key() == mk("slice", b, headerOff, nil, nil).Key()
		}
		r.check(okOnce, "C07.F7", fi.Name, p.Pos(fi.Node), "sealData once per packet", "sealData(b[headerOffset:]) unconditionally at entry", "a data packet does not consume exactly one id at its header offset")
	}
}

func checkFECSession(p *Prog, r *Report) {
	fi := p.FuncByName("(*UDPSession).kcpInput")
	c := p.CFG(fi)
	fa := p.FactsOf(fi)
	input := p.Method("KCP", "Input")
	decode := p.Method("fecDecoder", "decode")
	var decPt Point
	haveDec := false
	for _, s := range p.CallsTo(decode) {
		if s.Fn == fi {
			decPt, _ = c.PointOf(s.Call)
			haveDec = true
		}
	}
	nRec, nData := 0, 0
	for _, s := range p.CallsTo(input) {
		if s.Fn != fi {
			continue
		}
		arg := p.Term(s.Call.Args[0])
		if arg.Op == "var" {
			// pkt := r[2:sz]; Input(pkt, …)
			if ra := p.resolveSingleDefs(fi, arg); ra.Op == "slice" {
				arg = ra
			}
		}
		pt, _ := c.PointOf(s.Call)
		fs := fa.AtNode(s.Call)
		// recovered: the argument's base is the range variable over decode's result
		if rs := enclosingRange(p, s.Call); rs != nil && haveDec {
			nRec++
			rv := tVar(p.Info.Defs[rs.Value.(*ast.Ident)])
			var sz *Term
			okForm := arg.Op == "slice" && arg.Args[0].Key() == rv.Key() && arg.Args[1] != nil && arg.Args[1].IsConst() && arg.Args[1].Int == 2 && arg.Args[2] != nil
			if okForm {
				sz = arg.Args[2]
			}
			ok := okForm
			why := "the recovered packet is not cut as r[2:sz]"
			if !okForm {
				// the cut and its tests moved into a helper: payload, ok := h(r); if ok { Input(payload) }
				if h, hargs, others := p.helperBoundArg(fi, s.Call.Args[0]); h != nil && len(hargs) == 1 && hargs[0].Key() == rv.Key() && len(others) == 1 {
					guarded := false
					for _, ct := range c.DominatingConds(pt) {
						for _, a := range Conjuncts(ct) {
							if a.Op == "var" && a.Obj == others[0] {
								guarded = true
							}
						}
					}
					okH, whyH := p.recoveredCutHelper(h)
					switch {
					case !guarded:
						ok, why = false, "the result of "+h.Name+" is used without testing its ok flag"
					case !okH:
						ok, why = false, whyH
					default:
						ok = true
						// nothing else inside the loop may filter recovered packets
						for _, ca := range c.DominatingCondsAt(pt) {
							if !nodeWithin(p, lastNode(ca.B), rs.Body) {
								continue
							}
							for _, a := range Conjuncts(ca.T) {
								if a.Op == "var" && a.Obj == others[0] {
									continue
								}
								if a.Contains(rv) || a.Contains(p.Term(s.Call.Args[0])) {
									ok, why = false, "recovered packets are additionally filtered by "+pretty(a.Key())+", which genuine packets need not satisfy"
								}
							}
						}
					}
					r.check(ok, "C07.F3", fi.Name, p.Pos(s.Call), "kcp.Input("+exprString(s.Call.Args[0])+", FEC)", "cut by "+h.Name+": r[2:sz] under len(r) >= 2, 2 <= sz <= len(r)", why+": a recovered packet is delivered with padding bytes, with the wrong length, or the slice expression panics on a forged size")
					continue
				}
			}
			if ok {
				d := fs.Resolve(sz)
				d = stripConvs(d)
				okDef := d.Op == "call" && d.Obj != nil && d.Obj.Name() == "Uint16" && len(d.Args) > 0 && d.Args[len(d.Args)-1].Key() == rv.Key()
				okLo := fs.Holds(le(tConst(2), sz))
				okHi := fs.Holds(le(sz, mk("len", rv))) || fs.Holds(le(&Term{Op: "conv", Str: "int", Args: []*Term{sz}}, mk("len", rv)))
				okLen := fs.Holds(le(tConst(2), mk("len", rv)))
				ok = okDef && okLo && okHi && okLen
				why = fmt.Sprintf("sz = Uint16(r): %v; sz >= 2: %v; sz <= len(r): %v; len(r) >= 2: %v; facts: %s", okDef, okLo, okHi, okLen, pretty(fs.String()))
				// exactness: inside the loop nothing stronger may stand between a recovered packet and
				// the core. A reconstructed shard is as long as the group's longest packet, so for that
				// packet sz == len(r); lower bounds up to a KCP header plus the prefix exclude nothing real.
				if ok {
					maxLo := p.ConstInt("IKCP_OVERHEAD") + 2
					for _, ca := range c.DominatingCondsAt(pt) {
						if !nodeWithin(p, lastNode(ca.B), rs.Body) {
							continue
						}
						for _, a := range Conjuncts(ca.T) {
							a = stripConvs(fs.Resolve(a))
							szR := stripConvs(fs.Resolve(sz))
							lenR := mk("len", rv)
							switch {
							case (a.Op == "<=" || a.Op == "<") && a.Args[0].IsConst() && (a.Args[1].Key() == szR.Key() || a.Args[1].Key() == lenR.Key()):
								lo := a.Args[0].Int
								if a.Op == "<" {
									lo++
								}
								if lo > maxLo {
									ok, why = false, fmt.Sprintf("recovered packets shorter than %d bytes are refused", lo)
								}
							case a.Op == "<=" && a.Args[0].Key() == szR.Key() && a.Args[1].Key() == lenR.Key():
							case a.Op == "<" && a.Args[0].Key() == szR.Key() && a.Args[1].Key() == lenR.Key():
								ok, why = false, "the test is sz < len(r): the longest packet of every group (sz == len(r) after reconstruction) is refused and never reaches the core"
							default:
								if a.Contains(szR) || a.Contains(rv) {
									ok, why = false, "recovered packets are additionally filtered by "+pretty(a.Key())+", which genuine packets need not satisfy"
								}
							}
						}
					}
				}
			}
			r.check(ok, "C07.F3", fi.Name, p.Pos(s.Call), "kcp.Input("+exprString(s.Call.Args[0])+", FEC)", "r[2:sz] under len(r) >= 2, 2 <= sz <= len(r)", why+": a recovered packet is delivered with padding bytes, with the wrong length, or the slice expression panics on a forged size")
			continue
		}
		// direct data path inside the FEC case
		if !haveDec || !c.Reaches(pt, decPt) {
			continue
		}
		if !c.Dominates(Point{c.Entry(), 0}, pt) {
			continue
		}
		// only the Input that precedes decode in the FEC case
		nData++
		okIndep := true
		for _, ct := range c.DominatingConds(pt) {
			ct.Walk(func(x *Term) {
				if x.Op == "fld" && x.Obj == p.Field("UDPSession", "fecDecoder") {
					okIndep = false
				}
				if x.Op == "call" && x.Obj == decode {
					okIndep = false
				}
			})
		}
		okArg := arg.Op == "slice" && arg.Args[1] != nil && arg.Args[1].IsConst() && arg.Args[1].Int == p.ConstInt("fecHeaderSizePlus2") && arg.Args[2] == nil
		r.check(okIndep && okArg, "C07.F8", fi.Name, p.Pos(s.Call), "kcp.Input(data[fecHeaderSizePlus2:], REGULAR)", "before decode, not conditional on the decoder", "the direct delivery of received data packets depends on the FEC decoder's state or result: losing parity (or a decoder retune) harms delivery")
	}
	if nRec == 0 {
		r.bad("C07.F3", fi.Name, p.Pos(fi.Node), "input of recovered packets", "no KCP.Input over decode's result found", "")
	}
	if nData == 0 {
		r.bad("C07.F8", fi.Name, p.Pos(fi.Node), "direct input of data packets", "no KCP.Input of a received data packet precedes decode", "")
	}
}

func lastNode(b *cfg.Block) ast.Node {
	if len(b.Nodes) == 0 {
		return nil
	}
	return b.Nodes[len(b.Nodes)-1]
}

// recoveredCutHelper decides an extracted helper h(r) ([]byte, bool) path by path: every path that returns true
// returns r[2:sz] with sz = Uint16(r), under len(r) >= 2, sz >= 2, sz <= len(r), and under nothing stronger
// (a reconstructed shard is as long as the group's longest packet, so for that packet sz == len(r); lower
// bounds up to a KCP header plus the prefix exclude nothing real); the other paths return false.
func (p *Prog) recoveredCutHelper(h *FuncInfo) (bool, string) {
	sps, understood := p.SymPaths(h)
	if !understood || len(sps) == 0 {
		return false, "the helper " + h.Name + " that cuts recovered packets is not a loop-free sequence of tests and returns"
	}
	var param *types.Var
	if h.Decl != nil && len(h.Decl.Type.Params.List) == 1 && len(h.Decl.Type.Params.List[0].Names) == 1 {
		param, _ = p.Info.Defs[h.Decl.Type.Params.List[0].Names[0]].(*types.Var)
	}
	if param == nil {
		return false, "the helper " + h.Name + " does not take the recovered packet alone"
	}
	rv := tVar(param)
	lenR := mk("len", rv)
	maxLo := p.ConstInt("IKCP_OVERHEAD") + 2
	accepts := 0
	for _, sp := range sps {
		if len(sp.Stores) > 0 {
			return false, "the helper " + h.Name + " has side effects"
		}
		if len(sp.Ret) != 2 {
			return false, "the helper " + h.Name + " does not return (payload, ok)"
		}
		switch sp.Ret[1].Op {
		case "false":
			continue
		case "true":
		default:
			return false, "the ok result of " + h.Name + " is not a constant on each path"
		}
		accepts++
		v := sp.Ret[0]
		if !(v.Op == "slice" && v.Args[0].Key() == rv.Key() && v.Args[1] != nil && v.Args[1].IsConst() && v.Args[1].Int == 2 && v.Args[2] != nil) {
			return false, "the recovered packet is not cut as r[2:sz] in " + h.Name
		}
		szR := stripConvs(v.Args[2])
		if !(szR.Op == "call" && szR.Obj != nil && szR.Obj.Name() == "Uint16" && len(szR.Args) > 0 && szR.Args[len(szR.Args)-1].Key() == rv.Key()) {
			return false, "the cut length in " + h.Name + " is not the size prefix Uint16(r)"
		}
		var atoms []*Term
		for _, ct := range sp.Conds {
			for _, a := range Conjuncts(ct) {
				atoms = append(atoms, stripConvs(a))
			}
		}
		okLo := pathImplies(atoms, le(tConst(2), szR))
		okHi := pathImplies(atoms, le(szR, lenR))
		okLen := pathImplies(atoms, le(tConst(2), lenR))
		if !(okLo && okHi && okLen) {
			return false, fmt.Sprintf("in %s: sz >= 2: %v; sz <= len(r): %v; len(r) >= 2: %v", h.Name, okLo, okHi, okLen)
		}
		for _, a := range atoms {
			l, isCmp := leZero(a)
			switch {
			case isCmp && (l.Equal(mustLeZero(le(szR, lenR)))):
			case isCmp && l.Equal(mustLeZero(lt(szR, lenR))):
				return false, "the test is sz < len(r): the longest packet of every group (sz == len(r) after reconstruction) is refused and never reaches the core"
			case isCmp && nonZeroCoefs(l) == 1 && (l.Coef[szR.Key()] == -1 || l.Coef[lenR.Key()] == -1):
				// C - x <= 0: a constant lower bound C of sz or len(r)
				if l.C > maxLo {
					return false, fmt.Sprintf("recovered packets shorter than %d bytes are refused", l.C)
				}
			default:
				if a.Contains(szR) || a.Contains(rv) {
					return false, "recovered packets are additionally filtered by " + pretty(a.Key()) + ", which genuine packets need not satisfy"
				}
			}
		}
	}
	if accepts == 0 {
		return false, "the helper " + h.Name + " never accepts a recovered packet"
	}
	return true, ""
}

func mustLeZero(a *Term) *Linear {
	l, _ := leZero(a)
	return l
}

func nonZeroCoefs(l *Linear) int {
	n := 0
	for _, c := range l.Coef {
		if c != 0 {
			n++
		}
	}
	return n
}

// checkListenerFeedsParity: C07.F12. hasConv is the boolean local that some arm sets to true; a feed is a call
// s.kcpInput(data) with s bound by the table lookup. Some feed must be governed only by conditions that hold
// when hasConv is false: `!hasConv`, a disjunction with the disjunct `!hasConv`, or conditions that mention
// neither hasConv nor the header values read under it.
func checkListenerFeedsParity(p *Prog, r *Report) {
	lp := p.FuncByName("(*Listener).packetInput")
	c := p.CFG(lp)
	fSess := p.Field("Listener", "sessions")
	var hasConv *types.Var
	guarded := map[*types.Var]bool{} // locals assigned in the blocks that set hasConv = true (conv, sn)
	inspectBody(lp, func(x ast.Node) bool {
		as, ok := x.(*ast.AssignStmt)
		if !ok || len(as.Lhs) != 1 || len(as.Rhs) != 1 || as.Tok != token.ASSIGN {
			return true
		}
		if v := identVar(p, as.Lhs[0]); v != nil && p.Term(as.Rhs[0]).Op == "true" {
			if b, isB := v.Type().Underlying().(*types.Basic); isB && b.Kind() == types.Bool {
				hasConv = v
			}
		}
		return true
	})
	if hasConv == nil {
		r.bad("C07.F12", lp.Name, p.Pos(lp.Node), "parity fed to the existing session", "no 'conversation id was read' flag found in the listener", "")
		return
	}
	for _, a := range p.Assignments(lp, hasConv) {
		pt, ok := c.PointOf(a.Node)
		if !ok || a.Rhs == nil || p.Term(a.Rhs).Op != "true" {
			continue
		}
		for _, nd := range pt.B.Nodes {
			if as, ok := nd.(*ast.AssignStmt); ok {
				for _, l := range as.Lhs {
					if v := identVar(p, l); v != nil && v != hasConv {
						guarded[v] = true
					}
				}
			}
		}
	}
	// the session variable of the lookup
	var sv *types.Var
	inspectBody(lp, func(x ast.Node) bool {
		as, ok := x.(*ast.AssignStmt)
		if !ok || len(as.Lhs) != 2 || len(as.Rhs) != 1 {
			return true
		}
		if ie, isI := ast.Unparen(as.Rhs[0]).(*ast.IndexExpr); isI {
			if t := p.Term(ie.X); t.Op == "fld" && t.Obj == fSess {
				sv = identVar(p, as.Lhs[0])
			}
		}
		return true
	})
	okFeed := false
	why := "the listener never feeds the session found for the source address"
	for _, s := range p.CallsTo(p.Method("UDPSession", "kcpInput")) {
		if s.Fn != lp || s.Recv == nil || s.Recv.Op != "var" {
			continue
		}
		if sv != nil && s.Recv.Obj != types.Object(sv) {
			continue // (when the lookup is hidden in a helper every non-created receiver counts)
		}
		sv := sv
		if sv == nil {
			sv, _ = s.Recv.Obj.(*types.Var)
		}
		// created sessions are bound by newUDPSession: the feed of the existing one is dominated by no such assignment
		pt, _ := c.PointOf(s.Call)
		isNew := false
		for _, a := range p.Assignments(lp, sv) {
			if a.Rhs == nil {
				continue
			}
			if call, isC := ast.Unparen(a.Rhs).(*ast.CallExpr); isC && p.Callee(call) == p.Func("newUDPSession") {
				if ap, okA := c.PointOf(a.Node); okA && c.Dominates(ap, pt) {
					isNew = true
				}
			}
		}
		if isNew {
			continue
		}
		bad := ""
		for _, ct := range c.localDominatingConds(pt) {
			for _, a := range Conjuncts(ct) {
				mentions := false
				a.Walk(func(t *Term) {
					if t.Op == "var" {
						if v, ok := t.Obj.(*types.Var); ok && (v == hasConv || guarded[v]) {
							mentions = true
						}
					}
				})
				if !mentions {
					continue
				}
				// true when hasConv is false?
				okA := false
				ds := []*Term{a}
				if a.Op == "||" {
					ds = a.Args
				}
				for _, d := range ds {
					if d.Key() == not(tVar(hasConv)).Key() {
						okA = true
					}
				}
				if !okA {
					bad = pretty(a.Key())
				}
			}
		}
		if bad == "" {
			okFeed = true
		} else {
			why = "the session found for the source address is fed only under " + bad + ", which fails for a datagram without a readable conversation id"
		}
	}
	r.check(okFeed, "C07.F12", lp.Name, p.Pos(lp.Node), "parity fed to the existing session", "fed under !hasConv || conv == s.kcp.conv", why+": parity packets carry no KCP header, so none reaches the FEC decoder of an accepted session and lost data is never reconstructed on the listener side")
}

// checkSealResultKept: C07.F15.
func checkSealResultKept(p *Prog, r *Report, rule string) {
	n := 0
	p.AllCalls(func(call *ast.CallExpr, fi *FuncInfo) {
		f := p.Callee(call)
		if f == nil || f.Name() != "Seal" || len(call.Args) != 4 {
			return
		}
		root := rootFuncInfo(fi)
		if root.Obj != nil && root.Obj.Name() == "Seal" {
			return // the wrapper itself
		}
		n++
		construct := fmt.Sprintf("result of Seal #%d in %s", n, fi.Name)
		switch par := p.parents[call].(type) {
		case *ast.AssignStmt:
			if len(par.Lhs) != 1 {
				r.bad(rule, fi.Name, p.Pos(call), construct, "unexpected assignment form", "")
				return
			}
			switch lhs := ast.Unparen(par.Lhs[0]).(type) {
			case *ast.IndexExpr:
				r.ok(rule, fi.Name, p.Pos(call), construct, "stored into "+exprString(lhs))
				return
			case *ast.Ident:
				v, _ := p.Info.ObjectOf(lhs).(*types.Var)
				if v == nil {
					break
				}
				// a range variable is re-bound at the next iteration: only reads later in the same body count
				var body *ast.BlockStmt
				for q := p.parents[ast.Node(par)]; q != nil; q = p.parents[q] {
					if rs, ok := q.(*ast.RangeStmt); ok {
						for _, e := range []ast.Expr{rs.Key, rs.Value} {
							if id, ok := e.(*ast.Ident); ok && p.Info.ObjectOf(id) == types.Object(v) {
								body = rs.Body
							}
						}
					}
					if _, ok := q.(*ast.FuncLit); ok {
						break
					}
				}
				used := false
				c := p.CFG(fi)
				from, okF := c.PointOf(par)
				inspectBody(rootFuncInfo(fi), func(x ast.Node) bool {
					id, ok := x.(*ast.Ident)
					if !ok || p.Info.Uses[id] != types.Object(v) {
						return true
					}
					// not the left-hand side of a plain assignment
					if as, ok := p.parents[id].(*ast.AssignStmt); ok && as.Tok == token.ASSIGN {
						for _, l := range as.Lhs {
							if l == ast.Expr(id) {
								return true
							}
						}
					}
					if body != nil {
						if id.Pos() > par.End() && id.Pos() < body.End() && id.Pos() > body.Pos() {
							used = true
						}
						return true
					}
					if to, okT := c.PointOf(id); okF && okT && c.Reaches(Point{from.B, from.I + 1}, to) {
						used = true
					}
					return true
				})
				if used {
					r.ok(rule, fi.Name, p.Pos(call), construct, "kept in "+v.Name()+", which is read afterwards")
				} else {
					r.bad(rule, fi.Name, p.Pos(call), construct, "the sealed slice is left in "+v.Name()+" and never read (a loop variable is re-bound at the next iteration): the packet goes out with the length it had before sealing, without its authentication tag — the receiver's Open fails and, for parity, no lost packet is ever reconstructed under an AEAD cipher", "")
				}
				return
			}
			r.bad(rule, fi.Name, p.Pos(call), construct, "the sealed slice is stored somewhere the transmit step cannot be shown to read", "")
		case *ast.ReturnStmt:
			r.ok(rule, fi.Name, p.Pos(call), construct, "returned to the caller")
		default:
			r.bad(rule, fi.Name, p.Pos(call), construct, "the slice returned by Seal is dropped: the packet goes out without its authentication tag", "")
		}
	})
	if n == 0 {
		r.ok(rule, "postProcess", "-", "Seal results", "no AEAD sealing in the package")
	}
}
