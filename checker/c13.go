package main

import (
	"fmt"
	"go/ast"
	"go/token"
	"go/types"
	"golang.org/x/tools/go/cfg"
	"sort"
	"strings"
)

func init() {
	register(&propCheck{
		id:  "C13",
		run: checkC13,
		explain: "Each way of failing to wake a blocked Read/Write/Accept is a structural defect of a wait loop, decided on the go/cfg graphs: a missing select arm (event, timer, socket error, die), a wake-up after which " +
			"the deadline is not loaded again, a timer that is re-armed while the select variable stays nil (typestate over {deadline outcome, freshness, timer, select channel}, disjunctive, with witness path), a " +
			"timer duration that is not time.Until(the deadline just loaded), a deadline store without a wake-up of the waiting function, input/update paths that do not post the availability token after the last " +
			"state change, a returning reader that keeps the single token while data remains (baton passing), close/error broadcasts out of order, data tests after the die test, blocking notifies. " +
			"Return times and fairness are not decided.",
		assume: []string{
			"time.Timer/channel semantics of the Go runtime",
			"what 'available' means is fixed by the code's own tests: readable = len(bufptr) > 0 or PeekSize() > 0; writable = WaitSnd() < snd_wnd",
		},
	})
}

// waitFunc describes a function that blocks in a select.
type waitFunc struct {
	fi      *FuncInfo
	sel     *ast.SelectStmt
	event   *ast.CommClause
	timer   *ast.CommClause
	sockerr *ast.CommClause
	die     *ast.CommClause
	evChan  *types.Var // channel field received in the event arm
}

func commChan(p *Prog, cc *ast.CommClause) (*Term, bool) {
	switch cm := cc.Comm.(type) {
	case *ast.ExprStmt:
		if u, ok := ast.Unparen(cm.X).(*ast.UnaryExpr); ok && u.Op == token.ARROW {
			return p.Term(u.X), false
		}
	case *ast.AssignStmt:
		if len(cm.Rhs) == 1 {
			if u, ok := ast.Unparen(cm.Rhs[0]).(*ast.UnaryExpr); ok && u.Op == token.ARROW {
				return p.Term(u.X), false
			}
		}
	case *ast.SendStmt:
		return p.Term(cm.Chan), true
	}
	return nil, false
}

func selectHasDefault(s *ast.SelectStmt) bool {
	for _, c := range s.Body.List {
		if c.(*ast.CommClause).Comm == nil {
			return true
		}
	}
	return false
}

func exprMentions(p *Prog, n ast.Node, obj types.Object) bool {
	found := false
	ast.Inspect(n, func(x ast.Node) bool {
		if id, ok := x.(*ast.Ident); ok && p.Info.Uses[id] == obj {
			found = true
		}
		return true
	})
	return found
}

func returnsMention(p *Prog, cc *ast.CommClause, pred func(ast.Expr) bool) bool {
	ok := false
	// the arm may leave its result in a local that the function returns after the select (single-exit style)
	for _, st := range cc.Body {
		as, isAs := st.(*ast.AssignStmt)
		if !isAs || len(as.Lhs) != len(as.Rhs) {
			continue
		}
		for i, rhs := range as.Rhs {
			v := identVar(p, as.Lhs[i])
			if v == nil || !pred(rhs) {
				continue
			}
			// a return after the select that hands v out, reached from this arm without v being overwritten
			if fn := p.EnclosingFunc(cc); fn != nil {
				c := p.CFG(fn)
				if pt, okP := c.PointOf(as); okP {
					res := c.FindPath(PathQuery{From: Point{pt.B, pt.I + 1}, ExitIsTarget: true, IsBarrier: func(nd ast.Node, _ Point) bool {
						if rs, isR := nd.(*ast.ReturnStmt); isR {
							for _, e := range rs.Results {
								if mentionsVars(p, e, map[*types.Var]bool{v: true}) {
									return true
								}
							}
						}
						return false
					}})
					if !res.Found {
						ok = true
					}
				}
			}
		}
	}
	for _, st := range cc.Body {
		ast.Inspect(st, func(x ast.Node) bool {
			if ret, isRet := x.(*ast.ReturnStmt); isRet {
				for _, e := range ret.Results {
					if pred(e) {
						ok = true
					}
				}
			}
			return true
		})
	}
	return ok
}

func isTimeChan(t types.Type) bool {
	ch, ok := t.Underlying().(*types.Chan)
	if !ok {
		return false
	}
	n := namedOf(ch.Elem())
	return n != nil && n.Obj().Pkg() != nil && n.Obj().Pkg().Path() == "time" && n.Obj().Name() == "Time"
}

func checkC13(p *Prog, r *Report) {
	r.rule("C13.W1", "every blocking select of Read/WriteBuffers/AcceptKCP has an event arm, a timer arm returning a timeout error, a socket-error arm returning the stored error and a die arm returning a closed-pipe error", 12)
	r.rule("C13.W2", "on every path from a wake-up through the event channel back to the blocking select the deadline is loaded again", 2)
	r.rule("C13.W3", "typestate at the blocking select: the deadline was loaded since the last wake-up; if it was non-zero the timer is armed and the timeout arm selects on its channel; if it was zero the timeout arm is disabled", 2)
	r.rule("C13.W4", "the duration given to NewTimer/Reset is time.Until(d) of the deadline value d loaded on that path", 5)
	r.rule("C13.W5a", "every store to a deadline that a wait function reads is followed on every path by a wake-up of that function's event channel", 4)
	r.rule("C13.W5b", "in kcpInput and update, after the last call that changes the core (KCP.Input / flush) every path posts the read token under PeekSize() > 0 and the write token under WaitSnd() < snd_wnd before returning", 5)
	r.rule("C13.W5d", "a Read that consumed data passes the read token on before returning whenever data remains readable (len(bufptr) > 0 or PeekSize() > 0)", 3)
	r.rule("C13.W6", "die is closed only inside dieOnce.Do; a second Close returns an error; socket errors are stored before their channel is closed", 5)
	r.rule("C13.W7", "Read tests buffered data before blocking on a select that contains die; WriteBuffers passes a non-blocking die/error test before every kcp.Send", 2)
	r.rule("C13.W14", "permanent conditions are broadcast: the channels that announce them (die, chSocketReadError, chSocketWriteError of sessions and listener) are closed, never sent on — a token sent on such a channel wakes one of the blocked callers and is gone for every later one", 5)
	r.rule("C13.W13", "after Close, Read first drains what had been received: the unread tail of a partially read message is modified by Read alone (= C01.S10 ownership half)", 2)
	r.rule("C13.W12", "no deadlock by lock order: the relation 'acquired while held' between the mutex classes of the package (interprocedural: held at a call site, acquired anywhere below it) has no cycle — a goroutine blocked in such a cycle, and every Read/Write/Accept/Close waiting for one of its locks, never wakes", 1)
	r.rule("C13.W11", "every transmit function reports a failed socket write: from err != nil of WriteTo/WriteBatch every path calls notifyWriteError, or the error is returned and no caller discards it", 2)
	r.rule("C13.W10", "a deadline change reaches every goroutine blocked on that deadline: the wake-up is a broadcast (close of a channel), or a caller woken through the one-slot event channel passes the token on before it blocks again without having made progress", 0)
	r.rule("C13.W9", "every receive loop reports a failed socket read: from err != nil every path to the return calls notifyReadError of the loop's owner (sessions may skip it only when the session itself is closed); the listener's notifyReadError propagates to every session it owns", 3)
	r.rule("C13.W8", "every send on an event channel is non-blocking (select with default)", 2)

	checkReadErrorReporting(p, r)
	checkWriteErrorReporting(p, r)
	checkLockOrder(p, r, "C13.W12")
	checkCarryOverOwnedByRead(p, r, "C13.W13")
	checkPermanentConditionsBroadcast(p, r)

	// ---- wait functions
	var waits []*waitFunc
	for _, name := range []string{"(*UDPSession).Read", "(*UDPSession).WriteBuffers", "(*Listener).AcceptKCP"} {
		fi := p.FuncByName(name)
		if fi == nil {
			brokenCheck("ANCHOR-UNRESOLVED role=func %s", name)
		}
		var sels []*ast.SelectStmt
		inspectBody(fi, func(n ast.Node) bool {
			if s, ok := n.(*ast.SelectStmt); ok && !selectHasDefault(s) {
				sels = append(sels, s)
			}
			return true
		})
		if len(sels) == 0 {
			r.bad("C13.W1", fi.Name, p.Pos(fi.Node), "blocking select", "the wait function has no blocking select", "")
			continue
		}
		for _, sel := range sels {
			w := &waitFunc{fi: fi, sel: sel}
			for _, cl := range sel.Body.List {
				cc := cl.(*ast.CommClause)
				ch, isSend := commChan(p, cc)
				if ch == nil || isSend {
					continue
				}
				switch {
				case ch.Op == "fld" && (ch.Obj.Name() == "chReadEvent" || ch.Obj.Name() == "chWriteEvent" || ch.Obj.Name() == "chAccepts"):
					w.event = cc
					w.evChan, _ = ch.Obj.(*types.Var)
				case ch.Op == "fld" && ch.Obj.Name() == "die":
					w.die = cc
				case ch.Op == "fld" && strings.HasPrefix(ch.Obj.Name(), "chSocket") && strings.HasSuffix(ch.Obj.Name(), "Error"):
					w.sockerr = cc
				case (ch.Op == "var" || ch.Op == "fld") && isTimeChan(ch.Obj.Type()):
					w.timer = cc
				}
			}
			waits = append(waits, w)
			errTimeout := p.Var("errTimeout")
			check := func(cc *ast.CommClause, arm string, pred func(ast.Expr) bool, what string) {
				construct := "select arm: " + arm
				if cc == nil {
					r.bad("C13.W1", fi.Name, p.Pos(sel), construct, "the blocking select has no "+arm+" arm", "")
					return
				}
				if pred != nil && !returnsMention(p, cc, pred) {
					r.bad("C13.W1", fi.Name, p.Pos(cc), construct, "the "+arm+" arm does not return "+what, "")
					return
				}
				r.ok("C13.W1", fi.Name, p.Pos(cc), construct, "present"+map[bool]string{true: ", returns " + what, false: ""}[pred != nil])
			}
			check(w.event, "event", nil, "")
			check(w.timer, "timer", func(e ast.Expr) bool { return exprMentions(p, e, errTimeout) }, "an error derived from errTimeout")
			check(w.sockerr, "socket-error", func(e ast.Expr) bool {
				t := p.Term(e)
				ok := false
				t.Walk(func(x *Term) {
					if x.Op == "fld" && strings.HasPrefix(x.Obj.Name(), "socket") && strings.HasSuffix(x.Obj.Name(), "Error") {
						ok = true
					}
				})
				return ok
			}, "the stored socket error")
			check(w.die, "die", func(e ast.Expr) bool {
				ok := false
				ast.Inspect(e, func(x ast.Node) bool {
					if s, isSel := x.(*ast.SelectorExpr); isSel && s.Sel.Name == "ErrClosedPipe" {
						ok = true
					}
					return true
				})
				return ok
			}, "an error derived from io.ErrClosedPipe")
		}
	}

	// ---- W2, W3, W4 on the session wait loops
	for _, w := range waits {
		if w.event == nil || w.evChan == nil || w.evChan.Name() == "chAccepts" {
			continue
		}
		checkDeadlineReread(p, r, w)
		checkWaitTypestate(p, r, w)
	}
	checkTimerDurations(p, r, waits)
	checkDeadlineStores(p, r, waits)
	checkInputNotifies(p, r)
	checkBaton(p, r)
	checkCloseBroadcast(p, r)
	checkAfterClose(p, r, waits)
	checkNotifyNonBlocking(p, r)
}

// deadlineLoadIn: nodes of fi that load an atomic.Value field and assert time.Time.
func isDeadlineLoad(p *Prog, n ast.Node) (*types.Var, bool) {
	return isDeadlineLoadDepth(p, n, 0)
}

func isDeadlineLoadDepth(p *Prog, n ast.Node, depth int) (*types.Var, bool) {
	var fld *types.Var
	inspectShallow(n, func(x ast.Node) bool {
		// an accessor: d, ok := l.acceptDeadline(), whose body loads the deadline and returns what it loaded first
		if hc, isCall := x.(*ast.CallExpr); isCall && depth == 0 {
			if f := p.Callee(hc); f != nil && f.Pkg() == p.Types && !f.Exported() {
				if h := p.FuncOf(f); h != nil && h.Body != nil && len(h.Body.List) <= 4 {
					var hf *types.Var
					var dv *types.Var
					okRet := true
					for _, st := range h.Body.List {
						if as, isAs := st.(*ast.AssignStmt); isAs && len(as.Lhs) >= 1 {
							if ff, isL := isDeadlineLoadDepth(p, as, 1); isL {
								hf = ff
								dv = identVar(p, as.Lhs[0])
							}
						}
						if rs, isR := st.(*ast.ReturnStmt); isR {
							if len(rs.Results) == 0 || dv == nil {
								okRet = false
							} else if t := p.Term(rs.Results[0]); !(t.Op == "var" && t.Obj == types.Object(dv)) {
								okRet = false
							}
						}
					}
					if hf != nil && okRet {
						fld = hf
					}
				}
			}
		}
		ta, ok := x.(*ast.TypeAssertExpr)
		if !ok || ta.Type == nil {
			return true
		}
		if nt := namedOf(p.Info.TypeOf(ta.Type)); nt == nil || nt.Obj().Pkg() == nil || nt.Obj().Pkg().Path() != "time" || nt.Obj().Name() != "Time" {
			return true
		}
		call, ok := ast.Unparen(ta.X).(*ast.CallExpr)
		if !ok {
			return true
		}
		f := p.Callee(call)
		if f == nil || !isExtFunc(f, "sync/atomic", "Value", "Load") {
			return true
		}
		if sel, ok := ast.Unparen(call.Fun).(*ast.SelectorExpr); ok {
			if t := p.Term(sel.X); t.Op == "fld" {
				fld, _ = t.Obj.(*types.Var)
			}
		}
		return true
	})
	return fld, fld != nil
}

func (w *waitFunc) selectPoint(p *Prog) (Point, bool) {
	c := p.CFG(w.fi)
	// the comm statements are hoisted in front of the select by go/cfg
	for _, cl := range w.sel.Body.List {
		if cm := cl.(*ast.CommClause).Comm; cm != nil {
			if pt, ok := c.where[cm]; ok {
				return pt, true
			}
		}
	}
	return Point{}, false
}

func (w *waitFunc) eventBodyPoint(p *Prog) (Point, bool) {
	c := p.CFG(w.fi)
	for _, b := range c.live {
		if b.Stmt == w.event && b.Kind.String() == "SelectCaseBody" {
			return Point{b, 0}, true
		}
	}
	return Point{}, false
}

func checkDeadlineReread(p *Prog, r *Report, w *waitFunc) {
	c := p.CFG(w.fi)
	from, ok1 := w.eventBodyPoint(p)
	sel, ok2 := w.selectPoint(p)
	if !ok1 || !ok2 {
		r.brokenf("cannot locate the select of %s in its CFG", w.fi.Name)
		return
	}
	res := c.FindPath(PathQuery{From: from, IsTarget: func(_ ast.Node, pt Point) bool { return pt == sel },
		IsBarrier: func(n ast.Node, _ Point) bool { _, ok := isDeadlineLoad(p, n); return ok }})
	construct := "wake-up through " + w.evChan.Name() + " -> next blocking select"
	if res.Found {
		r.bad("C13.W2", w.fi.Name, p.Pos(w.event), construct, "a path returns to the blocking select without loading the deadline again (a deadline set or changed while blocked is not honoured)", c.DescribePath(res.Path))
	} else {
		r.ok("C13.W2", w.fi.Name, p.Pos(w.event), construct, "the deadline is loaded on every path back to the select")
	}
}

// ---------------------------------------------------------------- typestate (E-WAIT)

type wstate struct {
	D     int // 0 unloaded, 1 zero, 2 nonzero, 3 loaded (branch pending)
	Fresh bool
	T     int // 0 none, 1 armed, 2 stopped
	C     int // 0 nil, 1 timerC
}

func (s wstate) String() string {
	return fmt.Sprintf("{deadline:%s fresh:%v timer:%s selectChan:%s}", [...]string{"unloaded", "zero", "nonzero", "loaded"}[s.D], s.Fresh, [...]string{"none", "armed", "stopped"}[s.T], [...]string{"nil", "timer.C"}[s.C])
}

func checkWaitTypestate(p *Prog, r *Report, w *waitFunc) {
	c := p.CFG(w.fi)
	sel, ok := w.selectPoint(p)
	if !ok {
		return
	}
	// variables
	var timerVar, chanVar *types.Var
	if w.timer != nil {
		if ch, _ := commChan(p, w.timer); ch != nil && ch.Op == "var" {
			chanVar, _ = ch.Obj.(*types.Var)
		}
	}
	inspectBody(w.fi, func(n ast.Node) bool {
		if id, ok := n.(*ast.Ident); ok {
			if v, ok := p.Info.Defs[id].(*types.Var); ok {
				if pt, ok := v.Type().(*types.Pointer); ok {
					if nt := namedOf(pt.Elem()); nt != nil && nt.Obj().Pkg() != nil && nt.Obj().Pkg().Path() == "time" && nt.Obj().Name() == "Timer" {
						timerVar = v
					}
				}
			}
		}
		return true
	})
	construct := "blocking select of " + w.fi.Name
	if timerVar == nil || chanVar == nil {
		r.bad("C13.W3", w.fi.Name, p.Pos(w.sel), construct, "no *time.Timer variable / select channel variable found for the timeout arm", "")
		return
	}
	isVar := func(e ast.Expr, v *types.Var) bool {
		id, ok := ast.Unparen(e).(*ast.Ident)
		return ok && (p.Info.Uses[id] == v || p.Info.Defs[id] == v)
	}
	isTimerC := func(e ast.Expr) bool {
		s, ok := ast.Unparen(e).(*ast.SelectorExpr)
		return ok && s.Sel.Name == "C" && isVar(s.X, timerVar)
	}
	transfer := func(st wstate, n ast.Node) wstate {
		if _, isDefer := n.(*ast.DeferStmt); isDefer {
			return st
		}
		if _, ok := isDeadlineLoad(p, n); ok {
			st.D, st.Fresh = 3, true
		}
		inspectShallow(n, func(x ast.Node) bool {
			switch y := x.(type) {
			case *ast.AssignStmt:
				for i, l := range y.Lhs {
					if i >= len(y.Rhs) {
						break
					}
					if isVar(l, timerVar) {
						if call, ok := ast.Unparen(y.Rhs[i]).(*ast.CallExpr); ok {
							if f := p.Callee(call); f != nil && isExtFunc(f, "time", "", "NewTimer") {
								st.T = 1
							}
						}
					}
					if isVar(l, chanVar) {
						if isTimerC(y.Rhs[i]) {
							st.C = 1
						} else {
							st.C = 0
						}
					}
				}
			case *ast.CallExpr:
				if f := p.Callee(y); f != nil {
					if sel, ok := ast.Unparen(y.Fun).(*ast.SelectorExpr); ok && isVar(sel.X, timerVar) {
						if isExtFunc(f, "time", "Timer", "Reset") {
							st.T = 1
						}
						if isExtFunc(f, "time", "Timer", "Stop") && st.T != 0 {
							st.T = 2
						}
					}
				}
			}
			return true
		})
		return st
	}
	// edge filter from a condition term
	filter := func(st wstate, cond *Term) (wstate, bool) {
		for _, a := range Conjuncts(cond) {
			switch {
			case isNilEq(a) && nilEqVar(a) == timerVar:
				if st.T != 0 {
					return st, false
				}
			case a.Op == "!=" && len(a.Args) == 2 && (a.Args[0].Op == "nil" || a.Args[1].Op == "nil"):
				if v := nilEqVar(&Term{Op: "==", Args: a.Args}); v == timerVar && st.T == 0 {
					return st, false
				}
			}
		}
		return st, true
	}
	type key struct {
		b  int32
		st wstate
	}
	type item struct {
		pt   Point
		st   wstate
		prev *item
	}
	var violations []*item
	seen := map[key]bool{}
	evBody, _ := w.eventBodyPoint(p)
	start := &item{pt: Point{c.Entry(), 0}, st: wstate{}}
	work := []*item{start}
	for len(work) > 0 {
		it := work[0]
		work = work[1:]
		k := key{it.pt.B.Index, it.st}
		if it.pt.I == 0 {
			if seen[k] {
				continue
			}
			seen[k] = true
		}
		st := it.st
		b := it.pt.B
		if it.pt == evBody {
			st.Fresh = false
		}
		for i := it.pt.I; i < len(b.Nodes); i++ {
			if (Point{b, i}) == sel {
				okState := st.Fresh && ((st.D == 2 && st.T == 1 && st.C == 1) || (st.D == 1 && st.C == 0) || (st.D == 0 && st.C == 0 && st.T == 0))
				if !okState {
					violations = append(violations, &item{pt: Point{b, i}, st: st, prev: it})
				}
			}
			st = transfer(st, b.Nodes[i])
		}
		ct := c.CondTerm(b)
		for si, s := range b.Succs {
			if !s.Live {
				continue
			}
			ns := st
			if ct != nil && len(b.Succs) == 2 && b.Succs[0] != b.Succs[1] {
				cond := ct
				if si == 1 {
					cond = Negate(ct)
				}
				// deadline branch: the condition tests the loaded value
				if st.D == 3 {
					isDl := false
					cond.Walk(func(x *Term) {
						if x.Op == "call" {
							if f, ok := x.Obj.(*types.Func); ok && isExtFunc(f, "time", "Time", "IsZero") {
								isDl = true
							}
						}
					})
					if isDl {
						if si == 0 {
							ns.D = 2
						} else {
							ns.D = 1
						}
					}
				}
				var feasible bool
				ns, feasible = filter(ns, cond)
				if !feasible {
					continue
				}
			}
			work = append(work, &item{pt: Point{s, 0}, st: ns, prev: it})
		}
	}
	if len(violations) == 0 {
		r.ok("C13.W3", w.fi.Name, p.Pos(w.sel), construct, fmt.Sprintf("in all %d reachable (block, state) pairs the select is entered with a fresh deadline and a matching timer/select-channel state", len(seen)))
		return
	}
	v := violations[0]
	var path []string
	for x := v; x != nil; x = x.prev {
		if len(x.pt.B.Nodes) > 0 {
			n := x.pt.B.Nodes[0]
			if x.pt.I < len(x.pt.B.Nodes) {
				n = x.pt.B.Nodes[x.pt.I]
			}
			path = append([]string{fmt.Sprintf("%s%s", p.Pos(n), x.st)}, path...)
		}
	}
	if len(path) > 14 {
		path = append(path[:4], append([]string{"…"}, path[len(path)-9:]...)...)
	}
	why := "the deadline was not loaded since the last wake-up"
	switch {
	case v.st.Fresh && v.st.D == 2 && v.st.T == 1 && v.st.C == 0:
		why = "the deadline is set and the timer is armed, but the timeout arm selects on a nil channel (the timeout can never fire)"
	case v.st.Fresh && v.st.D == 2 && v.st.T != 1:
		why = "the deadline is set but no armed timer exists"
	case v.st.Fresh && v.st.D == 1 && v.st.C == 1:
		why = "the deadline was cleared but the timeout arm still selects on the old timer"
	}
	r.bad("C13.W3", w.fi.Name, p.Pos(w.sel), construct, why+"; state at the select: "+v.st.String(), strings.Join(path, " -> "))
}

func checkTimerDurations(p *Prog, r *Report, waits []*waitFunc) {
	seenFn := map[*FuncInfo]bool{}
	for _, w := range waits {
		if seenFn[w.fi] {
			continue
		}
		seenFn[w.fi] = true
		fi := w.fi
		fa := p.FactsOf(fi)
		inspectBody(fi, func(n ast.Node) bool {
			call, ok := n.(*ast.CallExpr)
			if !ok {
				return true
			}
			f := p.Callee(call)
			if f == nil || !(isExtFunc(f, "time", "", "NewTimer") || isExtFunc(f, "time", "Timer", "Reset")) || len(call.Args) != 1 {
				return true
			}
			construct := f.Name() + "(" + exprString(call.Args[0]) + ")"
			t := fa.AtNode(call).Resolve(p.Term(call.Args[0]))
			ok = false
			if t.Op == "call" {
				if tf, _ := t.Obj.(*types.Func); tf != nil && isExtFunc(tf, "time", "", "Until") && len(t.Args) == 1 && t.Args[0].Op == "var" {
					// the variable must be bound by the deadline load that dominates the call
					v, _ := t.Args[0].Obj.(*types.Var)
					for _, a := range p.Assignments(fi, v) {
						if _, isLoad := isDeadlineLoad(p, a.Node); isLoad {
							c := p.CFG(fi)
							lp, ok1 := c.PointOf(a.Node)
							cp, ok2 := c.PointOf(call)
							if ok1 && ok2 && c.Dominates(lp, cp) {
								ok = true
							}
						}
					}
				}
			}
			r.check(ok, "C13.W4", fi.Name, p.Pos(call), construct, "time.Until(deadline loaded on this path)", "the timer is not armed with time.Until(d) of the deadline loaded on this path (it may fire early or late)")
			return true
		})
	}
}

// notifiers of a channel field: functions on every path of which a non-blocking
// send on X.<chan> is attempted (directly or through another notifier).
func (p *Prog) notifiers(ch *types.Var) map[*types.Func]bool {
	key := "notifiers:" + ch.Name() + p.FieldOwner(ch)
	if v, ok := p.memo[key]; ok {
		return v.(map[*types.Func]bool)
	}
	out := map[*types.Func]bool{}
	for iter := 0; iter < 5; iter++ {
		changed := false
		for _, fi := range p.funcs {
			if fi.Obj == nil || out[fi.Obj] {
				continue
			}
			c := p.CFG(fi)
			res := c.FindPath(PathQuery{From: Point{c.Entry(), 0}, ExitIsTarget: true, IsBarrier: func(n ast.Node, _ Point) bool { return p.isWakeNode(n, ch, out) }})
			if !res.Found && len(c.Exits()) > 0 {
				// every path passes a wake node; make sure at least one exists
				has := false
				for _, pt := range c.AllPoints() {
					if p.isWakeNode(pt.Node(), ch, out) {
						has = true
					}
				}
				if has {
					out[fi.Obj] = true
					changed = true
				}
			}
		}
		if !changed {
			break
		}
	}
	p.memo[key] = out
	return out
}

// isWakeNode: n attempts a non-blocking send on X.ch, or calls a notifier of ch.
func (p *Prog) isWakeNode(n ast.Node, ch *types.Var, notif map[*types.Func]bool) bool {
	if n == nil {
		return false
	}
	if _, isDefer := n.(*ast.DeferStmt); isDefer {
		return false
	}
	if ss, ok := n.(*ast.SendStmt); ok {
		if t := p.Term(ss.Chan); t.Op == "fld" && t.Obj == ch {
			if cc, ok := p.parents[ss].(*ast.CommClause); ok {
				if sel, ok := p.parents[p.parents[cc]].(*ast.SelectStmt); ok && selectHasDefault(sel) {
					return true
				}
			}
		}
	}
	found := false
	inspectShallow(n, func(x ast.Node) bool {
		if call, ok := x.(*ast.CallExpr); ok {
			if f := p.Callee(call); f != nil && notif[f] {
				found = true
			}
			// postEvent(s.chReadEvent): a helper that leaves a token in the channel it is given
			if f := p.Callee(call); f != nil && f.Pkg() == p.Types {
				for i, a := range call.Args {
					if t := p.Term(a); t.Op == "fld" && t.Obj == types.Object(ch) && p.paramNotifier(p.FuncOf(f), i) {
						found = true
					}
				}
			}
		}
		return true
	})
	return found
}

// paramNotifier: on every path h performs a non-blocking send (a select with default) on its idx-th parameter.
func (p *Prog) paramNotifier(h *FuncInfo, idx int) bool {
	if h == nil || h.Body == nil {
		return false
	}
	key := fmt.Sprintf("paramNotifier:%s:%d", h.Name, idx)
	if v, ok := p.memo[key]; ok {
		return v.(bool)
	}
	p.memo[key] = false
	pv, _ := h.paramObj(p, idx).(*types.Var)
	res := false
	if pv != nil {
		c := p.CFG(h)
		has := false
		isSend := func(n ast.Node, _ Point) bool {
			ss, ok := n.(*ast.SendStmt)
			if !ok {
				return false
			}
			if t := p.Term(ss.Chan); !(t.Op == "var" && t.Obj == types.Object(pv)) {
				return false
			}
			if cc, ok := p.parents[ss].(*ast.CommClause); ok {
				if sel, ok := p.parents[p.parents[cc]].(*ast.SelectStmt); ok && selectHasDefault(sel) {
					has = true
					return true
				}
			}
			return false
		}
		for _, pt := range c.AllPoints() {
			isSend(pt.Node(), pt)
		}
		if has {
			r := c.FindPath(PathQuery{From: Point{c.Entry(), 0}, ExitIsTarget: true, IsBarrier: isSend})
			res = !r.Found
		}
	}
	p.memo[key] = res
	return res
}

func checkDeadlineStores(p *Prog, r *Report, waits []*waitFunc) {
	// deadline field -> event channel of the wait function that loads it
	type dl struct {
		fld *types.Var
		ev  *types.Var
		w   *waitFunc
	}
	var dls []dl
	for _, w := range waits {
		inspectBody(w.fi, func(n ast.Node) bool {
			if st, ok := n.(ast.Stmt); ok {
				if f, ok := isDeadlineLoad(p, st); ok {
					dup := false
					for _, d := range dls {
						if d.fld == f {
							dup = true
						}
					}
					if !dup {
						dls = append(dls, dl{f, w.evChan, w})
					}
					return false
				}
			}
			return true
		})
	}
	if len(dls) == 0 {
		r.bad("C13.W5a", "", "-", "deadline fields", "no wait function loads a deadline", "")
	}
	for _, d := range dls {
		owner := p.FieldOwner(d.fld)
		// stores: X.fld.Store(..)
		n := 0
		p.AllCalls(func(call *ast.CallExpr, fi *FuncInfo) {
			f := p.Callee(call)
			if f == nil || !isExtFunc(f, "sync/atomic", "Value", "Store") {
				return
			}
			sel, ok := ast.Unparen(call.Fun).(*ast.SelectorExpr)
			if !ok {
				return
			}
			if t := p.Term(sel.X); t.Op != "fld" || t.Obj != d.fld {
				return
			}
			n++
			construct := "store(" + owner + ")"
			if d.ev == nil || d.ev.Name() == "chAccepts" {
				r.bad("C13.W5a", fi.Name, p.Pos(call), construct+":no-wakeup", "the deadline is stored but "+d.w.fi.Name+" has no event channel through which a blocked call could be told to re-read it: a deadline set while Accept is blocked is not honoured", "")
				return
			}
			notif := p.notifiers(d.ev)
			c := p.CFG(fi)
			pt, _ := c.PointOf(call)
			// W10: the wake-up must reach every blocked caller, not just one
			if why := p.singleTokenWake(d.w, d.ev, notif); why != "" {
				r.bad("C13.W10", fi.Name, p.Pos(call), construct+":single-token", why, "")
			} else {
				r.ok("C13.W10", fi.Name, p.Pos(call), construct+":single-token", "the deadline change reaches every blocked caller (broadcast, or the token is passed on before waiting again)")
			}
			res := c.FindPath(PathQuery{From: Point{pt.B, pt.I + 1}, ExitIsTarget: true, IsBarrier: func(x ast.Node, _ Point) bool { return p.isWakeNode(x, d.ev, notif) }})
			if res.Found {
				r.bad("C13.W5a", fi.Name, p.Pos(call), construct, "a path returns after storing the deadline without waking "+d.w.fi.Name+" through "+d.ev.Name(), c.DescribePath(res.Path))
			} else {
				r.ok("C13.W5a", fi.Name, p.Pos(call), construct, "followed on every path by a wake-up through "+d.ev.Name())
			}
		})
		if n == 0 {
			r.bad("C13.W5a", "", "-", "store("+owner+")", "no setter stores this deadline", "")
		}
	}
}

// availability tests
func (p *Prog) readAvailTerm(kcp *Term) *Term {
	return lt(tConst(0), normTerm(tCall(p.Method("KCP", "PeekSize"), kcp)))
}

func (p *Prog) writeAvailTerm(kcp *Term) *Term {
	return p.ExpandHelpers(lt(normTerm(tCall(p.Method("KCP", "WaitSnd"), kcp)), p.F(kcp, "KCP", "snd_wnd")))
}

// notifyCheckNode: node n is an availability test `avail` (as a whole branch
// condition, after resolving locals) whose true edge leads to a wake-up of ev, or
// an unconditional wake-up.
func (p *Prog) isNotifyCheck(fi *FuncInfo, pt Point, ev *types.Var, avail func(*Term) bool) bool {
	c := p.CFG(fi)
	notif := p.notifiers(ev)
	n := pt.Node()
	if n == nil {
		return false
	}
	// branch condition?
	b := pt.B
	if pt.I == len(b.Nodes)-1 && len(b.Succs) == 2 {
		if ct := c.CondTerm(b); ct != nil {
			fs := p.FactsOf(fi).At(pt)
			rt := fs.Resolve(p.ExpandHelpers(ct))
			if avail(rt) || avail(ct) {
				// the true successor must wake on every path through it before rejoining
				tb := b.Succs[0]
				for _, nd := range tb.Nodes {
					if p.isWakeNode(nd, ev, notif) {
						return true
					}
				}
			}
			return false
		}
	}
	return false
}

func checkInputNotifies(p *Prog, r *Report) {
	chR := p.Field("UDPSession", "chReadEvent")
	chW := p.Field("UDPSession", "chWriteEvent")
	fKcp := p.Field("UDPSession", "kcp")
	type spec struct {
		fn     string
		change *types.Func
		read   bool
	}
	for _, sp := range []spec{{"(*UDPSession).kcpInput", p.Method("KCP", "Input"), true}, {"(*UDPSession).update", p.Method("KCP", "flush"), false}} {
		fi := p.FuncByName(sp.fn)
		if fi == nil {
			brokenCheck("ANCHOR-UNRESOLVED role=func %s", sp.fn)
		}
		c := p.CFG(fi)
		recv := p.selfVar(fi)
		kcp := tFld(tVar(recv), fKcp)
		sites := 0
		for _, s := range p.CallsTo(sp.change) {
			if s.Fn != fi {
				continue
			}
			sites++
			pt, _ := c.PointOf(s.Call)
			from := Point{pt.B, pt.I + 1}
			type ch struct {
				ev    *types.Var
				avail func(*Term) bool
				what  string
			}
			var chans []ch
			if sp.read {
				ra := p.readAvailTerm(kcp)
				chans = append(chans, ch{chR, func(t *Term) bool { return t.Key() == ra.Key() }, "PeekSize() > 0 -> notifyReadEvent"})
			}
			wa := p.writeAvailTerm(kcp)
			chans = append(chans, ch{chW, func(t *Term) bool { return t.Key() == wa.Key() }, "WaitSnd() < snd_wnd -> notifyWriteEvent"})
			for _, cx := range chans {
				construct := fmt.Sprintf("after %s at call #%d: %s", sp.change.Name(), sites, cx.what)
				res := c.FindPath(PathQuery{From: from, ExitIsTarget: true, IsBarrier: func(n ast.Node, q Point) bool {
					if p.isWakeNode(n, cx.ev, p.notifiers(cx.ev)) {
						// unconditional (not inside the true branch of an unrelated test)? accept any wake node
						// that is reached: being on the path means its controlling tests were passed
						return p.wakeIsAvailGuarded(fi, q, cx.ev, cx.avail)
					}
					if p.isNotifyCheck(fi, q, cx.ev, cx.avail) {
						return true
					}
					// a helper method of the same session that tests and notifies on every path of its own
					return p.callsNotifyingHelper(n, recv, cx.ev, cx.ev == chR, 0)
				}})
				if res.Found {
					r.bad("C13.W5b", fi.Name, p.Pos(s.Call), construct, "a path from this state change to the return does not test the availability and post the token afterwards (a blocked caller is not woken although it could proceed)", c.DescribePath(res.Path))
				} else {
					r.ok("C13.W5b", fi.Name, p.Pos(s.Call), construct, "every path to the return passes the availability test with its notify")
				}
			}
		}
		if sites == 0 {
			r.bad("C13.W5b", fi.Name, p.Pos(fi.Node), "state change", fi.Name+" does not call "+sp.change.Name(), "")
		}
	}
}

// wakeIsAvailGuarded: the wake node at q is either unconditional within the
// function or controlled only by the availability test.
func (p *Prog) wakeIsAvailGuarded(fi *FuncInfo, q Point, ev *types.Var, avail func(*Term) bool) bool {
	c := p.CFG(fi)
	fs := p.FactsOf(fi).At(Point{q.B, 0})
	for _, ct := range c.DominatingConds(q) {
		rt := fs.Resolve(p.ExpandHelpers(ct))
		if avail(rt) || avail(ct) {
			return true
		}
	}
	return false
}

func checkBaton(p *Prog, r *Report) {
	fi := p.FuncByName("(*UDPSession).Read")
	c := p.CFG(fi)
	chR := p.Field("UDPSession", "chReadEvent")
	recv := p.selfVar(fi)
	s := tVar(recv)
	kcp := tFld(s, p.Field("UDPSession", "kcp"))
	bufptr := tFld(s, p.Field("UDPSession", "bufptr"))
	needA := lt(tConst(0), mk("len", bufptr)).Key()
	needB := p.readAvailTerm(kcp).Key()
	// a "pass-on" node: unconditional wake, or a call to a helper / inline test whose guard covers both disjuncts
	covers := func(g *Term) bool {
		// g must be implied by each of the two availability atoms: g is a disjunction containing both
		ds := map[string]bool{}
		if g.Op == "||" {
			for _, a := range g.Args {
				ds[a.Key()] = true
			}
		} else {
			ds[g.Key()] = true
		}
		return ds[needA] && ds[needB]
	}
	notif := p.notifiers(chR)
	isPassOn := func(n ast.Node, q Point) bool {
		// inline: branch condition covering both, whose true edge wakes
		if q.I == len(q.B.Nodes)-1 && len(q.B.Succs) == 2 {
			if ct := c.CondTerm(q.B); ct != nil && covers(ct) {
				for _, nd := range q.B.Succs[0].Nodes {
					if p.isWakeNode(nd, chR, notif) {
						return true
					}
				}
			}
		}
		// helper call: a method on the same session whose body is `if G { wake }` with G covering both
		found := false
		inspectShallow(n, func(x ast.Node) bool {
			call, ok := x.(*ast.CallExpr)
			if !ok {
				return true
			}
			f := p.Callee(call)
			if f == nil || f.Pkg() != p.Types {
				return true
			}
			if notif[f] {
				found = true // unconditional notify
				return true
			}
			hf := p.FuncOf(f)
			if hf == nil || hf.Decl == nil {
				return true
			}
			hr := p.selfVar(hf)
			if hr == nil {
				return true
			}
			hc := p.CFG(hf)
			for _, b := range hc.live {
				if len(b.Succs) != 2 {
					continue
				}
				ct := hc.CondTerm(b)
				if ct == nil {
					continue
				}
				g := ct.Subst(map[types.Object]*Term{hr: s})
				if !covers(g) {
					continue
				}
				wakes := false
				for _, nd := range b.Succs[0].Nodes {
					if p.isWakeNode(nd, chR, notif) {
						wakes = true
					}
				}
				// the test must be reached on every path of the helper
				if wakes && hc.BlockDominates(hc.Entry(), b) {
					res := hc.FindPath(PathQuery{From: Point{hc.Entry(), 0}, ExitIsTarget: true, IsBarrier: func(_ ast.Node, qq Point) bool { return qq.B == b && qq.I == len(b.Nodes)-1 }})
					if !res.Found {
						found = true
					}
				}
			}
			return true
		})
		return found
	}
	// consumption points: kcp.Recv calls and stores to bufptr
	var cons []ast.Node
	for _, st := range p.CallsTo(p.Method("KCP", "Recv")) {
		if st.Fn == fi {
			cons = append(cons, st.Call)
		}
	}
	for _, st := range p.FieldStores(p.Field("UDPSession", "bufptr")) {
		if st.Fn == fi {
			cons = append(cons, st.Node)
		}
	}
	if len(cons) == 0 {
		r.bad("C13.W5d", fi.Name, p.Pos(fi.Node), "consumption points", "Read neither calls kcp.Recv nor advances bufptr", "")
		return
	}
	for i, cn := range cons {
		pt, _ := c.PointOf(cn)
		construct := fmt.Sprintf("consumption #%d (%s) -> return", i+1, nodeKey(pt.Node()))
		// later consumption points on the path reset the obligation: treat them as barriers too (they are checked on their own)
		res := c.FindPath(PathQuery{From: Point{pt.B, pt.I + 1}, ExitIsTarget: true, IsBarrier: func(n ast.Node, q Point) bool {
			if isPassOn(n, q) {
				return true
			}
			for _, o := range cons {
				if o != cn {
					if op, ok := c.PointOf(o); ok && op == q {
						return true
					}
				}
			}
			return false
		}})
		if res.Found {
			r.bad("C13.W5d", fi.Name, p.Pos(cn), construct, "Read returns after consuming data without passing the read token on under (len(bufptr) > 0 || PeekSize() > 0): a second blocked reader can stay asleep while data is readable", c.DescribePath(res.Path))
		} else {
			r.ok("C13.W5d", fi.Name, p.Pos(cn), construct, "token passed on under len(bufptr) > 0 || PeekSize() > 0 before every return")
		}
	}
}

func checkCloseBroadcast(p *Prog, r *Report) {
	// close(X.die) only inside a literal passed to X.dieOnce.Do
	nClose := 0
	for _, fi := range p.funcs {
		inspectBody(fi, func(n ast.Node) bool {
			call, ok := n.(*ast.CallExpr)
			if !ok || p.BuiltinName(call) != "close" || len(call.Args) != 1 {
				return true
			}
			t := p.Term(call.Args[0])
			if t.Op != "fld" {
				return true
			}
			name := t.Obj.Name()
			owner := p.FieldOwner(t.Obj.(*types.Var))
			construct := "close(" + owner + ")"
			var onceField string
			switch {
			case name == "die":
				onceField = "dieOnce"
			case strings.HasPrefix(name, "chSocket") && strings.HasSuffix(name, "Error"):
				onceField = strings.TrimPrefix(name, "ch")
				onceField = strings.ToLower(onceField[:1]) + onceField[1:] + "Once"
			default:
				return true
			}
			nClose++
			inOnce := false
			if fi.Lit != nil {
				if pc, ok := p.parents[fi.Lit].(*ast.CallExpr); ok {
					if f := p.Callee(pc); f != nil && isExtFunc(f, "sync", "Once", "Do") {
						if sel, ok := ast.Unparen(pc.Fun).(*ast.SelectorExpr); ok {
							if ot := p.Term(sel.X); ot.Op == "fld" && ot.Obj.Name() == onceField {
								inOnce = true
							}
						}
					}
				}
			}
			if !inOnce && fi.Lit == nil && fi.Obj != nil {
				// a method whose only use in the package is as the method value handed to <onceField>.Do
				uses, okUses := 0, 0
				for _, f := range p.Files {
					ast.Inspect(f, func(x ast.Node) bool {
						id, isId := x.(*ast.Ident)
						if !isId || p.Info.Uses[id] != fi.Obj {
							return true
						}
						uses++
						sel, _ := p.parents[id].(*ast.SelectorExpr)
						if sel == nil {
							return true
						}
						if pc, isC := p.parents[sel].(*ast.CallExpr); isC && pc.Fun != ast.Expr(sel) {
							if f2 := p.Callee(pc); f2 != nil && isExtFunc(f2, "sync", "Once", "Do") {
								if s2, isS := ast.Unparen(pc.Fun).(*ast.SelectorExpr); isS {
									if ot := p.Term(s2.X); ot.Op == "fld" && ot.Obj.Name() == onceField {
										okUses++
									}
								}
							}
						}
						return true
					})
				}
				inOnce = uses > 0 && uses == okUses
			}
			if !inOnce && fi.Lit == nil {
				// a helper whose single call site lies inside the literal handed to <onceField>.Do
				cur := fi
				for k := 0; k < 3 && !inOnce; k++ {
					caller, _, okC := p.singleCaller(cur)
					if !okC {
						break
					}
					if caller.Lit != nil {
						if pc, ok := p.parents[caller.Lit].(*ast.CallExpr); ok {
							if f := p.Callee(pc); f != nil && isExtFunc(f, "sync", "Once", "Do") {
								if sel, ok := ast.Unparen(pc.Fun).(*ast.SelectorExpr); ok {
									if ot := p.Term(sel.X); ot.Op == "fld" && ot.Obj.Name() == onceField {
										inOnce = true
									}
								}
							}
						}
						break
					}
					cur = caller
				}
			}
			if !inOnce {
				r.bad("C13.W6", rootFuncInfo(fi).Name, p.Pos(call), construct, "the channel is closed outside "+onceField+".Do (a second close panics / the broadcast is not once-only)", "")
				return true
			}
			// error channels: the error is stored before the close
			if name != "die" {
				errField := strings.TrimPrefix(name, "ch")
				errField = strings.ToLower(errField[:1]) + errField[1:]
				c := p.CFG(fi)
				cp, _ := c.PointOf(call)
				stored := false
				inspectBody(fi, func(m ast.Node) bool {
					sc, ok := m.(*ast.CallExpr)
					if !ok {
						return true
					}
					if f := p.Callee(sc); f != nil && isExtFunc(f, "sync/atomic", "Value", "Store") {
						if sel, ok := ast.Unparen(sc.Fun).(*ast.SelectorExpr); ok {
							if st := p.Term(sel.X); st.Op == "fld" && st.Obj.Name() == errField {
								if sp, ok := c.PointOf(sc); ok && c.Dominates(sp, cp) && sp != cp {
									stored = true
								}
							}
						}
					}
					return true
				})
				r.check(stored, "C13.W6", rootFuncInfo(fi).Name, p.Pos(call), construct, "inside "+onceField+".Do, after the error was stored", "the error channel is closed before the error is stored: a woken waiter would load nil")
				return true
			}
			r.ok("C13.W6", rootFuncInfo(fi).Name, p.Pos(call), construct, "inside "+onceField+".Do")
			return true
		})
	}
	if nClose == 0 {
		r.bad("C13.W6", "", "-", "close(die)", "no close of a die channel found", "")
	}
	// second Close returns an error
	for _, name := range []string{"(*UDPSession).Close", "(*Listener).Close"} {
		fi := p.FuncByName(name)
		if fi == nil {
			continue
		}
		// a local bool set to true only inside the Do literal; `if !once { return <non-nil> }` dominates the rest
		ok := false
		c := p.CFG(fi)
		for _, b := range c.live {
			if len(b.Succs) != 2 {
				continue
			}
			ct := c.CondTerm(b)
			if ct == nil {
				continue
			}
			var v *types.Var
			var negated bool
			if ct.Op == "var" {
				v, _ = ct.Obj.(*types.Var)
			} else if ct.Op == "not" && ct.Args[0].Op == "var" {
				v, _ = ct.Args[0].Obj.(*types.Var)
				negated = true
			}
			if v == nil {
				continue
			}
			if !p.isOnceFlag(fi, v, 0) {
				continue
			}
			// the "not first" successor returns a non-nil error
			notFirst := b.Succs[1]
			if negated {
				notFirst = b.Succs[0]
			}
			for _, nd := range notFirst.Nodes {
				if ret, isRet := nd.(*ast.ReturnStmt); isRet && len(ret.Results) == 1 {
					if t := p.Term(ret.Results[0]); t.Op != "nil" {
						ok = true
					}
				}
			}
		}
		r.check(ok, "C13.W6", fi.Name, p.Pos(fi.Node), "second Close", "returns a non-nil error when dieOnce did not fire", "a second Close does not report an error")
	}
}

func checkAfterClose(p *Prog, r *Report, waits []*waitFunc) {
	for _, w := range waits {
		c := p.CFG(w.fi)
		sel, ok := w.selectPoint(p)
		if !ok {
			continue
		}
		switch w.fi.Name {
		case "(*UDPSession).Read":
			// from function entry to the blocking select every path passes the two data tests
			recv := p.selfVar(w.fi)
			s := tVar(recv)
			kcp := tFld(s, p.Field("UDPSession", "kcp"))
			bufA := lt(tConst(0), mk("len", tFld(s, p.Field("UDPSession", "bufptr")))).Key()
			peek := normTerm(tCall(p.Method("KCP", "PeekSize"), kcp)).Key()
			fa := p.FactsOf(w.fi)
			// any test of die: the blocking select itself, a receive from X.die, or a call of a
			// function that receives from X.die (isClosed)
			testsDie := func(n ast.Node, q Point) bool {
				if q == sel {
					return true
				}
				found := false
				inspectShallow(n, func(x ast.Node) bool {
					switch y := x.(type) {
					case *ast.UnaryExpr:
						if y.Op == token.ARROW {
							if t := p.Term(y.X); t.Op == "fld" && t.Obj.Name() == "die" {
								found = true
							}
						}
					case *ast.CallExpr:
						if f := p.Callee(y); f != nil && f.Pkg() == p.Types {
							if cf := p.FuncOf(f); cf != nil {
								for _, co := range p.Effects(cf).ChanOps {
									if !co.Send && !co.Close && co.Chan.Op == "fld" && co.Chan.Obj.Name() == "die" {
										found = true
									}
								}
							}
						}
					}
					return true
				})
				return found
			}
			passes := func(want func(t *Term) bool) bool {
				res := c.FindPath(PathQuery{From: Point{c.Entry(), 0}, IsTarget: testsDie, IsBarrier: func(n ast.Node, q Point) bool {
					if q.I == len(q.B.Nodes)-1 && len(q.B.Succs) == 2 {
						if ct := c.CondTerm(q.B); ct != nil {
							return want(fa.At(q).Resolve(ct)) || want(ct)
						}
					}
					return false
				}})
				return !res.Found
			}
			a := passes(func(t *Term) bool { return t.Key() == bufA })
			b := passes(func(t *Term) bool {
				has := false
				t.Walk(func(x *Term) {
					if x.Key() == peek {
						has = true
					}
				})
				return has && t.Op == "<"
			})
			r.check(a && b, "C13.W7", w.fi.Name, p.Pos(w.sel), "drain before fail", "every path to a test of die (the blocking select included) first tests len(bufptr) > 0 and PeekSize() > 0", "a path reaches a test of die without testing the buffered data first: data received before Close would be lost to the reader")
		case "(*UDPSession).WriteBuffers":
			send := p.Method("KCP", "Send")
			for _, s := range p.CallsTo(send) {
				at, part := p.liftInto(s.Fn, s.Call, w.fi)
				if !part {
					continue
				}
				sp, _ := c.PointOf(at)
				// a select with default that has a die arm returning an error must lie on every path entry -> Send
				res := c.FindPath(PathQuery{From: Point{c.Entry(), 0}, IsTarget: func(_ ast.Node, q Point) bool { return q == sp }, IsBarrier: func(n ast.Node, q Point) bool {
					cc, ok := p.parents[n].(*ast.CommClause)
					if !ok || cc.Comm != n {
						return false
					}
					selS, ok := p.parents[p.parents[cc]].(*ast.SelectStmt)
					if !ok || !selectHasDefault(selS) {
						return false
					}
					ch, _ := commChan(p, cc)
					return ch != nil && ch.Op == "fld" && ch.Obj.Name() == "die"
				}})
				// also after every wake-up
				isDieTest := func(n ast.Node, q Point) bool {
					cc, ok := p.parents[n].(*ast.CommClause)
					if !ok || cc.Comm != n {
						return false
					}
					selS, ok := p.parents[p.parents[cc]].(*ast.SelectStmt)
					if !ok || !selectHasDefault(selS) {
						return false
					}
					ch, _ := commChan(p, cc)
					return ch != nil && ch.Op == "fld" && ch.Obj.Name() == "die"
				}
				res2 := PathResult{}
				if ev, ok := w.eventBodyPoint(p); ok {
					res2 = c.FindPath(PathQuery{From: ev, IsTarget: func(_ ast.Node, q Point) bool { return q == sp }, IsBarrier: isDieTest})
				}
				wit := ""
				if res.Found {
					wit = c.DescribePath(res.Path)
				} else if res2.Found {
					wit = c.DescribePath(res2.Path)
				}
				if !res.Found && !res2.Found {
					r.ok("C13.W7", w.fi.Name, p.Pos(s.Call), "die test before kcp.Send("+exprString(s.Call.Args[0])+")", "a non-blocking die test lies on every path to the Send, from the entry and from every wake-up")
				} else {
					r.bad("C13.W7", w.fi.Name, p.Pos(s.Call), "die test before kcp.Send("+exprString(s.Call.Args[0])+")", "a path (from the entry or from a wake-up) reaches kcp.Send without testing die: Write after Close would be accepted", wit)
				}
			}
		}
	}
}

func checkNotifyNonBlocking(p *Prog, r *Report) {
	n := 0
	for _, fi := range p.funcs {
		for _, co := range p.Effects(fi).ChanOps {
			if co.Send && co.Chan.Op == "var" && fi.Obj != nil {
				// a send on a channel parameter: counted for every event channel the helper is called with
				for i := 0; ; i++ {
					o := fi.paramObj(p, i)
					if o == nil {
						break
					}
					if o != co.Chan.Obj {
						continue
					}
					for _, s := range p.CallsTo(fi.Obj) {
						if i >= len(s.Args) || s.Args[i].Op != "fld" {
							continue
						}
						nm := s.Args[i].Obj.Name()
						if nm != "chReadEvent" && nm != "chWriteEvent" && nm != "chPrependNotify" {
							continue
						}
						n++
						r.check(co.NonBlock, "C13.W8", rootFuncInfo(s.Fn).Name, p.Pos(s.Call), "send on "+nm+" through "+fi.Name, "in a select with default", "a notify blocks when the token is already posted")
					}
				}
				continue
			}
			if !co.Send || co.Chan.Op != "fld" {
				continue
			}
			name := co.Chan.Obj.Name()
			if name != "chReadEvent" && name != "chWriteEvent" && name != "chPrependNotify" {
				continue
			}
			n++
			r.check(co.NonBlock, "C13.W8", rootFuncInfo(fi).Name, p.Pos(co.Node), "send on "+name, "in a select with default", "a notify blocks when the token is already posted")
		}
	}
	if n == 0 {
		r.bad("C13.W8", "", "-", "event sends", "no send on an event channel found", "")
	}
	_ = sort.Strings
}

// checkReadErrorReporting: C13.W9.
func checkReadErrorReporting(p *Prog, r *Report) {
	type loopSpec struct {
		typ, name string
	}
	n := 0
	for _, ls := range []loopSpec{{"UDPSession", "defaultReadLoop"}, {"UDPSession", "readLoop"}, {"Listener", "defaultMonitor"}, {"Listener", "monitor"}} {
		m := p.TryMethod(ls.typ, ls.name)
		if m == nil {
			continue // not part of this build configuration
		}
		fi := p.FuncOf(m)
		if fi == nil {
			continue
		}
		c := p.CFG(fi)
		notify := p.Method(ls.typ, "notifyReadError")
		// the error variable of the socket read
		var errVars []*types.Var
		ast.Inspect(fi.Body, func(x ast.Node) bool {
			as, ok := x.(*ast.AssignStmt)
			if !ok || len(as.Rhs) != 1 {
				return true
			}
			call, ok := ast.Unparen(as.Rhs[0]).(*ast.CallExpr)
			if !ok {
				return true
			}
			sel, ok := ast.Unparen(call.Fun).(*ast.SelectorExpr)
			if !ok || (sel.Sel.Name != "ReadFrom" && sel.Sel.Name != "ReadBatch") {
				return true
			}
			if id, ok := as.Lhs[len(as.Lhs)-1].(*ast.Ident); ok {
				if v, ok := p.Info.Defs[id].(*types.Var); ok {
					errVars = append(errVars, v)
				} else if v, ok := p.Info.Uses[id].(*types.Var); ok {
					errVars = append(errVars, v)
				}
			}
			return true
		})
		for _, ev := range errVars {
			for _, b := range c.live {
				ct := c.CondTerm(b)
				if ct == nil || len(b.Succs) != 2 {
					continue
				}
				failSide := -1
				switch ct.Key() {
				case ne(tVar(ev), mk("nil")).Key():
					failSide = 0
				case eq(tVar(ev), mk("nil")).Key():
					failSide = 1 // if err == nil { …; continue }; report
				}
				if failSide < 0 {
					continue
				}
				n++
				isNotify := func(nd ast.Node, _ Point) bool {
					f := false
					inspectShallow(nd, func(x ast.Node) bool {
						if call, ok := x.(*ast.CallExpr); ok && p.Callee(call) == notify {
							f = true
						}
						return true
					})
					return f
				}
				res := c.FindPath(PathQuery{From: Point{b.Succs[failSide], 0}, IsBarrier: isNotify, ExitIsTarget: true,
					EdgeOK: func(from, to *cfg.Block) bool {
						// a session may leave silently when it is closed itself: its waiters wake through die
						if ls.typ != "UDPSession" {
							return true
						}
						if t := c.CondTerm(from); t != nil && len(from.Succs) == 2 && to == from.Succs[0] {
							e := p.ExpandHelpers(t)
							if t.Op == "call" && t.Obj == p.TryMethod("UDPSession", "isClosed") {
								return false
							}
							_ = e
						}
						return true
					}})
				construct := "failed socket read in " + fi.Name
				// and the loop ends: no path from the failed read goes back to reading
				again := c.FindPath(PathQuery{From: Point{b.Succs[failSide], 0}, IsTarget: func(nd ast.Node, _ Point) bool {
					hit := false
					inspectShallow(nd, func(x ast.Node) bool {
						if call, ok := x.(*ast.CallExpr); ok {
							if sel, ok := ast.Unparen(call.Fun).(*ast.SelectorExpr); ok && (sel.Sel.Name == "ReadFrom" || sel.Sel.Name == "ReadBatch") {
								hit = true
							}
						}
						return true
					})
					return hit
				}})
				if again.Found {
					r.bad("C13.W9", fi.Name, p.Pos(b.Nodes[len(b.Nodes)-1]), construct+": loop ends", "after a failed socket read the loop can go on reading: on a transport whose error is permanent (a closed user-supplied PacketConn, for instance) the goroutine spins for ever, is never terminated by Close, and the error is never reported to blocked callers", c.DescribePath(again.Path))
				} else {
					r.ok("C13.W9", fi.Name, p.Pos(b.Nodes[len(b.Nodes)-1]), construct+": loop ends", "every path from err != nil leaves the loop")
				}
				if res.Found {
					r.bad("C13.W9", fi.Name, p.Pos(b.Nodes[len(b.Nodes)-1]), construct, "a path leaves the receive loop after a failed read without notifyReadError: goroutines blocked in Read/Write/Accept on this socket (for a listener also the sessions it accepted) are never told that the socket is dead", c.DescribePath(res.Path))
				} else {
					r.ok("C13.W9", fi.Name, p.Pos(b.Nodes[len(b.Nodes)-1]), construct, "every path from err != nil to the return calls notifyReadError")
				}
			}
		}
	}
	if n == 0 {
		r.bad("C13.W9", "receive loops", "-", "failed socket read", "no receive loop with an error test found", "")
	}
	// the listener's notifier propagates to its sessions
	lf := p.FuncOf(p.Method("Listener", "notifyReadError"))
	okProp := false
	var walk func(fi *FuncInfo)
	walk = func(fi *FuncInfo) {
		ast.Inspect(fi.Body, func(x ast.Node) bool {
			rs, ok := x.(*ast.RangeStmt)
			if !ok {
				return true
			}
			if t := p.Term(rs.X); !(t.Op == "fld" && t.Obj == p.Field("Listener", "sessions")) {
				return true
			}
			ast.Inspect(rs.Body, func(y ast.Node) bool {
				if call, ok := y.(*ast.CallExpr); ok && p.Callee(call) == p.Method("UDPSession", "notifyReadError") {
					okProp = true
				}
				return true
			})
			return true
		})
	}
	walk(lf)
	if !okProp {
		// the body moved into a helper of the listener that notifyReadError (its literal) calls
		ast.Inspect(lf.Body, func(x ast.Node) bool {
			if call, ok := x.(*ast.CallExpr); ok {
				if f := p.Callee(call); f != nil && f.Pkg() == p.Types && !f.Exported() && recvTypeName(f) == "Listener" {
					if h := p.FuncOf(f); h != nil && h.Body != nil && h != lf {
						walk(h)
					}
				}
			}
			return true
		})
	}
	r.check(okProp, "C13.W9", lf.Name, p.Pos(lf.Node), "propagation to accepted sessions", "range over Listener.sessions calling notifyReadError", "the listener's socket error is not propagated to the sessions that share its socket: their blocked Reads never return")
}

// callsNotifyingHelper: node n calls a method H on the same session (receiver
// variable recv) and every path through H passes the availability test with its
// wake-up for ev (read: PeekSize() > 0, otherwise WaitSnd() < snd_wnd).
func (p *Prog) callsNotifyingHelper(n ast.Node, recv *types.Var, ev *types.Var, read bool, depth int) bool {
	if depth > 2 {
		return false
	}
	found := false
	inspectShallow(n, func(x ast.Node) bool {
		call, ok := x.(*ast.CallExpr)
		if !ok || found {
			return true
		}
		sel, ok := ast.Unparen(call.Fun).(*ast.SelectorExpr)
		if !ok {
			return true
		}
		if id, ok := ast.Unparen(sel.X).(*ast.Ident); !ok || p.Info.Uses[id] != recv {
			return true
		}
		f := p.Callee(call)
		if f == nil || f.Pkg() != p.Types {
			return true
		}
		h := p.FuncOf(f)
		if h == nil || h.Body == nil || p.selfVar(h) == nil {
			return true
		}
		if p.helperAlwaysNotifies(h, ev, read, depth) {
			found = true
		}
		return true
	})
	return found
}

func (p *Prog) helperAlwaysNotifies(h *FuncInfo, ev *types.Var, read bool, depth int) bool {
	key := fmt.Sprintf("helpernotifies:%s:%s:%v", h.Name, ev.Name(), read)
	if v, ok := p.memo[key].(bool); ok {
		return v
	}
	p.memo[key] = false
	c := p.CFG(h)
	hrecv := p.selfVar(h)
	kcp := tFld(tVar(hrecv), p.Field("UDPSession", "kcp"))
	var want *Term
	if read {
		want = p.readAvailTerm(kcp)
	} else {
		want = p.writeAvailTerm(kcp)
	}
	avail := func(t *Term) bool { return t.Key() == want.Key() }
	res := c.FindPath(PathQuery{From: Point{c.Entry(), 0}, ExitIsTarget: true, IsBarrier: func(n ast.Node, q Point) bool {
		if p.isWakeNode(n, ev, p.notifiers(ev)) {
			return p.wakeIsAvailGuarded(h, q, ev, avail)
		}
		if p.isNotifyCheck(h, q, ev, avail) {
			return true
		}
		return p.callsNotifyingHelper(n, hrecv, ev, read, depth+1)
	}})
	p.memo[key] = !res.Found
	return !res.Found
}

// singleTokenWake: why a deadline change can reach only one of several blocked
// callers of w (empty string if it reaches all).
func (p *Prog) singleTokenWake(w *waitFunc, ev *types.Var, notif map[*types.Func]bool) string {
	// (a) a broadcast: the event channel is closed somewhere (close wakes every receiver)
	broadcast := false
	for _, f := range p.Files {
		ast.Inspect(f, func(n ast.Node) bool {
			if call, ok := n.(*ast.CallExpr); ok && p.BuiltinName(call) == "close" && len(call.Args) == 1 {
				if t := p.Term(call.Args[0]); t.Op == "fld" && t.Obj == ev {
					broadcast = true
				}
			}
			return true
		})
	}
	if broadcast {
		return ""
	}
	// (b) baton passing on the no-progress path: from the event arm back to the blocking select
	// (without returning) the token is posted again
	c := p.CFG(w.fi)
	var evBlk, selAgain *cfg.Block
	for _, b := range c.live {
		if b.Kind == cfg.KindSelectCaseBody && b.Stmt == w.event {
			evBlk = b
		}
	}
	if evBlk == nil {
		return "the wait function has no event arm"
	}
	_ = selAgain
	res := c.FindPath(PathQuery{From: Point{evBlk, 0},
		IsBarrier: func(n ast.Node, _ Point) bool {
			if p.isWakeNode(n, ev, notif) {
				return true
			}
			_, isRet := n.(*ast.ReturnStmt)
			return isRet
		},
		OnBlock: func(b *cfg.Block) (bool, bool) {
			// reaching any arm of the blocking select again = the caller waited again
			if b.Kind == cfg.KindSelectCaseBody && b != evBlk {
				if cc, ok := b.Stmt.(*ast.CommClause); ok && (cc == w.timer || cc == w.die || cc == w.sockerr || cc == w.event) {
					return true, false
				}
			}
			return false, false
		}})
	if res.Found {
		return "the deadline change is announced through the one-slot event channel " + ev.Name() + ": with several goroutines blocked in " + w.fi.Name + " exactly one receives the token, re-reads the deadline and (having nothing to do) blocks again without passing the token on — the others keep waiting with the old deadline (or none) and do not time out"
	}
	return ""
}

// checkWriteErrorReporting: C13.W11.
func checkWriteErrorReporting(p *Prog, r *Report) {
	notify := p.Method("UDPSession", "notifyWriteError")
	n := 0
	var returning []*FuncInfo // transmit functions that hand the error to their caller instead
	for _, fi := range p.funcs {
		if fi.Lit != nil || fi.Body == nil || fi.Obj == nil {
			continue // any package function or method that writes to the socket (a method of the session, or a plain function taking it)
		}
		c := p.CFG(fi)
		var errVars []*types.Var
		ast.Inspect(fi.Body, func(x ast.Node) bool {
			as, ok := x.(*ast.AssignStmt)
			if !ok || len(as.Rhs) != 1 {
				return true
			}
			call, ok := ast.Unparen(as.Rhs[0]).(*ast.CallExpr)
			if !ok {
				return true
			}
			sel, ok := ast.Unparen(call.Fun).(*ast.SelectorExpr)
			if !ok || (sel.Sel.Name != "WriteTo" && sel.Sel.Name != "WriteBatch") {
				return true
			}
			if id, ok := as.Lhs[len(as.Lhs)-1].(*ast.Ident); ok {
				if v, ok := p.Info.Defs[id].(*types.Var); ok {
					errVars = append(errVars, v)
				} else if v, ok := p.Info.Uses[id].(*types.Var); ok {
					errVars = append(errVars, v)
				}
			}
			return true
		})
		for _, ev := range errVars {
			for _, b := range c.live {
				ct := c.CondTerm(b)
				if ct == nil || len(b.Succs) != 2 {
					continue
				}
				failSide := -1
				switch ct.Key() {
				case ne(tVar(ev), mk("nil")).Key():
					failSide = 0
				case eq(tVar(ev), mk("nil")).Key():
					failSide = 1 // if err == nil { …; continue }; report
				}
				if failSide < 0 {
					continue
				}
				n++
				returnsErr := false
				// what carries the error: the variable and anything assigned from it
				taint := map[*types.Var]bool{ev: true}
				for i := 0; i < 3; i++ {
					ast.Inspect(fi.Body, func(x ast.Node) bool {
						as, ok := x.(*ast.AssignStmt)
						if !ok || len(as.Lhs) != len(as.Rhs) {
							return true
						}
						for k, l := range as.Lhs {
							if id, ok := l.(*ast.Ident); ok && mentionsVars(p, as.Rhs[k], taint) {
								if v, ok := p.Info.Uses[id].(*types.Var); ok {
									taint[v] = true
								} else if v, ok := p.Info.Defs[id].(*types.Var); ok {
									taint[v] = true
								}
							}
						}
						return true
					})
				}
				// a tainted variable returned at the end of the function also carries it out
				carriedOut := false
				ast.Inspect(fi.Body, func(x ast.Node) bool {
					if rs, ok := x.(*ast.ReturnStmt); ok {
						for _, e := range rs.Results {
							if mentionsVars(p, e, taint) {
								carriedOut = true
							}
						}
					}
					return true
				})
				res := c.FindPath(PathQuery{From: Point{b.Succs[failSide], 0}, ExitIsTarget: true, IsBarrier: func(nd ast.Node, _ Point) bool {
					if carriedOut {
						// the error is stored into a variable that the function returns
						if as, ok := nd.(*ast.AssignStmt); ok && len(as.Lhs) == len(as.Rhs) {
							for k, l := range as.Lhs {
								if id, ok := l.(*ast.Ident); ok && mentionsVars(p, as.Rhs[k], map[*types.Var]bool{ev: true}) {
									if v, ok := p.Info.Uses[id].(*types.Var); ok && taint[v] && v != ev {
										returnsErr = true
										return true
									}
								}
							}
						}
					}
					f := false
					inspectShallow(nd, func(x ast.Node) bool {
						if call, ok := x.(*ast.CallExpr); ok && p.Callee(call) == notify {
							f = true
						}
						return true
					})
					if rs, ok := nd.(*ast.ReturnStmt); ok {
						for _, e := range rs.Results {
							if mentionsVars(p, e, map[*types.Var]bool{ev: true}) {
								f = true
								returnsErr = true
							}
						}
					}
					return f
				}})
				construct := "failed socket write in " + fi.Name
				if res.Found {
					r.bad("C13.W11", fi.Name, p.Pos(b.Nodes[len(b.Nodes)-1]), construct, "a path after a failed write neither calls notifyWriteError nor returns the error: a Write blocked on a full window (and every later Write) never learns that the socket is dead", c.DescribePath(res.Path))
				} else {
					r.ok("C13.W11", fi.Name, p.Pos(b.Nodes[len(b.Nodes)-1]), construct, "every path from err != nil reports the error")
					if returnsErr {
						returning = append(returning, fi)
					}
				}
			}
		}
	}
	for _, fi := range returning {
		for _, s := range p.CallsTo(fi.Obj) {
			// the result must not be discarded: the call is not an expression statement, and what it is bound to reaches notifyWriteError
			_, discarded := p.parents[s.Call].(*ast.ExprStmt)
			okUse := !discarded
			if okUse {
				cfi := rootFuncInfo(s.Fn)
				uses := false
				ast.Inspect(cfi.Body, func(x ast.Node) bool {
					if call, ok := x.(*ast.CallExpr); ok && p.Callee(call) == notify {
						uses = true
					}
					return true
				})
				okUse = uses
			}
			r.check(okUse, "C13.W11", s.Fn.Name, p.Pos(s.Call), "error returned by "+fi.Name+" in "+s.Fn.Name, "handed to notifyWriteError", "the write error returned by "+fi.Name+" is dropped by this caller: blocked writers are never woken")
		}
	}
	if n == 0 {
		r.bad("C13.W11", "transmit functions", "-", "failed socket write", "no transmit function with an error test found", "")
	}
}

// isOnceFlag: the boolean v of fi tells "this call fired the Once": it is set to true only inside a function
// literal handed to <once>.Do, or it is bound to the result of an unexported helper whose returned variable is
// such a flag (func (s *T) signalDie() (first bool) { s.once.Do(func(){ …; first = true }); return first }).
func (p *Prog) isOnceFlag(fi *FuncInfo, v *types.Var, depth int) bool {
	onlyInDo := true
	nSet := 0
	ast.Inspect(fi.Body, func(n ast.Node) bool {
		as, isAs := n.(*ast.AssignStmt)
		if !isAs {
			return true
		}
		for i, l := range as.Lhs {
			if id, isId := l.(*ast.Ident); isId && p.Info.Uses[id] == v && i < len(as.Rhs) {
				if p.Term(as.Rhs[i]).Op == "true" {
					nSet++
					encl := p.EnclosingFunc(as)
					inDo := false
					if encl != nil && encl.Lit != nil {
						if pc, ok := p.parents[encl.Lit].(*ast.CallExpr); ok {
							if f := p.Callee(pc); f != nil && isExtFunc(f, "sync", "Once", "Do") {
								inDo = true
							}
						}
					}
					if !inDo {
						onlyInDo = false
					}
				}
			}
		}
		return true
	})
	if nSet > 0 {
		return onlyInDo
	}
	if depth > 1 {
		return false
	}
	as := p.Assignments(fi, v)
	if len(as) != 1 || as[0].Rhs == nil {
		return false
	}
	call, ok := ast.Unparen(as[0].Rhs).(*ast.CallExpr)
	if !ok {
		return false
	}
	f := p.Callee(call)
	if f == nil || f.Pkg() != p.Types || f.Exported() {
		return false
	}
	h := p.FuncOf(f)
	if h == nil || h.Body == nil || h.Decl == nil {
		return false
	}
	var rv *types.Var
	okAll := true
	inspectBody(h, func(x ast.Node) bool {
		rs, isR := x.(*ast.ReturnStmt)
		if !isR {
			return true
		}
		if len(rs.Results) == 0 {
			return true
		}
		if len(rs.Results) != 1 {
			okAll = false
			return true
		}
		if t := p.Term(rs.Results[0]); t.Op == "var" {
			x, _ := t.Obj.(*types.Var)
			if rv != nil && rv != x {
				okAll = false
			}
			rv = x
		} else {
			okAll = false
		}
		return true
	})
	if rv == nil && h.Decl.Type.Results != nil && len(h.Decl.Type.Results.List) == 1 && len(h.Decl.Type.Results.List[0].Names) == 1 {
		rv, _ = p.Info.Defs[h.Decl.Type.Results.List[0].Names[0]].(*types.Var)
	}
	return okAll && rv != nil && p.isOnceFlag(h, rv, depth+1)
}

// checkPermanentConditionsBroadcast: C13.W14.
func checkPermanentConditionsBroadcast(p *Prog, r *Report) {
	for _, tn := range []string{"UDPSession", "Listener"} {
		st := structOf(p.Named(tn).Underlying())
		for i := 0; i < st.NumFields(); i++ {
			f := st.Field(i)
			if _, isChan := f.Type().Underlying().(*types.Chan); !isChan {
				continue
			}
			name := f.Name()
			if !(name == "die" || (strings.HasPrefix(name, "chSocket") && strings.HasSuffix(name, "Error"))) {
				continue
			}
			nClose, nSend := 0, 0
			var sendPos string
			for _, fi := range p.funcs {
				if fi.Body == nil {
					continue
				}
				inspectBody(fi, func(x ast.Node) bool {
					switch y := x.(type) {
					case *ast.CallExpr:
						if p.BuiltinName(y) == "close" && len(y.Args) == 1 {
							if t := p.Term(y.Args[0]); t.Op == "fld" && t.Obj == types.Object(f) {
								nClose++
							}
						}
					case *ast.SendStmt:
						if t := p.Term(y.Chan); t.Op == "fld" && t.Obj == types.Object(f) {
							nSend++
							sendPos = p.Pos(y)
						}
					}
					return true
				})
			}
			construct := tn + "." + name + " announces by close"
			switch {
			case nSend > 0:
				r.bad("C13.W14", tn, sendPos, construct, "a value is sent on "+tn+"."+name+": one blocked caller receives it and every other one (and every later call) keeps waiting — the condition it announces is permanent and must reach all of them", "")
			case nClose == 0:
				r.bad("C13.W14", tn, "-", construct, tn+"."+name+" is never closed: nobody waiting on it is ever told", "")
			default:
				r.ok("C13.W14", tn, "-", construct, fmt.Sprintf("closed at %d site(s), never sent on", nClose))
			}
		}
	}
}
