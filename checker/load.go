package main

import (
	"fmt"
	"go/ast"
	"go/token"
	"go/types"
	"os"
	"sort"
	"strings"

	"golang.org/x/tools/go/callgraph"
	"golang.org/x/tools/go/callgraph/cha"
	"golang.org/x/tools/go/callgraph/vta"
	"golang.org/x/tools/go/packages"
	"golang.org/x/tools/go/ssa"
	"golang.org/x/tools/go/ssa/ssautil"
)

// BuildCfg is one build configuration of /repo that is loaded and analysed.
type BuildCfg struct {
	ID     string
	GOOS   string
	GOARCH string
	Tags   string
	CGO    string
}

var buildCfgs = map[string]BuildCfg{
	"linux64": {ID: "linux64", GOOS: "linux", GOARCH: "amd64", CGO: "0"},
	"generic": {ID: "generic", GOOS: "darwin", GOARCH: "amd64", CGO: "0"},
	"linux32": {ID: "linux32", GOOS: "linux", GOARCH: "386", CGO: "0"},
	"debug":   {ID: "debug", GOOS: "linux", GOARCH: "amd64", Tags: "debug", CGO: "0"},
}

const kcpPkgPath = "github.com/xtaci/kcp-go/v5"

// Prog is the loaded, type-checked kcp package in one configuration.
type Prog struct {
	Cfg     BuildCfg
	RepoDir string
	Fset    *token.FileSet
	Pkg     *packages.Package
	Types   *types.Package
	Info    *types.Info
	Files   []*ast.File
	allPkgs []*packages.Package

	// lazily built
	ssaProg *ssa.Program
	ssaPkg  *ssa.Package
	cg      *callgraph.Graph
	chaCG   *callgraph.Graph
	allFns  map[*ssa.Function]bool

	decls   map[*types.Func]*ast.FuncDecl
	parents map[ast.Node]ast.Node
	fnOf    map[ast.Node]ast.Node // innermost enclosing FuncDecl/FuncLit
	funcs   []*FuncInfo
	funcBy  map[ast.Node]*FuncInfo

	dynCallees map[token.Pos][]*ssa.Function // call site (Lparen) -> callees, via VTA

	memo map[string]any
}

// brokenCheck aborts the run: the checker itself cannot run (exit 2, never a VIOLATION).
func brokenCheck(format string, args ...any) {
	fmt.Printf("BROKEN-CHECK: "+format+"\n", args...)
	os.Exit(2)
}

func loadProg(repo string, cfg BuildCfg) *Prog {
	env := append([]string{}, os.Environ()...)
	env = append(env, "GOWORK=off", "GOFLAGS=-mod=mod", "GOPROXY=off", "GOOS="+cfg.GOOS, "GOARCH="+cfg.GOARCH)
	if cfg.CGO != "" {
		env = append(env, "CGO_ENABLED="+cfg.CGO)
	}
	pc := &packages.Config{
		Mode:  packages.LoadAllSyntax,
		Dir:   repo,
		Env:   env,
		Tests: false,
	}
	if cfg.Tags != "" {
		pc.BuildFlags = []string{"-tags=" + cfg.Tags}
	}
	pkgs, err := packages.Load(pc, ".")
	if err != nil {
		brokenCheck("cannot load %s in configuration %s: %v", repo, cfg.ID, err)
	}
	if len(pkgs) != 1 {
		brokenCheck("expected 1 package, got %d (configuration %s)", len(pkgs), cfg.ID)
	}
	pkg := pkgs[0]
	if pkg.PkgPath != kcpPkgPath {
		brokenCheck("unexpected package path %q", pkg.PkgPath)
	}
	var errs []string
	packages.Visit(pkgs, nil, func(p *packages.Package) {
		for _, e := range p.Errors {
			errs = append(errs, e.Error())
		}
	})
	if len(errs) > 0 {
		brokenCheck("type/load errors in configuration %s: %s", cfg.ID, strings.Join(errs, "; "))
	}
	if len(pkg.Syntax) < 15 {
		brokenCheck("only %d files loaded in configuration %s", len(pkg.Syntax), cfg.ID)
	}
	p := &Prog{Cfg: cfg, RepoDir: repo, Fset: pkg.Fset, Pkg: pkg, Types: pkg.Types, Info: pkg.TypesInfo, Files: pkg.Syntax, allPkgs: pkgs, memo: map[string]any{}}
	p.index()
	return p
}

// FuncInfo describes one function body (declaration or literal) of the package.
type FuncInfo struct {
	Node   ast.Node // *ast.FuncDecl or *ast.FuncLit
	Decl   *ast.FuncDecl
	Lit    *ast.FuncLit
	Obj    *types.Func // nil for literals
	Body   *ast.BlockStmt
	Name   string    // "(*KCP).Input", "newUDPSession$1"
	Parent *FuncInfo // enclosing function for literals
	cfg    *CFG
}

func (p *Prog) index() {
	p.decls = map[*types.Func]*ast.FuncDecl{}
	p.parents = map[ast.Node]ast.Node{}
	p.fnOf = map[ast.Node]ast.Node{}
	p.funcBy = map[ast.Node]*FuncInfo{}
	for _, f := range p.Files {
		var stack []ast.Node
		var fnStack []*FuncInfo
		litCount := map[*FuncInfo]int{}
		ast.Inspect(f, func(n ast.Node) bool {
			if n == nil {
				top := stack[len(stack)-1]
				stack = stack[:len(stack)-1]
				if len(fnStack) > 0 && fnStack[len(fnStack)-1].Node == top {
					fnStack = fnStack[:len(fnStack)-1]
				}
				return true
			}
			if len(stack) > 0 {
				p.parents[n] = stack[len(stack)-1]
			}
			if len(fnStack) > 0 {
				p.fnOf[n] = fnStack[len(fnStack)-1].Node
			}
			stack = append(stack, n)
			switch x := n.(type) {
			case *ast.FuncDecl:
				obj, _ := p.Info.Defs[x.Name].(*types.Func)
				fi := &FuncInfo{Node: x, Decl: x, Obj: obj, Body: x.Body, Name: funcDisplayName(obj)}
				if obj != nil {
					p.decls[obj] = x
				}
				if x.Body != nil {
					p.funcs = append(p.funcs, fi)
					p.funcBy[x] = fi
				}
				fnStack = append(fnStack, fi)
			case *ast.FuncLit:
				var parent *FuncInfo
				if len(fnStack) > 0 {
					parent = fnStack[len(fnStack)-1]
				}
				name := "init$lit"
				if parent != nil {
					root := parent
					for root.Parent != nil {
						root = root.Parent
					}
					litCount[root]++
					name = fmt.Sprintf("%s$%d", root.Name, litCount[root])
				}
				fi := &FuncInfo{Node: x, Lit: x, Body: x.Body, Name: name, Parent: parent}
				p.funcs = append(p.funcs, fi)
				p.funcBy[x] = fi
				fnStack = append(fnStack, fi)
			}
			return true
		})
	}
	sort.SliceStable(p.funcs, func(i, j int) bool { return p.funcs[i].Node.Pos() < p.funcs[j].Node.Pos() })
}

func funcDisplayName(f *types.Func) string {
	if f == nil {
		return "?"
	}
	sig := f.Type().(*types.Signature)
	if r := sig.Recv(); r != nil {
		t := r.Type()
		ptr := ""
		if pt, ok := t.(*types.Pointer); ok {
			t = pt.Elem()
			ptr = "*"
		}
		name := "?"
		if n, ok := t.(*types.Named); ok {
			name = n.Obj().Name()
		}
		if ptr != "" {
			return "(*" + name + ")." + f.Name()
		}
		return name + "." + f.Name()
	}
	return f.Name()
}

// EnclosingFunc returns the innermost function body containing n.
func (p *Prog) EnclosingFunc(n ast.Node) *FuncInfo {
	if fi, ok := p.funcBy[n]; ok {
		// a FuncLit node itself belongs to its parent for "enclosing" purposes
		if fi.Lit != nil {
			if q, ok := p.fnOf[n]; ok {
				return p.funcBy[q]
			}
		}
		return fi
	}
	if q, ok := p.fnOf[n]; ok {
		return p.funcBy[q]
	}
	return nil
}

// FuncByName finds a function/method body by display name, e.g. "(*KCP).Input".
func (p *Prog) FuncByName(name string) *FuncInfo {
	for _, fi := range p.funcs {
		if fi.Name == name {
			return fi
		}
	}
	// a method turned into a plain function of the same name
	if i := strings.LastIndex(name, ")."); i >= 0 && strings.HasPrefix(name, "(") {
		for _, fi := range p.funcs {
			if fi.Name == name[i+2:] && fi.Lit == nil {
				return fi
			}
		}
	}
	return nil
}

func (p *Prog) FuncOf(obj *types.Func) *FuncInfo {
	if obj == nil {
		return nil
	}
	obj = obj.Origin()
	if d, ok := p.decls[obj]; ok {
		return p.funcBy[d]
	}
	return nil
}

func (p *Prog) Pos(n ast.Node) string { return p.PosOf(n.Pos()) }

func (p *Prog) PosOf(pos token.Pos) string {
	if !pos.IsValid() {
		return "-"
	}
	ps := p.Fset.Position(pos)
	fn := ps.Filename
	if strings.HasPrefix(fn, p.RepoDir+"/") {
		fn = fn[len(p.RepoDir)+1:]
	}
	return fmt.Sprintf("%s:%d", fn, ps.Line)
}

// ---------------------------------------------------------------- SSA (lazy)

func (p *Prog) SSA() (*ssa.Program, *ssa.Package) {
	if p.ssaProg != nil {
		return p.ssaProg, p.ssaPkg
	}
	prog, spkgs := ssautil.AllPackages(p.allPkgs, ssa.InstantiateGenerics)
	prog.Build()
	p.ssaProg = prog
	p.ssaPkg = spkgs[0]
	if p.ssaPkg == nil {
		brokenCheck("no SSA package")
	}
	return p.ssaProg, p.ssaPkg
}

func (p *Prog) CallGraph() *callgraph.Graph {
	if p.cg != nil {
		return p.cg
	}
	prog, _ := p.SSA()
	p.allFns = ssautil.AllFunctions(prog)
	p.chaCG = cha.CallGraph(prog)
	p.cg = vta.CallGraph(p.allFns, p.chaCG)
	return p.cg
}

// InPkg reports whether an SSA function belongs to the kcp package (including
// closures and generic instantiations).
func (p *Prog) InPkg(f *ssa.Function) bool {
	if f == nil {
		return false
	}
	_, kp := p.SSA()
	for f.Parent() != nil {
		f = f.Parent()
	}
	if f.Pkg == kp {
		return true
	}
	if o := f.Origin(); o != nil && o.Pkg == kp {
		return true
	}
	// synthetic wrappers ($bound, $thunk) of package methods
	if f.Synthetic != "" && f.Pkg == nil {
		if obj := f.Object(); obj != nil && obj.Pkg() == p.Types {
			return true
		}
	}
	return false
}

// PkgFuncs returns all SSA functions of the package with bodies, sorted.
func (p *Prog) PkgFuncs() []*ssa.Function {
	if v, ok := p.memo["pkgfuncs"]; ok {
		return v.([]*ssa.Function)
	}
	p.CallGraph()
	var out []*ssa.Function
	for f := range p.allFns {
		if p.InPkg(f) && f.Blocks != nil {
			out = append(out, f)
		}
	}
	sort.Slice(out, func(i, j int) bool {
		if out[i].String() != out[j].String() {
			return out[i].String() < out[j].String()
		}
		return out[i].Pos() < out[j].Pos()
	})
	p.memo["pkgfuncs"] = out
	return out
}
