package main

import (
	"go/ast"
	"go/constant"
	"go/types"

	"golang.org/x/tools/go/types/typeutil"
)

// Anchors are resolved by type-checked lookup; an unresolved anchor aborts the
// run as a broken check (exit 2), never as a violation.

func (p *Prog) lookup(name string) types.Object {
	o := p.Types.Scope().Lookup(name)
	if o == nil {
		brokenCheck("ANCHOR-UNRESOLVED role=%s (configuration %s)", name, p.Cfg.ID)
	}
	return o
}

func (p *Prog) tryLookup(name string) types.Object { return p.Types.Scope().Lookup(name) }

// Named returns the named type `name` of the package.
func (p *Prog) Named(name string) *types.Named {
	tn, ok := p.lookup(name).(*types.TypeName)
	if !ok {
		brokenCheck("ANCHOR-UNRESOLVED role=type %s", name)
	}
	n, ok := tn.Type().(*types.Named)
	if !ok {
		brokenCheck("ANCHOR-UNRESOLVED role=type %s (not named)", name)
	}
	return n
}

// Field returns the field object typ.field.
func (p *Prog) Field(typ, field string) *types.Var {
	v := p.TryField(typ, field)
	if v == nil {
		brokenCheck("ANCHOR-UNRESOLVED role=field %s.%s (configuration %s)", typ, field, p.Cfg.ID)
	}
	return v
}

func (p *Prog) TryField(typ, field string) *types.Var {
	tn, ok := p.tryLookup(typ).(*types.TypeName)
	if !ok {
		return nil
	}
	st, ok := tn.Type().Underlying().(*types.Struct)
	if !ok {
		return nil
	}
	for i := 0; i < st.NumFields(); i++ {
		if st.Field(i).Name() == field {
			return st.Field(i)
		}
	}
	return nil
}

// Method returns the method typ.name (value or pointer receiver), origin (generic) object.
func (p *Prog) Method(typ, name string) *types.Func {
	m := p.TryMethod(typ, name)
	if m == nil {
		brokenCheck("ANCHOR-UNRESOLVED role=method %s.%s (configuration %s)", typ, name, p.Cfg.ID)
	}
	return m
}

func (p *Prog) TryMethod(typ, name string) *types.Func {
	tn, ok := p.tryLookup(typ).(*types.TypeName)
	if !ok {
		return nil
	}
	n, ok := tn.Type().(*types.Named)
	if !ok {
		return nil
	}
	for i := 0; i < n.NumMethods(); i++ {
		if n.Method(i).Name() == name {
			return n.Method(i).Origin()
		}
	}
	// a method turned into a plain function of the same name (receiver dropped or passed as a parameter)
	if f, ok := p.tryLookup(name).(*types.Func); ok {
		return f
	}
	return nil
}

// Func returns the package-level function `name`.
func (p *Prog) Func(name string) *types.Func {
	f, ok := p.lookup(name).(*types.Func)
	if !ok {
		brokenCheck("ANCHOR-UNRESOLVED role=func %s", name)
	}
	return f
}

func (p *Prog) Var(name string) *types.Var {
	v, ok := p.lookup(name).(*types.Var)
	if !ok {
		brokenCheck("ANCHOR-UNRESOLVED role=var %s", name)
	}
	return v
}

// ConstInt returns the integer value of the package constant `name`.
func (p *Prog) ConstInt(name string) int64 {
	c, ok := p.lookup(name).(*types.Const)
	if !ok {
		brokenCheck("ANCHOR-UNRESOLVED role=const %s", name)
	}
	v, ok := constant.Int64Val(constant.ToInt(c.Val()))
	if !ok {
		brokenCheck("ANCHOR-UNRESOLVED role=const %s (not an integer)", name)
	}
	return v
}

func (p *Prog) Const(name string) *types.Const {
	c, ok := p.lookup(name).(*types.Const)
	if !ok {
		brokenCheck("ANCHOR-UNRESOLVED role=const %s", name)
	}
	return c
}

// Callee returns the statically resolved callee of a call (origin object for
// generic methods), or nil for dynamic calls, conversions and builtins.
func (p *Prog) Callee(call *ast.CallExpr) *types.Func {
	o := typeutil.Callee(p.Info, call)
	if f, ok := o.(*types.Func); ok {
		return f.Origin()
	}
	return nil
}

// BuiltinName returns the name of the builtin called, or "".
func (p *Prog) BuiltinName(call *ast.CallExpr) string {
	if id, ok := ast.Unparen(call.Fun).(*ast.Ident); ok {
		if b, ok := p.Info.Uses[id].(*types.Builtin); ok {
			return b.Name()
		}
	}
	return ""
}

// IsConversion reports whether call is a type conversion.
func (p *Prog) IsConversion(call *ast.CallExpr) bool {
	tv, ok := p.Info.Types[call.Fun]
	return ok && tv.IsType()
}

// ExtFunc reports whether f is the function pkgpath.name (or method recv.name
// when recv != "").
func isExtFunc(f *types.Func, pkgpath, recv, name string) bool {
	if f == nil || f.Pkg() == nil || f.Pkg().Path() != pkgpath || f.Name() != name {
		return false
	}
	sig := f.Type().(*types.Signature)
	if recv == "" {
		return sig.Recv() == nil
	}
	if sig.Recv() == nil {
		return false
	}
	t := sig.Recv().Type()
	if pt, ok := t.(*types.Pointer); ok {
		t = pt.Elem()
	}
	if n, ok := t.(*types.Named); ok {
		return n.Obj().Name() == recv
	}
	return false
}

// recvTypeName returns the receiver's named type name of a method ("" for functions).
func recvTypeName(f *types.Func) string {
	if f == nil {
		return ""
	}
	sig, ok := f.Type().(*types.Signature)
	if !ok || sig.Recv() == nil {
		return ""
	}
	t := sig.Recv().Type()
	if pt, ok := t.(*types.Pointer); ok {
		t = pt.Elem()
	}
	if n, ok := t.(*types.Named); ok {
		return n.Obj().Name()
	}
	return ""
}

// namedOf strips pointers and returns the named type, if any.
func namedOf(t types.Type) *types.Named {
	if t == nil {
		return nil
	}
	for {
		switch x := t.(type) {
		case *types.Pointer:
			t = x.Elem()
			continue
		case *types.Alias:
			t = types.Unalias(x)
			continue
		case *types.Named:
			return x
		}
		return nil
	}
}

func (p *Prog) isPkgNamed(t types.Type, name string) bool {
	n := namedOf(t)
	return n != nil && n.Obj().Pkg() == p.Types && n.Obj().Name() == name
}

// constVal returns the constant integer value of an expression, if it is constant.
func (p *Prog) constVal(e ast.Expr) (int64, bool) {
	tv, ok := p.Info.Types[e]
	if !ok || tv.Value == nil {
		return 0, false
	}
	if tv.Value.Kind() != constant.Int {
		v := constant.ToInt(tv.Value)
		if v.Kind() != constant.Int {
			return 0, false
		}
		i, ok := constant.Int64Val(v)
		return i, ok
	}
	i, ok := constant.Int64Val(tv.Value)
	if !ok {
		// may be a uint64 > MaxInt64 such as 0xffffffffffffffff
		if u, ok2 := constant.Uint64Val(tv.Value); ok2 {
			return int64(u), true
		}
	}
	return i, ok
}
