package main

import (
	"fmt"
	"go/ast"
	"go/token"
	"go/types"
	"sort"
	"strings"

	"golang.org/x/tools/go/cfg"
)

// Point is a program point: just before node I of block B executes
// (I == len(B.Nodes) is the end of the block).
type Point struct {
	B *cfg.Block
	I int
}

// CFG wraps a go/cfg graph of one function body with the queries the rules need.
type CFG struct {
	p      *Prog
	fi     *FuncInfo
	g      *cfg.CFG
	live   []*cfg.Block
	preds  map[*cfg.Block][]*cfg.Block
	where  map[ast.Node]Point
	idom   map[*cfg.Block]*cfg.Block
	ipdom  map[*cfg.Block]*cfg.Block // nil = virtual exit
	order  map[*cfg.Block]int        // reverse postorder index
	typesw map[*cfg.Block]*Term      // synthetic condition of type-switch test blocks
}

func (p *Prog) isPanicCall(c *ast.CallExpr) bool {
	if p.BuiltinName(c) == "panic" {
		return true
	}
	if f := p.Callee(c); f != nil && f.Pkg() != nil && f.Pkg().Path() == "os" && f.Name() == "Exit" {
		return true
	}
	return false
}

func (p *Prog) CFG(fi *FuncInfo) *CFG {
	if fi.cfg != nil {
		return fi.cfg
	}
	g := cfg.New(fi.Body, func(c *ast.CallExpr) bool { return !p.isPanicCall(c) })
	c := &CFG{p: p, fi: fi, g: g, preds: map[*cfg.Block][]*cfg.Block{}, where: map[ast.Node]Point{}, typesw: map[*cfg.Block]*Term{}}
	for _, b := range g.Blocks {
		if b.Live {
			c.live = append(c.live, b)
		}
	}
	for _, b := range c.live {
		for _, s := range b.Succs {
			if s.Live {
				c.preds[s] = append(c.preds[s], b)
			}
		}
	}
	for _, b := range c.live {
		for i, n := range b.Nodes {
			pt := Point{b, i}
			c.indexNode(n, pt)
		}
	}
	c.computeDom()
	c.computeTypeSwitch()
	fi.cfg = c
	return c
}

// indexNode registers n and everything below it (not nested function bodies,
// not the body of a range statement used as loop condition) at pt.
func (c *CFG) indexNode(n ast.Node, pt Point) {
	var body ast.Node
	if rs, ok := n.(*ast.RangeStmt); ok {
		body = rs.Body
	}
	ast.Inspect(n, func(x ast.Node) bool {
		if x == nil {
			return false
		}
		if x == body {
			return false
		}
		if _, ok := c.where[x]; !ok {
			c.where[x] = pt
		}
		if _, ok := x.(*ast.FuncLit); ok {
			return false
		}
		return true
	})
}

// PointOf returns the program point at which n is evaluated. For the
// communication of a select clause the point is the start of the clause body
// (go/cfg hoists all comm statements in front of the select).
func (c *CFG) PointOf(n ast.Node) (Point, bool) {
	// select comm?
	for x := n; x != nil; x = c.p.parents[x] {
		if cc, ok := c.p.parents[x].(*ast.CommClause); ok && cc.Comm == x {
			for _, b := range c.live {
				if b.Kind == cfg.KindSelectCaseBody && b.Stmt == cc {
					return Point{b, 0}, true
				}
			}
		}
		if _, ok := x.(*ast.FuncLit); ok && x != n {
			break
		}
		if _, ok := x.(*ast.FuncDecl); ok {
			break
		}
	}
	for x := n; x != nil; x = c.p.parents[x] {
		if pt, ok := c.where[x]; ok {
			return pt, true
		}
		if x == c.fi.Node {
			break
		}
	}
	return Point{}, false
}

func (c *CFG) Entry() *cfg.Block { return c.g.Blocks[0] }

// IsExit reports whether control leaves the function normally at the end of b
// (return statement or falling off the end).
func (c *CFG) IsExit(b *cfg.Block) bool {
	if len(b.Succs) != 0 {
		return false
	}
	if b.Kind == cfg.KindSelectAfterCase && len(b.Nodes) == 0 {
		return false // select without default: blocks (with a default arm, go/cfg emits the arm's statements into this block)
	}
	if n := len(b.Nodes); n > 0 {
		if es, ok := b.Nodes[n-1].(*ast.ExprStmt); ok {
			if call, ok := es.X.(*ast.CallExpr); ok && c.p.isPanicCall(call) {
				return false
			}
		}
	}
	return true
}

func (c *CFG) Exits() []*cfg.Block {
	var out []*cfg.Block
	for _, b := range c.live {
		if c.IsExit(b) {
			out = append(out, b)
		}
	}
	return out
}

func (c *CFG) liveSuccs(b *cfg.Block) []*cfg.Block {
	var out []*cfg.Block
	for _, s := range b.Succs {
		if s.Live {
			out = append(out, s)
		}
	}
	return out
}

func (c *CFG) computeDom() {
	// reverse postorder
	seen := map[*cfg.Block]bool{}
	var post []*cfg.Block
	var dfs func(b *cfg.Block)
	dfs = func(b *cfg.Block) {
		seen[b] = true
		for _, s := range c.liveSuccs(b) {
			if !seen[s] {
				dfs(s)
			}
		}
		post = append(post, b)
	}
	dfs(c.Entry())
	c.order = map[*cfg.Block]int{}
	rpo := make([]*cfg.Block, len(post))
	for i := range post {
		rpo[len(post)-1-i] = post[i]
	}
	for i, b := range rpo {
		c.order[b] = i
	}
	// Cooper-Harvey-Kennedy
	idom := map[*cfg.Block]*cfg.Block{c.Entry(): c.Entry()}
	intersect := func(a, b *cfg.Block) *cfg.Block {
		for a != b {
			for c.order[a] > c.order[b] {
				a = idom[a]
			}
			for c.order[b] > c.order[a] {
				b = idom[b]
			}
		}
		return a
	}
	changed := true
	for changed {
		changed = false
		for _, b := range rpo[1:] {
			var nd *cfg.Block
			for _, pr := range c.preds[b] {
				if _, ok := idom[pr]; !ok {
					continue
				}
				if nd == nil {
					nd = pr
				} else {
					nd = intersect(pr, nd)
				}
			}
			if nd != nil && idom[b] != nd {
				idom[b] = nd
				changed = true
			}
		}
	}
	c.idom = idom
}

// BlockDominates: a dominates b.
func (c *CFG) BlockDominates(a, b *cfg.Block) bool {
	for {
		if a == b {
			return true
		}
		d, ok := c.idom[b]
		if !ok || d == b {
			return false
		}
		b = d
	}
}

func (c *CFG) Dominates(a, b Point) bool {
	if a.B == b.B {
		return a.I <= b.I
	}
	return c.BlockDominates(a.B, b.B)
}

func (c *CFG) computeTypeSwitch() {
	// find type-switch test blocks: 2 successors, Succs[0] is a case body whose
	// clause belongs to a TypeSwitchStmt.
	for _, b := range c.live {
		if len(b.Succs) != 2 {
			continue
		}
		body := b.Succs[0]
		if body.Kind != cfg.KindSwitchCaseBody {
			continue
		}
		cc, ok := body.Stmt.(*ast.CaseClause)
		if !ok {
			continue
		}
		ts, ok := c.p.parents[c.p.parents[cc]].(*ast.TypeSwitchStmt)
		if !ok {
			continue
		}
		x := typeSwitchSubject(ts)
		if x == nil {
			continue
		}
		// which type of the clause does b test? count chain position
		k := 0
		if b.Kind == cfg.KindSwitchNextCase && b.Stmt == cc {
			// walk predecessors within the clause
			cur := b
			for cur.Kind == cfg.KindSwitchNextCase && cur.Stmt == cc {
				k++
				var prev *cfg.Block
				for _, pr := range c.preds[cur] {
					if len(pr.Succs) == 2 && pr.Succs[1] == cur {
						prev = pr
					}
				}
				if prev == nil {
					break
				}
				cur = prev
			}
		}
		if k >= len(cc.List) {
			continue
		}
		c.typesw[b] = c.p.typeIsTerm(x, cc.List[k])
	}
}

func typeSwitchSubject(ts *ast.TypeSwitchStmt) ast.Expr {
	var e ast.Expr
	switch a := ts.Assign.(type) {
	case *ast.AssignStmt:
		if len(a.Rhs) == 1 {
			e = a.Rhs[0]
		}
	case *ast.ExprStmt:
		e = a.X
	}
	if ta, ok := ast.Unparen(e).(*ast.TypeAssertExpr); ok {
		return ta.X
	}
	return nil
}

func (p *Prog) typeIsTerm(x ast.Expr, typ ast.Expr) *Term {
	ts := "nil"
	if tv, ok := p.Info.Types[typ]; ok && tv.IsType() {
		ts = types.TypeString(tv.Type, func(*types.Package) string { return "" })
	}
	return &Term{Op: "typeis", Str: ts, Args: []*Term{p.Term(x)}, Pos: typ.Pos()}
}

// CondTerm returns the boolean term that holds on the edge b -> b.Succs[0]
// (its negation holds on b -> b.Succs[1]); nil if b is not a two-way branch
// with a known condition.
func (c *CFG) CondTerm(b *cfg.Block) *Term {
	if len(b.Succs) != 2 {
		return nil
	}
	if t, ok := c.typesw[b]; ok {
		return t
	}
	if len(b.Nodes) == 0 {
		return nil
	}
	last := b.Nodes[len(b.Nodes)-1]
	e, ok := last.(ast.Expr)
	if !ok {
		return nil
	}
	switch par := c.p.parents[last].(type) {
	case *ast.IfStmt:
		if par.Cond == last {
			return c.condWithInit(par, c.p.Term(e))
		}
	case *ast.ForStmt:
		if par.Cond == last {
			return c.p.Term(e)
		}
	case *ast.CaseClause:
		sw, ok := c.p.parents[c.p.parents[par]].(*ast.SwitchStmt)
		if !ok {
			return nil
		}
		if sw.Tag == nil {
			return c.p.Term(e)
		}
		return normTerm(mk("==", c.p.Term(sw.Tag), c.p.Term(e)))
	case *ast.ParenExpr:
		// parenthesised condition
		for q := ast.Node(par); q != nil; q = c.p.parents[q] {
			switch pp := c.p.parents[q].(type) {
			case *ast.ParenExpr:
				continue
			case *ast.IfStmt:
				if pp.Cond == q {
					return c.p.Term(e)
				}
			case *ast.ForStmt:
				if pp.Cond == q {
					return c.p.Term(e)
				}
			}
			break
		}
	}
	return nil
}

// ---------------------------------------------------------------- path search

// FindPath searches a path in the CFG starting at `from` that reaches a point
// satisfying isTarget without crossing a point satisfying isBarrier. Points are
// visited node by node. If atExit is non-nil, reaching the normal end of the
// function counts as a target when atExit() is true. The returned path is a
// list of human-readable positions.
type PathQuery struct {
	From         Point
	IsTarget     func(n ast.Node, pt Point) bool
	IsBarrier    func(n ast.Node, pt Point) bool
	ExitIsTarget bool
	// EdgeOK, if set, filters CFG edges (e.g. to ignore back edges or infeasible branches).
	EdgeOK func(from, to *cfg.Block) bool
	// OnBlock, if set, is consulted when a block is entered (before its nodes):
	// used for select communications, which take effect at the start of their
	// clause body (the body may be empty).
	OnBlock func(b *cfg.Block) (target, barrier bool)
}

type PathResult struct {
	Found  bool
	Path   []Point
	AtExit bool
}

func (c *CFG) FindPath(q PathQuery) PathResult {
	type state struct {
		b *cfg.Block
		i int
	}
	prev := map[*cfg.Block]*cfg.Block{}
	visited := map[*cfg.Block]bool{}
	// scan the remainder of the first block
	scan := func(b *cfg.Block, start int) (hit int, barrier bool) {
		for i := start; i < len(b.Nodes); i++ {
			pt := Point{b, i}
			if q.IsTarget != nil && q.IsTarget(b.Nodes[i], pt) {
				return i, false
			}
			if q.IsBarrier != nil && q.IsBarrier(b.Nodes[i], pt) {
				return -1, true
			}
		}
		return -1, false
	}
	mkPath := func(last *cfg.Block, idx int) []Point {
		var rev []Point
		rev = append(rev, Point{last, idx})
		for b := last; b != q.From.B || len(rev) == 1; {
			pb, ok := prev[b]
			if !ok {
				break
			}
			rev = append(rev, Point{pb, len(pb.Nodes)})
			b = pb
			if b == q.From.B {
				break
			}
		}
		out := make([]Point, 0, len(rev)+1)
		out = append(out, q.From)
		for i := len(rev) - 1; i >= 0; i-- {
			out = append(out, rev[i])
		}
		return out
	}
	hit, barrier := scan(q.From.B, q.From.I)
	if hit >= 0 {
		return PathResult{Found: true, Path: []Point{q.From, {q.From.B, hit}}}
	}
	if barrier {
		return PathResult{}
	}
	if q.ExitIsTarget && c.IsExit(q.From.B) {
		return PathResult{Found: true, Path: []Point{q.From, {q.From.B, len(q.From.B.Nodes)}}, AtExit: true}
	}
	queue := []*cfg.Block{}
	push := func(from, to *cfg.Block) {
		if !to.Live || visited[to] {
			return
		}
		if q.EdgeOK != nil && !q.EdgeOK(from, to) {
			return
		}
		visited[to] = true
		prev[to] = from
		queue = append(queue, to)
	}
	for _, s := range q.From.B.Succs {
		push(q.From.B, s)
	}
	for len(queue) > 0 {
		b := queue[0]
		queue = queue[1:]
		if q.OnBlock != nil {
			tg, br := q.OnBlock(b)
			if tg {
				return PathResult{Found: true, Path: mkPath(b, 0)}
			}
			if br {
				continue
			}
		}
		hit, barrier := scan(b, 0)
		if hit >= 0 {
			return PathResult{Found: true, Path: mkPath(b, hit)}
		}
		if barrier {
			continue
		}
		if q.ExitIsTarget && c.IsExit(b) {
			return PathResult{Found: true, Path: mkPath(b, len(b.Nodes)), AtExit: true}
		}
		for _, s := range b.Succs {
			push(b, s)
		}
	}
	return PathResult{}
}

// DescribePath renders a path as "file:line -> file:line ...".
func (c *CFG) DescribePath(path []Point) string {
	var parts []string
	lastS := ""
	for _, pt := range path {
		var s string
		if pt.I < len(pt.B.Nodes) {
			s = c.p.Pos(pt.B.Nodes[pt.I])
		} else if len(pt.B.Nodes) > 0 {
			s = c.p.PosOf(pt.B.Nodes[len(pt.B.Nodes)-1].End())
		} else {
			s = fmt.Sprintf("block#%d(%s)", pt.B.Index, pt.B.Kind)
		}
		if s != lastS {
			parts = append(parts, s)
		}
		lastS = s
	}
	return strings.Join(parts, " -> ")
}

// NodesIn returns all CFG nodes of the function in block order (for simple scans).
func (c *CFG) AllPoints() []Point {
	var out []Point
	bs := append([]*cfg.Block{}, c.live...)
	sort.Slice(bs, func(i, j int) bool { return c.order[bs[i]] < c.order[bs[j]] })
	for _, b := range bs {
		for i := range b.Nodes {
			out = append(out, Point{b, i})
		}
	}
	return out
}

func (pt Point) Node() ast.Node {
	if pt.I < len(pt.B.Nodes) {
		return pt.B.Nodes[pt.I]
	}
	return nil
}

// Reaches reports whether `to` is reachable from `from` (forward, any path).
func (c *CFG) Reaches(from, to Point) bool {
	r := c.FindPath(PathQuery{From: from, IsTarget: func(n ast.Node, pt Point) bool { return pt == to }})
	return r.Found
}

// inspectNoLit walks n without entering nested function literals (and without
// entering the body of a range statement that stands for its loop condition).
func inspectShallow(n ast.Node, f func(ast.Node) bool) {
	var body ast.Node
	if rs, ok := n.(*ast.RangeStmt); ok {
		body = rs.Body
	}
	ast.Inspect(n, func(x ast.Node) bool {
		if x == nil || x == body {
			return false
		}
		if _, ok := x.(*ast.FuncLit); ok {
			f(x)
			return false
		}
		return f(x)
	})
}

// DominatingConds returns the branch conditions that control-dominate pt: for
// every two-way branch b whose successor s has b as its only predecessor and
// dominates pt's block, the condition (or its negation) holding on that edge.
// Unlike facts these are not subject to kills: they describe the branch taken,
// not what still holds.
func (c *CFG) DominatingConds(pt Point) []*Term {
	out := c.localDominatingConds(pt)
	// a statement moved into an unexported helper with a single call site is still governed by the branches
	// that govern that call: their conditions, with the arguments replaced by the helper's parameters
	fi := c.fi
	for depth := 0; depth < 2; depth++ {
		caller, call, ok := c.p.singleCaller(fi)
		if !ok {
			break
		}
		cc := c.p.CFG(caller)
		cpt, okp := cc.PointOf(call)
		if !okp {
			break
		}
		site := c.p.siteOf(call, caller)
		var params []*types.Var
		params = append(params, c.p.recvVar(fi))
		if fi.Decl != nil {
			for _, fl := range fi.Decl.Type.Params.List {
				if len(fl.Names) == 0 {
					params = append(params, nil)
				}
				for _, nm := range fl.Names {
					v, _ := c.p.Info.Defs[nm].(*types.Var)
					params = append(params, v)
				}
			}
		}
		args := append([]*Term{site.Recv}, site.Args...)
		for _, ct := range cc.localDominatingConds(cpt) {
			t := ct
			if len(args) == len(params) {
				for i, a := range args {
					if a == nil || params[i] == nil || a.IsConst() {
						continue
					}
					t = replaceByKey(t, a.Key(), tVar(params[i]))
				}
			}
			out = append(out, normTerm(t))
		}
		fi = caller
	}
	return out
}

func (c *CFG) localDominatingConds(pt Point) []*Term {
	var out []*Term
	for _, b := range c.live {
		if len(b.Succs) != 2 || b.Succs[0] == b.Succs[1] {
			continue
		}
		ct := c.CondTerm(b)
		if ct == nil {
			continue
		}
		for i, s := range b.Succs {
			if !s.Live || len(c.preds[s]) != 1 || !c.BlockDominates(s, pt.B) {
				continue
			}
			if i == 0 {
				out = append(out, ct)
			} else {
				out = append(out, Negate(ct))
			}
		}
	}
	return out
}

// CondAt is a dominating branch condition together with the block that branches.
type CondAt struct {
	T *Term
	B *cfg.Block
}

// DominatingCondsAt is DominatingConds with the branching blocks.
func (c *CFG) DominatingCondsAt(pt Point) []CondAt {
	var out []CondAt
	for _, b := range c.live {
		if len(b.Succs) != 2 || b.Succs[0] == b.Succs[1] {
			continue
		}
		ct := c.CondTerm(b)
		if ct == nil {
			continue
		}
		for i, s := range b.Succs {
			if !s.Live || len(c.preds[s]) != 1 || !c.BlockDominates(s, pt.B) {
				continue
			}
			if i == 0 {
				out = append(out, CondAt{ct, b})
			} else {
				out = append(out, CondAt{Negate(ct), b})
			}
		}
	}
	return out
}

// condWithInit: `if x := e; <cond over x>`: a boolean x defined by the if's own
// init statement is replaced by e — nothing executes between the two, so the
// condition is exactly the expression it abbreviates.
func (c *CFG) condWithInit(is *ast.IfStmt, t *Term) *Term {
	as, ok := is.Init.(*ast.AssignStmt)
	if ok && as.Tok == token.DEFINE && len(as.Lhs) == 2 && len(as.Rhs) == 1 {
		// if v, ok := x.(T); ok  — the same test as the arm `case T` of a type switch on x
		if ta, isTA := ast.Unparen(as.Rhs[0]).(*ast.TypeAssertExpr); isTA && ta.Type != nil {
			if okID, isID := as.Lhs[1].(*ast.Ident); isID {
				if okV, _ := c.p.Info.Defs[okID].(*types.Var); okV != nil {
					ti := c.p.typeIsTerm(ta.X, ta.Type)
					return normTerm(t.Subst(map[types.Object]*Term{okV: ti}))
				}
			}
		}
		return t
	}
	if !ok || as.Tok != token.DEFINE || len(as.Lhs) != 1 || len(as.Rhs) != 1 {
		return t
	}
	id, ok := as.Lhs[0].(*ast.Ident)
	if !ok {
		return t
	}
	v, _ := c.p.Info.Defs[id].(*types.Var)
	if v == nil {
		return t
	}
	if b, isB := v.Type().Underlying().(*types.Basic); !isB || b.Kind() != types.Bool {
		return t
	}
	return normTerm(t.Subst(map[types.Object]*Term{v: c.p.Term(as.Rhs[0])}))
}
