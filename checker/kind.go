package main

import (
	"fmt"
	"go/ast"
	"go/token"
	"go/types"
)

// E-KIND: qualifier inference ("units of measure") for 32-bit sequence numbers,
// clock values and FEC ids, by unification over the whole package.

type Kind int

const (
	KNone Kind = iota
	KSeq
	KTime
	KFecID
	KGroup // FEC group id = FECID / shardSize
)

func (k Kind) String() string {
	return [...]string{"plain", "SEQ", "TIME", "FECID", "FECGROUP"}[k]
}

type knode struct {
	parent *knode
	kind   Kind
	name   string
}

func (n *knode) find() *knode {
	for n.parent != nil {
		if n.parent.parent != nil {
			n.parent = n.parent.parent
		}
		n = n.parent
	}
	return n
}

type derived struct {
	res   *knode
	op    token.Token
	x, y  *knode
	ySize bool // right operand is (a conversion of) a shardSize field
	yPaws bool // right operand is a paws field
	expr  ast.Node
	fn    *FuncInfo
}

type kindViolation struct {
	node ast.Node
	fn   *FuncInfo
	rule string
	what string
}

type kindOK struct {
	node ast.Node
	fn   *FuncInfo
	rule string
	what string
}

type KindAnalysis struct {
	p            *Prog
	nodes        map[any]*knode
	seeds        map[Kind]*knode
	derived      []*derived
	viol         []kindViolation
	oks          []kindOK
	poly         map[*types.Func]bool
	exprNode     map[ast.Expr]*knode
	curFn        *FuncInfo
	conflictSeen map[string]bool
}

type resultKey struct {
	f *types.Func
	i int
}

func isIntegerType(t types.Type) bool {
	if t == nil {
		return false
	}
	b, ok := t.Underlying().(*types.Basic)
	return ok && b.Info()&types.IsInteger != 0
}

func (ka *KindAnalysis) node(key any, name string) *knode {
	if n, ok := ka.nodes[key]; ok {
		return n
	}
	n := &knode{name: name}
	ka.nodes[key] = n
	return n
}

func (ka *KindAnalysis) kindOf(n *knode) Kind {
	if n == nil {
		return KNone
	}
	return n.find().kind
}

// union merges two classes; a clash of two different kinds is a violation
// reported at the site and the classes stay apart.
func (ka *KindAnalysis) union(a, b *knode, at ast.Node, why string) {
	if a == nil || b == nil {
		return
	}
	ra, rb := a.find(), b.find()
	if ra == rb {
		return
	}
	if ra.kind != KNone && rb.kind != KNone && ra.kind != rb.kind {
		key := fmt.Sprintf("%d", at.Pos())
		if !ka.conflictSeen[key] {
			ka.conflictSeen[key] = true
			ka.viol = append(ka.viol, kindViolation{at, ka.curFn, "C12.K2", fmt.Sprintf("%s mixes a %s value (%s) with a %s value (%s)", why, ra.kind, a.name, rb.kind, b.name)})
		}
		return
	}
	if ra.kind == KNone {
		ra.parent = rb
	} else {
		rb.parent = ra
	}
}

func (ka *KindAnalysis) seed(k Kind) *knode {
	if n, ok := ka.seeds[k]; ok {
		return n
	}
	n := &knode{kind: k, name: k.String()}
	ka.seeds[k] = n
	return n
}

func (p *Prog) Kinds() *KindAnalysis {
	if v, ok := p.memo["kinds"]; ok {
		return v.(*KindAnalysis)
	}
	ka := &KindAnalysis{p: p, nodes: map[any]*knode{}, seeds: map[Kind]*knode{}, poly: map[*types.Func]bool{}, exprNode: map[ast.Expr]*knode{}, conflictSeen: map[string]bool{}}
	// seeds (anchors)
	seedField := func(typ, fld string, k Kind) {
		f := p.Field(typ, fld)
		ka.union(ka.node(f, typ+"."+fld), ka.seed(k), f2node(p, f), "seed")
	}
	for _, f := range []string{"snd_una", "snd_nxt", "rcv_nxt"} {
		seedField("KCP", f, KSeq)
	}
	seedField("segment", "sn", KSeq)
	seedField("segment", "una", KSeq)
	seedField("ackItem", "sn", KSeq)
	seedField("segment", "ts", KTime)
	seedField("segment", "resendts", KTime)
	seedField("KCP", "ts_probe", KTime)
	seedField("KCP", "ts_flush", KTime)
	seedField("ackItem", "ts", KTime)
	seedField("fecEncoder", "next", KFecID)
	seedField("pulse", "seq", KFecID)
	seedField("fecDecoder", "newestShardId", KGroup)
	ka.union(ka.node(resultKey{p.Func("currentMs"), 0}, "currentMs()"), ka.seed(KTime), p.decls[p.Func("currentMs")], "seed")
	ka.union(ka.node(resultKey{p.Method("fecPacket", "seqid"), 0}, "fecPacket.seqid()"), ka.seed(KFecID), p.decls[p.Method("fecPacket", "seqid")], "seed")
	// kind-polymorphic helpers: single return over parameters with only -, conversions, comparisons
	for _, fi := range p.funcs {
		if fi.Decl != nil && fi.Obj != nil && ka.isPolymorphic(fi) {
			ka.poly[fi.Obj] = true
		}
	}
	// constraints
	for _, fi := range p.funcs {
		ka.curFn = fi
		ka.walkFunc(fi)
	}
	// derived nodes to a fixpoint
	for iter := 0; iter < 20; iter++ {
		changed := false
		for _, d := range ka.derived {
			ka.curFn = d.fn
			kx, ky := ka.kindOf(d.x), ka.kindOf(d.y)
			before := ka.kindOf(d.res)
			switch d.op {
			case token.ARROW: // conversion
				if kx != KNone {
					ka.union(d.res, d.x, d.expr, "conversion")
				}
			case token.ADD:
				if kx != KNone && ky == KNone {
					ka.union(d.res, d.x, d.expr, "addition")
				} else if ky != KNone && kx == KNone {
					ka.union(d.res, d.y, d.expr, "addition")
				}
			case token.QUO:
				if kx == KFecID && d.ySize {
					ka.union(d.res, ka.seed(KGroup), d.expr, "division by the group size")
				}
			case token.REM:
				if kx == KFecID && d.yPaws {
					ka.union(d.res, d.x, d.expr, "reduction modulo paws")
				}
			case token.MUL:
				if kx == KGroup && d.ySize {
					ka.union(d.res, ka.seed(KFecID), d.expr, "group id times group size")
				}
			}
			if ka.kindOf(d.res) != before {
				changed = true
			}
		}
		if !changed {
			break
		}
	}
	ka.finalChecks()
	p.memo["kinds"] = ka
	return ka
}

func f2node(p *Prog, f *types.Var) ast.Node {
	// position holder for seed unions: a dummy identifier at the field's position
	return &ast.Ident{NamePos: f.Pos(), Name: f.Name()}
}

func (ka *KindAnalysis) isPolymorphic(fi *FuncInfo) bool {
	if len(fi.Body.List) != 1 {
		return false
	}
	ret, ok := fi.Body.List[0].(*ast.ReturnStmt)
	if !ok || len(ret.Results) != 1 {
		return false
	}
	sig := fi.Obj.Type().(*types.Signature)
	if sig.Recv() != nil || sig.Params().Len() < 2 {
		return false
	}
	for i := 0; i < sig.Params().Len(); i++ {
		if !isIntegerType(sig.Params().At(i).Type()) {
			return false
		}
	}
	okShape := true
	hasSub := false
	ast.Inspect(ret.Results[0], func(n ast.Node) bool {
		switch x := n.(type) {
		case *ast.BinaryExpr:
			switch x.Op {
			case token.SUB:
				hasSub = true
			case token.LSS, token.LEQ, token.GTR, token.GEQ, token.EQL, token.NEQ:
			default:
				okShape = false
			}
		case *ast.CallExpr:
			if !ka.p.IsConversion(x) {
				okShape = false
			}
		}
		return true
	})
	return okShape && hasSub
}

func (ka *KindAnalysis) objNode(o types.Object) *knode {
	v, ok := o.(*types.Var)
	if !ok || !isIntegerType(v.Type()) {
		return nil
	}
	if v.IsField() {
		v = v.Origin()
		return ka.node(v, ka.p.FieldOwner(v))
	}
	return ka.node(v, v.Name())
}

func (ka *KindAnalysis) isFieldNamed(e ast.Expr, names ...string) bool {
	e = ast.Unparen(e)
	for {
		if c, ok := e.(*ast.CallExpr); ok && ka.p.IsConversion(c) && len(c.Args) == 1 {
			e = ast.Unparen(c.Args[0])
			continue
		}
		break
	}
	sel, ok := e.(*ast.SelectorExpr)
	if !ok {
		return false
	}
	s, ok := ka.p.Info.Selections[sel]
	if !ok || s.Kind() != types.FieldVal {
		return false
	}
	owner := ka.p.FieldOwner(s.Obj().(*types.Var).Origin())
	for _, n := range names {
		if owner == n {
			return true
		}
	}
	return false
}

// expr returns the kind node of an expression (nil = plain / not an integer).
func (ka *KindAnalysis) expr(e ast.Expr) *knode {
	if e == nil {
		return nil
	}
	if n, ok := ka.exprNode[e]; ok {
		return n
	}
	n := ka.expr1(e)
	ka.exprNode[e] = n
	return n
}

func (ka *KindAnalysis) expr1(e ast.Expr) *knode {
	p := ka.p
	if tv, ok := p.Info.Types[e]; ok && tv.Value != nil {
		return nil // constants are plain
	}
	switch x := e.(type) {
	case *ast.ParenExpr:
		return ka.expr(x.X)
	case *ast.Ident:
		o := p.Info.Uses[x]
		if o == nil {
			o = p.Info.Defs[x]
		}
		return ka.objNode(o)
	case *ast.SelectorExpr:
		// evaluate the base for its constraints
		if _, isPkg := p.Info.Uses[identOf(x.X)].(*types.PkgName); !isPkg {
			ka.expr(x.X)
		}
		if s, ok := p.Info.Selections[x]; ok && s.Kind() == types.FieldVal {
			return ka.objNode(s.Obj())
		}
		if o, ok := p.Info.Uses[x.Sel].(*types.Var); ok {
			return ka.objNode(o)
		}
		return nil
	case *ast.StarExpr:
		return ka.expr(x.X)
	case *ast.UnaryExpr:
		n := ka.expr(x.X)
		if x.Op == token.SUB || x.Op == token.ADD {
			return n
		}
		return nil
	case *ast.IndexExpr:
		ka.expr(x.X)
		ka.expr(x.Index)
		return nil
	case *ast.SliceExpr:
		ka.expr(x.X)
		ka.expr(x.Low)
		ka.expr(x.High)
		return nil
	case *ast.TypeAssertExpr:
		ka.expr(x.X)
		return nil
	case *ast.CompositeLit:
		ka.compositeLit(x)
		return nil
	case *ast.FuncLit:
		return nil
	case *ast.KeyValueExpr:
		ka.expr(x.Value)
		return nil
	case *ast.BinaryExpr:
		a, b := ka.expr(x.X), ka.expr(x.Y)
		switch x.Op {
		case token.SUB:
			ka.union(a, b, x, "subtraction")
			return nil
		case token.EQL, token.NEQ:
			ka.union(a, b, x, "equality test")
			return nil
		case token.ADD, token.QUO, token.REM, token.MUL:
			if !isIntegerType(p.Info.TypeOf(x)) {
				return nil
			}
			res := &knode{name: exprString(x)}
			ka.derived = append(ka.derived, &derived{res: res, op: x.Op, x: a, y: b, expr: x, fn: ka.curFn,
				ySize: ka.isFieldNamed(x.Y, "fecDecoder.shardSize", "fecEncoder.shardSize"),
				yPaws: ka.isFieldNamed(x.Y, "fecDecoder.paws", "fecEncoder.paws")})
			return res
		}
		return nil
	case *ast.CallExpr:
		return ka.call(x)
	}
	return nil
}

func identOf(e ast.Expr) *ast.Ident {
	id, _ := ast.Unparen(e).(*ast.Ident)
	return id
}

func (ka *KindAnalysis) compositeLit(x *ast.CompositeLit) {
	p := ka.p
	st := structOf(p.Info.TypeOf(x))
	for i, el := range x.Elts {
		if kv, ok := el.(*ast.KeyValueExpr); ok {
			v := ka.expr(kv.Value)
			if id, ok := kv.Key.(*ast.Ident); ok && st != nil {
				if f, ok := p.Info.Uses[id].(*types.Var); ok && f.IsField() {
					ka.union(ka.objNode(f), v, kv, "struct literal field")
				}
			} else {
				ka.expr(kv.Key)
			}
			continue
		}
		v := ka.expr(el)
		if st != nil && i < st.NumFields() {
			ka.union(ka.objNode(st.Field(i)), v, el, "struct literal field")
		}
	}
}

func (ka *KindAnalysis) call(c *ast.CallExpr) *knode {
	p := ka.p
	if p.IsConversion(c) && len(c.Args) == 1 {
		// a conversion passes the kind of its operand on (checked in finalChecks) but does
		// not impose the kind of its context on the operand: uint32(duration/ms) creates a
		// TIME value out of a plain one.
		x := ka.expr(c.Args[0])
		if !isIntegerType(p.Info.TypeOf(c)) {
			return nil
		}
		res := &knode{name: exprString(c)}
		ka.derived = append(ka.derived, &derived{res: res, op: token.ARROW, x: x, expr: c, fn: ka.curFn})
		return res
	}
	if b := p.BuiltinName(c); b != "" {
		var ns []*knode
		for _, a := range c.Args {
			if tv, ok := p.Info.Types[a]; ok && tv.IsType() {
				continue
			}
			ns = append(ns, ka.expr(a))
		}
		return nil
	}
	f := p.Callee(c)
	var args []*knode
	for _, a := range c.Args {
		args = append(args, ka.expr(a))
	}
	if sel, ok := ast.Unparen(c.Fun).(*ast.SelectorExpr); ok {
		if _, isPkg := p.Info.Uses[identOf(sel.X)].(*types.PkgName); !isPkg {
			ka.expr(sel.X)
		}
	} else if _, ok := ast.Unparen(c.Fun).(*ast.FuncLit); !ok {
		ka.expr(c.Fun)
	}
	if f == nil || f.Pkg() != p.Types {
		return nil
	}
	if ka.poly[f] {
		var first *knode
		for _, a := range args {
			if a == nil {
				continue
			}
			if first == nil {
				first = a
			} else {
				ka.union(first, a, c, "signed difference "+f.Name()+"()")
			}
		}
		return nil
	}
	sig := f.Type().(*types.Signature)
	for i, a := range args {
		if i >= sig.Params().Len() {
			break
		}
		if sig.Variadic() && i >= sig.Params().Len()-1 {
			break
		}
		pa := sig.Params().At(i)
		if pv := ka.paramVar(f, i); pv != nil {
			ka.union(ka.objNode(pv), a, c, "argument "+pa.Name()+" of "+f.Name())
		}
	}
	if sig.Results().Len() >= 1 && isIntegerType(sig.Results().At(0).Type()) {
		return ka.node(resultKey{f, 0}, funcDisplayName(f)+"()")
	}
	return nil
}

// paramVar returns the declared parameter object i of package function f.
func (ka *KindAnalysis) paramVar(f *types.Func, i int) *types.Var {
	d := ka.p.decls[f]
	if d == nil {
		return nil
	}
	k := 0
	for _, fl := range d.Type.Params.List {
		if len(fl.Names) == 0 {
			k++
			continue
		}
		for _, nm := range fl.Names {
			if k == i {
				v, _ := ka.p.Info.Defs[nm].(*types.Var)
				return v
			}
			k++
		}
	}
	return nil
}

func (ka *KindAnalysis) walkFunc(fi *FuncInfo) {
	p := ka.p
	var results []*knode
	if fi.Obj != nil {
		sig := fi.Obj.Type().(*types.Signature)
		for i := 0; i < sig.Results().Len(); i++ {
			if isIntegerType(sig.Results().At(i).Type()) {
				n := ka.node(resultKey{fi.Obj, i}, fi.Name+"()")
				results = append(results, n)
				// named results
				if rv := sig.Results().At(i); rv.Name() != "" {
					if fi.Decl.Type.Results != nil {
						k := 0
						for _, fl := range fi.Decl.Type.Results.List {
							for _, nm := range fl.Names {
								if k == i {
									ka.union(ka.objNode(p.Info.Defs[nm]), n, nm, "named result")
								}
								k++
							}
						}
					}
				}
			} else {
				results = append(results, nil)
			}
		}
	}
	inspectBody(fi, func(n ast.Node) bool {
		switch x := n.(type) {
		case *ast.AssignStmt:
			if len(x.Lhs) == len(x.Rhs) {
				for i := range x.Lhs {
					l, r := ka.expr(x.Lhs[i]), ka.expr(x.Rhs[i])
					switch x.Tok {
					case token.ASSIGN, token.DEFINE:
						ka.union(l, r, x, "assignment")
					case token.ADD_ASSIGN:
						// a += b: like a + b, both kinded is a violation (checked later)
						res := &knode{name: exprString(x.Lhs[i])}
						ka.derived = append(ka.derived, &derived{res: res, op: token.ADD, x: l, y: r, expr: x, fn: fi})
					case token.SUB_ASSIGN:
						// K -= plain stays K; K -= K is meaningless
						ka.checkLater(x, fi, l, r, "-=")
					default:
						ka.checkLater(x, fi, l, r, x.Tok.String())
					}
				}
			} else {
				for _, r := range x.Rhs {
					ka.expr(r)
				}
				for _, l := range x.Lhs {
					ka.expr(l)
				}
			}
			return false
		case *ast.ReturnStmt:
			for i, rr := range x.Results {
				v := ka.expr(rr)
				if i < len(results) && len(x.Results) == len(results) {
					ka.union(results[i], v, x, "return value")
				}
			}
			return false
		case *ast.ValueSpec:
			for i, nm := range x.Names {
				if i < len(x.Values) {
					ka.union(ka.objNode(p.Info.Defs[nm]), ka.expr(x.Values[i]), x, "declaration")
				}
			}
			return false
		case *ast.ExprStmt:
			ka.expr(x.X)
			return false
		case *ast.IncDecStmt:
			ka.expr(x.X)
			return false
		case *ast.SendStmt:
			ka.expr(x.Value)
			return false
		case *ast.IfStmt:
			if x.Cond != nil {
				ka.expr(x.Cond)
			}
		case *ast.ForStmt:
			if x.Cond != nil {
				ka.expr(x.Cond)
			}
		case *ast.SwitchStmt:
			if x.Tag != nil {
				t := ka.expr(x.Tag)
				for _, cl := range x.Body.List {
					for _, ce := range cl.(*ast.CaseClause).List {
						ka.union(t, ka.expr(ce), ce, "switch case")
					}
				}
			} else {
				for _, cl := range x.Body.List {
					for _, ce := range cl.(*ast.CaseClause).List {
						ka.expr(ce)
					}
				}
			}
		case *ast.RangeStmt:
			ka.expr(x.X)
		case *ast.GoStmt:
			ka.expr(x.Call)
			return false
		case *ast.DeferStmt:
			ka.expr(x.Call)
			return false
		}
		return true
	})
}

type laterCheck struct {
	node ast.Node
	fn   *FuncInfo
	l, r *knode
	op   string
}

func (ka *KindAnalysis) checkLater(n ast.Node, fi *FuncInfo, l, r *knode, op string) {
	later, _ := ka.p.memo["kindlater"].([]laterCheck)
	ka.p.memo["kindlater"] = append(later, laterCheck{n, fi, l, r, op})
}

func kinded(k Kind) bool { return k != KNone }

// finalChecks types every operator application with the inferred kinds.
func (ka *KindAnalysis) finalChecks() {
	p := ka.p
	bad := func(n ast.Node, fi *FuncInfo, rule, what string) {
		ka.viol = append(ka.viol, kindViolation{n, fi, rule, what})
	}
	good := func(n ast.Node, fi *FuncInfo, rule, what string) {
		ka.oks = append(ka.oks, kindOK{n, fi, rule, what})
	}
	itd := p.Func("_itimediff")
	for _, fi := range p.funcs {
		fi := fi
		inspectBody(fi, func(n ast.Node) bool {
			switch x := n.(type) {
			case *ast.BinaryExpr:
				kx, ky := ka.kindOf(ka.exprNode[x.X]), ka.kindOf(ka.exprNode[x.Y])
				switch x.Op {
				case token.LSS, token.LEQ, token.GTR, token.GEQ:
					if kinded(kx) || kinded(ky) {
						// FECID range check against paws
						if (kx == KFecID && ka.isFieldNamed(x.Y, "fecDecoder.paws", "fecEncoder.paws")) || (ky == KFecID && ka.isFieldNamed(x.X, "fecDecoder.paws", "fecEncoder.paws")) {
							good(x, fi, "C12.K1", "range check of a FEC id against its wrap point paws")
						} else {
							k := kx
							if !kinded(k) {
								k = ky
							}
							bad(x, fi, "C12.K1", fmt.Sprintf("raw ordering comparison %s on a %s value (%s): not invariant under wrap-around; must go through the signed 32-bit difference", x.Op, k, exprString(x)))
						}
					}
				case token.ADD:
					if kinded(kx) && kinded(ky) {
						bad(x, fi, "C12.K2", fmt.Sprintf("adds two %s/%s values (%s)", kx, ky, exprString(x)))
					}
				case token.SUB:
					if kinded(ky) && !kinded(kx) {
						bad(x, fi, "C12.K2", fmt.Sprintf("subtracts a %s value from a plain value (%s)", ky, exprString(x)))
					}
				case token.MUL, token.QUO, token.REM, token.SHL, token.SHR, token.AND, token.OR, token.XOR, token.AND_NOT:
					if !kinded(kx) && !kinded(ky) {
						break
					}
					ySize := ka.isFieldNamed(x.Y, "fecDecoder.shardSize", "fecEncoder.shardSize")
					yPaws := ka.isFieldNamed(x.Y, "fecDecoder.paws", "fecEncoder.paws")
					switch {
					case kx == KFecID && !kinded(ky) && (x.Op == token.QUO || x.Op == token.REM) && (ySize || yPaws):
						good(x, fi, "C12.K2", "FEC id divided/reduced by the group size or paws (paws is a multiple of the group size)")
					case kx == KGroup && !kinded(ky) && x.Op == token.MUL && ySize:
						good(x, fi, "C12.K2", "group id scaled back by the group size")
					default:
						k := kx
						if !kinded(k) {
							k = ky
						}
						bad(x, fi, "C12.K2", fmt.Sprintf("operator %s applied to a %s value (%s): not equivariant under translation modulo 2^32", x.Op, k, exprString(x)))
					}
				case token.EQL, token.NEQ:
					// comparison with a non-zero literal
					for _, pr := range [][2]ast.Expr{{x.X, x.Y}, {x.Y, x.X}} {
						k := ka.kindOf(ka.exprNode[pr[0]])
						if k == KSeq || k == KTime {
							if v, ok := p.constVal(pr[1]); ok {
								bad(x, fi, "C12.K2", fmt.Sprintf("%s value compared with the literal %d (%s): depends on the absolute position in the 32-bit space", k, v, exprString(x)))
							}
						}
					}
				}
			case *ast.CallExpr:
				if p.IsConversion(x) && len(x.Args) == 1 {
					k := ka.kindOf(ka.exprNode[x.Args[0]])
					if k == KSeq || k == KTime || k == KFecID {
						from, to := p.Info.TypeOf(x.Args[0]), p.Info.TypeOf(x.Fun)
						if isIntegerType(from) && isIntegerType(to) && !types.Identical(from.Underlying(), to.Underlying()) {
							fb, _, _ := p.sizeofBits(from)
							tb, _, _ := p.sizeofBits(to)
							if tb != fb || true {
								bad(x, fi, "C12.K2", fmt.Sprintf("%s value converted from %s to %s (%s): widening/narrowing/sign change breaks modulo-2^32 arithmetic", k, from, to, exprString(x)))
							}
						}
					}
				}
				if b := p.BuiltinName(x); b == "min" || b == "max" {
					for _, a := range x.Args {
						if k := ka.kindOf(ka.exprNode[a]); kinded(k) {
							bad(x, fi, "C12.K1", fmt.Sprintf("%s() orders a %s value (%s)", b, k, exprString(a)))
						}
					}
				}
				if p.Callee(x) == itd && len(x.Args) == 2 {
					ka1, kb := ka.kindOf(ka.exprNode[x.Args[0]]), ka.kindOf(ka.exprNode[x.Args[1]])
					if ka1 == KGroup && kb == KGroup {
						bad(x, fi, "C12.K2", fmt.Sprintf("signed 32-bit difference of two FEC group ids (%s): group ids range over [0, paws/groupsize), not over the 32-bit circle, so the difference is wrong across the id wrap; scale back by the group size first", exprString(x)))
					} else if kinded(ka1) && ka1 == kb {
						good(x, fi, "C12.K1", fmt.Sprintf("ordering of two %s values through the signed difference", ka1))
					} else if kinded(ka1) || kinded(kb) {
						// one side plain: e.g. comparing with an offset value; still translation invariant only if both are the same kind
						if ka1 != kb {
							bad(x, fi, "C12.K2", fmt.Sprintf("signed difference of a %s and a %s value (%s)", ka1, kb, exprString(x)))
						}
					}
				}
			case *ast.IncDecStmt, *ast.AssignStmt:
			}
			return true
		})
	}
	if later, ok := p.memo["kindlater"].([]laterCheck); ok {
		for _, lc := range later {
			kl, kr := ka.kindOf(lc.l), ka.kindOf(lc.r)
			if lc.op == "-=" {
				if kinded(kr) {
					bad(lc.node, lc.fn, "C12.K2", fmt.Sprintf("%s value subtracted in place from a %s value", kr, kl))
				}
				continue
			}
			if as, ok := lc.node.(*ast.AssignStmt); ok && (lc.op == "%=" || lc.op == "/=") && kl == KFecID && !kinded(kr) && len(as.Rhs) == 1 &&
				ka.isFieldNamed(as.Rhs[0], "fecDecoder.shardSize", "fecEncoder.shardSize", "fecDecoder.paws", "fecEncoder.paws") {
				good(lc.node, lc.fn, "C12.K2", "FEC id reduced in place by the group size or paws")
				continue
			}
			if kinded(kl) || kinded(kr) {
				bad(lc.node, lc.fn, "C12.K2", fmt.Sprintf("operator %s applied in place to a %s/%s value", lc.op, kl, kr))
			}
		}
		delete(p.memo, "kindlater")
	}
	for _, d := range ka.derived {
		if d.op == token.ADD {
			if as, ok := d.expr.(*ast.AssignStmt); ok {
				if kinded(ka.kindOf(d.x)) && kinded(ka.kindOf(d.y)) {
					bad(as, d.fn, "C12.K2", fmt.Sprintf("adds a %s value to a %s value in place", ka.kindOf(d.y), ka.kindOf(d.x)))
				}
			}
		}
	}
}
