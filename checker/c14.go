package main

import (
	"fmt"
	"go/token"
	"go/types"
	"sort"
	"strings"

	"golang.org/x/tools/go/ssa"
)

func init() {
	register(&propCheck{
		id:  "C14",
		run: checkC14,
		configs: map[string][]string{
			"quick":    {"linux64", "debug"},
			"thorough": {"linux64", "generic", "linux32", "debug"},
		},
		explain: "Lock discipline decided for every interleaving at once: an interprocedural must-lockset analysis over the SSA form and the VTA call graph " +
			"(entry points: exported API of UDPSession/Listener/TimedSched/package functions, every go target, callbacks entered from outside the package) computes, " +
			"for every access to a field of a package struct, the set of lock classes definitely held. A field that is stored after construction must have one lock class " +
			"common to all its post-construction accesses (writes need the exclusive mode of an RWMutex), or be accessed only through sync/atomic, or be confined to a single " +
			"goroutine started once per object. This is a structural necessary-and-sufficient condition for absence of data races on those fields under the stated assumptions; " +
			"it does not execute kcp-go and does not cover races inside dependencies or user callbacks.",
		assume: []string{
			"lock identity is per class (struct type, mutex field), not per instance; one KCP/fecDecoder per session (checked by C14.L6)",
			"objects allocated in a constructor are not visible to other goroutines before the constructor returns or starts its goroutines",
			"user callbacks (output of a raw KCP, logger, OOB handler, Control) do not re-enter the session",
			"SetEntropy is package configuration and is not called concurrently with traffic",
			"deprecated API (doc comment contains 'Deprecated:' or '(deprecated)') is outside the property",
		},
	})
}

type fieldAccessGroup struct {
	owner string
	fld   *types.Var
	accs  []Access
}

func satisfies(a Access, class string) bool {
	if a.Held[class] {
		return true
	}
	if !a.Write && a.Held[class+"(R)"] {
		return true
	}
	return false
}

func shortFn(f *ssa.Function) string {
	s := f.String()
	s = strings.ReplaceAll(s, kcpPkgPath+".", "")
	return s
}

func checkC14(p *Prog, r *Report) {
	r.rule("C14.L1", "every field of a package struct that is stored after construction (by a non-deprecated function) has one lock class held at all its post-construction accesses over all call chains from all entry points; writes under an RWMutex need the exclusive mode; or the field is confined to one goroutine (C14.L4)", 40)
	r.rule("C14.L3", "fields of the shared Snmp counters are only touched through sync/atomic (locals from newSnmp()/Copy() exempt)", 30)
	r.rule("C14.L4", "fields written after construction without a lock are accepted only when every accessing function is reachable from exactly one goroutine entry (go statement executed once per object)", 5)
	r.rule("C14.L9", "memory guarded by different mutexes is different memory: the encrypt and decrypt feedback registers of a cipher object (encMu / decMu) are separate make() allocations (= C08.K5 scratch) — slices of one slab that overlap are written by an encryptor and a decryptor at the same time although every access holds 'its' lock", 1)
	r.rule("C14.L10", "memory of a third-party object reached under different mutexes: the cipher.Block a blockCrypt hands to Encrypt (encMu) and Decrypt (decMu) is one object only if its block methods never write it (= C08.K10, finding F13)", 8)
	r.rule("C14.L11", "one discipline per field: a field that is reached through sync/atomic anywhere after construction is reached through sync/atomic everywhere (Snmp counters: L3) — an atomic load in a lock-free getter does not synchronise with plain stores made under the session mutex", 1)
	r.rule("C14.L8", "buffers of the global pool have one owner at a time: a buffer that is recycled twice (or used after its recycle) is handed to two sessions, whose goroutines then read and write the same bytes under different mutexes (= C15.O1, O2, O6)", 8)
	r.rule("C14.L7", "package-level variables are stored only during package initialisation (exception, frozen: entropy via SetEntropy = package configuration)", 1)
	for _, fr := range []string{"C15.O1", "C15.O2", "C15.O6"} {
		checkCipherScratch(p, r, "C14.L9")
		delegate(p, r, "C15", checkC15, fr, "C14.L8")
	}
	checkCipherObjectPerDirection(p, r, "C14.L10")
	la := p.Locks()

	groups := map[string]*fieldAccessGroup{}
	for _, a := range la.Accesses {
		if la.deprecated[rootFn(a.Fn)] {
			continue
		}
		g := groups[a.Owner]
		if g == nil {
			g = &fieldAccessGroup{owner: a.Owner, fld: a.Field}
			groups[a.Owner] = g
		}
		g.accs = append(g.accs, a)
	}
	var owners []string
	for k := range groups {
		owners = append(owners, k)
	}
	sort.Strings(owners)
	guardMap := map[string]string{}
	nAtomicFields, mixedFields := 0, 0
	defer func() {
		if mixedFields == 0 {
			r.ok("C14.L11", "package", "-", "atomic and plain access to one field", fmt.Sprintf("no field outside Snmp is reached both through sync/atomic and by ordinary loads/stores after construction (%d fields with sync/atomic access, %d fields examined)", nAtomicFields, len(owners)))
		}
	}()
	for _, owner := range owners {
		g := groups[owner]
		typ := strings.SplitN(owner, ".", 2)[0]
		if isSyncType(g.fld.Type()) {
			continue // Mutex, Once, atomic.Value: no unsynchronised operations
		}
		if _, isChan := g.fld.Type().Underlying().(*types.Chan); isChan {
			// channel-typed fields: the field itself must not be reassigned after construction (checked below as any field)
		}
		// L3: Snmp
		if typ == "Snmp" {
			seen := map[string]bool{}
			for _, a := range g.accs {
				if a.Fresh {
					continue
				}
				key := fmt.Sprintf("%s:%s(%s)", shortFn(a.Fn), rw(a), owner)
				if seen[key] {
					continue
				}
				seen[key] = true
				if a.Atomic {
					r.ok("C14.L3", shortFn(a.Fn), p.PosOf(a.Pos), rw(a)+"("+owner+")", "through sync/atomic")
				} else {
					r.bad("C14.L3", shortFn(a.Fn), p.PosOf(a.Pos), rw(a)+"("+owner+")", "shared counter accessed without sync/atomic", la.Chain(a.Fn, ""))
				}
			}
			continue
		}
		// is it stored after construction?
		var post []Access
		written := false
		var atomics []Access
		for _, a := range g.accs {
			if a.Atomic && !a.Fresh {
				atomics = append(atomics, a)
			}
			if a.Fresh || a.Atomic {
				continue
			}
			post = append(post, a)
			if a.Write {
				written = true
			}
		}
		// L11: one discipline per field — a field reached through sync/atomic somewhere is reached through it everywhere
		if len(atomics) > 0 {
			nAtomicFields++
			// harmless when every access, atomic or not, holds one common lock (the atomic form is then redundant)
			common := map[string]bool{}
			for i, x := range append(append([]Access{}, atomics...), post...) {
				here := map[string]bool{}
				for c := range x.Held {
					here[strings.TrimSuffix(c, "(R)")] = true
				}
				if i == 0 {
					common = here
					continue
				}
				for c := range common {
					if !here[c] {
						delete(common, c)
					}
				}
			}
			if len(post) > 0 && len(common) == 0 {
				mixedFields++
				a, b := atomics[0], post[0]
				for _, x := range post {
					if x.Write {
						b = x
						break
					}
				}
				r.bad("C14.L11", shortFn(a.Fn), p.PosOf(a.Pos), "atomic and plain access to "+owner, fmt.Sprintf("%s is accessed through sync/atomic here (held=%s) and plainly in %s at %s (held=%s): an atomic operation on one side and an ordinary load/store on the other do not synchronise with each other, whatever lock the plain side holds", owner, a.Held, shortFn(b.Fn), p.PosOf(b.Pos), b.Held), la.Chain(a.Fn, ""))
			}
		}
		if !written {
			continue
		}
		// candidate guard: the lock class satisfied by most accesses
		count := map[string]int{}
		for _, a := range post {
			for c := range a.Held {
				c = strings.TrimSuffix(c, "(R)")
				if satisfies(a, c) {
					count[c]++
				}
			}
		}
		guard := ""
		for c, n := range count {
			if n > count[guard] || (n == count[guard] && c < guard) {
				guard = c
			}
		}
		if guard == "" {
			// L4: confinement
			roots := map[string]bool{}
			for _, a := range post {
				for l := range la.reachBy[a.Fn] {
					roots[l] = true
				}
			}
			var rl []string
			for l := range roots {
				rl = append(rl, l)
			}
			sort.Strings(rl)
			confined := len(rl) == 1 && strings.HasPrefix(rl[0], "go:")
			why := ""
			if confined {
				confined, why = la.AllocatedOnlyUnderSpawner(typ, rl[0])
			}
			seen := map[string]bool{}
			for _, a := range post {
				key := fmt.Sprintf("%s:%s(%s)", shortFn(a.Fn), rw(a), owner)
				if seen[key] {
					continue
				}
				seen[key] = true
				if confined {
					r.ok("C14.L4", shortFn(a.Fn), p.PosOf(a.Pos), rw(a)+"("+owner+")", "no lock, but confined to goroutine "+shortLabel(rl[0]))
				} else {
					r.bad("C14.L1", shortFn(a.Fn), p.PosOf(a.Pos), rw(a)+"("+owner+")",
						fmt.Sprintf("field is written after construction but no lock class is held at any access; not confined to one goroutine: entry points %v %s", shortLabels(rl), why),
						la.Chain(a.Fn, ""))
				}
			}
			if confined {
				guardMap[owner] = "confined:" + shortLabel(rl[0])
			}
			continue
		}
		guardMap[owner] = guard
		seen := map[string]bool{}
		for _, a := range post {
			key := fmt.Sprintf("%s:%s(%s)", shortFn(a.Fn), rw(a), owner)
			okA := satisfies(a, guard)
			if seen[key] && okA {
				continue
			}
			if seen[key+"!"] {
				continue
			}
			if okA {
				seen[key] = true
				r.ok("C14.L1", shortFn(a.Fn), p.PosOf(a.Pos), rw(a)+"("+owner+")", "holds "+guard)
			} else {
				seen[key+"!"] = true
				what := "without " + guard
				if a.Write && a.Held[guard+"(R)"] {
					what = "write under the read lock of " + guard
				}
				for _, org := range la.Origins(a.Fn, guard) {
					construct := rw(a) + "(" + owner + ")"
					if org != a.Fn {
						construct += " via " + shortFn(org)
					}
					r.bad("C14.L1", shortFn(a.Fn), p.PosOf(a.Pos), construct,
						fmt.Sprintf("%s %s (held=%s); the field is guarded by %s at %d other accesses", rwLong(a), what, a.Held, guard, count[guard]),
						la.Chain(a.Fn, guard))
				}
			}
		}
	}
	r.Extra["guard_map_"+p.Cfg.ID] = guardMap

	// L7: globals stored outside init
	for _, f := range la.funcs {
		if _, ok := la.entry[f]; !ok {
			continue
		}
		if strings.HasPrefix(la.roots[f], "init:") {
			continue
		}
		for _, b := range f.Blocks {
			for _, in := range b.Instrs {
				st, ok := in.(*ssa.Store)
				if !ok {
					continue
				}
				g, ok := st.Addr.(*ssa.Global)
				if !ok || g.Pkg != la.p.ssaPkg {
					continue
				}
				if g.Name() == "entropy" && f.Name() == "SetEntropy" {
					r.ok("C14.L7", shortFn(f), p.PosOf(st.Pos()), "store(global "+g.Name()+")", "frozen exception: package configuration (assumption: not concurrent with traffic)")
					continue
				}
				r.bad("C14.L7", shortFn(f), p.PosOf(st.Pos()), "store(global "+g.Name()+")", "package-level variable stored after initialisation without synchronisation", la.Chain(f, ""))
			}
		}
	}
	_ = token.NoPos
}

func rootFn(f *ssa.Function) *ssa.Function {
	for f.Parent() != nil {
		f = f.Parent()
	}
	return f
}

func rw(a Access) string {
	if a.Write {
		return "write"
	}
	return "read"
}

func rwLong(a Access) string {
	if a.Write {
		return "written"
	}
	return "read"
}

func shortLabel(l string) string { return strings.ReplaceAll(l, kcpPkgPath+".", "") }

func shortLabels(ls []string) []string {
	var out []string
	for i, l := range ls {
		if i >= 6 {
			out = append(out, fmt.Sprintf("… %d more", len(ls)-i))
			break
		}
		out = append(out, shortLabel(l))
	}
	return out
}
