package main

import (
	"fmt"
	"go/ast"
	"go/token"
	"go/types"
	"sort"
	"strings"

	"golang.org/x/tools/go/cfg"
)

func init() {
	register(&propCheck{
		id:  "C06",
		run: checkC06,
		configs: map[string][]string{
			"quick":    {"linux64"},
			"thorough": {"linux64", "generic", "linux32"},
		},
		explain: "The statement is an ordering plus an effect bound, decided on the CFG of every function that calls a verify primitive (AEAD Open, or BlockCrypt.Decrypt followed by the CRC comparison): " +
			"the check-passed edges (err == nil of Open; crc32.ChecksumIEEE(x[crcSize:]) == LittleEndian.Uint32(x) on the decrypted packet) and the no-cipher arm are cut out of the graph, and every node still " +
			"reachable from the entry — i.e. everything a rejected, short or not-yet-verified datagram can execute — must have a transitive effect set inside {InCsumErrors, the cipher's scratch buffers, locals and " +
			"the datagram buffer}. So no session/KCP/FEC/listener state, pool traffic, channel operation or goroutine start is possible before the integrity gate on any path. " +
			"Length guards in front of the primitives and agreement of the CRC range between sender and receiver are decided by fact dominance and constant offset composition.",
		assume: []string{
			"the cipher and CRC primitives are correct (detection power is not decided)",
			"nobody else writes session state concurrently (C14)",
			"external crypto/hash/binary functions have no effects beyond their destination arguments",
		},
	})
}

type gateEdge struct {
	from *cfg.Block
	succ int
	kind string // "nil", "aead", "crc"
}

func checkC06(p *Prog, r *Report) {
	r.rule("C06.I1", "in every function that calls a verify primitive, each check-passed edge exists (AEAD: err == nil of Open; CFB-style: CRC comparison on the decrypted packet) — at least one per cipher arm", 4)
	r.rule("C06.I2", "each verify primitive is dominated by the minimum-length guard (len >= cryptHeaderSize resp. >= NonceSize()+Overhead())", 4)
	r.rule("C06.I3", "every node reachable from the entry without crossing a check-passed edge (or the no-cipher arm) has a transitive effect set within {Snmp.InCsumErrors, blockCrypt.decbuf/decMu, locals, the datagram buffer}; no channel operation, no goroutine", 20)
	r.rule("C06.I4", "CRC coverage agrees: the reader compares bytes [nonceSize, nonceSize+crcSize) with the checksum of [cryptHeaderSize:] of the decrypted packet; the writer stores ChecksumIEEE(buf[cryptHeaderSize:]) at buf[nonceSize:] before every BlockCrypt.Encrypt (data and parity)", 3)
	r.rule("C06.I7", "discarding must not crash: the error counters bumped for a failing datagram are 64-bit aligned on 32-bit platforms too (= C05.B11)", 10)
	r.rule("C06.I9", "a datagram that has not passed the check yet lands in memory nobody else reads: the buffer handed to ReadFrom / the buffers of the batch messages are allocated with make in the receive path itself — never a slice of session or listener state (the reader's carry-over buffer, a pooled buffer in use), which a rejected datagram would overwrite although it is 'discarded'", 3)
	r.rule("C06.I8", "the cipher that checks incoming datagrams is the one the application configured: every store to UDPSession.block / Listener.block takes a BlockCrypt parameter as it is (or another session's/listener's block field), and so does every call that hands the cipher on — a configured cipher (the none cipher included: it still carries the CRC32) is never replaced or dropped on the way", 2)
	r.rule("C06.I6", "a receive loop ends only on the socket's own error: the error variable tested is assigned by the read call alone, and every return inside the loop is dominated by that test — no property of a datagram (length 0, content) can end the loop", 2)
	r.rule("C06.I5", "the verifying functions are siblings: each has the no-cipher arm, the AEAD gate and the CRC gate", 2)
	checkReceiveLoopExits(p, r)
	checkAtomicAlignment(p, r, "C06.I7")
	checkCipherHandedThrough(p, r)
	checkReceiveBuffersPrivate(p, r)

	open := p.Method("aeadCrypt", "Open")
	blockCryptT, _ := p.lookup("BlockCrypt").(*types.TypeName)
	if blockCryptT == nil {
		brokenCheck("ANCHOR-UNRESOLVED role=type BlockCrypt")
	}
	// gate functions
	gateFns := map[*FuncInfo]bool{}
	for _, s := range p.CallsTo(open) {
		if s.Fn.Obj != nil && recvTypeName(s.Fn.Obj) == "aeadCrypt" {
			continue
		}
		gateFns[rootFuncInfo(s.Fn)] = true
	}
	decryptSites := p.dynIfaceCalls(blockCryptT, "Decrypt")
	for _, s := range decryptSites {
		gateFns[rootFuncInfo(s.Fn)] = true
	}
	var fns []*FuncInfo
	for f := range gateFns {
		fns = append(fns, f)
	}
	sort.Slice(fns, func(i, j int) bool { return fns[i].Name < fns[j].Name })
	if len(fns) == 0 {
		r.bad("C06.I1", "", "-", "verify primitives", "no function calls aeadCrypt.Open or BlockCrypt.Decrypt: the integrity gate is gone", "")
		return
	}
	nonceSize := p.ConstInt("nonceSize")
	crcSize := p.ConstInt("crcSize")
	cryptHeaderSize := p.ConstInt("cryptHeaderSize")

	for _, fi := range fns {
		c := p.CFG(fi)
		fa := p.FactsOf(fi)
		so := p.SliceOffsets(fi)
		var gates []gateEdge
		kinds := map[string]int{}
		for _, b := range c.live {
			if len(b.Succs) != 2 {
				continue
			}
			ct := c.CondTerm(b)
			if ct == nil {
				continue
			}
			// no-cipher arm
			if ct.Op == "typeis" && ct.Str == "nil" {
				if tv := typeOfTermRoot(p, ct.Args[0]); tv != nil && types.Identical(tv, blockCryptT.Type()) {
					gates = append(gates, gateEdge{b, 0, "nil"})
					kinds["nil"]++
				}
				continue
			}
			fs := fa.At(Point{b, len(b.Nodes) - 1})
			for polarity, t := range []*Term{ct, Negate(ct)} {
				// the edge must establish the whole check: a single conjunct that is the check
				cj := Conjuncts(t)
				if len(cj) != 1 {
					continue
				}
				a := cj[0]
				if a.Op != "==" {
					continue
				}
				// AEAD: err == nil
				if isNilEq(a) {
					v := nilEqVar(a)
					if v != nil && p.onlyAssignedFromCallTo(fi, v, open) {
						gates = append(gates, gateEdge{b, polarity, "aead"})
						kinds["aead"]++
						r.ok("C06.I1", fi.Name, p.Pos(b.Nodes[len(b.Nodes)-1]), "AEAD gate: "+v.Name()+" == nil of Open", "check-passed edge found")
					}
					continue
				}
				// CRC: ChecksumIEEE(x[crcSize:]) == Uint32(x)
				ra := fs.Resolve(a)
				x, cover, ok := p.matchCRCCompare(ra)
				if !ok {
					continue
				}
				cond := b.Nodes[len(b.Nodes)-1]
				construct := "CRC gate: ChecksumIEEE(x[c:]) == Uint32(x)"
				// the compared packet must have been decrypted: a BlockCrypt.Decrypt call dominates
				dec := false
				for _, ds := range decryptSites {
					if rootFuncInfo(ds.Fn) != fi {
						continue
					}
					if dpt, ok := c.PointOf(ds.Call); ok && c.Dominates(dpt, Point{b, len(b.Nodes) - 1}) {
						dec = true
						// I4 reader: Decrypt covers the whole packet (offset 0), x sits at nonceSize, coverage from cryptHeaderSize
						di, ok1 := so.OffsetOf(ds.Call.Args[0], ds.Call)
						xi, ok2 := p.offsetOfTermVar(so, x, cond)
						xi.Off += crcReadRel
						switch {
						case !ok1 || !ok2:
							r.bad("C06.I4", fi.Name, p.Pos(cond), "reader CRC range", "cannot compose the slice offsets of the compared packet (re-slicing is not by constants)", "")
						case di.Off != 0:
							r.bad("C06.I4", fi.Name, p.Pos(ds.Call), "reader CRC range", fmt.Sprintf("Decrypt starts at offset %d of the datagram, expected 0", di.Off), "")
						case xi.Off != nonceSize || cover != crcSize || xi.Off+cover != cryptHeaderSize:
							r.bad("C06.I4", fi.Name, p.Pos(cond), "reader CRC range", fmt.Sprintf("stored CRC read at offset %d (expected nonceSize=%d), checksum covers from offset %d (expected cryptHeaderSize=%d)", xi.Off, nonceSize, xi.Off+cover, cryptHeaderSize), "")
						default:
							r.ok("C06.I4", fi.Name, p.Pos(cond), "reader CRC range", fmt.Sprintf("stored CRC at [%d,%d), checksum over [%d:] of the decrypted datagram", xi.Off, xi.Off+crcSize, xi.Off+cover))
						}
					}
				}
				if !dec {
					r.bad("C06.I1", fi.Name, p.Pos(cond), construct, "the CRC comparison is not dominated by BlockCrypt.Decrypt of the packet", "")
					continue
				}
				gates = append(gates, gateEdge{b, polarity, "crc"})
				kinds["crc"]++
				r.ok("C06.I1", fi.Name, p.Pos(cond), construct, "check-passed edge found, dominated by Decrypt")
			}
		}
		// I5 / must-exist
		for _, k := range []string{"nil", "aead", "crc"} {
			if kinds[k] == 0 {
				rule := "C06.I1"
				if k == "nil" {
					rule = "C06.I5"
				}
				r.bad(rule, fi.Name, p.Pos(fi.Node), "gate("+k+")", "this verifying function has no "+k+" gate edge (sibling functions must each have the no-cipher arm, the AEAD gate and the CRC gate)", "")
			}
		}
		if kinds["nil"] > 0 && kinds["aead"] > 0 && kinds["crc"] > 0 {
			r.ok("C06.I5", fi.Name, p.Pos(fi.Node), "gates", fmt.Sprintf("no-cipher arm ×%d, AEAD gate ×%d, CRC gate ×%d", kinds["nil"], kinds["aead"], kinds["crc"]))
		}

		// I2: length guards
		for _, s := range p.CallsTo(open) {
			if rootFuncInfo(s.Fn) != fi || len(s.Args) < 3 {
				continue
			}
			// Open(dst, nonce, ciphertext, ad): len(nonce)+len(ciphertext) is the packet; require NonceSize()+Overhead() <= len(packet)
			fs := fa.AtNode(s.Call)
			need := add(p.M(s.Recv, "aeadCrypt", "NonceSize"), p.M(s.Recv, "aeadCrypt", "Overhead"))
			// the packet: the root the nonce argument was sliced from
			okG := false
			var pk string
			for _, a := range fs.resolvedAtoms() {
				if a.Op == "<=" && a.Args[1].Op == "len" && fs.Resolve(a.Args[0]).Key() == need.Key() {
					okG = true
					pk = pretty(a.Args[1].Key())
				}
			}
			if okG {
				r.ok("C06.I2", fi.Name, p.Pos(s.Call), "Open(...)", "dominated by NonceSize()+Overhead() <= "+pk)
			} else {
				r.bad("C06.I2", fi.Name, p.Pos(s.Call), "Open(...)", "not dominated by the guard len(packet) >= NonceSize()+Overhead(); facts: "+pretty(fs.String()), p.unguardedPath(fi, s.Call, nil))
			}
		}
		for _, s := range decryptSites {
			if rootFuncInfo(s.Fn) != fi {
				continue
			}
			arg := p.Term(s.Call.Args[1])
			p.requireFacts(r, "C06.I2", fi, s.Call, "Decrypt("+exprString(s.Call.Args[0])+",…)", le(tConst(cryptHeaderSize), mk("len", arg)))
		}

		// I3: effect bound on the pre-gate region
		isGate := func(from, to *cfg.Block) bool {
			for _, g := range gates {
				if g.from == from && g.from.Succs[g.succ] == to {
					// if both successors are the same block the edge cannot be cut
					return g.from.Succs[0] != g.from.Succs[1]
				}
			}
			return false
		}
		reach := map[*cfg.Block]*cfg.Block{c.Entry(): nil}
		queue := []*cfg.Block{c.Entry()}
		for len(queue) > 0 {
			b := queue[0]
			queue = queue[1:]
			for _, s := range b.Succs {
				if !s.Live || isGate(b, s) {
					continue
				}
				if _, seen := reach[s]; !seen {
					reach[s] = b
					queue = append(queue, s)
				}
			}
		}
		var rb []*cfg.Block
		for b := range reach {
			rb = append(rb, b)
		}
		sort.Slice(rb, func(i, j int) bool { return c.order[rb[i]] < c.order[rb[j]] })
		for _, b := range rb {
			for _, n := range b.Nodes {
				if _, isDefer := n.(*ast.DeferStmt); isDefer {
					r.bad("C06.I3", fi.Name, p.Pos(n), "defer before the gate", "a deferred call is registered before the integrity check and runs on the reject path", "")
					continue
				}
				off := p.disallowedPreGate(n)
				construct := "pre-gate: " + nodeKey(n)
				if len(off) == 0 {
					r.ok("C06.I3", fi.Name, p.Pos(n), construct, "effects within the allowed set")
				} else {
					var path []string
					for x := b; x != nil; x = reach[x] {
						if len(x.Nodes) > 0 {
							path = append([]string{p.Pos(x.Nodes[0])}, path...)
						}
					}
					r.bad("C06.I3", fi.Name, p.Pos(n), construct, "executes before the integrity check has passed and has effects outside the allowed set: "+strings.Join(off, ", "), "entry -> "+strings.Join(path, " -> ")+" (no check-passed edge on this path)")
				}
			}
		}
	}

	// I4 writer side
	encSites := p.dynIfaceCalls(blockCryptT, "Encrypt")
	nWriter := 0
	for _, s := range encSites {
		fi := rootFuncInfo(s.Fn)
		if fi.Obj != nil && (recvTypeName(fi.Obj) != "UDPSession") {
			// a helper of the output path (e.g. an extracted seal function) counts as well
			pp := p.FuncByName("(*UDPSession).postProcess")
			if pp == nil || !p.TransEffects(pp).Funcs[fi] {
				continue
			}
		}
		nWriter++
		construct := "Encrypt(" + exprString(s.Call.Args[0]) + ",…)"
		fa0 := p.FactsOf(fi)
		x := fa0.AtNode(s.Call).Resolve(p.Term(s.Call.Args[1]))
		if fa0.AtNode(s.Call).Resolve(p.Term(s.Call.Args[0])).Key() != x.Key() {
			r.bad("C06.I4", fi.Name, p.Pos(s.Call), construct, "encryption is not in place (dst != src): the transmitted buffer would not be the checksummed one", "")
			continue
		}
		c := p.CFG(fi)
		fa := p.FactsOf(fi)
		encPt, _ := c.PointOf(s.Call)
		found := false
		p.AllCallsIn(fi, func(call *ast.CallExpr) {
			f := p.Callee(call)
			if f == nil || !isExtFunc(f, "encoding/binary", "littleEndian", "PutUint32") || len(call.Args) != 2 {
				return
			}
			pt, ok := c.PointOf(call)
			if !ok || !c.Dominates(pt, encPt) {
				return
			}
			dst := fa.AtNode(call).Resolve(p.Term(call.Args[0]))
			if dst.Op != "slice" || dst.Args[0].Key() != x.Key() || dst.Args[1] == nil || !dst.Args[1].IsConst() || dst.Args[1].Int != nonceSize {
				return
			}
			val := fa.AtNode(call).Resolve(p.Term(call.Args[1]))
			if val.Op == "call" && isExtFunc(val.Obj.(*types.Func), "hash/crc32", "", "ChecksumIEEE") && len(val.Args) == 1 {
				cv := val.Args[0]
				if cv.Op == "slice" && cv.Args[0].Key() == x.Key() && cv.Args[1] != nil && cv.Args[1].IsConst() && cv.Args[1].Int == cryptHeaderSize && cv.Args[2] == nil {
					found = true
				}
			}
		})
		if found {
			r.ok("C06.I4", fi.Name, p.Pos(s.Call), construct, fmt.Sprintf("preceded by PutUint32(x[%d:], ChecksumIEEE(x[%d:])) on the same buffer", nonceSize, cryptHeaderSize))
		} else {
			r.bad("C06.I4", fi.Name, p.Pos(s.Call), construct, fmt.Sprintf("not dominated by PutUint32(x[%d:], crc32.ChecksumIEEE(x[%d:])) on the buffer being encrypted", nonceSize, cryptHeaderSize), "")
		}
	}
	if nWriter == 0 {
		r.bad("C06.I4", "", "-", "writer", "no BlockCrypt.Encrypt call found in the session's output path", "")
	}
}

func rootFuncInfo(fi *FuncInfo) *FuncInfo {
	for fi.Parent != nil {
		fi = fi.Parent
	}
	return fi
}

func nodeKey(n ast.Node) string {
	switch x := n.(type) {
	case ast.Expr:
		return exprString(x)
	case *ast.AssignStmt:
		return joinExprs(x.Lhs) + " " + x.Tok.String() + " " + joinExprs(x.Rhs)
	case *ast.ExprStmt:
		return exprString(x.X)
	case *ast.ReturnStmt:
		return "return " + joinExprs(x.Results)
	case *ast.IncDecStmt:
		return exprString(x.X) + x.Tok.String()
	case *ast.RangeStmt:
		return "range " + exprString(x.X)
	case *ast.DeclStmt:
		return "var decl"
	case *ast.SendStmt:
		return exprString(x.Chan) + " <- " + exprString(x.Value)
	case *ast.GoStmt:
		return "go " + exprString(x.Call.Fun)
	case *ast.DeferStmt:
		return "defer " + exprString(x.Call.Fun)
	}
	return fmt.Sprintf("%T", n)
}

// AllCallsIn visits the calls of fi (including nested literals).
func (p *Prog) AllCallsIn(fi *FuncInfo, f func(*ast.CallExpr)) {
	ast.Inspect(fi.Body, func(n ast.Node) bool {
		if c, ok := n.(*ast.CallExpr); ok {
			f(c)
		}
		return true
	})
}

// dynIfaceCalls lists calls of method `name` on values whose static type is the
// interface iface (e.g. block.Decrypt(data, data) with block BlockCrypt).
func (p *Prog) dynIfaceCalls(iface *types.TypeName, name string) []Site {
	var out []Site
	p.AllCalls(func(call *ast.CallExpr, fi *FuncInfo) {
		sel, ok := ast.Unparen(call.Fun).(*ast.SelectorExpr)
		if !ok || sel.Sel.Name != name {
			return
		}
		s, ok := p.Info.Selections[sel]
		if !ok || s.Kind() != types.MethodVal {
			return
		}
		if !types.Identical(s.Recv(), iface.Type()) {
			return
		}
		out = append(out, p.siteOf(call, fi))
	})
	return out
}

func typeOfTermRoot(p *Prog, t *Term) types.Type {
	switch t.Op {
	case "var":
		return t.Obj.Type()
	case "fld":
		return t.Obj.Type()
	}
	return nil
}

func isNilEq(a *Term) bool {
	return a.Op == "==" && len(a.Args) == 2 && (a.Args[0].Op == "nil" || a.Args[1].Op == "nil")
}

func nilEqVar(a *Term) *types.Var {
	for _, x := range a.Args {
		if x.Op == "var" {
			v, _ := x.Obj.(*types.Var)
			return v
		}
	}
	return nil
}

// onlyAssignedFromCallTo: every assignment to v in fi is a (multi-value)
// assignment whose single right-hand side is a call to f.
func (p *Prog) onlyAssignedFromCallTo(fi *FuncInfo, v *types.Var, f *types.Func) bool {
	as := p.Assignments(fi, v)
	if len(as) == 0 {
		return false
	}
	for _, a := range as {
		st, ok := a.Node.(*ast.AssignStmt)
		if !ok || len(st.Rhs) != 1 {
			return false
		}
		call, ok := ast.Unparen(st.Rhs[0]).(*ast.CallExpr)
		if !ok || p.Callee(call) != f {
			return false
		}
	}
	return true
}

// matchCRCCompare: a is ChecksumIEEE(slice(X, c)) == LittleEndian.Uint32(X).
// crcReadRel: offset (relative to x) at which the last matched comparison reads the stored CRC.
var crcReadRel int64

func (p *Prog) matchCRCCompare(a *Term) (x *Term, cover int64, ok bool) {
	crcReadRel = 0
	if a.Op != "==" || len(a.Args) != 2 {
		return nil, 0, false
	}
	for i := 0; i < 2; i++ {
		sum, rd := a.Args[i], a.Args[1-i]
		if sum.Op != "call" || rd.Op != "call" {
			continue
		}
		sf, _ := sum.Obj.(*types.Func)
		rf, _ := rd.Obj.(*types.Func)
		if !isExtFunc(sf, "hash/crc32", "", "ChecksumIEEE") || !isExtFunc(rf, "encoding/binary", "littleEndian", "Uint32") {
			continue
		}
		if len(sum.Args) != 1 || len(rd.Args) < 1 {
			continue
		}
		cv := sum.Args[0]
		rx := rd.Args[len(rd.Args)-1]
		if cv.Op != "slice" || cv.Args[1] == nil || !cv.Args[1].IsConst() || cv.Args[2] != nil {
			continue
		}
		// the stored value may be read at a constant offset of the same packet: Uint32(x[k:])
		readRel := int64(0)
		if rx.Op == "slice" && rx.Args[1] != nil && rx.Args[1].IsConst() && rx.Args[2] == nil {
			readRel = rx.Args[1].Int
			rx = rx.Args[0]
		}
		if cv.Args[0].Key() != rx.Key() {
			continue
		}
		crcReadRel = readRel
		return rx, cv.Args[1].Int - readRel, true
	}
	return nil, 0, false
}

func (p *Prog) offsetOfTermVar(so *SliceOffsets, t *Term, at ast.Node) (SliceInfo, bool) {
	if t.Op != "var" {
		return SliceInfo{}, false
	}
	v, ok := t.Obj.(*types.Var)
	if !ok {
		return SliceInfo{}, false
	}
	pt, ok := so.c.PointOf(at)
	if !ok {
		return SliceInfo{}, false
	}
	i, ok := so.At(pt)[v]
	return i, ok
}

var preGateAllowedFields = map[string]bool{"Snmp.InCsumErrors": true, "blockCrypt.decbuf": true, "blockCrypt.decMu": true}

var preGateAllowedPkgs = []string{"crypto/", "hash/crc32", "encoding/binary", "sync/atomic", "sync", "golang.org/x/crypto/", "github.com/tjfoc/gmsm/"}

// disallowedPreGate lists the effects of node n (transitively) that a datagram
// which has not passed the integrity check must not have.
func (p *Prog) disallowedPreGate(n ast.Node) []string {
	te := p.NodeTransEffects(n)
	var out []string
	seen := map[string]bool{}
	addOff := func(s string) {
		if !seen[s] {
			seen[s] = true
			out = append(out, s)
		}
	}
	for f := range te.FieldW {
		if o := p.FieldOwner(f); !preGateAllowedFields[o] && !p.isPureCounter(f) {
			addOff("writes " + o)
		}
	}
	for f := range te.ElemW {
		if o := p.FieldOwner(f); !preGateAllowedFields[o] {
			addOff("modifies contents of " + o)
		}
	}
	for g := range te.GlobW {
		addOff("writes global " + g.Name())
	}
	for _, co := range te.ChanOps {
		k := "receives from"
		if co.Send {
			k = "sends on"
		}
		if co.Close {
			k = "closes"
		}
		addOff(k + " channel " + pretty(co.Chan.Key()))
	}
	for f := range te.Funcs {
		if len(p.Effects(f).Gos) > 0 {
			addOff("starts a goroutine (in " + f.Name + ")")
		}
	}
	if len(p.NodeEffects(n).Gos) > 0 {
		addOff("starts a goroutine")
	}
	for c := range te.Calls {
		if c.Pkg() == nil || c.Pkg() == p.Types {
			continue
		}
		okPkg := false
		for _, pre := range preGateAllowedPkgs {
			if c.Pkg().Path() == strings.TrimSuffix(pre, "/") || strings.HasPrefix(c.Pkg().Path(), pre) {
				okPkg = true
			}
		}
		if pureExternal[extFuncKey(c)] || (c.Pkg().Path() == "net" && c.Name() == "String") {
			okPkg = true // documented pure queries (address formatting, clock reads)
		}
		if !okPkg {
			addOff("calls " + c.Pkg().Path() + "." + c.Name())
		}
	}
	sort.Strings(out)
	return out
}

// checkReceiveLoopExits: C06.I6.
func checkReceiveLoopExits(p *Prog, r *Report) {
	n := 0
	for _, name := range []string{"(*UDPSession).defaultReadLoop", "(*UDPSession).readLoop", "(*Listener).defaultMonitor", "(*Listener).monitor"} {
		fi := p.FuncByName(name)
		if fi == nil {
			continue
		}
		c := p.CFG(fi)
		var readAs *ast.AssignStmt
		var ev *types.Var
		ast.Inspect(fi.Body, func(x ast.Node) bool {
			as, ok := x.(*ast.AssignStmt)
			if !ok || len(as.Rhs) != 1 {
				return true
			}
			call, ok := ast.Unparen(as.Rhs[0]).(*ast.CallExpr)
			if !ok {
				return true
			}
			sel, ok := ast.Unparen(call.Fun).(*ast.SelectorExpr)
			if !ok || (sel.Sel.Name != "ReadFrom" && sel.Sel.Name != "ReadBatch") {
				return true
			}
			if id, ok := as.Lhs[len(as.Lhs)-1].(*ast.Ident); ok {
				if v, ok := p.Info.Defs[id].(*types.Var); ok {
					ev, readAs = v, as
				} else if v, ok := p.Info.Uses[id].(*types.Var); ok {
					ev, readAs = v, as
				}
			}
			return true
		})
		if ev == nil {
			continue
		}
		n++
		loop := enclosingLoop(p, readAs)
		ok := true
		why := ""
		// the error variable is assigned by the read alone
		nAs := 0
		ast.Inspect(fi.Body, func(x ast.Node) bool {
			if as, isA := x.(*ast.AssignStmt); isA {
				for _, l := range as.Lhs {
					if id, isId := l.(*ast.Ident); isId && (p.Info.Uses[id] == ev || p.Info.Defs[id] == ev) {
						if selfWrap(p, as, ev) {
							continue // err = wrap(err): still the read's error
						}
						nAs++
					}
				}
			}
			return true
		})
		if nAs != 1 {
			ok, why = false, fmt.Sprintf("the error variable %s is assigned at %d places, not by the read call alone: a property of the datagram (such as a length of 0) can be turned into a fatal error", ev.Name(), nAs)
		}
		// every return inside the loop is under err != nil
		if loop != nil {
			ast.Inspect(loop, func(x ast.Node) bool {
				if _, isLit := x.(*ast.FuncLit); isLit {
					return false
				}
				rs, isR := x.(*ast.ReturnStmt)
				if !isR {
					return true
				}
				pt, _ := c.PointOf(rs)
				under := false
				for _, ct := range c.DominatingConds(pt) {
					for _, a := range Conjuncts(ct) {
						if a.Key() == ne(tVar(ev), mk("nil")).Key() {
							under = true
						}
					}
				}
				if !under {
					// a return that does not depend on anything read from the socket (e.g. the session was closed) is not caused by a datagram
					tainted := map[*types.Var]bool{}
					for _, l := range readAs.Lhs {
						if id, isId := l.(*ast.Ident); isId {
							if v, okv := p.Info.Defs[id].(*types.Var); okv {
								tainted[v] = true
							} else if v, okv := p.Info.Uses[id].(*types.Var); okv {
								tainted[v] = true
							}
						}
					}
					if call, isC := ast.Unparen(readAs.Rhs[0]).(*ast.CallExpr); isC {
						for _, a := range call.Args {
							if id, isId := ast.Unparen(a).(*ast.Ident); isId {
								if v, okv := p.Info.Uses[id].(*types.Var); okv {
									tainted[v] = true
								}
							}
						}
					}
					dep := false
					for _, ca := range c.DominatingCondsAt(pt) {
						if !nodeWithin(p, lastNode(ca.B), loop) || ca.T.Key() == eq(tVar(ev), mk("nil")).Key() {
							continue
						}
						ca.T.Walk(func(t *Term) {
							if t.Op == "var" {
								if v, okv := t.Obj.(*types.Var); okv && tainted[v] {
									dep = true
								}
							}
						})
					}
					if dep {
						ok, why = false, "the loop returns at "+p.Pos(rs)+" depending on what was read, for a reason other than the read's error: one datagram can end the receive loop (the session or the whole listener goes deaf)"
					}
				}
				return true
			})
		}
		r.check(ok, "C06.I6", fi.Name, p.Pos(readAs), "exits of the receive loop", "only on the read's own error", why)
	}
	if n == 0 {
		r.bad("C06.I6", "receive loops", "-", "exits of the receive loop", "no receive loop found", "")
	}
}

// isPureCounter: an integer field that the package touches only as the operand &x.f of sync/atomic
// Add/Load/Store/Swap functions — a statistics counter ("apart from an error counter" in C06): nothing
// branches on it and nothing else is derived from it.
func (p *Prog) isPureCounter(f *types.Var) bool {
	f = f.Origin()
	key := "purecounter:" + p.FieldOwner(f)
	if v, ok := p.memo[key]; ok {
		return v.(bool)
	}
	res := false
	if b, ok := f.Type().Underlying().(*types.Basic); ok && b.Info()&types.IsInteger != 0 {
		res = true
		n := 0
		for id, o := range p.Info.Uses {
			v, ok := o.(*types.Var)
			if !ok || v.Origin() != f {
				continue
			}
			// composite-literal keys (zero initialisation) do not count as uses
			if kv, isKV := p.parents[id].(*ast.KeyValueExpr); isKV && kv.Key == ast.Expr(id) {
				continue
			}
			n++
			var x ast.Node = id
			if sel, isSel := p.parents[id].(*ast.SelectorExpr); isSel && sel.Sel == id {
				x = sel
			}
			ue, isAddr := p.parents[x].(*ast.UnaryExpr)
			if !isAddr || ue.Op != token.AND {
				res = false
				break
			}
			call, isCall := p.parents[ue].(*ast.CallExpr)
			if !isCall {
				res = false
				break
			}
			cf := p.Callee(call)
			if cf == nil || cf.Pkg() == nil || cf.Pkg().Path() != "sync/atomic" || len(call.Args) == 0 || call.Args[0] != ast.Expr(ue) {
				res = false
				break
			}
		}
		if n == 0 {
			res = false
		}
	}
	p.memo[key] = res
	return res
}

// checkCipherHandedThrough: C06.I8.
func checkCipherHandedThrough(p *Prog, r *Report) {
	fields := map[*types.Var]bool{p.Field("UDPSession", "block"): true, p.Field("Listener", "block"): true}
	// asIs: e denotes a BlockCrypt parameter of fi that fi never assigns, a block field, or the result of a helper
	// that returns its parameter on every path; returns the parameter (to follow the callers) when it is one
	var asIs func(fi *FuncInfo, e ast.Expr, depth int) (bool, *types.Var)
	asIs = func(fi *FuncInfo, e ast.Expr, depth int) (bool, *types.Var) {
		t := p.Term(e)
		switch {
		case t.Op == "fld":
			if fv, ok := t.Obj.(*types.Var); ok && fields[fv.Origin()] {
				return true, nil
			}
		case t.Op == "var":
			v, _ := t.Obj.(*types.Var)
			if v != nil && p.isParam(v) && len(p.Assignments(rootFuncInfo(fi), v)) == 0 {
				return true, v
			}
		case t.Op == "call" && depth < 2:
			if f, ok := t.Obj.(*types.Func); ok && f.Pkg() == p.Types {
				if h := p.FuncOf(f); h != nil {
					if sps, understood := p.SymPaths(h); understood && len(sps) > 0 {
						call, _ := ast.Unparen(e).(*ast.CallExpr)
						for i := 0; call != nil && i < len(call.Args); i++ {
							po, _ := h.paramObj(p, i).(*types.Var)
							if po == nil {
								continue
							}
							all := true
							for _, sp := range sps {
								if len(sp.Ret) != 1 || sp.Ret[0].Key() != tVar(po).Key() || len(sp.Stores) > 0 {
									all = false
								}
							}
							if all {
								return asIs(fi, call.Args[i], depth+1)
							}
						}
					}
				}
			}
		}
		return false, nil
	}
	n := 0
	var follow func(fi *FuncInfo, v *types.Var, depth int)
	seen := map[string]bool{}
	follow = func(fi *FuncInfo, v *types.Var, depth int) {
		root := rootFuncInfo(fi)
		if root.Obj == nil || depth > 4 {
			return
		}
		idx := -1
		for i := 0; ; i++ {
			o := root.paramObj(p, i)
			if o == nil {
				break
			}
			if o == v {
				idx = i
			}
		}
		if idx < 0 {
			return
		}
		for _, s := range p.CallsTo(root.Obj) {
			if idx >= len(s.Call.Args) {
				continue
			}
			key := p.Pos(s.Call)
			if seen[key] {
				continue
			}
			seen[key] = true
			n++
			ok, pv := asIs(s.Fn, s.Call.Args[idx], 0)
			t := p.Term(s.Call.Args[idx])
			if t.Op == "nil" {
				ok = true // an API variant without a cipher
			}
			r.check(ok, "C06.I8", s.Fn.Name, p.Pos(s.Call), "cipher argument of "+root.Name+" in "+s.Fn.Name, "handed on as configured", "the cipher passed to "+root.Name+" is "+exprString(s.Call.Args[idx])+", not the configured BlockCrypt as it is: the integrity check the application asked for can be replaced or dropped (a datagram that fails it is then accepted)")
			if ok && pv != nil {
				follow(s.Fn, pv, depth+1)
			}
		}
	}
	for f := range fields {
		for _, st := range p.FieldStores(f) {
			if st.Rhs == nil {
				continue
			}
			n++
			ok, pv := asIs(st.Fn, st.Rhs, 0)
			r.check(ok, "C06.I8", st.Fn.Name, p.Pos(st.Node), "store("+p.FieldOwner(f)+") in "+st.Fn.Name, "the configured BlockCrypt as it is", "the installed cipher is "+exprString(st.Rhs)+", not the configured BlockCrypt as it is: the integrity check the application asked for can be replaced or dropped (a datagram that fails it is then accepted)")
			if ok && pv != nil {
				follow(st.Fn, pv, 0)
			}
		}
	}
	if n == 0 {
		r.bad("C06.I8", "sessions and listeners", "-", "store of the cipher", "no store to UDPSession.block / Listener.block found", "")
	}
}

// checkReceiveBuffersPrivate: C06.I9.
func checkReceiveBuffersPrivate(p *Prog, r *Report) {
	isMake := func(e ast.Expr) bool {
		call, ok := ast.Unparen(e).(*ast.CallExpr)
		return ok && p.BuiltinName(call) == "make"
	}
	n := 0
	// the receive path: functions that read from the socket, and the unexported helpers they call directly (message-vector constructors)
	calls := func(fi *FuncInfo, names ...string) bool {
		hit := false
		inspectBody(fi, func(x ast.Node) bool {
			if call, ok := x.(*ast.CallExpr); ok {
				if sel, ok := ast.Unparen(call.Fun).(*ast.SelectorExpr); ok {
					for _, nm := range names {
						if sel.Sel.Name == nm {
							hit = true
						}
					}
				}
			}
			return true
		})
		return hit
	}
	recvPath := map[*FuncInfo]bool{}
	for _, fi := range p.funcs {
		if fi.Body != nil && calls(fi, "ReadFrom", "ReadBatch") {
			recvPath[fi] = true
		}
	}
	var readers []*FuncInfo
	for _, fi := range p.funcs {
		if recvPath[fi] {
			readers = append(readers, fi)
		}
	}
	for _, fi := range readers {
		inspectBody(fi, func(x ast.Node) bool {
			if call, ok := x.(*ast.CallExpr); ok {
				if f := p.Callee(call); f != nil && f.Pkg() == p.Types && !f.Exported() {
					if h := p.FuncOf(f); h != nil && h.Body != nil && !calls(h, "WriteTo", "WriteBatch") {
						recvPath[h] = true
					}
				}
			}
			return true
		})
	}
	for _, fi := range p.funcs {
		if fi.Body == nil || !recvPath[fi] {
			continue
		}
		inspectBody(fi, func(x ast.Node) bool {
			switch y := x.(type) {
			case *ast.CallExpr:
				sel, ok := ast.Unparen(y.Fun).(*ast.SelectorExpr)
				if !ok || sel.Sel.Name != "ReadFrom" || len(y.Args) != 1 {
					return true
				}
				// only socket reads: the receiver is a net.PacketConn / *net.UDPConn valued field or local
				if t := p.Info.TypeOf(sel.X); t == nil || !strings.Contains(t.String(), "net.") {
					return true
				}
				n++
				construct := exprString(y.Fun) + "(" + exprString(y.Args[0]) + ") in " + fi.Name
				v := identVar(p, y.Args[0])
				ok = v != nil && !p.isParam(v)
				why := "the receive buffer is not a local of the receive loop"
				if ok {
					as := p.Assignments(rootFuncInfo(fi), v)
					if len(as) == 0 {
						ok = false
					}
					for _, a := range as {
						if a.Rhs == nil || !isMake(a.Rhs) {
							ok = false
							why = "the receive buffer is " + exprString(a.Rhs) + ", not a fresh make([]byte, …)"
						}
					}
				}
				r.check(ok, "C06.I9", fi.Name, p.Pos(y), construct, "a buffer allocated by the receive loop itself", why+": datagrams are written into it before they are decrypted and checked, so a rejected datagram overwrites whatever else lives in that memory (for the session's recvbuf: the unread tail of a partially read message)")
			case *ast.AssignStmt:
				for i, l := range y.Lhs {
					ls, ok := ast.Unparen(l).(*ast.SelectorExpr)
					if !ok || ls.Sel.Name != "Buffers" || i >= len(y.Rhs) {
						continue
					}
					if t := p.Info.TypeOf(ls.X); t == nil || !strings.Contains(t.String(), "Message") {
						continue
					}
					n++
					okB := false
					if cl, isCL := ast.Unparen(y.Rhs[i]).(*ast.CompositeLit); isCL && len(cl.Elts) > 0 {
						okB = true
						for _, el := range cl.Elts {
							if !isMake(el) {
								okB = false
							}
						}
					}
					r.check(okB, "C06.I9", fi.Name, p.Pos(y), exprString(l)+" = "+exprString(y.Rhs[i])+" in "+fi.Name, "buffers allocated by the receive path itself", "the buffers of the batch messages are not fresh make([]byte, …) allocations: datagrams are written into them before they are decrypted and checked")
				}
			}
			return true
		})
	}
	if n == 0 {
		r.bad("C06.I9", "receive loops", "-", "receive buffers", "no socket read found", "")
	}
}

// selfWrap: as is `v = f(v)` with f a function of another package and no other variable among the arguments.
func selfWrap(p *Prog, as *ast.AssignStmt, v *types.Var) bool {
	if len(as.Lhs) != 1 || len(as.Rhs) != 1 {
		return false
	}
	call, ok := ast.Unparen(as.Rhs[0]).(*ast.CallExpr)
	if !ok {
		return false
	}
	f := p.Callee(call)
	if f == nil || f.Pkg() == nil || f.Pkg() == p.Types {
		return false
	}
	only, some := true, false
	for _, arg := range call.Args {
		ast.Inspect(arg, func(x ast.Node) bool {
			if id, ok := x.(*ast.Ident); ok {
				if o, isV := p.Info.Uses[id].(*types.Var); isV {
					if o == v {
						some = true
					} else {
						only = false
					}
				}
			}
			return true
		})
	}
	return only && some
}
