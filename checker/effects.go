package main

import (
	"go/ast"
	"go/token"
	"go/types"
	"sort"
)

// Effects is a flow-insensitive mod/ref summary of one function body.
// Fields are identified by their *types.Var (field-sensitive, object-insensitive).
type Effects struct {
	FieldW      map[*types.Var]token.Pos // field assigned (x.f = .., x.f++, &x.f handed to a call, range key/value)
	ElemW       map[*types.Var]token.Pos // contents reachable through the field modified (x.f[i] = .., copy(x.f,..), delete(x.f,k), ..)
	GlobW       map[*types.Var]token.Pos // package-level variable assigned or its contents modified
	LocalW      map[*types.Var]token.Pos // local variables / parameters assigned (incl. captured ones)
	ParamEW     map[*types.Var]token.Pos // contents reachable through a parameter/local modified
	ParamEWDeep map[*types.Var]token.Pos // only contents two or more indirections away modified (x[i][j] = .., writer(x[i]))
	FieldR      map[*types.Var]token.Pos
	GlobR       map[*types.Var]token.Pos
	Calls       map[*types.Func]token.Pos // statically resolved callees (origin objects), package-internal and external
	Dyn         []*ast.CallExpr           // dynamic calls (function values, interface methods)
	Lits        map[*FuncInfo]bool        // function literals defined in the body (may be called later)
	ChanOps     []ChanOp
	Gos         []*ast.GoStmt
	HeapCalls   []*ast.CallExpr // container/heap.X(h, ..) calls
	ParamCalls  []*ast.CallExpr // calls of function-typed parameters
}

type ChanOp struct {
	Node     ast.Node
	Send     bool
	Chan     *Term
	NonBlock bool // inside a select that has a default clause
	InSelect bool
	Close    bool
}

func newEffects() *Effects {
	return &Effects{FieldW: map[*types.Var]token.Pos{}, ElemW: map[*types.Var]token.Pos{}, GlobW: map[*types.Var]token.Pos{}, LocalW: map[*types.Var]token.Pos{},
		ParamEW: map[*types.Var]token.Pos{}, ParamEWDeep: map[*types.Var]token.Pos{}, FieldR: map[*types.Var]token.Pos{}, GlobR: map[*types.Var]token.Pos{}, Calls: map[*types.Func]token.Pos{}, Lits: map[*FuncInfo]bool{}}
}

// pure external functions: never write through their arguments.
var pureExternal = map[string]bool{
	"hash/crc32.ChecksumIEEE": true, "encoding/binary.littleEndian.Uint16": true, "encoding/binary.littleEndian.Uint32": true,
	"encoding/binary.littleEndian.Uint64": true, "time.Now": true, "time.Since": true, "time.Until": true, "time.Time.After": true,
	"time.Time.Before": true, "time.Time.Sub": true, "time.Time.IsZero": true, "time.Time.Add": true, "time.Time.UnixMilli": true,
	"net.IP.Equal": true, "net.IP.To4": true, "net.UDPAddr.String": true, "errors.New": true, "github.com/pkg/errors.WithStack": true,
	"github.com/pkg/errors.New": true, "sync/atomic.LoadUint64": true, "sync/atomic.Value.Load": true,
	"time.Duration.Milliseconds": true,
}

// which argument positions an external function writes through (documented
// contracts; default: every reference argument).
var astExternalWriteArgs = map[string]map[int]bool{
	"crypto/subtle.XORBytes":                           {0: true},
	"crypto/cipher.Encrypt":                            {0: true},
	"crypto/cipher.Decrypt":                            {0: true},
	"crypto/cipher.Seal":                               {0: true},
	"crypto/cipher.Open":                               {0: true},
	"golang.org/x/crypto/salsa20.XORKeyStream":         {0: true},
	"io.ReadFull":                                      {1: true},
	"encoding/binary.PutUint16":                        {0: true},
	"encoding/binary.PutUint32":                        {0: true},
	"encoding/binary.PutUint64":                        {0: true},
	"sort.Slice":                                       {0: true},
	"github.com/klauspost/reedsolomon.Encode":          {0: true},
	"github.com/klauspost/reedsolomon.ReconstructData": {0: true},
	"github.com/klauspost/reedsolomon.New":             {},
	"crypto/cipher.NonceSize":                          {},
	"crypto/cipher.Overhead":                           {},
	"crypto/cipher.BlockSize":                          {},
}

func extFuncKey(f *types.Func) string {
	if f == nil || f.Pkg() == nil {
		return ""
	}
	if r := recvTypeName(f); r != "" {
		return f.Pkg().Path() + "." + r + "." + f.Name()
	}
	return f.Pkg().Path() + "." + f.Name()
}

// rootOf returns the root of an lvalue/reference expression: the innermost
// field selected (if any) or the variable it starts from.
//
//	x.f[i]    -> field f          x.f.g   -> field g (and base field f is only read)
//	v[i:j]    -> var v            &x.f    -> field f
func (p *Prog) rootOf(e ast.Expr) (fld *types.Var, v *types.Var) {
	for {
		e = ast.Unparen(e)
		switch x := e.(type) {
		case *ast.IndexExpr:
			e = x.X
		case *ast.SliceExpr:
			e = x.X
		case *ast.StarExpr:
			e = x.X
		case *ast.UnaryExpr:
			if x.Op == token.AND {
				e = x.X
				continue
			}
			return nil, nil
		case *ast.SelectorExpr:
			if sel, ok := p.Info.Selections[x]; ok && sel.Kind() == types.FieldVal {
				f, _ := sel.Obj().(*types.Var)
				if f != nil {
					f = f.Origin()
				}
				return f, nil
			}
			if o, ok := p.Info.Uses[x.Sel].(*types.Var); ok {
				return nil, o
			}
			return nil, nil
		case *ast.Ident:
			o := p.Info.Uses[x]
			if o == nil {
				o = p.Info.Defs[x]
			}
			if vv, ok := o.(*types.Var); ok {
				return nil, vv
			}
			return nil, nil
		case *ast.CallExpr:
			// conversion such as fecPacket(data): look through
			if p.IsConversion(x) && len(x.Args) == 1 {
				e = x.Args[0]
				continue
			}
			// method call returning a view of the receiver, e.g. pkt.data()
			return nil, nil
		default:
			return nil, nil
		}
	}
}

func (p *Prog) isGlobal(v *types.Var) bool {
	return v != nil && !v.IsField() && v.Parent() != nil && v.Pkg() != nil && v.Parent() == v.Pkg().Scope()
}

func refLike(t types.Type) bool {
	if t == nil {
		return false
	}
	switch t.Underlying().(type) {
	case *types.Slice, *types.Pointer, *types.Map, *types.Chan, *types.Interface, *types.Signature:
		return true
	}
	return false
}

// Effects computes (and caches) the own effects of one function body. Nested
// function literals are summarised separately and listed in Lits.
func (p *Prog) Effects(fi *FuncInfo) *Effects {
	key := "eff:" + fi.Name + "@" + p.Pos(fi.Node)
	if v, ok := p.memo[key]; ok {
		return v.(*Effects)
	}
	ef := p.nodeEffects(fi.Body, fi.Node)
	p.memo[key] = ef
	return ef
}

// NodeEffects computes the own effects of one statement/expression (shallow:
// nested function literals are listed in Lits, a range statement standing for
// its loop condition does not include its body).
func (p *Prog) NodeEffects(n ast.Node) *Effects {
	if m, ok := p.memo["nodeeff"].(map[ast.Node]*Effects); ok {
		if e, ok := m[n]; ok {
			return e
		}
	} else {
		p.memo["nodeeff"] = map[ast.Node]*Effects{}
	}
	ef := p.nodeEffects(n, nil)
	p.memo["nodeeff"].(map[ast.Node]*Effects)[n] = ef
	return ef
}

func (p *Prog) nodeEffects(root ast.Node, self ast.Node) *Effects {
	ef := newEffects()
	var rangeBody ast.Node
	if rs, ok := root.(*ast.RangeStmt); ok && self == nil {
		rangeBody = rs.Body
	}
	writeTo := func(lhs ast.Expr, pos token.Pos) {
		lhs = ast.Unparen(lhs)
		// is it a content write (through index/deref) or a direct assignment?
		direct := true
		switch lhs.(type) {
		case *ast.IndexExpr, *ast.StarExpr, *ast.SliceExpr:
			direct = false
		}
		fld, v := p.rootOf(lhs)
		switch {
		case fld != nil && direct:
			ef.FieldW[fld] = pos
		case fld != nil:
			ef.ElemW[fld] = pos
		case v != nil && p.isGlobal(v):
			ef.GlobW[v] = pos
		case v != nil && direct:
			ef.LocalW[v] = pos
		case v != nil:
			if indexDepth(lhs) >= 2 {
				ef.ParamEWDeep[v] = pos
			} else {
				ef.ParamEW[v] = pos
			}
		}
	}
	var contentWrite func(arg ast.Expr, pos token.Pos)
	aliasDepth := 0
	contentWrite = func(arg ast.Expr, pos token.Pos) {
		fld, v := p.rootOf(arg)
		// a local slice/pointer variable may alias what it was assigned from
		if fld == nil && v != nil && !p.isGlobal(v) && aliasDepth < 4 {
			aliasDepth++
			for _, rhs := range p.localAliasSources(v) {
				contentWrite(rhs, pos)
			}
			aliasDepth--
		}
		switch {
		case fld != nil:
			if u, ok := ast.Unparen(arg).(*ast.UnaryExpr); ok && u.Op == token.AND {
				if _, isSel := ast.Unparen(u.X).(*ast.SelectorExpr); isSel {
					ef.FieldW[fld] = pos // &x.f handed out: the field itself may be stored
					return
				}
			}
			ef.ElemW[fld] = pos
		case v != nil && p.isGlobal(v):
			ef.GlobW[v] = pos
		case v != nil:
			if indexDepth(arg)+1 >= 2 {
				ef.ParamEWDeep[v] = pos
			} else {
				ef.ParamEW[v] = pos
			}
		}
	}
	var selectStack []*ast.SelectStmt
	hasDefault := func(s *ast.SelectStmt) bool {
		for _, c := range s.Body.List {
			if c.(*ast.CommClause).Comm == nil {
				return true
			}
		}
		return false
	}
	var visit func(n ast.Node) bool
	visit = func(n ast.Node) bool {
		switch x := n.(type) {
		case nil:
			return false
		case *ast.FuncLit:
			if x != self {
				if li := p.funcBy[x]; li != nil {
					ef.Lits[li] = true
				}
				return false
			}
		case *ast.BlockStmt:
			if x == rangeBody {
				return false
			}
		case *ast.SelectStmt:
			selectStack = append(selectStack, x)
			for _, c := range x.Body.List {
				cc := c.(*ast.CommClause)
				if cc.Comm != nil {
					nb := hasDefault(x)
					switch cm := cc.Comm.(type) {
					case *ast.SendStmt:
						ef.ChanOps = append(ef.ChanOps, ChanOp{Node: cm, Send: true, Chan: p.Term(cm.Chan), NonBlock: nb, InSelect: true})
						ast.Inspect(cm.Value, visit)
					case *ast.ExprStmt:
						if u, ok := ast.Unparen(cm.X).(*ast.UnaryExpr); ok && u.Op == token.ARROW {
							ef.ChanOps = append(ef.ChanOps, ChanOp{Node: cm, Chan: p.Term(u.X), NonBlock: nb, InSelect: true})
						}
					case *ast.AssignStmt:
						if len(cm.Rhs) == 1 {
							if u, ok := ast.Unparen(cm.Rhs[0]).(*ast.UnaryExpr); ok && u.Op == token.ARROW {
								ef.ChanOps = append(ef.ChanOps, ChanOp{Node: cm, Chan: p.Term(u.X), NonBlock: nb, InSelect: true})
							}
						}
						for _, l := range cm.Lhs {
							writeTo(l, cm.Pos())
						}
					}
				}
				for _, s := range cc.Body {
					ast.Inspect(s, visit)
				}
			}
			selectStack = selectStack[:len(selectStack)-1]
			return false
		case *ast.SendStmt:
			ef.ChanOps = append(ef.ChanOps, ChanOp{Node: x, Send: true, Chan: p.Term(x.Chan)})
		case *ast.UnaryExpr:
			if x.Op == token.ARROW {
				ef.ChanOps = append(ef.ChanOps, ChanOp{Node: x, Chan: p.Term(x.X)})
			}
		case *ast.GoStmt:
			ef.Gos = append(ef.Gos, x)
		case *ast.AssignStmt:
			for _, l := range x.Lhs {
				writeTo(l, x.Pos())
			}
		case *ast.IncDecStmt:
			writeTo(x.X, x.Pos())
		case *ast.RangeStmt:
			if x.Tok == token.ASSIGN {
				if x.Key != nil {
					writeTo(x.Key, x.Pos())
				}
				if x.Value != nil {
					writeTo(x.Value, x.Pos())
				}
			}
			// range over a function value: an implicit call
			if tv, ok := p.Info.Types[x.X]; ok {
				if _, isSig := tv.Type.Underlying().(*types.Signature); isSig {
					if sel, ok := ast.Unparen(x.X).(*ast.SelectorExpr); ok {
						if s, ok := p.Info.Selections[sel]; ok && s.Kind() == types.MethodVal {
							if f, ok := s.Obj().(*types.Func); ok {
								ef.Calls[f.Origin()] = x.Pos()
							}
						}
					} else if id, ok := ast.Unparen(x.X).(*ast.Ident); ok {
						if f, ok := p.Info.Uses[id].(*types.Func); ok {
							ef.Calls[f.Origin()] = x.Pos()
						}
					}
				}
			}
		case *ast.SelectorExpr:
			if sel, ok := p.Info.Selections[x]; ok && sel.Kind() == types.FieldVal {
				if f, ok := sel.Obj().(*types.Var); ok {
					f = f.Origin()
					if _, seen := ef.FieldR[f]; !seen {
						ef.FieldR[f] = x.Pos()
					}
				}
			} else if v, ok := p.Info.Uses[x.Sel].(*types.Var); ok && p.isGlobal(v) {
				if _, seen := ef.GlobR[v]; !seen {
					ef.GlobR[v] = x.Pos()
				}
			}
		case *ast.Ident:
			if v, ok := p.Info.Uses[x].(*types.Var); ok && p.isGlobal(v) {
				if _, seen := ef.GlobR[v]; !seen {
					ef.GlobR[v] = x.Pos()
				}
			}
		case *ast.CallExpr:
			if p.IsConversion(x) {
				return true
			}
			if b := p.BuiltinName(x); b != "" {
				switch b {
				case "copy", "clear":
					if len(x.Args) > 0 {
						contentWrite(x.Args[0], x.Pos())
					}
				case "delete":
					if len(x.Args) > 0 {
						contentWrite(x.Args[0], x.Pos())
					}
				case "close":
					if len(x.Args) > 0 {
						ef.ChanOps = append(ef.ChanOps, ChanOp{Node: x, Chan: p.Term(x.Args[0]), Close: true, NonBlock: true})
					}
				case "append":
					// appending may write into the backing array of the first argument
					if len(x.Args) > 0 {
						contentWrite(x.Args[0], x.Pos())
					}
				}
				return true
			}
			f := p.Callee(x)
			if f == nil {
				// calling a function-typed parameter (iterator yield, callback handed in by
				// the caller): its effects are attributed to whoever supplied the function
				if id, ok := ast.Unparen(x.Fun).(*ast.Ident); ok {
					if v, ok := p.Info.Uses[id].(*types.Var); ok && p.isParam(v) {
						ef.ParamCalls = append(ef.ParamCalls, x)
						return true
					}
				}
				ef.Dyn = append(ef.Dyn, x)
				// arguments may be written through by the unknown callee
				for _, a := range x.Args {
					if refLike(p.Info.TypeOf(a)) {
						contentWrite(a, x.Pos())
					}
				}
				return true
			}
			if _, seen := ef.Calls[f]; !seen {
				ef.Calls[f] = x.Pos()
			}
			if f.Pkg() == p.Types {
				// the callee writes through some of its reference parameters
				if cf := p.FuncOf(f); cf != nil && cf.Decl != nil {
					pw := p.paramWrites(cf)
					if pw[-1] {
						if sel, ok := ast.Unparen(x.Fun).(*ast.SelectorExpr); ok {
							contentWrite(sel.X, x.Pos())
						}
					}
					for ai, a := range x.Args {
						if pw[ai] {
							contentWrite(a, x.Pos())
						}
					}
				}
			}
			if f.Pkg() != nil && f.Pkg().Path() == "container/heap" && len(x.Args) > 0 {
				ef.HeapCalls = append(ef.HeapCalls, x)
			}
			if f.Pkg() != p.Types {
				// interface method of an external interface on a package value (e.g. heap.Interface)
				// is handled by the callee set of container/heap below; external callee: may write
				// through reference arguments and through a pointer receiver.
				if !pureExternal[extFuncKey(f)] {
					wa, hasTable := astExternalWriteArgs[f.Pkg().Path()+"."+f.Name()]
					for ai, a := range x.Args {
						if hasTable && !wa[ai] {
							continue
						}
						if refLike(p.Info.TypeOf(a)) {
							contentWrite(a, x.Pos())
						}
					}
					if sel, ok := ast.Unparen(x.Fun).(*ast.SelectorExpr); ok {
						if s, ok := p.Info.Selections[sel]; ok && s.Kind() == types.MethodVal {
							sig := f.Type().(*types.Signature)
							if sig.Recv() != nil {
								if _, isPtr := sig.Recv().Type().(*types.Pointer); isPtr {
									// x.f.M() with pointer receiver: x.f's contents may change
									fld, v := p.rootOf(sel.X)
									if hasTable && len(wa) == 0 {
										fld, v = nil, nil // documented as a pure query
									}
									if fld != nil {
										if _, isPtrField := fld.Type().Underlying().(*types.Pointer); isPtrField {
											ef.ElemW[fld] = x.Pos()
										} else {
											ef.FieldW[fld] = x.Pos()
										}
									} else if v != nil && p.isGlobal(v) {
										ef.GlobW[v] = x.Pos()
									} else if v != nil {
										ef.ParamEW[v] = x.Pos()
									}
								}
							}
						}
					}
				}
			}
		}
		return true
	}
	ast.Inspect(root, visit)
	return ef
}

// TransEffects is the transitive closure of Effects over resolved callees.
type TransEffects struct {
	FieldW  map[*types.Var]bool
	ElemW   map[*types.Var]bool
	GlobW   map[*types.Var]bool
	FieldR  map[*types.Var]bool
	GlobR   map[*types.Var]bool
	Calls   map[*types.Func]bool // all functions possibly called (internal and external)
	Funcs   map[*FuncInfo]bool   // package function bodies possibly executed
	Unknown bool                 // calls a function value that could not be resolved inside the package
	ChanOps []ChanOp
	LocalW  map[*types.Var]bool
}

func (t *TransEffects) WritesField(f *types.Var) bool { return t.FieldW[f] || t.ElemW[f] }

// heapIfaceMethods: container/heap.X(h, ..) calls h.Len/Less/Swap/Push/Pop.
var heapCalls = map[string][]string{
	"Push":   {"Push", "Len", "Less", "Swap"},
	"Pop":    {"Pop", "Len", "Less", "Swap"},
	"Init":   {"Len", "Less", "Swap"},
	"Fix":    {"Len", "Less", "Swap"},
	"Remove": {"Pop", "Len", "Less", "Swap"},
}

// DynTargets resolves a dynamic call to the package function bodies it may run:
// a local closure variable assigned exactly one literal; an interface method ->
// all package types implementing it; a function-typed field/variable -> every
// package function or literal of identical signature that is used as a value.
func (p *Prog) DynTargets(call *ast.CallExpr) (targets []*FuncInfo, external bool) {
	fun := ast.Unparen(call.Fun)
	// immediately invoked literal: func(){..}()
	if fl, ok := fun.(*ast.FuncLit); ok {
		if fi := p.funcBy[fl]; fi != nil {
			return []*FuncInfo{fi}, false
		}
	}
	// interface method call
	if sel, ok := fun.(*ast.SelectorExpr); ok {
		if s, ok := p.Info.Selections[sel]; ok && s.Kind() == types.MethodVal {
			recvT := s.Recv()
			if iface, ok := recvT.Underlying().(*types.Interface); ok {
				name := sel.Sel.Name
				for _, tn := range p.pkgNamedTypes() {
					for _, T := range []types.Type{tn, types.NewPointer(tn)} {
						if types.Implements(T, iface) {
							ms := types.NewMethodSet(T)
							if m := ms.Lookup(p.Types, name); m != nil {
								if fi := p.FuncOf(m.Obj().(*types.Func)); fi != nil {
									targets = appendUniqueFI(targets, fi)
								}
							}
						}
					}
				}
				return targets, true // external implementations may exist too
			}
		}
	}
	// local closure variable
	if id, ok := fun.(*ast.Ident); ok {
		if v, ok := p.Info.Uses[id].(*types.Var); ok && !v.IsField() && !p.isGlobal(v) {
			if lit := p.singleLitAssigned(v); lit != nil {
				return []*FuncInfo{lit}, false
			}
		}
	}
	// function value: by signature
	ft := p.Info.TypeOf(call.Fun)
	if ft == nil {
		return nil, true
	}
	sig, ok := ft.Underlying().(*types.Signature)
	if !ok {
		return nil, true
	}
	for _, fi := range p.valueFuncs() {
		var s2 *types.Signature
		if fi.Lit != nil {
			s2, _ = p.Info.TypeOf(fi.Lit).Underlying().(*types.Signature)
		} else if fi.Obj != nil {
			s2 = fi.Obj.Type().(*types.Signature)
			if s2.Recv() != nil {
				s2 = types.NewSignatureType(nil, nil, nil, s2.Params(), s2.Results(), s2.Variadic())
			}
		}
		if s2 != nil && types.Identical(sigNoRecv(sig), sigNoRecv(s2)) {
			targets = appendUniqueFI(targets, fi)
		}
	}
	return targets, true
}

func sigNoRecv(s *types.Signature) *types.Signature {
	return types.NewSignatureType(nil, nil, nil, s.Params(), s.Results(), s.Variadic())
}

func appendUniqueFI(l []*FuncInfo, fi *FuncInfo) []*FuncInfo {
	for _, x := range l {
		if x == fi {
			return l
		}
	}
	return append(l, fi)
}

func (p *Prog) pkgNamedTypes() []*types.Named {
	if v, ok := p.memo["named"]; ok {
		return v.([]*types.Named)
	}
	var out []*types.Named
	sc := p.Types.Scope()
	for _, n := range sc.Names() {
		if tn, ok := sc.Lookup(n).(*types.TypeName); ok {
			if nt, ok := tn.Type().(*types.Named); ok && nt.TypeParams().Len() == 0 {
				out = append(out, nt)
			}
		}
	}
	p.memo["named"] = out
	return out
}

// singleLitAssigned returns the function literal if v is assigned exactly once,
// with a literal.
func (p *Prog) singleLitAssigned(v *types.Var) *FuncInfo {
	var lit *ast.FuncLit
	count := 0
	for _, f := range p.Files {
		if f.Pos() <= v.Pos() && v.Pos() <= f.End() {
			ast.Inspect(f, func(n ast.Node) bool {
				switch x := n.(type) {
				case *ast.AssignStmt:
					for i, l := range x.Lhs {
						if id, ok := l.(*ast.Ident); ok {
							o := p.Info.Defs[id]
							if o == nil {
								o = p.Info.Uses[id]
							}
							if o == v {
								count++
								if len(x.Rhs) == len(x.Lhs) {
									if fl, ok := ast.Unparen(x.Rhs[i]).(*ast.FuncLit); ok {
										lit = fl
									}
								}
							}
						}
					}
				case *ast.ValueSpec:
					for i, id := range x.Names {
						if p.Info.Defs[id] == v && i < len(x.Values) {
							count++
							if fl, ok := ast.Unparen(x.Values[i]).(*ast.FuncLit); ok {
								lit = fl
							}
						}
					}
				}
				return true
			})
		}
	}
	if count == 1 && lit != nil {
		return p.funcBy[lit]
	}
	return nil
}

// valueFuncs lists function literals and named package functions/methods used as values.
func (p *Prog) valueFuncs() []*FuncInfo {
	if v, ok := p.memo["valuefuncs"]; ok {
		return v.([]*FuncInfo)
	}
	var out []*FuncInfo
	for _, fi := range p.funcs {
		if fi.Lit != nil {
			out = append(out, fi)
		}
	}
	// named functions used as values: identifiers/selectors that denote a func and are not the Fun of a call
	for _, f := range p.Files {
		ast.Inspect(f, func(n ast.Node) bool {
			var obj types.Object
			switch x := n.(type) {
			case *ast.Ident:
				obj = p.Info.Uses[x]
			default:
				return true
			}
			fn, ok := obj.(*types.Func)
			if !ok || fn.Pkg() != p.Types {
				return true
			}
			// is n (or its selector parent) the Fun of a call?
			var top ast.Node = n
			if sel, ok := p.parents[n].(*ast.SelectorExpr); ok && sel.Sel == n {
				top = sel
			}
			for {
				if pe, ok := p.parents[top].(*ast.ParenExpr); ok {
					top = pe
					continue
				}
				break
			}
			if call, ok := p.parents[top].(*ast.CallExpr); ok && call.Fun == top {
				return true
			}
			if fi := p.FuncOf(fn); fi != nil {
				out = appendUniqueFI(out, fi)
			}
			return true
		})
	}
	p.memo["valuefuncs"] = out
	return out
}

// TransEffects computes the transitive effects of fi (cached).
func (p *Prog) TransEffects(fi *FuncInfo) *TransEffects {
	key := "teff:" + fi.Name + "@" + p.Pos(fi.Node)
	if v, ok := p.memo[key]; ok {
		return v.(*TransEffects)
	}
	te := p.closeEffects(p.Effects(fi), fi)
	p.memo[key] = te
	return te
}

// NodeTransEffects: effects of executing node n including everything it calls.
func (p *Prog) NodeTransEffects(n ast.Node) *TransEffects {
	if m, ok := p.memo["nodeteff"].(map[ast.Node]*TransEffects); ok {
		if e, ok := m[n]; ok {
			return e
		}
	} else {
		p.memo["nodeteff"] = map[ast.Node]*TransEffects{}
	}
	te := p.closeEffects(p.NodeEffects(n), nil)
	p.memo["nodeteff"].(map[ast.Node]*TransEffects)[n] = te
	return te
}

func (p *Prog) closeEffects(seed *Effects, seedFn *FuncInfo) *TransEffects {
	te := &TransEffects{FieldW: map[*types.Var]bool{}, ElemW: map[*types.Var]bool{}, GlobW: map[*types.Var]bool{}, FieldR: map[*types.Var]bool{},
		GlobR: map[*types.Var]bool{}, Calls: map[*types.Func]bool{}, Funcs: map[*FuncInfo]bool{}, LocalW: map[*types.Var]bool{}}
	var visit func(f *FuncInfo)
	var absorb func(ef *Effects)
	visit = func(f *FuncInfo) {
		if te.Funcs[f] {
			return
		}
		te.Funcs[f] = true
		absorb(p.Effects(f))
	}
	absorb = func(ef *Effects) {
		for k := range ef.FieldW {
			te.FieldW[k] = true
		}
		for k := range ef.ElemW {
			te.ElemW[k] = true
		}
		for k := range ef.GlobW {
			te.GlobW[k] = true
		}
		for k := range ef.FieldR {
			te.FieldR[k] = true
		}
		for k := range ef.GlobR {
			te.GlobR[k] = true
		}
		for k := range ef.LocalW {
			te.LocalW[k] = true
		}
		te.ChanOps = append(te.ChanOps, ef.ChanOps...)
		for c := range ef.Calls {
			te.Calls[c] = true
			if c.Pkg() == p.Types {
				if cf := p.FuncOf(c); cf != nil {
					visit(cf)
				}
				continue
			}
		}
		// container/heap drives the heap.Interface methods of its argument
		for _, hc := range ef.HeapCalls {
			c := p.Callee(hc)
			nt := namedOf(p.Info.TypeOf(hc.Args[0]))
			if c == nil || nt == nil || nt.Obj().Pkg() != p.Types {
				continue
			}
			for _, m := range heapCalls[c.Name()] {
				if mf := p.TryMethod(nt.Obj().Name(), m); mf != nil {
					if cf := p.FuncOf(mf); cf != nil {
						visit(cf)
					}
				}
			}
		}
		for l := range ef.Lits {
			// a literal defined here may run whenever this function (or something it hands the literal to) runs
			visit(l)
		}
		for _, d := range ef.Dyn {
			ts, ext := p.DynTargets(d)
			if len(ts) == 0 && ext {
				te.Unknown = true
			}
			for _, t := range ts {
				visit(t)
			}
		}
	}
	if seedFn != nil {
		visit(seedFn)
	} else {
		absorb(seed)
	}
	return te
}

func sortedVarNames(m map[*types.Var]bool) []string {
	var out []string
	for v := range m {
		out = append(out, v.Name())
	}
	sort.Strings(out)
	return out
}

// FieldOwner returns "Type.field" for a field var (searching the package's named struct types).
func (p *Prog) FieldOwner(f *types.Var) string {
	if v, ok := p.memo["fieldowner"]; ok {
		if s, ok := v.(map[*types.Var]string)[f]; ok {
			return s
		}
	} else {
		m := map[*types.Var]string{}
		sc := p.Types.Scope()
		for _, n := range sc.Names() {
			if tn, ok := sc.Lookup(n).(*types.TypeName); ok {
				if st, ok := tn.Type().Underlying().(*types.Struct); ok {
					for i := 0; i < st.NumFields(); i++ {
						m[st.Field(i)] = tn.Name() + "." + st.Field(i).Name()
					}
				}
			}
		}
		p.memo["fieldowner"] = m
		if s, ok := m[f]; ok {
			return s
		}
	}
	if f.Pkg() != nil {
		return f.Pkg().Name() + ".?." + f.Name()
	}
	return "?." + f.Name()
}

// paramWrites: indices of the reference parameters (receiver = -1) through
// which the function may write (element stores, copy destination, or handing the
// parameter on to a callee that does).
func (p *Prog) paramWrites(fi *FuncInfo) map[int]bool {
	m, ok := p.memo["paramwrites"].(map[*FuncInfo]map[int]bool)
	if !ok {
		m = map[*FuncInfo]map[int]bool{}
		p.memo["paramwrites"] = m
	}
	if r, ok := m[fi]; ok {
		return r
	}
	res := map[int]bool{}
	m[fi] = res // recursion guard (cycles contribute nothing)
	if fi.Decl == nil {
		return res
	}
	idx := map[*types.Var]int{}
	if rv := p.recvVar(fi); rv != nil {
		// only slice/map-typed receivers (fecPacket); struct receivers are tracked by field
		switch rv.Type().Underlying().(type) {
		case *types.Slice, *types.Map:
			idx[rv] = -1
		}
	}
	i := 0
	for _, fl := range fi.Decl.Type.Params.List {
		if len(fl.Names) == 0 {
			i++
			continue
		}
		for _, nm := range fl.Names {
			if v, ok := p.Info.Defs[nm].(*types.Var); ok && refLike(v.Type()) {
				idx[v] = i
			}
			i++
		}
	}
	ef := p.Effects(fi)
	for _, m := range []map[*types.Var]token.Pos{ef.ParamEW, ef.ParamEWDeep} {
		for v := range m {
			if k, ok := idx[v]; ok {
				res[k] = true
			}
		}
	}
	// literals defined inside (e.g. range-over-func bodies) count too
	for l := range ef.Lits {
		le := p.Effects(l)
		for _, m := range []map[*types.Var]token.Pos{le.ParamEW, le.ParamEWDeep} {
			for v := range m {
				if k, ok := idx[v]; ok {
					res[k] = true
				}
			}
		}
	}
	return res
}

// localAliasSources: right-hand sides assigned to the local reference variable v
// that are themselves references into something else (x[a:b], x, &x.f, x.f).
func (p *Prog) localAliasSources(v *types.Var) []ast.Expr {
	m, ok := p.memo["aliassrc"].(map[*types.Var][]ast.Expr)
	if !ok {
		m = map[*types.Var][]ast.Expr{}
		p.memo["aliassrc"] = m
		for _, f := range p.Files {
			ast.Inspect(f, func(n ast.Node) bool {
				switch x := n.(type) {
				case *ast.AssignStmt:
					if len(x.Lhs) != len(x.Rhs) {
						return true
					}
					for i, l := range x.Lhs {
						id, ok := ast.Unparen(l).(*ast.Ident)
						if !ok {
							continue
						}
						o := p.Info.Defs[id]
						if o == nil {
							o = p.Info.Uses[id]
						}
						lv, ok := o.(*types.Var)
						if !ok || lv.IsField() || !refLike(lv.Type()) {
							continue
						}
						switch r := ast.Unparen(x.Rhs[i]).(type) {
						case *ast.SliceExpr, *ast.Ident, *ast.SelectorExpr, *ast.IndexExpr:
							m[lv] = append(m[lv], x.Rhs[i])
						case *ast.UnaryExpr:
							if r.Op == token.AND {
								m[lv] = append(m[lv], x.Rhs[i])
							}
						}
					}
				case *ast.RangeStmt:
					// for _, r := range X : r aliases elements of X when they are references
					if id, ok := x.Value.(*ast.Ident); ok {
						if lv, ok := p.Info.Defs[id].(*types.Var); ok && refLike(lv.Type()) {
							m[lv] = append(m[lv], x.X)
						}
					}
				}
				return true
			})
		}
	}
	var out []ast.Expr
	for _, e := range m[v] {
		// skip self references (v = v[a:])
		if _, rv := p.rootOf(e); rv == v {
			continue
		}
		out = append(out, e)
	}
	return out
}

// isParam reports whether v is a parameter of some function declaration or literal.
func (p *Prog) isParam(v *types.Var) bool {
	m, ok := p.memo["params"].(map[*types.Var]bool)
	if !ok {
		m = map[*types.Var]bool{}
		for _, f := range p.Files {
			ast.Inspect(f, func(n ast.Node) bool {
				var ft *ast.FuncType
				switch x := n.(type) {
				case *ast.FuncDecl:
					ft = x.Type
				case *ast.FuncLit:
					ft = x.Type
				}
				if ft != nil && ft.Params != nil {
					for _, fl := range ft.Params.List {
						for _, nm := range fl.Names {
							if pv, ok := p.Info.Defs[nm].(*types.Var); ok {
								m[pv] = true
							}
						}
					}
				}
				return true
			})
		}
		p.memo["params"] = m
	}
	return m[v]
}

// indexDepth counts the element selections (x[i], *x) between the root variable
// and the expression: x -> 0, x[i] -> 1, x[i][a:b] -> 1, x[i][j] -> 2.
func indexDepth(e ast.Expr) int {
	d := 0
	for {
		switch x := ast.Unparen(e).(type) {
		case *ast.IndexExpr:
			d++
			e = x.X
		case *ast.StarExpr:
			d++
			e = x.X
		case *ast.SliceExpr:
			e = x.X
		case *ast.SelectorExpr:
			e = x.X
		case *ast.UnaryExpr:
			e = x.X
		default:
			return d
		}
	}
}
