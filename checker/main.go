package main

import (
	"flag"
	"fmt"
	"os"
	"sort"
	"strconv"
	"strings"
	"time"
)

// propCheck runs all rules of one property on one loaded configuration.
type propCheck struct {
	id      string
	run     func(p *Prog, r *Report)
	configs map[string][]string // tier -> configurations
	explain string
	assume  []string
}

var registry = map[string]*propCheck{}

func register(pc *propCheck) { registry[pc.id] = pc }

var (
	quickCfgs    = []string{"linux64"}
	thoroughCfgs = []string{"linux64", "generic", "linux32", "debug"}
)

func main() {
	prop := flag.String("prop", "", "property id (C01..C20)")
	tier := flag.String("tier", "quick", "quick|thorough")
	repo := flag.String("repo", "/repo", "repository under analysis")
	verif := flag.String("verif", "/verif", "verif directory (evidence, known findings)")
	cfgs := flag.String("configs", "", "override configurations (comma separated)")
	dump := flag.String("dump", "", "debug dumps: locks|effects|facts:<func>")
	evdir := flag.String("evidence", "", "write evidence/replay files below this directory instead of <verif>/evidence (used by the self-test on mutated copies)")
	flag.Parse()
	start := time.Now()
	seed := 0
	if s := os.Getenv("VERIF_SEED"); s != "" {
		seed, _ = strconv.Atoi(s)
	}
	if *dump != "" {
		p := loadProg(*repo, buildCfgs[firstOr(*cfgs, "linux64")])
		doDump(p, *dump)
		return
	}
	pc := registry[*prop]
	if pc == nil {
		var ids []string
		for k := range registry {
			ids = append(ids, k)
		}
		sort.Strings(ids)
		fmt.Printf("unknown property %q; have %v\n", *prop, ids)
		os.Exit(2)
	}
	var configs []string
	switch {
	case *cfgs != "":
		configs = strings.Split(*cfgs, ",")
	case pc.configs != nil && pc.configs[*tier] != nil:
		configs = pc.configs[*tier]
	case *tier == "thorough":
		configs = thoroughCfgs
	default:
		configs = quickCfgs
	}
	r := newReport(pc.id, *tier)
	r.Explain = pc.explain
	r.Assume = pc.assume
	r.Configs = configs
	for _, c := range configs {
		bc, ok := buildCfgs[c]
		if !ok {
			brokenCheck("unknown configuration %q", c)
		}
		p := loadProg(*repo, bc)
		r.curCfg = c
		curProg = p
		func() {
			defer func() {
				if e := recover(); e != nil {
					fmt.Printf("BROKEN-CHECK property=%s panic in checker (configuration %s): %v\n", pc.id, c, e)
					panic(e)
				}
			}()
			pc.run(p, r)
		}()
	}
	r.EvidenceDir = *evdir
	os.Exit(r.finish(*verif, start, seed))
}

func firstOr(s, d string) string {
	if s == "" {
		return d
	}
	return strings.Split(s, ",")[0]
}

func doDump(p *Prog, what string) {
	switch {
	case what == "effects":
		for _, fi := range p.funcs {
			te := p.TransEffects(fi)
			fmt.Println(fi.Name, len(te.Funcs), sortedVarNames(te.FieldW), sortedVarNames(te.ElemW), te.Unknown)
		}
	case what == "locks":
		la := p.Locks()
		var roots []string
		for _, l := range la.roots {
			roots = append(roots, l)
		}
		sort.Strings(roots)
		fmt.Println("ROOTS", len(roots))
		for _, l := range roots {
			fmt.Println("  ", l)
		}
		fmt.Println("ENTRY")
		for _, f := range la.funcs {
			if e, ok := la.entry[f]; ok {
				fr := ""
				for i, b := range la.fresh[f] {
					if b {
						fr += fmt.Sprintf(" fresh#%d", i)
					}
				}
				fmt.Printf("  %-60s %s%s\n", f.String(), e, fr)
			} else {
				fmt.Printf("  %-60s UNREACHED\n", f.String())
			}
		}
		byField := map[string][]Access{}
		for _, a := range la.Accesses {
			byField[a.Owner] = append(byField[a.Owner], a)
		}
		var names []string
		for k := range byField {
			names = append(names, k)
		}
		sort.Strings(names)
		for _, k := range names {
			fmt.Println("FIELD", k)
			for _, a := range byField[k] {
				k := "r"
				if a.Write {
					k = "w"
				}
				if a.Atomic {
					k += "a"
				}
				if a.Fresh {
					k += "F"
				}
				fmt.Printf("      %-3s %-50s %s held=%s\n", k, a.Fn.String(), p.PosOf(a.Pos), a.Held)
			}
		}
	case what == "p4":
		dbgP4(p)
	case what == "notifiers":
		dbgNotifiers(p)
	case strings.HasPrefix(what, "callers:"):
		dbgCallers(p, strings.TrimPrefix(what, "callers:"))
	case strings.HasPrefix(what, "facts:"):
		fi := p.FuncByName(strings.TrimPrefix(what, "facts:"))
		if fi == nil {
			fmt.Println("no such function")
			return
		}
		fa := p.Facts(fi, FactOpts{})
		for _, pt := range fa.c.AllPoints() {
			fmt.Printf("%s [%s#%d.%d]\n    %s\n", p.Pos(pt.Node()), pt.B.Kind, pt.B.Index, pt.I, fa.At(pt))
		}
	}
}

func dbgCallers(p *Prog, name string) {
	cg := p.CallGraph()
	for f, n := range cg.Nodes {
		if f != nil && strings.Contains(f.String(), name) {
			fmt.Println("NODE", f.String(), "in:", len(n.In))
			for _, e := range n.In {
				fmt.Println("   <-", e.Caller.Func.String(), p.PosOf(e.Pos()))
			}
		}
	}
}

func dbgNotifiers(p *Prog) {
	for _, n := range []string{"chReadEvent", "chWriteEvent"} {
		m := p.notifiers(p.Field("UDPSession", n))
		for f := range m {
			fmt.Println(n, "notifier:", funcDisplayName(f))
		}
	}
	fi := p.FuncByName("(*UDPSession).kcpInput")
	c := p.CFG(fi)
	for _, b := range c.live {
		if ct := c.CondTerm(b); ct != nil {
			pt := Point{b, len(b.Nodes) - 1}
			fs := p.FactsOf(fi).At(pt)
			fmt.Println(p.Pos(pt.Node()), "cond", ct.Key(), "=>", fs.Resolve(p.ExpandHelpers(ct)).Key())
		}
	}
	recv := p.recvVar(fi)
	fmt.Println("want", p.readAvailTerm(tFld(tVar(recv), p.Field("UDPSession", "kcp"))).Key())
}
