package main

import (
	"fmt"
	"go/ast"
	"go/types"
	"golang.org/x/tools/go/cfg"
	"strings"
)

func init() {
	register(&propCheck{
		id:  "C19",
		run: checkC19,
		explain: "'Delivered intact' depends on the cipher and checksum (C06, C08) and on runtime data and is not decided as such; 'or not at all' permits loss. Decided are the structural clauses: the three API " +
			"entry points refuse a session without FEC before doing anything else; the size test convSize + len(data) <= mtu precedes the buffer and agrees with GetOOBMaxSize (C10.M8); the enqueue " +
			"is a select with a default arm, so SendOOB never blocks and, with the package-wide lock balance rule, never leaves the session mutex held; the OOB framing touches no state of the FEC encoder " +
			"(no id consumed, no slot of a group, no parity) and the post-processing stage calls encode exactly for non-OOB and encodeOOB exactly for OOB requests; on the receive side the typeOOB arm calls " +
			"nothing but the counter, the handler load and the handler, and neither decode nor KCP.Input is reachable from it; writer and readers agree on the offsets of conversation id and payload; the " +
			"listener applies the conversation test to OOB packets like to any other (C11.D1), dialled sessions filter the source (C11.D6); the handler slot only ever holds OOBCallBackType values.",
		assume: []string{
			"OOB packets occupying the post-processing queue only delay (never corrupt) stream packets, which are retransmitted: a throughput effect, not decided",
		},
	})
}

// delegate runs another property's checker and re-labels the obligations of one of its rules.
func delegate(p *Prog, r *Report, prop string, run func(*Prog, *Report), from, to string) {
	key := "delegate:" + prop + ":" + r.curCfg
	sub, _ := p.memo[key].(*Report)
	if sub == nil {
		sub = newReport(prop, r.Tier)
		sub.curCfg = r.curCfg
		run(p, sub)
		p.memo[key] = sub
	}
	for _, o := range sub.Obs {
		if o.Rule != from {
			continue
		}
		if o.Status == Discharged {
			r.ok(to, o.Func, o.Pos, o.Construct, o.Detail)
		} else {
			r.bad(to, o.Func, o.Pos, o.Construct, o.Detail, o.Witness)
		}
	}
}

func checkC19(p *Prog, r *Report) {
	r.rule("C19.O1", "SendOOB, SetOOBHandler and GetOOBMaxSize test fecEncoder == nil first and refuse (error / 0)", 3)
	r.rule("C19.O2", "size limit: convSize + len(data) <= kcp.mtu before the buffer is obtained; GetOOBMaxSize is that bound solved for len(data) (C10.M8)", 2)
	r.rule("C19.O3", "the enqueue of an OOB request is a select with a default arm (never blocks); the arms that do not send recycle the buffer", 1)
	r.rule("C19.O4", "encodeOOB (transitively) writes no field of fecEncoder; in postProcess encode runs exactly for !oob and encodeOOB exactly for oob", 3)
	r.rule("C19.O5", "the typeOOB arm of kcpInput calls only the counter, the handler load and the handler; no path from it reaches fecDecoder.decode or KCP.Input", 1)
	r.rule("C19.O6", "layout: writer puts conv at headerSize and the payload at headerSize+convSize in a buffer of headerSize+convSize+len(data); the session reader hands data[fecHeaderSizePlus2+convSize:], the listener reads conv at fecHeaderSizePlus2; sealOOB stamps typeOOB and the reserved id", 4)
	r.rule("C19.O7", "never to another session: the listener's conversation test covers OOB packets (C11.D1); dialled sessions filter by source (C11.D6)", 4)
	r.rule("C19.O8", "the handler slot is stored only with values of static type OOBCallBackType and asserted only to that type", 2)
	r.rule("C19.O9", "no return path leaves a mutex held (package-wide lock balance): an OOB call can never stall the stream permanently", 1)

	r.rule("C19.O11", "a closed session handles no more input (the dialled side has no conversation test for OOB, so a closed session still parked in a read on a shared socket would take the next conversation's messages): in the session receive loops every path from the socket read to packetInput passes the isClosed() test", 2)
	r.rule("C19.O10", "the receive loops hand every datagram to packetInput whatever its length: no length test on the way to the call is stricter than packetInput's own minimum min(IKCP_OVERHEAD, fecHeaderSizePlus2+convSize) — a short (even empty) OOB payload is a valid packet", 2)

	fEnc := p.Field("UDPSession", "fecEncoder")
	send := p.FuncByName("(*UDPSession).SendOOB")

	// ---- O10
	checkNoLengthFilterBeforePacketInput(p, r)
	checkClosedTestBeforeInput(p, r)

	// ---- O1
	for _, name := range []string{"(*UDPSession).SendOOB", "(*UDPSession).SetOOBHandler", "(*UDPSession).GetOOBMaxSize"} {
		fi := p.FuncByName(name)
		c := p.CFG(fi)
		recv := tVar(p.selfVar(fi))
		want := eq(tFld(recv, fEnc), mk("nil"))
		e := c.Entry()
		ok := false
		why := "the first statement is not the test fecEncoder == nil"
		if ct := c.CondTerm(e); ct != nil && (ct.Key() == want.Key() || normTerm(p.ExpandHelpers(ct)).Key() == want.Key()) && len(e.Nodes) == 1 && len(e.Succs) == 2 {
			// the true branch returns a refusal
			tb := e.Succs[0]
			for _, n := range tb.Nodes {
				if rs, isR := n.(*ast.ReturnStmt); isR && len(rs.Results) == 1 {
					t := p.Term(rs.Results[0])
					switch {
					case t.Op == "nil":
						why = "the refusal returns a nil error"
					case t.IsConst():
						ok = t.Int == 0
					default:
						ok = true // an error value
					}
				}
			}
		}
		r.check(ok, "C19.O1", fi.Name, p.Pos(fi.Node), "refusal without FEC", "if fecEncoder == nil { return error / 0 } first", why+": without FEC the OOB framing does not exist; the packet would be parsed as a KCP segment by the peer")
	}

	// ---- O2
	delegate(p, r, "C10", checkC10, "C10.M8", "C19.O2")

	// ---- O3
	{
		fCh := p.Field("UDPSession", "chPostProcessing")
		n := 0
		ast.Inspect(send.Body, func(x ast.Node) bool {
			ss, ok := x.(*ast.SendStmt)
			if !ok {
				return true
			}
			if t := p.Term(ss.Chan); !(t.Op == "fld" && t.Obj == fCh) {
				return true
			}
			n++
			cc, _ := p.parents[ss].(*ast.CommClause)
			var sel *ast.SelectStmt
			if cc != nil && cc.Comm == ast.Stmt(ss) {
				if blk, ok := p.parents[cc].(*ast.BlockStmt); ok {
					sel, _ = p.parents[blk].(*ast.SelectStmt)
				}
			}
			if sel == nil {
				r.bad("C19.O3", send.Name, p.Pos(ss), "enqueue of the OOB request", "the send on chPostProcessing is not a select arm: SendOOB blocks (under the session mutex) when the queue is full and the whole session stalls", "")
				return true
			}
			hasDefault := false
			okPut := true
			// the buffer variable: first field of the composite literal sent
			var bufV types.Object
			if cl, ok := ast.Unparen(ss.Value).(*ast.CompositeLit); ok && len(cl.Elts) > 0 {
				e := cl.Elts[0]
				if kv, ok := e.(*ast.KeyValueExpr); ok {
					e = kv.Value
				}
				if id, ok := e.(*ast.Ident); ok {
					bufV = p.Info.Uses[id]
				}
			}
			for _, st := range sel.Body.List {
				c2 := st.(*ast.CommClause)
				if c2.Comm == nil {
					hasDefault = true
				}
				if c2 == cc {
					continue
				}
				// every path from the arm to the return passes Put(buf) (in the arm, or in a tail the arms share)
				sc := p.CFG(send)
				isPut := func(nd ast.Node, _ Point) bool {
					hit := false
					inspectShallow(nd, func(y ast.Node) bool {
						if call, ok := y.(*ast.CallExpr); ok && p.Callee(call) == p.Method("bufferPool", "Put") && len(call.Args) == 1 {
							if id, ok := call.Args[0].(*ast.Ident); ok && p.Info.Uses[id] == bufV {
								hit = true
							}
						}
						return true
					})
					return hit
				}
				var armBlk *cfg.Block
				for _, b := range sc.live {
					if b.Stmt == ast.Stmt(c2) && strings.HasSuffix(b.Kind.String(), "Body") {
						armBlk = b // (the default arm's body has its own block kind)
					}
				}
				put := false
				var from *Point
				if armBlk != nil {
					from = &Point{armBlk, 0}
				} else if c2.Comm == nil {
					// go/cfg emits the default arm's statements into the block after the last communication clause
					if len(c2.Body) > 0 {
						if q, okQ := sc.PointOf(c2.Body[0]); okQ {
							from = &q
						}
					} else {
						var lastComm ast.Stmt
						for _, st2 := range sel.Body.List {
							if st2.(*ast.CommClause).Comm != nil {
								lastComm = st2
							}
						}
						for _, b := range sc.live {
							if b.Kind == cfg.KindSelectAfterCase && b.Stmt == lastComm {
								from = &Point{b, 0}
							}
						}
					}
				}
				if from != nil {
					res := sc.FindPath(PathQuery{From: *from, ExitIsTarget: true, IsBarrier: isPut})
					put = !res.Found
				}

				if !put {
					okPut = false
				}
			}
			r.check(hasDefault && okPut, "C19.O3", send.Name, p.Pos(ss), "enqueue of the OOB request", "select with default; other arms recycle the buffer", fmt.Sprintf("default arm: %v; buffer recycled on the arms that do not send: %v — SendOOB can block under the session mutex (stalling Read/Write/update), or leaks a pool buffer per dropped message", hasDefault, okPut))
			return true
		})
		if n == 0 {
			r.bad("C19.O3", send.Name, p.Pos(send.Node), "enqueue of the OOB request", "SendOOB never enqueues a request", "")
		}
	}

	// ---- O3 (second half): the OOB buffer has one owner — the pool-ownership obligations of C15.O1 for SendOOB
	{
		key := "delegate:C15:" + r.curCfg
		sub, _ := p.memo[key].(*Report)
		if sub == nil {
			sub = newReport("C15", r.Tier)
			sub.curCfg = r.curCfg
			checkC15(p, sub)
			p.memo[key] = sub
		}
		for _, o := range sub.Obs {
			if o.Rule != "C15.O1" || !strings.Contains(o.Func, "SendOOB") {
				continue
			}
			if o.Status == Discharged {
				r.ok("C19.O3", o.Func, o.Pos, o.Construct, o.Detail)
			} else {
				r.bad("C19.O3", o.Func, o.Pos, o.Construct, o.Detail+": the same pooled buffer is handed to two later users — other sessions' stream data and OOB payloads are overwritten", o.Witness)
			}
		}
	}

	// ---- O4
	{
		eo := p.FuncOf(p.Method("fecEncoder", "encodeOOB"))
		te := p.TransEffects(eo)
		st := structOf(p.Named("fecEncoder").Underlying())
		var written []string
		for i := 0; i < st.NumFields(); i++ {
			if te.WritesField(st.Field(i)) {
				written = append(written, st.Field(i).Name())
			}
		}
		r.check(len(written) == 0 && !te.Unknown, "C19.O4", eo.Name, p.Pos(eo.Node), "effects of encodeOOB", "writes no fecEncoder field (transitively)", fmt.Sprintf("encodeOOB modifies encoder state %v: an OOB message consumes a sequence id or a slot of the current FEC group, so the group's data/parity positions shift and the peer can no longer reconstruct stream packets", written))

		pp := p.FuncByName("(*UDPSession).postProcess")
		c := p.CFG(pp)
		for _, spec := range []struct {
			m    *types.Func
			want bool // value of oob
			name string
		}{{p.Method("fecEncoder", "encode"), false, "encode"}, {p.Method("fecEncoder", "encodeOOB"), true, "encodeOOB"}} {
			n := 0
			for _, s := range p.CallsTo(spec.m) {
				if rootFuncInfo(s.Fn) != pp {
					continue
				}
				n++
				pt, _ := c.PointOf(s.Call)
				fs := p.FactsOf(pp).AtNode(s.Call)
				ok := false
				var seen []string
				for _, ct := range c.DominatingConds(pt) {
					rt := fs.Resolve(ct)
					seen = append(seen, pretty(rt.Key()))
					// oob := req.oob
					pos := rt
					neg := false
					if pos.Op == "not" {
						pos, neg = pos.Args[0], true
					}
					if pos.Op == "fld" && pos.Obj == p.Field("sendRequest", "oob") && neg == !spec.want {
						ok = true
					}
					if pos.Op == "var" {
						for _, as := range p.Assignments(pp, pos.Obj.(*types.Var)) {
							if as.Rhs != nil {
								if t := p.Term(as.Rhs); t.Op == "fld" && t.Obj == p.Field("sendRequest", "oob") && neg == !spec.want {
									ok = true
								}
							}
						}
					}
				}
				r.check(ok, "C19.O4", pp.Name, p.Pos(s.Call), "fecEncoder."+spec.name+" in postProcess", fmt.Sprintf("only for oob == %v", spec.want), fmt.Sprintf("%s is not restricted to requests with oob == %v (conditions: %v): OOB messages enter the FEC group (or stream packets bypass it)", spec.name, spec.want, seen))
			}
			if n == 0 {
				r.bad("C19.O4", pp.Name, p.Pos(pp.Node), "fecEncoder."+spec.name+" in postProcess", "postProcess never calls it", "")
			}
		}
	}

	// ---- O5 + reader part of O6
	var readerOff int64 = -1
	{
		fi := p.FuncByName("(*UDPSession).kcpInput")
		var arm *ast.CaseClause
		ast.Inspect(fi.Body, func(x ast.Node) bool {
			cc, ok := x.(*ast.CaseClause)
			if !ok {
				return true
			}
			for _, e := range cc.List {
				if t := p.Term(e); t.IsConst() && t.Int == p.ConstInt("typeOOB") {
					arm = cc
				}
			}
			return true
		})
		if arm == nil {
			r.bad("C19.O5", fi.Name, p.Pos(fi.Node), "typeOOB arm", "kcpInput has no arm for typeOOB: OOB packets fall through to the KCP parser", "")
		} else {
			var bad []string
			handlerCalls := 0
			for _, st := range arm.Body {
				ast.Inspect(st, func(x ast.Node) bool {
					call, ok := x.(*ast.CallExpr)
					if !ok {
						return true
					}
					if p.IsConversion(call) || p.BuiltinName(call) != "" {
						return true
					}
					f := p.Callee(call)
					switch {
					case f != nil && isExtFunc(f, "sync/atomic", "", "AddUint64"):
					case f != nil && isExtFunc(f, "sync/atomic", "Value", "Load"):
					case f == nil:
						// dynamic call: must be the loaded handler, asserted to OOBCallBackType
						t := p.Term(call.Fun)
						if t.Op == "typeassert" && namedOf(p.Info.TypeOf(call.Fun)) == p.Named("OOBCallBackType") {
							handlerCalls++
							if len(call.Args) == 1 {
								at := p.Term(call.Args[0])
								if at.Op == "slice" && at.Args[1] != nil && at.Args[1].IsConst() && at.Args[2] == nil {
									readerOff = at.Args[1].Int
								}
							}
						} else {
							bad = append(bad, exprString(call.Fun))
						}
					default:
						bad = append(bad, f.FullName())
					}
					return true
				})
			}
			// fallthrough would reach the default arm (KCP.Input)
			ft := false
			for _, st := range arm.Body {
				if bs, ok := st.(*ast.BranchStmt); ok && bs.Tok.String() == "fallthrough" {
					ft = true
				}
			}
			// nothing after the switch feeds the core: no path from the arm to decode / Input
			c := p.CFG(fi)
			reach := false
			if len(arm.Body) > 0 {
				if pt, ok := c.PointOf(arm.Body[0]); ok {
					res := c.FindPath(PathQuery{From: pt, IsTarget: func(n ast.Node, _ Point) bool {
						f := false
						inspectShallow(n, func(y ast.Node) bool {
							if call, ok := y.(*ast.CallExpr); ok {
								if cl := p.Callee(call); cl == p.Method("KCP", "Input") || cl == p.Method("fecDecoder", "decode") {
									f = true
								}
							}
							return true
						})
						return f
					}})
					reach = res.Found
				}
			}
			ok := len(bad) == 0 && handlerCalls == 1 && !ft && !reach
			r.check(ok, "C19.O5", fi.Name, p.Pos(arm), "typeOOB arm", "counter, handler load, handler; nothing of FEC or KCP reachable", fmt.Sprintf("other calls in the arm: %v; handler calls: %d; falls through: %v; reaches decode/Input: %v — an OOB packet is (also) interpreted as stream data or fed to the FEC decoder, whose shard accounting it disturbs", bad, handlerCalls, ft, reach))
		}
	}

	// ---- O6
	{
		c := p.CFG(send)
		_ = c
		recv := tVar(p.selfVar(send))
		hs := p.F(recv, "UDPSession", "headerSize")
		convSize := p.ConstInt("convSize")
		data := tVar(p.Info.Defs[send.Decl.Type.Params.List[0].Names[0]])
		var okConv, okPayload, okLen bool
		fa := p.FactsOf(send)
		ast.Inspect(send.Body, func(x ast.Node) bool {
			switch n := x.(type) {
			case *ast.CallExpr:
				if f := p.Callee(n); f != nil && f.Name() == "PutUint32" && len(n.Args) == 2 {
					v := p.Term(n.Args[1])
					// destination: the buffer at offset headerSize, written directly or through a local view of it
					if base, off, okO := p.sliceStart(send, p.Term(n.Args[0]), 0); okO && base != nil && off.Equal(Lin(hs)) && v.Op == "fld" && v.Obj == p.Field("KCP", "conv") {
						okConv = true
					}
				}
				if p.BuiltinName(n) == "copy" && len(n.Args) == 2 {
					if base, off, okO := p.sliceStart(send, p.Term(n.Args[0]), 0); okO && base != nil && off.Equal(Lin(add(hs, tConst(convSize)))) && p.Term(n.Args[1]).Key() == data.Key() {
						okPayload = true
					}
				}
			case *ast.AssignStmt:
				if len(n.Rhs) == 1 {
					t := p.Term(n.Rhs[0])
					if t.Op == "slice" && t.Args[0].Op == "call" && t.Args[0].Obj == p.Method("bufferPool", "Get") && t.Args[2] != nil {
						hi := fa.AtNode(n).Resolve(t.Args[2])
						if Lin(hi).Equal(Lin(add(add(hs, tConst(convSize)), mk("len", data)))) {
							okLen = true
						}
					}
				}
			}
			return true
		})
		r.check(okConv && okPayload && okLen, "C19.O6", send.Name, p.Pos(send.Node), "writer layout", "buf[:headerSize+convSize+len(data)], conv at headerSize, payload at headerSize+convSize", fmt.Sprintf("conv at headerSize: %v; payload at headerSize+convSize: %v; buffer length headerSize+convSize+len(data): %v — the handler receives shifted, truncated or padded bytes", okConv, okPayload, okLen))
		want := p.ConstInt("fecHeaderSizePlus2") + convSize
		r.check(readerOff == want, "C19.O6", "(*UDPSession).kcpInput", "-", "session reader offset", "handler gets data[fecHeaderSizePlus2+convSize:]", fmt.Sprintf("the handler is given data[%d:], the payload starts at %d", readerOff, want))
		// listener: conv read at fecHeaderSizePlus2 on the typeOOB arm
		lp := p.FuncByName("(*Listener).packetInput")
		okL := false
		ast.Inspect(lp.Body, func(x ast.Node) bool {
			cc, ok := x.(*ast.CaseClause)
			if !ok {
				return true
			}
			isOOB := false
			for _, e := range cc.List {
				if t := p.Term(e); t.IsConst() && t.Int == p.ConstInt("typeOOB") {
					isOOB = true
				}
			}
			if !isOOB {
				return true
			}
			for _, st := range cc.Body {
				ast.Inspect(st, func(y ast.Node) bool {
					if call, ok := y.(*ast.CallExpr); ok {
						if f := p.Callee(call); f != nil && f.Name() == "Uint32" && len(call.Args) == 1 {
							t := p.Term(call.Args[0])
							if t.Op == "slice" && t.Args[1] != nil && t.Args[1].IsConst() && t.Args[1].Int == p.ConstInt("fecHeaderSizePlus2") {
								okL = true
							}
						}
					}
					return true
				})
			}
			return true
		})
		r.check(okL, "C19.O6", lp.Name, p.Pos(lp.Node), "listener reads the OOB conversation id", "Uint32(data[fecHeaderSizePlus2:])", "the listener does not read the conversation id of an OOB packet where SendOOB wrote it: the conversation test (C11.D1) compares the wrong bytes")
		// sealOOB
		so := p.FuncOf(p.Method("fecEncoder", "sealOOB"))
		var okType, okID bool
		ast.Inspect(so.Body, func(x ast.Node) bool {
			if call, ok := x.(*ast.CallExpr); ok {
				if f := p.Callee(call); f != nil && len(call.Args) == 2 {
					v := p.Term(call.Args[1])
					d := p.Term(call.Args[0])
					if f.Name() == "PutUint16" && v.IsConst() && v.Int == p.ConstInt("typeOOB") && d.Op == "slice" && d.Args[1] != nil && d.Args[1].IsConst() && d.Args[1].Int == 4 {
						okType = true
					}
					if f.Name() == "PutUint32" && v.IsConst() && v.Int == 0xffffffff && d.Op == "var" {
						okID = true
					}
				}
			}
			return true
		})
		r.check(okType && okID, "C19.O6", so.Name, p.Pos(so.Node), "OOB header", "type typeOOB at offset 4, reserved id 0xffffffff (>= paws for every ratio)", fmt.Sprintf("type stamp: %v; reserved id: %v — the peer takes the packet for a data or parity shard", okType, okID))
	}

	// ---- O7
	delegate(p, r, "C11", checkC11, "C11.D1", "C19.O7")
	delegate(p, r, "C11", checkC11, "C11.D6", "C19.O7")

	// ---- O8
	{
		fCb := p.Field("UDPSession", "callbackForOOB")
		cbT := p.Named("OOBCallBackType")
		nStore, nAssert := 0, 0
		okAll := true
		var why string
		p.AllCalls(func(call *ast.CallExpr, fi *FuncInfo) {
			sel, ok := ast.Unparen(call.Fun).(*ast.SelectorExpr)
			if !ok {
				return
			}
			t := p.Term(sel.X)
			if !(t.Op == "fld" && t.Obj == fCb) {
				return
			}
			switch sel.Sel.Name {
			case "Store", "Swap", "CompareAndSwap":
				for _, a := range call.Args {
					nStore++
					if namedOf(p.Info.TypeOf(a)) != cbT {
						okAll = false
						why = "a value of static type " + p.Info.TypeOf(a).String() + " is stored at " + p.Pos(call) + ": atomic.Value panics on a second concrete type, and the reader's assertion fails"
					}
				}
			case "Load":
				// every use of the result: compared with nil or asserted to cbT
			}
		})
		// type assertions on values loaded from the slot
		for _, fi := range p.funcs {
			if fi.Body == nil {
				continue
			}
			ast.Inspect(fi.Body, func(x ast.Node) bool {
				ta, ok := x.(*ast.TypeAssertExpr)
				if !ok || ta.Type == nil {
					return true
				}
				src := p.FactsOf(rootFuncInfo(fi)).AtNode(ta).Resolve(p.Term(ta.X))
				isSlot := false
				src.Walk(func(y *Term) {
					if y.Op == "fld" && y.Obj == fCb {
						isSlot = true
					}
				})
				if !isSlot {
					// local defined from Load(): look at its single definition
					if id, ok := ast.Unparen(ta.X).(*ast.Ident); ok {
						if v, ok := p.Info.Uses[id].(*types.Var); ok {
							for _, as := range p.Assignments(rootFuncInfo(fi), v) {
								if as.Rhs != nil && p.Term(as.Rhs).Contains(&Term{Op: "fld", Obj: fCb, Args: p.Term(as.Rhs).firstFldArgs(fCb)}) {
									isSlot = true
								}
							}
						}
					}
				}
				if isSlot {
					nAssert++
					if namedOf(p.Info.TypeOf(ta.Type)) != cbT {
						okAll = false
						why = "the loaded handler is asserted to " + p.Info.TypeOf(ta.Type).String() + " at " + p.Pos(ta)
					}
				}
				return true
			})
		}
		r.check(okAll && nStore >= 1, "C19.O8", "(*UDPSession)", "-", "stores to the handler slot", fmt.Sprintf("%d stores, all OOBCallBackType", nStore), why)
		r.check(okAll && nAssert >= 1, "C19.O8", "(*UDPSession)", "-", "assertions on the loaded handler", fmt.Sprintf("%d assertions, all to OOBCallBackType", nAssert), "no type assertion on the loaded handler found, or "+why)
	}

	// ---- O9
	checkLockBalance(p, r, "C19.O9")
}

// firstFldArgs returns the Args of the first sub-term that selects field f (so
// that Contains can be asked for that exact selection).
func (t *Term) firstFldArgs(f *types.Var) []*Term {
	var out []*Term
	t.Walk(func(x *Term) {
		if out == nil && x.Op == "fld" && x.Obj == f {
			out = x.Args
		}
	})
	return out
}

// checkNoLengthFilterBeforePacketInput: at every call of (*UDPSession).packetInput / (*Listener).packetInput the
// datagram is buf[:n]; a condition on the way to the call that mentions n must hold for every n >= the least
// length packetInput accepts (an OOB packet with an empty payload: fecHeaderSizePlus2+convSize without a cipher).
func checkNoLengthFilterBeforePacketInput(p *Prog, r *Report) {
	minLen := min(p.ConstInt("IKCP_OVERHEAD"), p.ConstInt("fecHeaderSizePlus2")+p.ConstInt("convSize"))
	targets := map[*types.Func]bool{p.Method("UDPSession", "packetInput"): true, p.Method("Listener", "packetInput"): true}
	n := 0
	for _, fi := range p.funcs {
		if fi.Body == nil {
			continue
		}
		p.AllCallsIn(fi, func(call *ast.CallExpr) {
			if !targets[p.Callee(call)] || len(call.Args) == 0 {
				return
			}
			se, ok := ast.Unparen(call.Args[0]).(*ast.SliceExpr)
			if !ok || se.High == nil {
				return // the datagram is handed on as received
			}
			n++
			lt := stripConvs(p.Term(se.High))
			c := p.CFG(fi)
			pt, okp := c.PointOf(call)
			if !okp {
				r.undecided("C19.O10", fi.Name, p.Pos(call), "length filter before packetInput", "call not located in the flow graph")
				return
			}
			good, why := true, ""
			for _, ct := range c.DominatingConds(pt) {
				for _, a := range Conjuncts(ct) {
					a = stripConvs(a)
					mentions := false
					a.Walk(func(t *Term) {
						if t.Key() == lt.Key() {
							mentions = true
						}
					})
					if !mentions {
						continue
					}
					// n OP const (either side)
					holdsForAll := false
					if len(a.Args) == 2 {
						x, y, op := a.Args[0], a.Args[1], a.Op
						if x.IsConst() && !y.IsConst() {
							x, y = y, x
							op = map[string]string{"<": ">", "<=": ">=", ">": "<", ">=": "<=", "==": "==", "!=": "!="}[op]
						}
						if x.Key() == lt.Key() && y.IsConst() {
							switch op {
							case ">=":
								holdsForAll = y.Int <= minLen
							case ">":
								holdsForAll = y.Int < minLen
							case "!=":
								holdsForAll = y.Int < minLen
							}
						}
					}
					if !holdsForAll {
						good = false
						why = fmt.Sprintf("the call is reached only when %s: datagrams of a length packetInput accepts (from %d bytes: an out-of-band packet with an empty payload and no cipher) are dropped before they are decrypted and classified", a.Pretty(), minLen)
					}
				}
			}
			r.check(good, "C19.O10", fi.Name, p.Pos(call), "length filter before packetInput", "none stricter than packetInput's own minimum", why)
		})
	}
	if n == 0 {
		r.bad("C19.O10", "receive loops", "-", "length filter before packetInput", "no call of packetInput with a datagram slice found", "")
	}
}

// checkClosedTestBeforeInput: C19.O11.
func checkClosedTestBeforeInput(p *Prog, r *Report) {
	isClosedM := p.Method("UDPSession", "isClosed")
	pin := p.Method("UDPSession", "packetInput")
	n := 0
	for _, name := range []string{"(*UDPSession).defaultReadLoop", "(*UDPSession).readLoop"} {
		fi := p.FuncByName(name)
		if fi == nil {
			continue
		}
		c := p.CFG(fi)
		var reads []Point
		for _, pt := range c.AllPoints() {
			inspectShallow(pt.Node(), func(x ast.Node) bool {
				if call, ok := x.(*ast.CallExpr); ok {
					if sel, ok := ast.Unparen(call.Fun).(*ast.SelectorExpr); ok && (sel.Sel.Name == "ReadFrom" || sel.Sel.Name == "ReadBatch") {
						reads = append(reads, pt)
					}
				}
				return true
			})
		}
		isTest := func(nd ast.Node, _ Point) bool {
			hit := false
			inspectShallow(nd, func(x ast.Node) bool {
				if call, ok := x.(*ast.CallExpr); ok && p.Callee(call) == isClosedM {
					hit = true
				}
				return true
			})
			return hit
		}
		isInput := func(nd ast.Node, _ Point) bool {
			hit := false
			inspectShallow(nd, func(x ast.Node) bool {
				if call, ok := x.(*ast.CallExpr); ok && p.Callee(call) == pin {
					hit = true
				}
				return true
			})
			return hit
		}
		for _, rd := range reads {
			n++
			res := c.FindPath(PathQuery{From: Point{rd.B, rd.I + 1}, IsTarget: isInput, IsBarrier: isTest})
			if res.Found {
				r.bad("C19.O11", fi.Name, p.Pos(rd.Node()), "closed test between the read and packetInput in "+fi.Name, "datagrams read after Close are still handed to the session: its OOB handler receives messages of whoever uses the socket next (the client side has no conversation test for OOB)", c.DescribePath(res.Path))
			} else {
				r.ok("C19.O11", fi.Name, p.Pos(rd.Node()), "closed test between the read and packetInput in "+fi.Name, "isClosed() is tested on every path from the read to packetInput")
			}
		}
	}
	if n == 0 {
		r.bad("C19.O11", "session receive loops", "-", "closed test", "no socket read found in the session receive loops", "")
	}
}
