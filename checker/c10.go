package main

import (
	"fmt"
	"go/ast"
	"go/token"
	"go/types"
	"strings"

	"golang.org/x/tools/go/cfg"
)

func init() {
	register(&propCheck{
		id:  "C10",
		run: checkC10,
		explain: "Datagram sizes are runtime quantities, but the accounting that bounds them is structural and is decided on all paths: the core MTU is stored only inside (IKCP_OVERHEAD, mtuLimit], the derived " +
			"fields move with it, a store that can lower mss is preceded by a refusal test over both send containers with no exemption, every reservation in flush is followed by pointer advances that sum to at " +
			"most the reserved amount (linear forms), the output callback is invoked only by the two flush helpers under their size tests, segments are created with size <= mss, the session subtracts exactly the " +
			"bytes the output path adds (symbolic value of the argument handed to KCP.SetMtu on every path), the FEC group size is a running maximum that is reset with the group, copies are made with the length " +
			"of their source, the OOB bound agrees with GetOOBMaxSize, and a refusal of the core is reported. The inequality datagram <= MTU follows from these by a paper argument only.",
		assume: []string{
			"the socket layer sends exactly the bytes it is given",
			"C14: SetMtu and flush are serialised by the session mutex",
		},
	})
}

func checkC10(p *Prog, r *Report) {
	r.rule("C10.M1", "every store to KCP.mtu is a constant in range or is dominated by IKCP_OVERHEAD < mtu and mtu <= mtuLimit", 2)
	r.rule("C10.M2", "wherever mtu is stored, mss = mtu - IKCP_OVERHEAD and buffer = make([]byte, >= mtu + IKCP_OVERHEAD) are stored after it in the same function", 4)
	r.rule("C10.M3", "a store that can change mss after construction is preceded by a traversal of snd_queue and of snd_buf that refuses (non-zero return) when any segment is longer than the new mss, with no exemption", 2)
	r.rule("C10.M4", "in flush every makeSpace(n) is followed, before the next makeSpace/flushBuffer/exit, by pointer advances that sum to at most n on every path; makeSpace outputs iff size + n > mtu, flushBuffer iff size > 0; the output callback is invoked nowhere else", 5)
	r.rule("C10.M5", "segments are created with size <= mss and the stream-mode append extends to at most mss", 2)
	r.rule("C10.M6", "UDPSession.SetMtu hands KCP.SetMtu exactly min(mtuLimit, mtu) - headerSize (- Overhead() under the *aeadCrypt test); headerSize is the crypto header (or NonceSize()) plus fecHeaderSizePlus2 iff an encoder exists; the output path reserves headerSize bytes", 5)
	r.rule("C10.M7", "the FEC group size is the running maximum of its packets' lengths and is reset together with the shard count on every path; parity is cut to it; duplicate and parity copies have the length of their source", 3)
	r.rule("C10.M8", "SendOOB obtains a buffer only under convSize + len(data) <= kcp.mtu; GetOOBMaxSize returns kcp.mtu - convSize", 2)
	r.rule("C10.M10", "the core MTU is derived from the complete header size: after every store to UDPSession.headerSize every path to the function's return passes a call of UDPSession.SetMtu (which reads headerSize) — a layer's header added after the default MTU was applied is not accounted for until the application calls SetMtu itself", 3)
	r.rule("C10.M9", "UDPSession.SetMtu returns true only if KCP.SetMtu returned 0", 1)

	overhead := p.ConstInt("IKCP_OVERHEAD")
	mtuLimit := p.ConstInt("mtuLimit")
	fMtu := p.Field("KCP", "mtu")
	fMss := p.Field("KCP", "mss")
	fBuf := p.Field("KCP", "buffer")

	// ---- M1, M2
	for _, st := range p.FieldStores(fMtu) {
		construct := "store(KCP.mtu) in " + st.Fn.Name
		if st.Rhs == nil {
			r.bad("C10.M1", st.Fn.Name, p.Pos(st.Node), construct, "mtu modified in place", "")
			continue
		}
		fs := p.FactsOf(st.Fn).AtNode(st.Node)
		v := p.stripBoundedConv(fs, p.Term(st.Rhs))
		if v.IsConst() {
			r.check(v.Int > overhead && v.Int <= mtuLimit, "C10.M1", st.Fn.Name, p.Pos(st.Node), construct, fmt.Sprintf("constant %d in (%d, %d]", v.Int, overhead, mtuLimit), fmt.Sprintf("constant %d outside (%d, %d]", v.Int, overhead, mtuLimit))
		} else {
			// also accept the raw operand of the conversion when the bounds hold for it
			raw := p.Term(st.Rhs)
			for raw.Op == "conv" {
				raw = raw.Args[0]
			}
			lo := fs.Holds(lt(tConst(overhead), v)) || fs.Holds(lt(tConst(overhead), raw))
			hi := fs.Holds(le(v, tConst(mtuLimit))) || fs.Holds(le(raw, tConst(mtuLimit)))
			switch {
			case lo && hi:
				r.ok("C10.M1", st.Fn.Name, p.Pos(st.Node), construct, fmt.Sprintf("dominated by %d < mtu <= %d", overhead, mtuLimit))
			case !lo:
				r.bad("C10.M1", st.Fn.Name, p.Pos(st.Node), construct, fmt.Sprintf("not dominated by mtu > IKCP_OVERHEAD (%d): mss would be zero or wrap", overhead), p.unguardedPath(st.Fn, st.Node, nil))
			default:
				r.bad("C10.M1", st.Fn.Name, p.Pos(st.Node), construct, fmt.Sprintf("not dominated by mtu <= mtuLimit (%d): segments live in pool buffers of that capacity (Send panics for a larger mss)", mtuLimit), p.unguardedPath(st.Fn, st.Node, nil))
			}
		}
		// M2
		c := p.CFG(st.Fn)
		spt, _ := c.PointOf(st.Node)
		mtuT := tFld(st.Base, fMtu)
		okMss, okBuf := false, false
		onEveryPath := func(q Point) bool {
			res := c.FindPath(PathQuery{From: Point{spt.B, spt.I + 1}, ExitIsTarget: true, IsBarrier: func(_ ast.Node, x Point) bool { return x == q }})
			return !res.Found
		}
		for _, ms := range p.FieldStores(fMss) {
			if ms.Fn != st.Fn || ms.Rhs == nil {
				continue
			}
			mp, _ := c.PointOf(ms.Node)
			if !c.Dominates(spt, mp) || !onEveryPath(mp) {
				continue
			}
			if Lin(p.Term(ms.Rhs)).Equal(Lin(sub(mtuT, tConst(overhead)))) {
				okMss = true
			}
			// mss = uint32(m) with the local m := mtu - IKCP_OVERHEAD of the same value that is stored into the mtu field
			if st.Rhs != nil {
				raw := stripConvs(p.Term(st.Rhs))
				if Lin(stripConvs(p.resolveSingleDefs(st.Fn, p.Term(ms.Rhs)))).Equal(Lin(sub(raw, tConst(overhead)))) {
					okMss = true
				}
			}
		}
		for _, bs := range p.FieldStores(fBuf) {
			if bs.Fn != st.Fn || bs.Rhs == nil {
				continue
			}
			bp, _ := c.PointOf(bs.Node)
			if !c.Dominates(spt, bp) || !onEveryPath(bp) {
				continue
			}
			t := p.Term(bs.Rhs)
			if t.Op == "builtin:make" && len(t.Args) >= 2 {
				l := Lin(p.stripBoundedConv(p.FactsOf(st.Fn).AtNode(bs.Node), t.Args[1]))
				// coefficient of mtu (field or the value just stored) >= 1 and constant >= overhead
				coef := l.Coef[mtuT.Key()]
				for k, cf := range l.Coef {
					if k != mtuT.Key() && cf > 0 {
						// the local the field was set from
						if vt := p.Term(st.Rhs); stripConvKey(vt) == k || strings.Contains(k, stripConvKey(vt)) {
							coef += cf
						}
					}
				}
				if coef >= 1 && l.C >= overhead {
					okBuf = true
				}
			}
		}
		r.check(okMss, "C10.M2", st.Fn.Name, p.Pos(st.Node), "mss follows mtu in "+st.Fn.Name, "mss = mtu - IKCP_OVERHEAD stored after the mtu", "mss is not re-derived as mtu - IKCP_OVERHEAD where the mtu is stored")
		r.check(okBuf, "C10.M2", st.Fn.Name, p.Pos(st.Node), "staging buffer follows mtu in "+st.Fn.Name, "buffer = make([]byte, >= mtu + IKCP_OVERHEAD)", "the staging buffer is not re-allocated for the new mtu (flush would overrun it)")
	}

	checkShrinkRefusal(p, r, overhead)
	checkReserveConsume(p, r, overhead)
	checkSegmentCreation(p, r)
	checkSessionAccounting(p, r)
	checkFECGroupSize(p, r)
	checkOOBBound(p, r)

	// ---- M10
	{
		setMtuS := p.Method("UDPSession", "SetMtu")
		n := 0
		for _, st := range p.FieldStores(p.Field("UDPSession", "headerSize")) {
			if st.InLit {
				continue
			}
			n++
			fi := st.Fn
			c := p.CFG(fi)
			pt, _ := c.PointOf(st.Node)
			res := c.FindPath(PathQuery{From: Point{pt.B, pt.I + 1}, ExitIsTarget: true, IsBarrier: func(nd ast.Node, _ Point) bool {
				hit := false
				inspectShallow(nd, func(x ast.Node) bool {
					if call, ok := x.(*ast.CallExpr); ok && p.Callee(call) == setMtuS {
						hit = true
					}
					return true
				})
				return hit
			}})
			construct := "store(UDPSession.headerSize) in " + fi.Name
			if st.Rhs != nil {
				construct = "headerSize " + st.Tok.String() + " " + exprString(st.Rhs) + " in " + fi.Name
			}
			if res.Found {
				r.bad("C10.M10", fi.Name, p.Pos(st.Node), construct, "a path from this store to the return does not pass SetMtu: the core MTU in force was computed from the header size before this store, so datagrams are larger than the configured (default) MTU by the bytes added here", c.DescribePath(res.Path))
			} else {
				r.ok("C10.M10", fi.Name, p.Pos(st.Node), construct, "SetMtu follows on every path")
			}
		}
		if n == 0 {
			r.bad("C10.M10", "UDPSession", "-", "stores to headerSize", "no store to UDPSession.headerSize found", "")
		}
	}

	// ---- M9
	if fi := p.FuncByName("(*UDPSession).SetMtu"); fi != nil {
		setMtu := p.Method("KCP", "SetMtu")
		ok := false
		n := 0
		inspectBody(fi, func(x ast.Node) bool {
			ret, isRet := x.(*ast.ReturnStmt)
			if !isRet || len(ret.Results) != 1 {
				return true
			}
			n++
			t := p.FactsOf(fi).AtNode(ret).Resolve(p.Term(ret.Results[0]))
			if t.Op == "==" {
				for i := 0; i < 2; i++ {
					if t.Args[i].IsConst() && t.Args[i].Int == 0 && t.Args[1-i].Op == "call" && t.Args[1-i].Obj == setMtu {
						ok = true
					}
				}
			}
			// ret := call; return ret == 0 : the definition is impure (SetMtu writes), look at the assignment
			if !ok && t.Op == "==" {
				for i := 0; i < 2; i++ {
					if t.Args[i].IsConst() && t.Args[i].Int == 0 && t.Args[1-i].Op == "var" {
						v := t.Args[1-i].Obj.(*types.Var)
						as := p.Assignments(fi, v)
						if len(as) == 1 && as[0].Rhs != nil {
							if call, isCall := ast.Unparen(as[0].Rhs).(*ast.CallExpr); isCall && p.Callee(call) == setMtu {
								ok = true
							}
						}
					}
				}
			}
			if t.Op == "false" {
				ok = ok || false
			}
			return true
		})
		r.check(ok && n >= 1, "C10.M9", fi.Name, p.Pos(fi.Node), "result of UDPSession.SetMtu", "true iff KCP.SetMtu returned 0", "the session reports success although the core may have refused the value")
	}
}

func stripConvKey(t *Term) string {
	for t.Op == "conv" {
		t = t.Args[0]
	}
	return t.Key()
}

// ---------------------------------------------------------------- M3

func checkShrinkRefusal(p *Prog, r *Report, overhead int64) {
	fMss := p.Field("KCP", "mss")
	forEach := p.Method("RingBuffer", "ForEach")
	for _, st := range p.FieldStores(fMss) {
		if st.Fn.Name == "NewKCP" {
			continue
		}
		for _, ring := range []string{"snd_queue", "snd_buf"} {
			fRing := p.Field("KCP", ring)
			construct := "refusal test over " + ring + " before store(KCP.mss) in " + st.Fn.Name
			found := false
			why := "no loop over " + ring + ".ForEach precedes the store"
			fi := st.Fn
			var at ast.Node = st.Node
			lifts := 0
		retry:
			c := p.CFG(fi)
			spt, _ := c.PointOf(at)
			ast.Inspect(fi.Body, func(n ast.Node) bool {
				rs, ok := n.(*ast.RangeStmt)
				if !ok {
					return true
				}
				t := p.Term(rs.X)
				if t.Op != "mval" || t.Obj != forEach {
					return true
				}
				var domStmt *ast.RangeStmt
				if _, ok := fieldBase(t.Args[0], fRing); !ok {
					// one loop for several rings: for _, q := range [...]*RingBuffer{kcp.snd_queue, kcp.snd_buf} { for seg := range q.ForEach {…} }
					covers := false
					domStmt = nil
					if t.Args[0].Op == "var" {
						for q := ast.Node(rs); q != nil; q = p.parents[q] {
							outer, isR := q.(*ast.RangeStmt)
							if !isR || outer == rs || outer.Value == nil {
								continue
							}
							if v := identVar(p, outer.Value); v == nil || types.Object(v) != t.Args[0].Obj {
								continue
							}
							if lit, isLit := ast.Unparen(outer.X).(*ast.CompositeLit); isLit {
								for _, el := range lit.Elts {
									if _, okE := fieldBase(p.Term(el), fRing); okE {
										covers = true
										domStmt = outer // a loop over a non-empty literal runs: its header stands for the inner loops
									}
								}
							}
						}
					}
					if !covers {
						return true
					}
				}
				// the loop must lie before the store on every path: its header dominates
				var hdr *cfg.Block
				var hs ast.Stmt = rs
				if domStmt != nil {
					hs = domStmt
				}
				for _, b := range c.live {
					if b.Kind == cfg.KindRangeLoop && b.Stmt == hs {
						hdr = b
					}
				}
				if hdr == nil || !c.BlockDominates(hdr, spt.B) {
					why = "the loop over " + ring + " does not precede the store on every path"
					return true
				}
				id, ok := rs.Key.(*ast.Ident)
				if !ok {
					return true
				}
				seg := tVar(p.Info.Defs[id])
				dataLen := mk("len", p.F(seg, "segment", "data"))
				// body: if <single condition: newmss < len(seg.data)> { return nonzero }
				for _, bst := range rs.Body.List {
					is, ok := bst.(*ast.IfStmt)
					if !ok {
						continue
					}
					ct := p.FactsOf(fi).AtNode(is.Cond).Resolve(p.Term(is.Cond))
					cj := Conjuncts(ct)
					refuses := false
					for _, s2 := range is.Body.List {
						if ret, ok := s2.(*ast.ReturnStmt); ok && len(ret.Results) == 1 {
							if v, ok := p.constVal(ret.Results[0]); ok && v != 0 {
								refuses = true
							}
						}
					}
					if !refuses {
						continue
					}
					if len(cj) != 1 {
						why = "the refusal over " + ring + " is conditional on more than the length test (" + pretty(ct.Key()) + "): some segments longer than the new mss are let through and later re-encoded by flush"
						continue
					}
					a := cj[0]
					if a.Op == "<" && a.Args[1].Key() == dataLen.Key() {
						// left side must be the new mss: mtu - overhead of the value about to be stored
						l := Lin(a.Args[0])
						want := Lin(p.FactsOf(fi).AtNode(st.Node).Resolve(p.Term(st.Rhs)))
						_ = want
						if l.C == -overhead && len(l.Coef) == 1 {
							found = true
						} else {
							why = "the length is compared with " + pretty(a.Args[0].Key()) + ", not with the new mss (mtu - IKCP_OVERHEAD)"
						}
					}
				}
				return true
			})
			if !found && p.refusesThroughHelper(fi, c, spt, fRing, overhead) {
				found = true
			}
			if !found {
				// the stores were moved into a helper with a single call site: the refusal test precedes that call
				if caller, call, okL := p.singleCaller(fi); okL && lifts < 2 {
					fi, at = caller, call
					lifts++
					goto retry
				}
			}
			fi = st.Fn
			if found {
				r.ok("C10.M3", fi.Name, p.Pos(st.Node), construct, "every queued segment is tested against the new mss; a longer one makes SetMtu refuse")
			} else {
				r.bad("C10.M3", fi.Name, p.Pos(st.Node), construct, why, "")
			}
		}
	}
}

// ---------------------------------------------------------------- M4

func checkReserveConsume(p *Prog, r *Report, overhead int64) {
	flush := p.FuncOf(p.Method("KCP", "flush"))
	c := p.CFG(flush)
	// the two helper closures
	var makeSpace, flushBuffer *types.Var
	var msLit, fbLit *FuncInfo
	msArg, msPos := 0, -1
	fOutput := p.Field("KCP", "output")
	callsOutput := func(fi *FuncInfo) bool {
		hit := false
		inspectBody(fi, func(n ast.Node) bool {
			if call, ok := n.(*ast.CallExpr); ok {
				if t := p.Term(call.Fun); t.Op == "fld" && t.Obj == fOutput {
					hit = true
				}
			}
			return true
		})
		return hit
	}
	ast.Inspect(flush.Body, func(n ast.Node) bool {
		as, ok := n.(*ast.AssignStmt)
		if !ok || len(as.Lhs) != 1 || len(as.Rhs) != 1 {
			return true
		}
		lit, ok := as.Rhs[0].(*ast.FuncLit)
		if !ok {
			return true
		}
		li := p.funcBy[lit]
		id, _ := as.Lhs[0].(*ast.Ident)
		if id == nil || li == nil || !callsOutput(li) {
			return true
		}
		v, _ := p.Info.Defs[id].(*types.Var)
		// the reserve helper takes the number of bytes wanted; it may also take the write position and hand it
		// back (pos = reserve(pos, n)) instead of assigning the captured variable
		sig, _ := p.Info.TypeOf(lit).(*types.Signature)
		nInt, nPos, nOther := 0, 0, 0
		for i := 0; sig != nil && i < sig.Params().Len(); i++ {
			switch t := sig.Params().At(i).Type(); {
			case isIntegerType(t):
				if nInt == 0 {
					msArg = i
				}
				nInt++
			case isByteSliceLike(t):
				if nPos == 0 {
					msPos = i
				}
				nPos++
			default:
				nOther++
			}
		}
		if nInt == 1 && nPos <= 1 && nOther == 0 {
			makeSpace, msLit = v, li
			if nPos == 0 {
				msPos = -1
			}
		} else if sig != nil && sig.Params().Len() == 0 {
			flushBuffer, fbLit = v, li
		}
		return true
	})
	if fbLit == nil {
		// the drain may have been written directly into the deferred function
		ast.Inspect(flush.Body, func(n ast.Node) bool {
			ds, ok := n.(*ast.DeferStmt)
			if !ok {
				return true
			}
			if lit, ok := ast.Unparen(ds.Call.Fun).(*ast.FuncLit); ok && lit.Type.Params.NumFields() == 0 {
				if li := p.funcBy[lit]; li != nil && callsOutput(li) {
					fbLit = li
				}
			}
			return true
		})
	}
	if makeSpace == nil || fbLit == nil {
		r.bad("C10.M4", flush.Name, p.Pos(flush.Node), "flush helpers", "flush has no reserve helper (one parameter) and drain helper (no parameter) that call the output callback", "")
		return
	}
	// helper conditions
	{
		mc := p.CFG(msLit)
		ok := false
		for _, b := range mc.live {
			ct := mc.CondTerm(b)
			if ct == nil || ct.Op != "<" {
				continue
			}
			fs := p.FactsOf(msLit).At(Point{b, len(b.Nodes) - 1})
			rt := fs.Resolve(ct)
			// mtu < size + space, exactly
			ll, lr := Lin(rt.Args[0]), Lin(rt.Args[1])
			exactL := ll.C == 0 && len(ll.Coef) == 1
			for k, cf := range ll.Coef {
				if cf != 1 || !strings.Contains(k, "mtu") {
					exactL = false
				}
			}
			hasParam := false
			for k, cf := range lr.Coef {
				if at := lr.Atoms[k]; at != nil && at.Op == "var" && p.isParam(at.Obj.(*types.Var)) && cf == 1 {
					hasParam = true
				}
			}
			if exactL && lr.C == 0 && hasParam && termHasField(rt.Args[0], p.Field("KCP", "mtu")) {
				outs := false
				for _, nd := range b.Succs[0].Nodes {
					inspectShallow(nd, func(x ast.Node) bool {
						if call, ok := x.(*ast.CallExpr); ok {
							if t := p.Term(call.Fun); t.Op == "fld" && t.Obj == fOutput {
								outs = true
							}
						}
						return true
					})
				}
				if outs && len(mc.DominatingConds(Point{b.Succs[0], 0})) == 1 {
					ok = true
				}
			}
		}
		r.check(ok, "C10.M4", msLit.Name, p.Pos(msLit.Node), "reserve helper outputs iff size + n > mtu", "the only condition of the output call", "the reserve helper does not flush exactly when size + n > mtu: a datagram larger than the mtu (or an empty one) can be handed to the output callback")
		if msPos >= 0 {
			// position-passing form: after a flush the helper hands back the start of the buffer, otherwise the
			// position it was given
			sig := p.Info.TypeOf(msLit.Node.(*ast.FuncLit)).(*types.Signature)
			posParam := sig.Params().At(msPos)
			okRet, nRet := true, 0
			for _, b := range mc.live {
				outs := false
				for _, nd := range b.Nodes {
					inspectShallow(nd, func(x ast.Node) bool {
						if call, ok := x.(*ast.CallExpr); ok {
							if t := p.Term(call.Fun); t.Op == "fld" && t.Obj == fOutput {
								outs = true
							}
						}
						return true
					})
					rs, isRet := nd.(*ast.ReturnStmt)
					if !isRet {
						continue
					}
					nRet++
					if len(rs.Results) != 1 {
						okRet = false
						continue
					}
					id, _ := ast.Unparen(rs.Results[0]).(*ast.Ident)
					isPos := id != nil && p.Info.ObjectOf(id) == types.Object(posParam)
					if outs == isPos {
						okRet = false
					}
				}
			}
			r.check(okRet && nRet >= 2, "C10.M4", msLit.Name, p.Pos(msLit.Node), "reserve helper hands back the write position", "the given position when nothing was sent, a fresh one after a flush", "the reserve helper does not hand back the start of the buffer after flushing (or hands back something else than the given position otherwise): writing continues at the wrong place")
		}
	}
	{
		fc := p.CFG(fbLit)
		ok := false
		for _, b := range fc.live {
			ct := fc.CondTerm(b)
			if ct != nil && ct.Op == "<" && ct.Args[0].IsConst() && ct.Args[0].Int == 0 {
				ok = true
			}
		}
		r.check(ok, "C10.M4", fbLit.Name, p.Pos(fbLit.Node), "drain helper outputs iff size > 0", "guarded by size > 0", "the drain helper can hand an empty packet to the output callback")
	}
	// output invoked nowhere else
	p.AllCalls(func(call *ast.CallExpr, fi *FuncInfo) {
		if t := p.Term(call.Fun); t.Op == "fld" && t.Obj == fOutput {
			r.check(fi == msLit || fi == fbLit, "C10.M4", fi.Name, p.Pos(call), "output callback call site", "inside a flush helper", "the output callback is invoked outside the two size-checked helpers")
		}
	})
	// reserve/consume
	isCallOf := func(n ast.Node, v *types.Var) (*ast.CallExpr, bool) {
		var out *ast.CallExpr
		inspectShallow(n, func(x ast.Node) bool {
			if call, ok := x.(*ast.CallExpr); ok {
				if id, ok := ast.Unparen(call.Fun).(*ast.Ident); ok && p.Info.Uses[id] == v {
					out = call
				}
			}
			return true
		})
		return out, out != nil
	}
	encode := p.Method("segment", "encode")
	var ptrVar *types.Var
	// advance of a node: ptr = X.encode(ptr) -> overhead; ptr = ptr[E:] -> E
	advance := func(n ast.Node) (*Linear, bool) {
		as, ok := n.(*ast.AssignStmt)
		if !ok || len(as.Lhs) != 1 || len(as.Rhs) != 1 {
			return nil, false
		}
		id, ok := as.Lhs[0].(*ast.Ident)
		if !ok {
			return nil, false
		}
		v, _ := p.Info.Uses[id].(*types.Var)
		if v == nil {
			return nil, false
		}
		switch x := ast.Unparen(as.Rhs[0]).(type) {
		case *ast.CallExpr:
			if p.Callee(x) == encode && len(x.Args) == 1 {
				if aid, ok := x.Args[0].(*ast.Ident); ok && p.Info.Uses[aid] == v {
					ptrVar = v
					l := newLinear()
					l.C = overhead
					return l, true
				}
			}
		case *ast.SliceExpr:
			if bid, ok := ast.Unparen(x.X).(*ast.Ident); ok && p.Info.Uses[bid] == v && x.Low != nil && x.High == nil && isByteSliceLike(v.Type()) {
				return Lin(p.Term(x.Low)), true
			}
		}
		return nil, false
	}
	nRes := 0
	for _, pt := range c.AllPoints() {
		call, ok := isCallOf(pt.Node(), makeSpace)
		if !ok {
			continue
		}
		nRes++
		fs := p.FactsOf(flush).At(pt)
		reserved := Lin(fs.Resolve(p.Term(call.Args[msArg])))
		construct := fmt.Sprintf("makeSpace(%s) #%d", exprString(call.Args[msArg]), nRes)
		if msPos >= 0 {
			// position-passing form: the caller must continue at the position handed back
			okForm := false
			if as, isAs := pt.Node().(*ast.AssignStmt); isAs && len(as.Lhs) == 1 && len(as.Rhs) == 1 && ast.Unparen(as.Rhs[0]) == ast.Expr(call) {
				lid, _ := as.Lhs[0].(*ast.Ident)
				aid, _ := ast.Unparen(call.Args[msPos]).(*ast.Ident)
				if lid != nil && aid != nil && p.Info.ObjectOf(lid) == p.Info.ObjectOf(aid) {
					okForm = true
				}
			}
			if !okForm {
				r.bad("C10.M4", flush.Name, p.Pos(call), construct, "the position returned by the reserve helper is not the one the caller continues at: after the helper has flushed, writing goes on behind the bytes already sent", "")
				continue
			}
		}
		// explore paths until the next reserve / drain / exit
		type st struct {
			pt   Point
			used *Linear
		}
		var worst *Linear
		bad := ""
		onPath := map[*cfg.Block]string{}
		done2 := map[int32]map[string]bool{}
		var walk func(pt Point, used *Linear, depth int)
		walk = func(pt Point, used *Linear, depth int) {
			if bad != "" || depth > 400 {
				return
			}
			b := pt.B
			for i := pt.I; i < len(b.Nodes); i++ {
				n := b.Nodes[i]
				if _, ok := isCallOf(n, makeSpace); ok {
					goto done
				}
				if _, ok := isCallOf(n, flushBuffer); ok {
					goto done
				}
				if a, ok := advance(n); ok {
					nu := newLinear()
					nu.addScaled(used, 1)
					nu.addScaled(a, 1)
					used = nu
				}
			}
			if c.IsExit(b) {
				goto done
			}
			if prev, seen := onPath[b]; seen {
				// back at a block of the current path: a cycle without a new reservation is harmless only if nothing was consumed in it
				if prev != used.String() {
					bad = "the pointer keeps advancing around a loop without a new reservation"
				}
				return
			}
			if done2[b.Index] == nil {
				done2[b.Index] = map[string]bool{}
			}
			if done2[b.Index][used.String()] {
				return
			}
			done2[b.Index][used.String()] = true
			onPath[b] = used.String()
			for _, s := range b.Succs {
				if s.Live {
					walk(Point{s, 0}, used, depth+1)
				}
			}
			delete(onPath, b)
			return
		done:
			// used <= reserved as linear forms: identical atoms, constant not larger
			diff := newLinear()
			diff.addScaled(reserved, 1)
			diff.addScaled(used, -1)
			for _, cf := range diff.Coef {
				if cf < 0 {
					bad = fmt.Sprintf("consumes %s after reserving %s", used, reserved)
				}
			}
			if diff.C < 0 {
				bad = fmt.Sprintf("consumes %s after reserving %s", used, reserved)
			}
			if worst == nil || used.String() > worst.String() {
				worst = used
			}
		}
		walk(Point{pt.B, pt.I + 1}, newLinear(), 0)
		if bad != "" {
			r.bad("C10.M4", flush.Name, p.Pos(call), construct, "a path "+bad+": more bytes are written than were reserved, so the datagram can exceed the mtu or the staging buffer", "")
		} else {
			r.ok("C10.M4", flush.Name, p.Pos(call), construct, fmt.Sprintf("reserved %s, at most %s consumed before the next reservation on every path", reserved, worst))
		}
	}
	if nRes == 0 {
		r.bad("C10.M4", flush.Name, p.Pos(flush.Node), "reservations", "flush never reserves space", "")
	}
	_ = ptrVar
	// the other direction: nothing is encoded without a reservation of its own — from the entry, and from every
	// encoding, no path reaches an(other) encoding without passing the reserve helper (an unreserved run of
	// segments, e.g. all pending ACKs, overruns the staging buffer and the MTU)
	encM := p.Method("segment", "encode")
	isReserve := func(nd ast.Node, _ Point) bool {
		hit := false
		inspectShallow(nd, func(x ast.Node) bool {
			if call, ok := x.(*ast.CallExpr); ok {
				if id, isId := ast.Unparen(call.Fun).(*ast.Ident); isId && makeSpace != nil && p.Info.Uses[id] == types.Object(makeSpace) {
					hit = true
				}
			}
			return true
		})
		return hit
	}
	var encPts []Point
	for _, s := range p.CallsTo(encM) {
		if s.Fn != flush {
			continue
		}
		if q, ok := c.PointOf(s.Call); ok {
			encPts = append(encPts, q)
		}
	}
	isEnc := func(_ ast.Node, q Point) bool {
		for _, e := range encPts {
			if e == q {
				return true
			}
		}
		return false
	}
	starts := append([]Point{{c.Entry(), 0}}, encPts...)
	for i, from := range starts {
		st := from
		what := "from the entry of flush"
		pos := p.Pos(flush.Node)
		if i > 0 {
			st = Point{from.B, from.I + 1}
			what = "after the encoding at " + p.Pos(from.Node())
			pos = p.Pos(from.Node())
		}
		res := c.FindPath(PathQuery{From: st, IsTarget: isEnc, IsBarrier: isReserve})
		if res.Found {
			r.bad("C10.M4", flush.Name, pos, "every encoding has its own reservation ("+what+")", "a segment is encoded "+what+" without a reservation in between: the bytes written were never checked against the MTU and the staging buffer — a run of such segments (the number of pending ACKs is decided by the peer) is handed to the output callback as one oversized packet or runs off the buffer", c.DescribePath(res.Path))
		} else {
			r.ok("C10.M4", flush.Name, pos, "every encoding has its own reservation ("+what+")", "the reserve helper is called on every path to the next encoding")
		}
	}
}

// ---------------------------------------------------------------- M5

func checkSegmentCreation(p *Prog, r *Report) {
	newSeg := p.Method("KCP", "newSegment")
	for _, s := range p.CallsTo(newSeg) {
		kcp := s.Recv
		if kcp == nil {
			// newSegment as a plain function: the segment is created for the caller's control block
			if sv := p.selfVar(rootFuncInfo(s.Fn)); sv != nil {
				kcp = tVar(sv)
			}
		}
		mss := p.F(kcp, "KCP", "mss")
		p.requireFacts(r, "C10.M5", s.Fn, s.Call, "newSegment("+exprString(s.Call.Args[0])+")", le(s.Args[0], mss))
	}
	// stream-mode append: X.data = X.data[:old+ext] with ext <= mss - old
	send := p.FuncOf(p.Method("KCP", "Send"))
	n := 0
	for _, st := range p.FieldStores(p.Field("segment", "data")) {
		if rootFuncInfo(st.Fn) != send || st.Rhs == nil {
			continue
		}
		se, ok := ast.Unparen(st.Rhs).(*ast.SliceExpr)
		if !ok || se.High == nil {
			continue
		}
		n++
		fs := p.FactsOf(st.Fn).AtNode(st.Node)
		hi := p.Term(se.High)
		// substitute upper bounds of the addends: each local addend that has an atom v <= T is replaced by T
		l := newLinear()
		okB := true
		var visitAdd func(t *Term)
		visitAdd = func(t *Term) {
			if t.Op == "+" {
				for _, a := range t.Args {
					visitAdd(a)
				}
				return
			}
			// prefer an upper bound t <= U whose value mentions mss; otherwise the value of t itself
			for _, a := range fs.Atoms {
				if a.Op == "<=" && a.Args[0].Key() == t.Key() {
					d := fs.Resolve(a.Args[1])
					if termHasField(d, p.Field("KCP", "mss")) {
						l.addScaled(Lin(d), 1)
						return
					}
				}
			}
			rt := fs.Resolve(t)
			l.addScaled(Lin(rt), 1)
		}
		visitAdd(hi)
		kcpBase := send
		_ = kcpBase
		var mssT *Term
		l2 := l
		for k, at := range l2.Atoms {
			if at.Op == "fld" && at.Obj == p.Field("KCP", "mss") && l2.Coef[k] == 1 {
				mssT = at
			}
		}
		okB = okB && mssT != nil && l2.C == 0
		if okB {
			for k, cf := range l2.Coef {
				if cf != 0 && k != mssT.Key() {
					okB = false
				}
			}
		}
		r.check(okB, "C10.M5", st.Fn.Name, p.Pos(st.Node), "stream append "+exprString(st.Rhs), "old length + extension <= mss", "the stream-mode append can extend a queued segment beyond mss (its upper bound is "+l.String()+")")
	}
	if n == 0 {
		r.ok("C10.M5", send.Name, p.Pos(send.Node), "stream append", "no in-place extension of queued segments")
	}
}

// ---------------------------------------------------------------- M6

func checkSessionAccounting(p *Prog, r *Report) {
	fi := p.FuncByName("(*UDPSession).SetMtu")
	setMtu := p.Method("KCP", "SetMtu")
	c := p.CFG(fi)
	mtuLimit := p.ConstInt("mtuLimit")
	var param *types.Var
	for _, fl := range fi.Decl.Type.Params.List {
		for _, nm := range fl.Names {
			param, _ = p.Info.Defs[nm].(*types.Var)
		}
	}
	recv := p.selfVar(fi)
	hdr := p.F(tVar(recv), "UDPSession", "headerSize")
	for _, s := range p.CallsTo(setMtu) {
		if s.Fn != fi {
			continue
		}
		argVar, _ := p.Info.Uses[identOf(s.Call.Args[0])].(*types.Var)
		if argVar == nil {
			r.bad("C10.M6", fi.Name, p.Pos(s.Call), "value handed to KCP.SetMtu", "the argument is not a local whose value can be followed", "")
			continue
		}
		target, _ := c.PointOf(s.Call)
		// symbolic value of argVar along every path
		type res struct {
			val  *Term
			aead bool
			over bool // the path passed the test mtuLimit < mtu (explicit clamp)
		}
		var results []res
		// env: the symbolic value of every local assigned on the way (the argument may be computed through
		// temporaries such as a summed overhead)
		var walk func(pt Point, env map[types.Object]*Term, aead bool, over bool, depth int)
		walk = func(pt Point, env0 map[types.Object]*Term, aead bool, over bool, depth int) {
			if depth > 30 {
				return
			}
			env := map[types.Object]*Term{}
			for k, v := range env0 {
				env[k] = v
			}
			b := pt.B
			for i := pt.I; i < len(b.Nodes); i++ {
				if (Point{b, i}) == target {
					results = append(results, res{env[argVar], aead, over})
					return
				}
				n := b.Nodes[i]
				as, ok := n.(*ast.AssignStmt)
				if !ok {
					continue
				}
				vals := make([]*Term, len(as.Lhs))
				for k := range as.Lhs {
					if k < len(as.Rhs) && len(as.Lhs) == len(as.Rhs) {
						vals[k] = normTerm(p.Term(as.Rhs[k]).Subst(env))
					}
				}
				for k, l := range as.Lhs {
					id, ok := l.(*ast.Ident)
					if !ok || vals[k] == nil {
						continue
					}
					var o types.Object = p.Info.Defs[id]
					if o == nil {
						o = p.Info.Uses[id]
					}
					lv, isV := o.(*types.Var)
					if !isV || lv.IsField() || lv.Parent() == p.Types.Scope() {
						continue
					}
					cur, has := env[lv]
					if !has {
						cur = tVar(lv)
					}
					switch as.Tok {
					case token.ASSIGN, token.DEFINE:
						env[lv] = vals[k]
					case token.SUB_ASSIGN:
						env[lv] = sub(cur, vals[k])
					case token.ADD_ASSIGN:
						env[lv] = add(cur, vals[k])
					default:
						env[lv] = &Term{Op: "unk", Pos: as.Pos()}
					}
				}
			}
			val := env[argVar]
			ct := c.CondTerm(b)
			for si, sblk := range b.Succs {
				if !sblk.Live {
					continue
				}
				a2 := aead
				// the true edge of a type test for *aeadCrypt (comma-ok assertion in the if's init, or a type switch arm)
				if ct != nil && ct.Op == "typeis" && ct.Str == "*aeadCrypt" && si == 0 {
					a2 = true
				}
				// `if aead, ok := s.block.(*aeadCrypt); ok` : the true edge is the AEAD path
				if ct != nil && ct.Op == "var" && si == 0 {
					if v, ok := ct.Obj.(*types.Var); ok {
						for _, as := range p.Assignments(fi, v) {
							if st, ok := as.Node.(*ast.AssignStmt); ok && len(st.Rhs) == 1 {
								if ta, ok := ast.Unparen(st.Rhs[0]).(*ast.TypeAssertExpr); ok && ta.Type != nil && p.isPkgNamed(p.Info.TypeOf(ta.Type), "aeadCrypt") {
									a2 = true
								}
							}
						}
					}
				}
				e2, o2 := env, over
				// explicit clamp: if mtu > mtuLimit { mtu = mtuLimit }
				if ct != nil {
					cs := normTerm(ct.Subst(env))
					if cs.Key() == lt(tConst(mtuLimit), val).Key() {
						if si == 0 {
							o2 = true
						} else {
							e2 = map[types.Object]*Term{}
							for k, v := range env {
								e2[k] = v
							}
							e2[argVar] = normTerm(mk("min", tConst(mtuLimit), val)) // val <= mtuLimit here, so val == min(mtuLimit, val)
						}
					}
				}
				walk(Point{sblk, 0}, e2, a2, o2, depth+1)
			}
		}
		walk(Point{c.Entry(), 0}, map[types.Object]*Term{argVar: tVar(param)}, false, false, 0)
		if len(results) == 0 {
			r.bad("C10.M6", fi.Name, p.Pos(s.Call), "value handed to KCP.SetMtu", "no path reaches the call", "")
			continue
		}
		hasAead := false
		for _, rs := range results {
			if rs.aead {
				hasAead = true
			}
		}
		if !hasAead {
			r.bad("C10.M6", fi.Name, p.Pos(s.Call), "value handed to KCP.SetMtu (AEAD path)", "no path subtracts the AEAD overhead under a *aeadCrypt test, but the output path seals packets (adding Overhead() bytes): datagrams exceed the configured MTU under AEAD", "")
		}
		for _, rs := range results {
			construct := "value handed to KCP.SetMtu (path without AEAD)"
			if rs.aead {
				construct = "value handed to KCP.SetMtu (AEAD path)"
			}
			// expected: min(mtuLimit, param) - headerSize [- Overhead()]
			l := Lin(rs.val)
			minKey := normTerm(mk("min", tConst(mtuLimit), tVar(param))).Key()
			okV := l.Coef[minKey] == 1 && l.Coef[hdr.Key()] == -1 && l.C == 0
			if !okV && rs.over && l.Coef[minKey] == 0 && l.Coef[hdr.Key()] == -1 && l.C == mtuLimit {
				// on the path where mtu > mtuLimit was seen the value is the limit itself: min(mtuLimit, mtu) there
				okV = true
			}
			nOther := 0
			ovh := false
			for k, cf := range l.Coef {
				if cf == 0 || k == minKey || k == hdr.Key() {
					continue
				}
				nOther++
				if cf == -1 && strings.Contains(k, "Overhead") {
					ovh = true
				}
			}
			if rs.aead {
				okV = okV && nOther == 1 && ovh
			} else {
				okV = okV && nOther == 0
			}
			r.check(okV, "C10.M6", fi.Name, p.Pos(s.Call), construct, pretty(rs.val.Key()), "the core mtu is "+pretty(rs.val.Key())+", expected min(mtuLimit, mtu) - headerSize"+map[bool]string{true: " - Overhead()", false: ""}[rs.aead]+": a layer's bytes are not subtracted (datagrams exceed the configured MTU) or subtracted twice")
		}
	}
	// headerSize stores
	cryptHdr := p.ConstInt("cryptHeaderSize")
	fecHdr2 := p.ConstInt("fecHeaderSizePlus2")
	for _, st := range p.FieldStores(p.Field("UDPSession", "headerSize")) {
		cc := p.CFG(st.Fn)
		pt, _ := cc.PointOf(st.Node)
		conds := cc.DominatingConds(pt)
		ck := ""
		for _, ct := range conds {
			for _, cj := range Conjuncts(ct) {
				// `block == nil` on the cipher interface is the no-cipher arm of the type switch
				if (cj.Op == "==" || cj.Op == "!=") && len(cj.Args) == 2 {
					for i := 0; i < 2; i++ {
						if cj.Args[i].Op == "nil" && cj.Args[1-i].Op == "fld" && cj.Args[1-i].Obj == p.Field("UDPSession", "block") {
							ti := &Term{Op: "typeis", Str: "nil", Args: []*Term{cj.Args[1-i]}}
							if cj.Op == "!=" {
								cj = Negate(ti)
							} else {
								cj = ti
							}
							break
						}
					}
				}
				ck += pretty(cj.Key()) + ";"
			}
		}
		construct := "store(UDPSession.headerSize) " + st.Tok.String() + " " + exprString(st.Rhs)
		t := p.Term(st.Rhs)
		switch {
		case st.Tok == token.ASSIGN && t.IsConst() && t.Int == 0:
			r.check(strings.Contains(ck, "typeis<nil>"), "C10.M6", st.Fn.Name, p.Pos(st.Node), construct, "0 on the no-cipher arm", "headerSize = 0 outside the no-cipher arm")
		case st.Tok == token.ASSIGN && t.IsConst() && t.Int == cryptHdr:
			r.check(strings.Contains(ck, "not(typeis<*aeadCrypt>") && strings.Contains(ck, "not(typeis<nil>"), "C10.M6", st.Fn.Name, p.Pos(st.Node), construct, "cryptHeaderSize on the CFB-style arm", "cryptHeaderSize stored on another arm")
		case st.Tok == token.ASSIGN && t.Op == "call" && t.Obj == p.Method("aeadCrypt", "NonceSize"):
			r.check(strings.Contains(ck, "typeis<*aeadCrypt>") && !strings.Contains(ck, "not(typeis<*aeadCrypt>"), "C10.M6", st.Fn.Name, p.Pos(st.Node), construct, "NonceSize() on the AEAD arm", "NonceSize() stored on another arm")
		case st.Tok == token.ADD_ASSIGN && t.IsConst() && t.Int == fecHdr2:
			r.check(strings.Contains(ck, "fecEncoder") && strings.Contains(ck, "!="), "C10.M6", st.Fn.Name, p.Pos(st.Node), construct, "fecHeaderSizePlus2 added iff an encoder exists", "the FEC header is accounted for without the encoder test")
		default:
			r.bad("C10.M6", st.Fn.Name, p.Pos(st.Node), construct, "headerSize is stored with a value that is none of {0, cryptHeaderSize, NonceSize(), += fecHeaderSizePlus2}", "")
		}
	}
	// the output path reserves headerSize: Get()[:size+headerSize]
	get := p.Method("bufferPool", "Get")
	outCbs := p.outputCallbacks()
	for _, name := range []string{"newUDPSession", "(*UDPSession).SendOOB"} {
		found := false
		for _, s := range p.CallsTo(get) {
			if rootFuncInfo(s.Fn).Name != name && !(name == "newUDPSession" && outCbs[rootFuncInfo(s.Fn)]) {
				continue
			}
			if se, ok := p.parents[s.Call].(*ast.SliceExpr); ok && se.High != nil {
				if termHasField(p.Term(se.High), p.Field("UDPSession", "headerSize")) {
					found = true
				}
			}
		}
		r.check(found, "C10.M6", name, "-", "output path reserves headerSize in "+name, "Get()[:size+headerSize]", "the buffer handed to post-processing does not reserve headerSize bytes")
	}
}

// ---------------------------------------------------------------- M7

func checkFECGroupSize(p *Prog, r *Report) {
	enc := p.FuncOf(p.Method("fecEncoder", "encode"))
	fMax := p.Field("fecEncoder", "maxSize")
	fCount := p.Field("fecEncoder", "shardCount")
	c := p.CFG(enc)
	nAcc := 0
	var resets []Point
	for _, st := range p.FieldStores(fMax) {
		if st.Fn != enc || st.Rhs == nil {
			continue
		}
		t := p.Term(st.Rhs)
		if t.IsConst() && t.Int == 0 {
			pt, _ := c.PointOf(st.Node)
			resets = append(resets, pt)
			continue
		}
		nAcc++
		// maxSize = sz under maxSize < sz (or maxSize = max(maxSize, sz)), sz = len(b)
		rt, okA := p.runningMax(enc, st.Node, tFld(st.Base, fMax), st.Rhs)
		okL := okA && rt.Op == "len"
		r.check(okA && okL, "C10.M7", enc.Name, p.Pos(st.Node), "maxSize = "+exprString(st.Rhs), "running maximum of len(packet)", "maxSize is not the running maximum of the group's packet lengths")
	}
	if nAcc == 0 {
		r.bad("C10.M7", enc.Name, p.Pos(enc.Node), "maxSize accumulation", "maxSize is never raised", "")
	}
	// wherever shardCount is reset, maxSize is reset on the same paths: every path from a shardCount = 0 store to the exit passes a maxSize = 0 store, or it came right before
	for _, st := range p.FieldStores(fCount) {
		if st.Fn != enc || st.Rhs == nil {
			continue
		}
		if t := p.Term(st.Rhs); !t.IsConst() || t.Int != 0 {
			continue
		}
		pt, _ := c.PointOf(st.Node)
		isMaxReset := func(_ ast.Node, q Point) bool {
			for _, rp := range resets {
				if rp == q {
					return true
				}
			}
			return false
		}
		okPair := false
		// a reset in the same block before it, or on every path after it
		for _, rp := range resets {
			if rp.B == pt.B {
				okPair = true
			}
		}
		if !okPair {
			res := c.FindPath(PathQuery{From: Point{pt.B, pt.I + 1}, ExitIsTarget: true, IsBarrier: isMaxReset})
			okPair = !res.Found && len(resets) > 0
		}
		r.check(okPair, "C10.M7", enc.Name, p.Pos(st.Node), "group reset pairs shardCount and maxSize", "both are reset together", "a group can end (shardCount = 0) without resetting maxSize: the next group's parity is as long as an older, larger packet and can exceed the MTU after it was lowered")
	}
	// parity cut to maxSize
	okCut := false
	inspectBody(enc, func(n ast.Node) bool {
		as, ok := n.(*ast.AssignStmt)
		if !ok || len(as.Lhs) != 1 || len(as.Rhs) != 1 {
			return true
		}
		if se, ok := ast.Unparen(as.Rhs[0]).(*ast.SliceExpr); ok && se.High != nil && se.Low == nil {
			if t := p.Term(se.High); t.Op == "fld" && t.Obj == fMax && p.Term(se.X).Key() == p.Term(as.Lhs[0]).Key() {
				okCut = true
			}
		}
		return true
	})
	r.check(okCut, "C10.M7", enc.Name, p.Pos(enc.Node), "parity length", "ps[k] = ps[k][:maxSize]", "parity shards are not cut to the group's maximum length")
	// copies in postProcess: Get()[:len(src)] followed by copy(dst, src)
	pp := p.FuncByName("(*UDPSession).postProcess")
	get := p.Method("bufferPool", "Get")
	for _, s := range p.CallsTo(get) {
		if s.Fn != pp {
			// a copy helper that only postProcess calls (pooledCopy(src))
			part := s.Fn.Obj != nil && !s.Fn.Obj.Exported() && s.Fn.Lit == nil
			if part {
				sites := p.CallsTo(s.Fn.Obj)
				part = len(sites) > 0
				for _, cs := range sites {
					if rootFuncInfo(cs.Fn) != pp {
						part = false
					}
				}
			}
			if !part {
				continue
			}
		}
		se, ok := p.parents[s.Call].(*ast.SliceExpr)
		if !ok || se.High == nil {
			continue
		}
		t := p.Term(se.High)
		okLen := t.Op == "len"
		var src *Term
		if okLen {
			src = t.Args[0]
		}
		// the next statement copies from that source
		okCopy := false
		if as, ok := p.parents[se].(*ast.AssignStmt); ok && okLen {
			c := p.CFG(s.Fn)
			pt, _ := c.PointOf(as)
			if pt.I+1 < len(pt.B.Nodes) {
				inspectShallow(pt.B.Nodes[pt.I+1], func(x ast.Node) bool {
					if call, ok := x.(*ast.CallExpr); ok && p.BuiltinName(call) == "copy" && len(call.Args) == 2 && p.Term(call.Args[1]).Key() == src.Key() {
						okCopy = true
					}
					return true
				})
			}
		}
		r.check(okLen && okCopy, "C10.M7", pp.Name, p.Pos(s.Call), "copy "+exprString(se), "the copy has the length of its source", "a duplicate/parity copy is not made with the length of its source")
	}
}

// ---------------------------------------------------------------- M8

func checkOOBBound(p *Prog, r *Report) {
	so := p.FuncByName("(*UDPSession).SendOOB")
	get := p.Method("bufferPool", "Get")
	convSize := p.ConstInt("convSize")
	recv := p.selfVar(so)
	kcpMtu := p.F(tFld(tVar(recv), p.Field("UDPSession", "kcp")), "KCP", "mtu")
	var data *types.Var
	data = firstByteSliceParam(p, so)
	n := 0
	for _, s := range p.CallsTo(get) {
		if s.Fn != so {
			continue
		}
		n++
		fs := p.FactsOf(so).AtNode(s.Call)
		// some atom T <= kcp.mtu with T resolving to convSize + len(data)
		ok := false
		want := Lin(add(tConst(convSize), mk("len", tVar(data))))
		for _, a := range fs.resolvedAtoms() {
			if a.Op == "<=" && stripConvKey(a.Args[1]) == kcpMtu.Key() && Lin(a.Args[0]).Equal(want) {
				ok = true
			}
		}
		r.check(ok, "C10.M8", so.Name, p.Pos(s.Call), "OOB size test before Get()", "convSize + len(data) <= kcp.mtu", "an OOB buffer is obtained without the test convSize + len(data) <= kcp.mtu: the OOB datagram can exceed the MTU")
	}
	if n == 0 {
		r.bad("C10.M8", so.Name, p.Pos(so.Node), "OOB size test", "SendOOB obtains no buffer", "")
	}
	gm := p.FuncByName("(*UDPSession).GetOOBMaxSize")
	grecv := p.selfVar(gm)
	gMtu := p.F(tFld(tVar(grecv), p.Field("UDPSession", "kcp")), "KCP", "mtu")
	okG := false
	inspectBody(gm, func(x ast.Node) bool {
		if ret, ok := x.(*ast.ReturnStmt); ok && len(ret.Results) == 1 {
			t := p.resolveSingleDefs(gm, p.Term(ret.Results[0]))
			if t.IsConst() {
				return true
			}
			l := Lin(t)
			okG = l.C == -convSize && len(l.Coef) == 1
			for k := range l.Coef {
				if !strings.Contains(k, gMtu.Key()) {
					okG = false
				}
			}
		}
		return true
	})
	r.check(okG, "C10.M8", gm.Name, p.Pos(gm.Node), "GetOOBMaxSize", "kcp.mtu - convSize (the SendOOB bound solved for len(data))", "GetOOBMaxSize disagrees with the bound SendOOB enforces")
}

// refusesThroughHelper: a branch that dominates the store refuses (returns a
// non-zero constant) when a predicate helper H(ring, newmss) reports false, and H
// reports false exactly when it finds a segment in its ring parameter whose data is
// longer than its length parameter.
func (p *Prog) refusesThroughHelper(fi *FuncInfo, c *CFG, spt Point, fRing *types.Var, overhead int64) bool {
	forEach := p.Method("RingBuffer", "ForEach")
	for _, b := range c.live {
		ct := c.CondTerm(b)
		if ct == nil || len(b.Succs) != 2 {
			continue
		}
		// the true edge refuses
		refuses := false
		for _, nd := range b.Succs[0].Nodes {
			if ret, ok := nd.(*ast.ReturnStmt); ok && len(ret.Results) == 1 {
				if v, ok := p.constVal(ret.Results[0]); ok && v != 0 {
					refuses = true
				}
			}
		}
		// and the fall-through edge is the one that leads to the store
		if !refuses || !c.BlockDominates(b.Succs[1], spt.B) {
			continue
		}
		// the condition is a disjunction; one disjunct is !H(ring, mss)
		var ds []*Term
		var collect func(t *Term)
		collect = func(t *Term) {
			if t.Op == "||" {
				for _, a := range t.Args {
					collect(a)
				}
				return
			}
			ds = append(ds, t)
		}
		collect(ct)
		for _, d := range ds {
			if d.Op != "not" || d.Args[0].Op != "call" {
				continue
			}
			call := d.Args[0]
			hf, _ := call.Obj.(*types.Func)
			if hf == nil || hf.Pkg() != p.Types {
				continue
			}
			h := p.FuncOf(hf)
			if h == nil || h.Body == nil {
				continue
			}
			fs := p.FactsOf(fi).At(Point{b, len(b.Nodes) - 1})
			ringArg, lenArg := -1, -1
			for i, a := range call.Args {
				ra := fs.Resolve(a)
				if _, ok := fieldBase(ra, fRing); ok {
					ringArg = i
				}
				if l := Lin(ra); l.C == -overhead && len(l.Coef) == 1 {
					lenArg = i
				}
			}
			if ringArg < 0 || lenArg < 0 {
				continue
			}
			// map argument positions to H's parameters (a method receiver is argument 0)
			var params []types.Object
			if rv := p.recvVar(h); rv != nil {
				params = append(params, rv)
			}
			for i := 0; ; i++ {
				o := h.paramObj(p, i)
				if o == nil {
					break
				}
				params = append(params, o)
			}
			if ringArg >= len(params) || lenArg >= len(params) {
				continue
			}
			pr, pl := params[ringArg], params[lenArg]
			okLoop, okTail := false, false
			ast.Inspect(h.Body, func(n ast.Node) bool {
				rs, ok := n.(*ast.RangeStmt)
				if !ok {
					return true
				}
				t := p.Term(rs.X)
				if t.Op != "mval" || t.Obj != forEach || t.Args[0].Op != "var" || t.Args[0].Obj != pr {
					return true
				}
				id, ok := rs.Key.(*ast.Ident)
				if !ok {
					return true
				}
				dataLen := mk("len", p.F(tVar(p.Info.Defs[id]), "segment", "data"))
				for _, bst := range rs.Body.List {
					is, ok := bst.(*ast.IfStmt)
					if !ok {
						continue
					}
					cj := Conjuncts(p.Term(is.Cond))
					if len(cj) != 1 || cj[0].Op != "<" || cj[0].Args[1].Key() != dataLen.Key() || cj[0].Args[0].Op != "var" || cj[0].Args[0].Obj != pl {
						continue
					}
					for _, s2 := range is.Body.List {
						if ret, ok := s2.(*ast.ReturnStmt); ok && len(ret.Results) == 1 && p.Term(ret.Results[0]).Op == "false" {
							okLoop = true
						}
					}
				}
				return true
			})
			if n := len(h.Body.List); n > 0 {
				if ret, ok := h.Body.List[n-1].(*ast.ReturnStmt); ok && len(ret.Results) == 1 && p.Term(ret.Results[0]).Op == "true" {
					okTail = true
				}
			}
			if okLoop && okTail {
				return true
			}
		}
	}
	return false
}

// outputCallbacks returns the named functions handed to NewKCP as the output callback inside the package (a
// function literal is covered by its enclosing function; a method value or a function name is followed here).
func (p *Prog) outputCallbacks() map[*FuncInfo]bool {
	out := map[*FuncInfo]bool{}
	nk := p.FuncByName("NewKCP")
	if nk == nil {
		return out
	}
	for _, s := range p.CallsTo(nk.Obj) {
		if len(s.Call.Args) < 2 {
			continue
		}
		var obj types.Object
		switch x := ast.Unparen(s.Call.Args[1]).(type) {
		case *ast.SelectorExpr:
			obj = p.Info.Uses[x.Sel]
		case *ast.Ident:
			obj = p.Info.Uses[x]
		}
		if fn, ok := obj.(*types.Func); ok {
			if fi := p.FuncOf(fn); fi != nil {
				out[fi] = true
			}
		}
	}
	return out
}
