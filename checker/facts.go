package main

import (
	"fmt"
	"go/ast"
	"go/token"
	"go/types"
	"os"
	"sort"
	"strings"

	"golang.org/x/tools/go/cfg"
)

// FactSet: boolean terms known to hold at a program point on every path
// (must-analysis), plus definitional equalities of local variables.
type FactSet struct {
	Atoms map[string]*Term
	Defs  map[*types.Var]*Term
	owner *Facts // set on the sets handed out by At/AtNode (for queries through callee summaries)
	depth int
}

func newFactSet() *FactSet {
	return &FactSet{Atoms: map[string]*Term{}, Defs: map[*types.Var]*Term{}}
}

func (f *FactSet) clone() *FactSet {
	n := newFactSet()
	for k, v := range f.Atoms {
		n.Atoms[k] = v
	}
	for k, v := range f.Defs {
		n.Defs[k] = v
	}
	return n
}

func (f *FactSet) equal(o *FactSet) bool {
	if len(f.Atoms) != len(o.Atoms) || len(f.Defs) != len(o.Defs) {
		return false
	}
	for k := range f.Atoms {
		if _, ok := o.Atoms[k]; !ok {
			return false
		}
	}
	for k, v := range f.Defs {
		if w, ok := o.Defs[k]; !ok || w.Key() != v.Key() {
			return false
		}
	}
	return true
}

func intersectFacts(a, b *FactSet) *FactSet {
	n := newFactSet()
	for k, v := range a.Atoms {
		if _, ok := b.Atoms[k]; ok {
			n.Atoms[k] = v
		} else if (v.Op == "<=" || v.Op == "<" || v.Op == "!=") && (b.holds1(v) || b.Holds(v)) {
			n.Atoms[k] = v // implied on the other side (e.g. 8 <= x there, 8 < x here)
		}
	}
	for k, v := range b.Atoms {
		if _, ok := n.Atoms[k]; ok {
			continue
		}
		if _, ok := a.Atoms[k]; !ok && (v.Op == "<=" || v.Op == "<" || v.Op == "!=") && (a.holds1(v) || a.Holds(v)) {
			n.Atoms[k] = v
		}
	}
	for k, v := range a.Defs {
		if w, ok := b.Defs[k]; ok && w.Key() == v.Key() {
			n.Defs[k] = v
		}
	}
	return n
}

func (f *FactSet) add(t *Term) {
	if t == nil {
		return
	}
	for _, c := range Conjuncts(t) {
		if c.Op == "true" {
			continue
		}
		f.Atoms[c.Key()] = c
	}
}

func (f *FactSet) String() string {
	var ks []string
	for k := range f.Atoms {
		ks = append(ks, k)
	}
	for v, d := range f.Defs {
		ks = append(ks, v.Name()+":="+d.Key())
	}
	sort.Strings(ks)
	return "{" + strings.Join(ks, "; ") + "}"
}

// Resolve substitutes local variables by their definitions (repeatedly).
func (f *FactSet) Resolve(t *Term) *Term {
	if t == nil {
		return nil
	}
	for i := 0; i < 5; i++ {
		m := map[types.Object]*Term{}
		t.Walk(func(x *Term) {
			if x.Op == "var" {
				if v, ok := x.Obj.(*types.Var); ok {
					if d, ok := f.Defs[v]; ok {
						m[v] = d
					}
				}
			}
		})
		if len(m) == 0 {
			return t
		}
		t = t.Subst(m)
	}
	return t
}

// Holds reports whether the boolean term t is established by the facts: every
// conjunct of t is (after resolving definitions on both sides) an atom, or is
// implied by one through the small implication table below.
func (f *FactSet) Holds(t *Term) bool {
	for _, c := range Conjuncts(f.Resolve(t)) {
		if !f.holds1(c) && !f.holdsViaCallee(c) {
			return false
		}
	}
	return true
}

// holdsViaCallee decides an inequality that mentions the result of a call to a
// small package function H by asking the same question inside H at its single
// return statement: the call is replaced by the returned expression, the actual
// arguments (and receiver) by H's parameters. Entry assumptions are translated the
// same way. This lets a bound computed by an extracted helper (effectiveWnd(),
// a min/clamp function) be used exactly as if it had been computed in line.
func (f *FactSet) holdsViaCallee(c *Term) bool {
	if f.owner == nil || f.depth > 1 || (c.Op != "<=" && c.Op != "<") {
		return false
	}
	p := f.owner.p
	var k *Term
	c.Walk(func(x *Term) {
		if k == nil && x.Op == "call" {
			if fn, ok := x.Obj.(*types.Func); ok && fn.Pkg() == p.Types {
				k = x
			}
		}
	})
	if k == nil {
		return false
	}
	h := p.FuncOf(k.Obj.(*types.Func))
	if h == nil || h.Body == nil || h.Decl == nil {
		return false
	}
	var rets []*ast.ReturnStmt
	ast.Inspect(h.Body, func(n ast.Node) bool {
		if _, isLit := n.(*ast.FuncLit); isLit {
			return false
		}
		if rs, ok := n.(*ast.ReturnStmt); ok {
			rets = append(rets, rs)
		}
		return true
	})
	if len(rets) != 1 || len(rets[0].Results) != 1 {
		return false
	}
	var params []*Term
	if rv := p.recvVar(h); rv != nil {
		params = append(params, tVar(rv))
	}
	for i := 0; ; i++ {
		o := h.paramObj(p, i)
		if o == nil {
			break
		}
		params = append(params, tVar(o))
	}
	if len(params) != len(k.Args) {
		return false
	}
	translate := func(t *Term) *Term {
		t = replaceByKey(t, k.Key(), &Term{Op: "RET"})
		for i, a := range k.Args {
			if a.IsConst() {
				continue
			}
			t = replaceByKey(t, a.Key(), params[i])
		}
		return normTerm(replaceByKey(t, (&Term{Op: "RET"}).Key(), p.Term(rets[0].Results[0])))
	}
	q := translate(c)
	if os.Getenv("KCPVERIF_DEBUG") != "" {
		fmt.Fprintln(os.Stderr, "viaCallee:", c.Key(), "=>", q.Key())
	}
	var assume []*Term
	for _, a := range f.owner.opt.Assume {
		assume = append(assume, translate(a))
	}
	fa2 := p.Facts(h, FactOpts{Assume: assume})
	fs2 := fa2.AtNode(rets[0])
	fs2.depth = f.depth + 1
	return fs2.Holds(q)
}

func replaceByKey(t *Term, key string, repl *Term) *Term {
	if t == nil {
		return nil
	}
	if t.Key() == key {
		return repl
	}
	if len(t.Args) == 0 {
		return t
	}
	n := *t
	n.key = ""
	n.Args = make([]*Term, len(t.Args))
	changed := false
	for i, a := range t.Args {
		n.Args[i] = replaceByKey(a, key, repl)
		if n.Args[i] != a {
			changed = true
		}
	}
	if !changed {
		return t
	}
	return &n
}

func (f *FactSet) resolvedAtoms() map[string]*Term {
	out := map[string]*Term{}
	for k, a := range f.Atoms {
		out[k] = a
		r := f.Resolve(a)
		out[r.Key()] = r
	}
	return out
}

func (f *FactSet) holds1(c *Term) bool {
	if c.Op == "true" {
		return true
	}
	atoms := f.resolvedAtoms()
	has := func(t *Term) bool { _, ok := atoms[normTerm(t).Key()]; return ok }
	if has(c) {
		return true
	}
	switch c.Op {
	case "<=", "<":
		// constant bounds, with one step of transitivity through another term
		a, b := c.Args[0], c.Args[1]
		strict := c.Op == "<"
		if a.IsConst() {
			if lo, ok := f.lowerConst(atoms, b, 0); ok && (lo > a.Int || (!strict && lo == a.Int)) {
				return true
			}
		}
		if b.IsConst() {
			if hi, ok := f.upperConst(atoms, a, 0); ok && (hi < b.Int || (!strict && hi == b.Int)) {
				return true
			}
		}
	}
	switch c.Op {
	case "<=":
		a, b := c.Args[0], c.Args[1]
		if has(mk("<", a, b)) || has(mk("==", a, b)) {
			return true
		}
		// a <= b  <=  a < b+1  (integers)
		if a.IsConst() && has(mk("<", tConst(a.Int-1), b)) {
			return true
		}
		if b.IsConst() && has(mk("<", a, tConst(b.Int+1))) {
			return true
		}
	case "<":
		a, b := c.Args[0], c.Args[1]
		// a < b  <=  a+1 <= b ; with constants
		if a.IsConst() && has(mk("<=", tConst(a.Int+1), b)) {
			return true
		}
		if b.IsConst() && has(mk("<=", a, tConst(b.Int-1))) {
			return true
		}
		// a < min(..) / max(..) < b handled by callers
	case "!=":
		a, b := c.Args[0], c.Args[1]
		if has(mk("<", a, b)) || has(mk("<", b, a)) {
			return true
		}
	case "||":
		for _, d := range c.Args {
			if f.holds1(d) {
				return true
			}
		}
	}
	return false
}

// ---------------------------------------------------------------- dataflow

// Facts is the result of the must-facts analysis of one function.
type Facts struct {
	p   *Prog
	c   *CFG
	in  map[*cfg.Block]*FactSet
	opt FactOpts
}

type FactOpts struct {
	// Assume: facts taken to hold at function entry (they die like any other fact
	// when something they read is written). Edges whose condition contradicts the
	// current facts are pruned as infeasible, so a rule can be decided "on the
	// paths where X holds".
	Assume []*Term
	// Entry: facts that hold at function entry (derived from the call sites); unlike Assume they prune nothing.
	Entry []*Term
	// KeepAcross: if it returns true for a node, the node kills nothing (used by
	// rules whose property is "tested once per critical section").
	KeepAcross func(n ast.Node) bool
}

// pureTerm: a term that may be remembered as a fact — no unknowns, no calls
// with side effects.
func (p *Prog) pureTerm(t *Term) bool {
	ok := true
	t.Walk(func(x *Term) {
		switch {
		case x.Op == "unk" || x.Op == "dyncall" || x.Op == "lit" || x.Op == "funclit" || x.Op == "recv" || x.Op == "mval":
			ok = false
		case strings.HasPrefix(x.Op, "builtin:"):
			ok = false
		case x.Op == "call":
			f, _ := x.Obj.(*types.Func)
			if f == nil {
				ok = false
				return
			}
			if f.Pkg() == p.Types {
				fi := p.FuncOf(f)
				if fi == nil {
					ok = false
					return
				}
				te := p.TransEffects(fi)
				if len(te.FieldW) > 0 || len(te.ElemW) > 0 || len(te.GlobW) > 0 || len(te.ChanOps) > 0 {
					ok = false
				}
			} else if !pureExternal[extFuncKey(f)] {
				ok = false
			}
		}
	})
	return ok
}

// termReads collects what a term depends on.
type readSet struct {
	fields map[*types.Var]bool
	deepF  map[*types.Var]bool // fields whose referent's contents are read (not just the header/value)
	vars   map[*types.Var]bool // local vars (value)
	deep   map[*types.Var]bool // local vars whose contents are read (not just len/cap)
	globs  map[*types.Var]bool
}

func (p *Prog) termReads(t *Term) *readSet {
	rs := &readSet{fields: map[*types.Var]bool{}, deepF: map[*types.Var]bool{}, vars: map[*types.Var]bool{}, deep: map[*types.Var]bool{}, globs: map[*types.Var]bool{}}
	var walk func(x *Term, shallow bool)
	walk = func(x *Term, shallow bool) {
		if x == nil {
			return
		}
		switch x.Op {
		case "var":
			if v, ok := x.Obj.(*types.Var); ok {
				if p.isGlobal(v) {
					rs.globs[v] = true
				} else {
					rs.vars[v] = true
					if !shallow {
						rs.deep[v] = true
					}
				}
			}
			return
		case "fld":
			if v, ok := x.Obj.(*types.Var); ok {
				rs.fields[v] = true
				if !shallow {
					rs.deepF[v] = true
				}
			}
			for _, a := range x.Args {
				walk(a, false)
			}
			return
		case "len", "cap":
			for _, a := range x.Args {
				walk(a, true)
			}
			return
		case "slice":
			// re-slicing depends on the slice header only, not on the contents
			for i, a := range x.Args {
				walk(a, i == 0 || shallow)
			}
			return
		case "call":
			if f, ok := x.Obj.(*types.Func); ok && f.Pkg() == p.Types {
				if fi := p.FuncOf(f); fi != nil {
					te := p.TransEffects(fi)
					for r := range te.FieldR {
						rs.fields[r] = true
						rs.deepF[r] = true
					}
					for r := range te.GlobR {
						rs.globs[r] = true
					}
				}
			}
		}
		for _, a := range x.Args {
			walk(a, false)
		}
	}
	// the value of the term itself: a field/variable denoting a slice or map is
	// read as a header only; comparisons and arithmetic read scalar values
	walk(t, true)
	return rs
}

func (p *Prog) killedBy(t *Term, te *TransEffects, own *Effects) bool {
	rs := p.termReads(t)
	for f := range rs.fields {
		if te.FieldW[f] {
			return true
		}
		if te.ElemW[f] && (rs.deepF[f] || !refLike(f.Type())) {
			return true
		}
	}
	for g := range rs.globs {
		if te.GlobW[g] {
			return true
		}
	}
	for v := range rs.vars {
		if _, ok := own.LocalW[v]; ok {
			return true
		}
		if te.LocalW[v] {
			return true
		}
	}
	for v := range rs.deep {
		if _, ok := own.ParamEW[v]; ok {
			return true
		}
	}
	return false
}

func (fa *Facts) transfer(fs *FactSet, n ast.Node) {
	p := fa.p
	if fa.opt.KeepAcross != nil && fa.opt.KeepAcross(n) {
		return
	}
	// comm statements of a select are hoisted in front of it by go/cfg; they take
	// effect in their clause only. Treat their effects conservatively here (kill).
	own := p.NodeEffects(n)
	te := p.NodeTransEffects(n)
	// a defer statement does not execute its call here
	if _, ok := n.(*ast.DeferStmt); ok {
		return
	}
	// acquiring or releasing a mutex: other goroutines may have changed any shared
	// state in between, so every fact that reads a field or a global dies.
	if p.hasLockOp(n) {
		for k, a := range fs.Atoms {
			rs := p.termReads(a)
			if len(rs.fields) > 0 || len(rs.globs) > 0 {
				delete(fs.Atoms, k)
			}
		}
		for v, d := range fs.Defs {
			rs := p.termReads(d)
			if len(rs.fields) > 0 || len(rs.globs) > 0 {
				delete(fs.Defs, v)
			}
		}
	}
	// x = min(.., x, ..) keeps the upper bounds already known for x (dually max)
	var selfVar *types.Var
	var selfOp string
	var saved []*Term
	if as, ok := n.(*ast.AssignStmt); ok && len(as.Lhs) == 1 && len(as.Rhs) == 1 && (as.Tok == token.ASSIGN || as.Tok == token.DEFINE) {
		if id, ok := ast.Unparen(as.Lhs[0]).(*ast.Ident); ok {
			o := p.Info.Uses[id]
			if o == nil {
				o = p.Info.Defs[id]
			}
			if v, ok := o.(*types.Var); ok && !v.IsField() {
				rt := p.Term(as.Rhs[0])
				if rt.Op == "min" || rt.Op == "max" {
					for _, a := range rt.Args {
						if a.Op == "var" && a.Obj == v {
							selfVar, selfOp = v, rt.Op
						}
					}
					if selfVar != nil {
						for _, a := range fs.Atoms {
							if a.Op != "<=" {
								continue
							}
							bound, other := a.Args[0], a.Args[1]
							if selfOp == "max" {
								bound, other = a.Args[1], a.Args[0]
							}
							if bound.Op == "var" && bound.Obj == v && !other.Contains(bound) {
								saved = append(saved, a)
							}
						}
					}
				}
			}
		}
	}
	// x = x[c:] with a constant c: lower bounds on len(x) shift by c
	var reslice []*Term
	if as, ok := n.(*ast.AssignStmt); ok && len(as.Lhs) == 1 && len(as.Rhs) == 1 && as.Tok == token.ASSIGN {
		if id, ok := ast.Unparen(as.Lhs[0]).(*ast.Ident); ok {
			if v, ok := p.Info.Uses[id].(*types.Var); ok {
				if se, ok := ast.Unparen(as.Rhs[0]).(*ast.SliceExpr); ok && se.High == nil && se.Low != nil {
					if bid, ok := ast.Unparen(se.X).(*ast.Ident); ok && p.Info.Uses[bid] == v {
						if c, ok := p.constVal(se.Low); ok && c >= 0 {
							lx := mk("len", tVar(v))
							for _, a := range fs.Atoms {
								if (a.Op == "<=" || a.Op == "<") && a.Args[1].Key() == lx.Key() && !a.Args[0].Contains(tVar(v)) {
									if a.Args[0].IsConst() {
										nk := a.Args[0].Int - c
										if a.Op == "<" {
											nk++ // K < len  ==  K+1 <= len
										}
										if nk > 0 {
											reslice = append(reslice, le(tConst(nk), lx))
										}
									}
								}
							}
						}
					}
				}
			}
		}
	}
	for k, a := range fs.Atoms {
		if p.killedBy(a, te, own) {
			delete(fs.Atoms, k)
		}
	}
	for _, a := range reslice {
		fs.Atoms[a.Key()] = a
	}
	for _, a := range saved {
		// the bound itself must not have been written by this statement
		if !p.killedBy(a.Args[1], te, &Effects{LocalW: map[*types.Var]token.Pos{}, ParamEW: map[*types.Var]token.Pos{}}) || selfOp == "max" {
			fs.Atoms[a.Key()] = a
		}
	}
	for v, d := range fs.Defs {
		if _, w := own.LocalW[v]; w || te.LocalW[v] || p.killedBy(d, te, own) {
			delete(fs.Defs, v)
		}
	}
	// gen: definitions
	def := func(lhs ast.Expr, rhs ast.Expr) {
		id, ok := ast.Unparen(lhs).(*ast.Ident)
		if !ok || id.Name == "_" {
			return
		}
		o := p.Info.Defs[id]
		if o == nil {
			o = p.Info.Uses[id]
		}
		v, ok := o.(*types.Var)
		if !ok || v.IsField() || p.isGlobal(v) {
			return
		}
		if p.addrTaken(v) {
			return
		}
		t := p.Term(rhs)
		if !p.pureTerm(t) {
			return
		}
		t = p.ExpandHelpers(t)
		// self reference?
		self := false
		t.Walk(func(x *Term) {
			if x.Op == "var" && x.Obj == v {
				self = true
			}
		})
		// bounds implied by min/max definitions
		if t.Op == "min" || t.Op == "max" {
			for _, a := range t.Args {
				if a.Op == "var" && a.Obj == v {
					continue
				}
				if t.Op == "min" {
					fs.add(le(tVar(v), a))
				} else {
					fs.add(le(a, tVar(v)))
				}
			}
		}
		if self {
			return
		}
		fs.Defs[v] = t
		// x := simple value also gives the two inequalities (so that if-form clamps
		// `if x < lo { x = lo }` join into lo <= x)
		if isIntegerType(v.Type()) && (t.Op == "var" || t.Op == "fld" || t.Op == "const") {
			fs.add(le(t, tVar(v)))
			fs.add(le(tVar(v), t))
		}
	}
	switch x := n.(type) {
	case *ast.AssignStmt:
		if (x.Tok == token.DEFINE || x.Tok == token.ASSIGN) && len(x.Lhs) == len(x.Rhs) {
			for i := range x.Lhs {
				def(x.Lhs[i], x.Rhs[i])
			}
			// v := min(a, b, ..) / v = max(..): the bounds as atoms of their own (they survive a
			// join in which the definition itself is lost)
			for i := range x.Lhs {
				id, isId := ast.Unparen(x.Lhs[i]).(*ast.Ident)
				if !isId {
					continue
				}
				o := p.Info.Uses[id]
				if o == nil {
					o = p.Info.Defs[id]
				}
				v, isV := o.(*types.Var)
				if !isV || v.IsField() || p.addrTaken(v) {
					continue
				}
				rt := p.Term(x.Rhs[i])
				if rt.Op != "min" && rt.Op != "max" {
					continue
				}
				for _, a := range rt.Args {
					if (a.Op == "var" || a.Op == "fld" || a.Op == "const") && p.pureTerm(a) && !a.Contains(tVar(v)) {
						if rt.Op == "min" {
							fs.add(le(tVar(v), a))
						} else {
							fs.add(le(a, tVar(v)))
						}
					}
				}
			}
			// X.f = simple value: the two inequalities between the field and the value
			if x.Tok == token.ASSIGN {
				for i := range x.Lhs {
					lt := p.Term(x.Lhs[i])
					if lt.Op != "fld" || !isIntegerType(p.Info.TypeOf(x.Lhs[i])) {
						continue
					}
					rt := p.stripBoundedConv(fs, p.Term(x.Rhs[i]))
					if (rt.Op == "var" || rt.Op == "fld" || rt.Op == "const") && p.pureTerm(rt) && !rt.Contains(lt) {
						fs.add(le(rt, lt))
						fs.add(le(lt, rt))
					}
					// X.f = min(a, b, ..) bounds the field by every operand that does not mention it (max: from below)
					if rt.Op == "min" || rt.Op == "max" {
						for _, a := range rt.Args {
							if (a.Op == "var" || a.Op == "fld" || a.Op == "const") && p.pureTerm(a) && !a.Contains(lt) {
								if rt.Op == "min" {
									fs.add(le(lt, a))
								} else {
									fs.add(le(a, lt))
								}
							}
						}
					}
				}
			}
		}
	case *ast.DeclStmt:
		if gd, ok := x.Decl.(*ast.GenDecl); ok {
			for _, sp := range gd.Specs {
				if vs, ok := sp.(*ast.ValueSpec); ok {
					for i, nm := range vs.Names {
						if i < len(vs.Values) {
							def(nm, vs.Values[i])
						}
					}
				}
			}
		}
	}
}

// addrTaken: &v occurs somewhere, or v is captured and assigned by a closure.
func (p *Prog) addrTaken(v *types.Var) bool {
	m, ok := p.memo["addrtaken"].(map[*types.Var]bool)
	if !ok {
		m = map[*types.Var]bool{}
		for _, f := range p.Files {
			ast.Inspect(f, func(n ast.Node) bool {
				if u, ok := n.(*ast.UnaryExpr); ok && u.Op == token.AND {
					if id, ok := ast.Unparen(u.X).(*ast.Ident); ok {
						if vv, ok := p.Info.Uses[id].(*types.Var); ok {
							m[vv] = true
						}
					}
				}
				return true
			})
		}
		// assigned inside a closure other than the declaring function
		for _, fi := range p.funcs {
			if fi.Lit == nil {
				continue
			}
			for lv := range p.Effects(fi).LocalW {
				if lv.Pos() < fi.Node.Pos() || lv.Pos() > fi.Node.End() {
					m[lv] = true
				}
			}
		}
		p.memo["addrtaken"] = m
	}
	return m[v]
}

// ExpandHelpers inlines calls to package functions whose body is a single
// `return expr` (predicate helpers such as IsFull, WaitSnd).
func (p *Prog) ExpandHelpers(t *Term) *Term {
	return p.expandHelpers(t, 0)
}

func (p *Prog) expandHelpers(t *Term, depth int) *Term {
	if t == nil || depth > 3 {
		return t
	}
	changed := false
	args := make([]*Term, len(t.Args))
	for i, a := range t.Args {
		args[i] = p.expandHelpers(a, depth)
		if args[i] != a {
			changed = true
		}
	}
	cur := t
	if changed {
		cur = normTerm(&Term{Op: t.Op, Obj: t.Obj, Int: t.Int, Str: t.Str, Args: args, Pos: t.Pos})
		// !helper() with helper = (a >= b): push the negation into the comparison that appeared
		if cur.Op == "not" && len(cur.Args) == 1 {
			switch cur.Args[0].Op {
			case "<", "<=", "==", "!=", "&&", "||", "not", "true", "false":
				cur = Negate(cur.Args[0])
			}
		}
	}
	if cur.Op != "call" {
		return cur
	}
	f, _ := cur.Obj.(*types.Func)
	if f == nil || f.Pkg() != p.Types {
		return cur
	}
	fi := p.FuncOf(f)
	if fi == nil || fi.Decl == nil || len(fi.Body.List) != 1 {
		return cur
	}
	ret, ok := fi.Body.List[0].(*ast.ReturnStmt)
	if !ok || len(ret.Results) != 1 {
		return cur
	}
	body := p.Term(ret.Results[0])
	if !p.pureTerm(body) && body.Op != "fld" {
		// allow pure bodies only
		return cur
	}
	m := map[types.Object]*Term{}
	sig := f.Type().(*types.Signature)
	ai := 0
	if sig.Recv() != nil {
		if fi.Decl.Recv != nil && len(fi.Decl.Recv.List) == 1 && len(fi.Decl.Recv.List[0].Names) == 1 {
			if ro := p.Info.Defs[fi.Decl.Recv.List[0].Names[0]]; ro != nil && len(cur.Args) > 0 {
				m[ro] = cur.Args[0]
			}
		}
		ai = 1
	}
	for _, fl := range fi.Decl.Type.Params.List {
		for _, nm := range fl.Names {
			if ai < len(cur.Args) {
				if po := p.Info.Defs[nm]; po != nil {
					m[po] = cur.Args[ai]
				}
			}
			ai++
		}
	}
	return p.expandHelpers(body.Subst(m), depth+1)
}

// Facts runs the analysis for fi.
func (p *Prog) Facts(fi *FuncInfo, opt FactOpts) *Facts {
	c := p.CFG(fi)
	fa := &Facts{p: p, c: c, in: map[*cfg.Block]*FactSet{}, opt: opt}
	out := map[*cfg.Block]*FactSet{}
	entryFacts := func() *FactSet {
		fs := newFactSet()
		for _, a := range opt.Assume {
			fs.add(a)
		}
		for _, a := range opt.Entry {
			fs.add(a)
		}
		return fs
	}
	fa.in[c.Entry()] = entryFacts()
	blocks := append([]*cfg.Block{}, c.live...)
	sort.Slice(blocks, func(i, j int) bool { return c.order[blocks[i]] < c.order[blocks[j]] })
	edgeFacts := func(pr, b *cfg.Block) *FactSet {
		o, ok := out[pr]
		if !ok {
			return nil // unvisited: top
		}
		fs := o.clone()
		if ct := c.CondTerm(pr); ct != nil && len(pr.Succs) == 2 && pr.Succs[0] != pr.Succs[1] {
			var t *Term
			if pr.Succs[0] == b {
				t = ct
			} else {
				t = Negate(ct)
			}
			if len(opt.Assume) > 0 && p.pureTerm(t) && fs.Holds(Negate(p.ExpandHelpers(t))) {
				return nil // infeasible under the assumptions
			}
			for _, cj := range Conjuncts(t) {
				if p.pureTerm(cj) {
					e := p.ExpandHelpers(cj)
					fs.add(e)
					// a < b with a known constant lower bound of a bounds b from below by a constant;
					// kept as its own atom because it survives a later change of a
					if (e.Op == "<" || e.Op == "<=") && len(e.Args) == 2 && !e.Args[0].IsConst() && !e.Args[1].IsConst() {
						if lo, okLo := fs.lowerConst(fs.resolvedAtoms(), e.Args[0], 0); okLo {
							if e.Op == "<" {
								lo++
							}
							if lo > 0 {
								fs.add(le(tConst(lo), e.Args[1]))
							}
						}
					}
				}
			}
		}
		return fs
	}
	for iter := 0; iter < 100; iter++ {
		changed := false
		for _, b := range blocks {
			var in *FactSet
			if b == c.Entry() {
				in = entryFacts()
			} else {
				// multi-value switch clause: all predecessors are tests of the same clause
				var orTerms []*Term
				allCase := b.Kind == cfg.KindSwitchCaseBody && len(c.preds[b]) > 1
				for _, pr := range c.preds[b] {
					var ef *FactSet
					if allCase && len(pr.Succs) == 2 && pr.Succs[0] == b && c.CondTerm(pr) != nil {
						if o, ok := out[pr]; ok {
							ef = o.clone()
							orTerms = append(orTerms, c.CondTerm(pr))
						}
					} else {
						allCase = false
						ef = edgeFacts(pr, b)
					}
					if ef == nil {
						continue
					}
					if in == nil {
						in = ef
					} else {
						in = intersectFacts(in, ef)
					}
				}
				if in == nil {
					continue
				}
				if allCase && len(orTerms) > 1 {
					or := normTerm(mk("||", orTerms...))
					if p.pureTerm(or) {
						in.add(or)
					}
				} else if allCase && len(orTerms) == 1 {
					in.add(orTerms[0])
				}
			}
			// entering a range body (re)binds the key and value variables
			if b.Kind == cfg.KindRangeBody {
				if rs, ok := b.Stmt.(*ast.RangeStmt); ok {
					in = in.clone()
					fa.killRangeVars(in, rs)
				}
			}
			if old, ok := fa.in[b]; ok && old.equal(in) && out[b] != nil {
				continue
			}
			fa.in[b] = in
			cur := in.clone()
			for _, n := range b.Nodes {
				fa.transfer(cur, n)
			}
			out[b] = cur
			changed = true
		}
		if !changed {
			break
		}
	}
	return fa
}

// At returns the facts holding just before node index pt.I of block pt.B.
func (fa *Facts) At(pt Point) *FactSet {
	in, ok := fa.in[pt.B]
	if !ok {
		return newFactSet()
	}
	cur := in.clone()
	for i := 0; i < pt.I && i < len(pt.B.Nodes); i++ {
		fa.transfer(cur, pt.B.Nodes[i])
	}
	cur.owner = fa
	return cur
}

// AtNode returns the facts that hold when the (sub)expression or statement n
// starts to execute, including short-circuit context inside its enclosing
// condition (go/cfg does not split && and ||).
func (fa *Facts) AtNode(n ast.Node) *FactSet {
	pt, ok := fa.c.PointOf(n)
	if !ok {
		return newFactSet()
	}
	fs := fa.At(pt)
	p := fa.p
	// short-circuit context
	for x := n; x != nil; x = p.parents[x] {
		par := p.parents[x]
		if be, ok := par.(*ast.BinaryExpr); ok && be.Y == x {
			switch be.Op {
			case token.LAND:
				t := p.Term(be.X)
				for _, cj := range Conjuncts(t) {
					if p.pureTerm(cj) {
						fs.add(p.ExpandHelpers(cj))
					}
				}
			case token.LOR:
				t := Negate(p.Term(be.X))
				for _, cj := range Conjuncts(t) {
					if p.pureTerm(cj) {
						fs.add(p.ExpandHelpers(cj))
					}
				}
			}
		}
		if par == nil {
			break
		}
		if _, isStmt := par.(ast.Stmt); isStmt {
			break
		}
	}
	return fs
}

// hasLockOp: the node (shallowly) calls Lock/Unlock/RLock/RUnlock of a sync mutex.
func (p *Prog) hasLockOp(n ast.Node) bool {
	found := false
	inspectShallow(n, func(x ast.Node) bool {
		if call, ok := x.(*ast.CallExpr); ok {
			if f := p.Callee(call); f != nil && f.Pkg() != nil && f.Pkg().Path() == "sync" {
				switch f.Name() {
				case "Lock", "Unlock", "RLock", "RUnlock":
					r := recvTypeName(f)
					if r == "Mutex" || r == "RWMutex" {
						found = true
					}
				}
			}
		}
		return true
	})
	return found
}

// killRangeVars removes the facts that mention the key/value variables of a
// range statement (go/cfg has no node for the per-iteration assignment).
func (fa *Facts) killRangeVars(fs *FactSet, rs *ast.RangeStmt) {
	p := fa.p
	vars := map[*types.Var]bool{}
	for _, e := range []ast.Expr{rs.Key, rs.Value} {
		if id, ok := e.(*ast.Ident); ok {
			o := p.Info.Defs[id]
			if o == nil {
				o = p.Info.Uses[id]
			}
			if v, ok := o.(*types.Var); ok {
				vars[v] = true
			}
		}
	}
	if len(vars) == 0 {
		return
	}
	mentions := func(t *Term) bool {
		m := false
		t.Walk(func(x *Term) {
			if x.Op == "var" {
				if v, ok := x.Obj.(*types.Var); ok && vars[v] {
					m = true
				}
			}
		})
		return m
	}
	for k, a := range fs.Atoms {
		if mentions(a) {
			delete(fs.Atoms, k)
		}
	}
	for v, d := range fs.Defs {
		if vars[v] || mentions(d) {
			delete(fs.Defs, v)
		}
	}
}

// lowerConst: the largest constant K with K <= t derivable from the atoms
// (directly, or through one chain Y <= t with a constant lower bound of Y).
func (f *FactSet) lowerConst(atoms map[string]*Term, t *Term, depth int) (int64, bool) {
	if t.IsConst() {
		return t.Int, true
	}
	best, ok := int64(0), false
	upd := func(v int64) {
		if !ok || v > best {
			best, ok = v, true
		}
	}
	tk := t.Key()
	for _, a := range atoms {
		switch a.Op {
		case "<=", "<":
			if a.Args[1].Key() != tk {
				continue
			}
			x := a.Args[0]
			add := int64(0)
			if a.Op == "<" {
				add = 1
			}
			if x.IsConst() {
				upd(x.Int + add)
			} else if depth < 2 {
				if v, o := f.lowerConst(atoms, x, depth+1); o {
					upd(v + add)
				}
			}
		case "==":
			for i := 0; i < 2; i++ {
				if a.Args[i].Key() == tk && a.Args[1-i].IsConst() {
					upd(a.Args[1-i].Int)
				}
			}
		}
	}
	if t.Op == "len" || t.Op == "cap" {
		upd(0)
	}
	if t.Op == "fld" && curProg != nil {
		if lo, _, o := curProg.constFieldRange(t.Obj); o {
			upd(lo)
		}
	}
	if t.Op == "fld" || t.Op == "var" {
		if v, isV := t.Obj.(*types.Var); isV {
			if b, isB := v.Type().Underlying().(*types.Basic); isB && b.Info()&types.IsUnsigned != 0 {
				upd(0)
			}
		}
	}
	return best, ok
}

func (f *FactSet) upperConst(atoms map[string]*Term, t *Term, depth int) (int64, bool) {
	if t.IsConst() {
		return t.Int, true
	}
	best, ok := int64(0), false
	upd := func(v int64) {
		if !ok || v < best {
			best, ok = v, true
		}
	}
	tk := t.Key()
	for _, a := range atoms {
		switch a.Op {
		case "<=", "<":
			if a.Args[0].Key() != tk {
				continue
			}
			x := a.Args[1]
			sub := int64(0)
			if a.Op == "<" {
				sub = 1
			}
			if x.IsConst() {
				upd(x.Int - sub)
			} else if depth < 2 {
				if v, o := f.upperConst(atoms, x, depth+1); o {
					upd(v - sub)
				}
			}
		case "==":
			for i := 0; i < 2; i++ {
				if a.Args[i].Key() == tk && a.Args[1-i].IsConst() {
					upd(a.Args[1-i].Int)
				}
			}
		}
	}
	if t.Op == "fld" && curProg != nil {
		if _, hi, o := curProg.constFieldRange(t.Obj); o {
			upd(hi)
		}
	}
	return best, ok
}

// curProg is the program of the configuration being analysed (the analyses run one
// configuration at a time); used for package-wide field invariants.
var curProg *Prog

// constFieldRange: every store to the field anywhere in the package is an integer
// constant (composite literals included): the field always lies in [lo, hi]
// (together with the zero value when a constructor leaves it unset).
func (p *Prog) constFieldRange(o types.Object) (lo, hi int64, ok bool) {
	f, isVar := o.(*types.Var)
	if !isVar || !f.IsField() {
		return 0, 0, false
	}
	type rng struct {
		lo, hi int64
		ok     bool
	}
	memo, _ := p.memo["constfieldrange"].(map[*types.Var]rng)
	if memo == nil {
		memo = map[*types.Var]rng{}
		p.memo["constfieldrange"] = memo
	}
	if v, seen := memo[f]; seen {
		return v.lo, v.hi, v.ok
	}
	memo[f] = rng{}                    // guards against recursion through Term construction
	res := rng{lo: 0, hi: 0, ok: true} // the zero value
	n := 0
	for _, st := range p.FieldStores(f) {
		n++
		if st.Rhs == nil || st.Tok != token.ASSIGN && st.Tok != token.DEFINE && !st.InLit {
			res.ok = false
			break
		}
		c, isC := p.constVal(st.Rhs)
		if !isC {
			res.ok = false
			break
		}
		if c < res.lo {
			res.lo = c
		}
		if c > res.hi {
			res.hi = c
		}
	}
	if n == 0 {
		res.ok = false
	}
	memo[f] = res
	return res.lo, res.hi, res.ok
}

// stripBoundedConv removes an integer conversion whose operand is known (by the
// facts) to lie in [0, 2^31): in that range the conversion keeps the value.
func (p *Prog) stripBoundedConv(fs *FactSet, t *Term) *Term {
	for t.Op == "conv" && len(t.Args) == 1 {
		atoms := fs.resolvedAtoms()
		lo, okL := fs.lowerConst(atoms, t.Args[0], 0)
		hi, okH := fs.upperConst(atoms, t.Args[0], 0)
		if okL && okH && lo >= 0 && hi < (1<<31) {
			t = t.Args[0]
			continue
		}
		break
	}
	return t
}
