package main

import (
	"fmt"
	"go/ast"
	"go/token"
	"go/types"
)

func init() {
	register(&propCheck{
		id:  "C18",
		run: checkC18,
		explain: "The bound half is decided completely: every store to rx_rto in the package is a constant inside [IKCP_RTO_MIN, IKCP_RTO_MAX] or an expression whose symbolic bounds over the min/max lattice " +
			"(or the dominating facts of an if-form clamp) give rx_minrto <= value <= IKCP_RTO_MAX; every store to rx_minrto is one of the two configured constants under the matching nodelay test; RTT samples " +
			"reach the estimator only when non-negative and only from regular packets; GetRTO returns rx_rto. The no-spurious-retransmission half is timing; decided for it are its structural necessary conditions: " +
			"every (re)transmission arms resendts = current + rto with rto taken from rx_rto, every decision to send is justified by first transmission, fast-ack evidence, or an expired resend timestamp, and " +
			"the fast-ack counter only counts acknowledgements of later segments sent no earlier.",
		assume: []string{
			"SetNoDelay during traffic leaves rx_rto unclamped until the next sample (configuration change during traffic: outside the property's quantifier)",
			"that every data segment is transmitted exactly once on a clean path is a timing statement and is not decided",
		},
	})
}

// bounds over the min/max lattice: lower(t) = terms L with t >= L, upper(t) = terms U with t <= U.
func minmaxBounds(t *Term) (lower, upper map[string]*Term) {
	lower, upper = map[string]*Term{}, map[string]*Term{}
	switch t.Op {
	case "min":
		first := true
		for _, a := range t.Args {
			lo, up := minmaxBounds(a)
			for k, v := range up {
				upper[k] = v
			}
			if first {
				for k, v := range lo {
					lower[k] = v
				}
				first = false
			} else {
				for k := range lower {
					if _, ok := lo[k]; !ok {
						delete(lower, k)
					}
				}
			}
		}
	case "max":
		first := true
		for _, a := range t.Args {
			lo, up := minmaxBounds(a)
			for k, v := range lo {
				lower[k] = v
			}
			if first {
				for k, v := range up {
					upper[k] = v
				}
				first = false
			} else {
				for k := range upper {
					if _, ok := up[k]; !ok {
						delete(upper, k)
					}
				}
			}
		}
	default:
		lower[t.Key()] = t
		upper[t.Key()] = t
	}
	return
}

// minmaxBoundsIgnoring: like minmaxBounds, but a constant argument >= floor of a
// min() does not weaken lower bounds (valid for lower bounds that are themselves
// known to be <= floor: every store to rx_minrto is <= IKCP_RTO_MIN by C18.R2).
func minmaxBoundsIgnoring(t *Term, floor int64) (lower, upper map[string]*Term) {
	if t.Op != "min" {
		if t.Op == "max" {
			lower, upper = map[string]*Term{}, map[string]*Term{}
			first := true
			for _, a := range t.Args {
				lo, up := minmaxBoundsIgnoring(a, floor)
				for k, v := range lo {
					lower[k] = v
				}
				if first {
					for k, v := range up {
						upper[k] = v
					}
					first = false
				} else {
					for k := range upper {
						if _, ok := up[k]; !ok {
							delete(upper, k)
						}
					}
				}
			}
			return
		}
		return minmaxBounds(t)
	}
	lower, upper = map[string]*Term{}, map[string]*Term{}
	first := true
	for _, a := range t.Args {
		lo, up := minmaxBoundsIgnoring(a, floor)
		for k, v := range up {
			upper[k] = v
		}
		if a.IsConst() && a.Int >= floor {
			continue
		}
		if first {
			for k, v := range lo {
				lower[k] = v
			}
			first = false
		} else {
			for k := range lower {
				if _, ok := lo[k]; !ok {
					delete(lower, k)
				}
			}
		}
	}
	return
}

func checkC18(p *Prog, r *Report) {
	r.rule("C18.R1", "every store to rx_rto is a constant in [IKCP_RTO_MIN, IKCP_RTO_MAX] or is bounded below by rx_minrto and above by IKCP_RTO_MAX (min/max lattice or dominating clamp facts)", 2)
	r.rule("C18.R2", "every store to rx_minrto is IKCP_RTO_NDL under nodelay != 0, IKCP_RTO_MIN under nodelay == 0, or the constructor's IKCP_RTO_MIN", 3)
	r.rule("C18.R3", "update_ack is called only with the non-negative sample _itimediff(current, latest) and only for regular (non-FEC) packets", 1)
	r.rule("C18.R4", "every decision to (re)transmit arms the timer: rto is taken from / advanced by rx_rto and resendts = current + rto in the same arm", 4)
	r.rule("C18.R5", "a segment is sent only on evidence: first transmission, fastack >= resent (resent = fastresend if > 0 else never), early retransmit (fastack > 0, nothing new), or _itimediff(current, resendts) >= 0; fastack counts only acks of later segments sent no earlier", 5)
	r.rule("C18.R8", "acknowledgements are not delayed beyond the flush interval: the interval flush returns (which the session uses to re-arm itself) starts as kcp.interval and is only ever lowered — every other assignment is dominated by 'new value < current value' (or is a min with it). A receiver that sleeps longer than its interval acknowledges late and the sender's timer fires on a clean path", 2)
	r.rule("C18.R10", "a session is flushed at its own interval whatever else shares the scheduler: after a task is inserted the worker re-arms its timer for the new earliest deadline (= C17.H3) — otherwise acknowledgements wait for the longest interval of any other session on that worker", 1)
	r.rule("C18.R11", "what the core put on the wire reaches the socket: a batch write that accepts fewer messages than offered is continued (= C09.L10) — datagrams dropped inside the sending host are retransmitted on a clean path", 1)
	r.rule("C18.R9", "the cumulative acknowledgement always has a carrier: the ack loop of flush always encodes the newest entry (= C02.A2) — a withheld una leaves acknowledged data outstanding at the sender until its timer fires", 1)
	r.rule("C18.R7", "the sender's view of the peer's window comes from the peer only (constructor default, then the advertised wnd of regular packets): a locally invented larger value puts segments beyond the peer's window on the wire, where they are discarded and retransmitted on a clean path (= C03.P5)", 2)
	r.rule("C18.R6", "GetRTO returns the core's rx_rto", 1)
	delegate(p, r, "C03", checkC03, "C03.P5", "C18.R7")
	delegate(p, r, "C02", checkC02, "C02.A2", "C18.R9")
	delegate(p, r, "C17", checkC17, "C17.H3", "C18.R10")
	delegate(p, r, "C09", checkC09, "C09.L10", "C18.R11")
	checkFlushIntervalOnlyLowered(p, r, "C18.R8")

	rtoMin, rtoMax, rtoNdl := p.ConstInt("IKCP_RTO_MIN"), p.ConstInt("IKCP_RTO_MAX"), p.ConstInt("IKCP_RTO_NDL")
	fRto := p.Field("KCP", "rx_rto")
	fMin := p.Field("KCP", "rx_minrto")

	// R1
	for _, st := range p.FieldStores(fRto) {
		construct := "store(KCP.rx_rto)"
		if st.Rhs == nil {
			r.bad("C18.R1", st.Fn.Name, p.Pos(st.Node), construct, "rx_rto modified in place without clamp", "")
			continue
		}
		construct = "rx_rto = " + exprString(st.Rhs)
		fs := p.FactsOf(st.Fn).AtNode(st.Node)
		t := fs.Resolve(p.Term(st.Rhs))
		if st.Tok != token.ASSIGN {
			r.bad("C18.R1", st.Fn.Name, p.Pos(st.Node), construct, "rx_rto updated with "+st.Tok.String()+" (not re-clamped)", "")
			continue
		}
		if t.IsConst() {
			r.check(t.Int >= rtoMin && t.Int <= rtoMax, "C18.R1", st.Fn.Name, p.Pos(st.Node), construct,
				fmt.Sprintf("constant %d within [%d, %d]", t.Int, rtoMin, rtoMax), fmt.Sprintf("constant %d outside [%d, %d]", t.Int, rtoMin, rtoMax))
			continue
		}
		lo, up := minmaxBoundsIgnoring(t, rtoMin)
		minrto := tFld(st.Base, fMin)
		_, loOK := lo[minrto.Key()]
		upOK := false
		for _, u := range up {
			if u.IsConst() && u.Int <= rtoMax {
				upOK = true
			}
		}
		// if-form clamp: dominating facts about the stored value
		raw := p.Term(st.Rhs)
		if !loOK && (fs.Holds(le(minrto, raw)) || fs.Holds(le(minrto, t))) {
			loOK = true
		}
		if !upOK && (fs.Holds(le(raw, tConst(rtoMax))) || fs.Holds(le(t, tConst(rtoMax)))) {
			upOK = true
		}
		switch {
		case loOK && upOK:
			r.ok("C18.R1", st.Fn.Name, p.Pos(st.Node), construct, fmt.Sprintf("rx_minrto <= value <= %d", rtoMax))
		default:
			why := ""
			if !loOK {
				why += "no lower bound rx_minrto; "
			}
			if !upOK {
				why += fmt.Sprintf("no upper bound <= IKCP_RTO_MAX (%d); ", rtoMax)
			}
			r.bad("C18.R1", st.Fn.Name, p.Pos(st.Node), construct, why+"value = "+pretty(t.Key()), "")
		}
	}

	// R2
	for _, st := range p.FieldStores(fMin) {
		construct := "store(KCP.rx_minrto)"
		if st.Rhs == nil {
			r.bad("C18.R2", st.Fn.Name, p.Pos(st.Node), construct, "modified in place", "")
			continue
		}
		construct = "rx_minrto = " + exprString(st.Rhs)
		t := p.Term(st.Rhs)
		if !t.IsConst() || (t.Int != rtoMin && t.Int != rtoNdl) {
			r.bad("C18.R2", st.Fn.Name, p.Pos(st.Node), construct, fmt.Sprintf("not one of the configured minima (%d, %d)", rtoNdl, rtoMin), "")
			continue
		}
		if st.Fn.Name == "NewKCP" {
			r.check(t.Int == rtoMin, "C18.R2", st.Fn.Name, p.Pos(st.Node), construct, "constructor default IKCP_RTO_MIN", "constructor default is not IKCP_RTO_MIN")
			continue
		}
		// which nodelay test dominates? an integer parameter/field compared with 0
		c := p.CFG(st.Fn)
		pt, _ := c.PointOf(st.Node)
		var nz, z bool
		for _, ct := range c.DominatingConds(pt) {
			for _, a := range Conjuncts(ct) {
				if (a.Op == "!=" || a.Op == "==") && len(a.Args) == 2 {
					for i := 0; i < 2; i++ {
						if a.Args[i].IsConst() && a.Args[i].Int == 0 && isNodelayTerm(p, a.Args[1-i], st.Fn) {
							if a.Op == "!=" {
								nz = true
							} else {
								z = true
							}
						}
					}
				}
				if a.Op == "<" && a.Args[0].IsConst() && a.Args[0].Int == 0 && isNodelayTerm(p, a.Args[1], st.Fn) {
					nz = true
				}
			}
		}
		switch {
		case t.Int == rtoNdl && nz && !z:
			r.ok("C18.R2", st.Fn.Name, p.Pos(st.Node), construct, "IKCP_RTO_NDL under nodelay != 0")
		case t.Int == rtoMin && z && !nz:
			r.ok("C18.R2", st.Fn.Name, p.Pos(st.Node), construct, "IKCP_RTO_MIN under nodelay == 0")
		default:
			r.bad("C18.R2", st.Fn.Name, p.Pos(st.Node), construct, "the constant does not match the nodelay test it is stored under", "")
		}
	}

	// R2 (must-store): wherever the nodelay mode is stored, the matching minimum is stored on every path
	for _, st := range p.FieldStores(p.Field("KCP", "nodelay")) {
		c := p.CFG(st.Fn)
		pt, _ := c.PointOf(st.Node)
		res := c.FindPath(PathQuery{From: Point{pt.B, pt.I + 1}, ExitIsTarget: true, IsBarrier: func(n ast.Node, _ Point) bool {
			as, ok := n.(*ast.AssignStmt)
			if !ok {
				return false
			}
			for _, l := range as.Lhs {
				if t := p.Term(l); t.Op == "fld" && t.Obj == fMin {
					return true
				}
			}
			return false
		}})
		if res.Found {
			r.bad("C18.R2", st.Fn.Name, p.Pos(st.Node), "mode change stores the minimum", "a path changes the nodelay mode without storing the matching rx_minrto: after switching no-delay off the 30 ms minimum stays in force (RTO below the configured 100 ms)", c.DescribePath(res.Path))
		} else {
			r.ok("C18.R2", st.Fn.Name, p.Pos(st.Node), "mode change stores the minimum", "every path from the nodelay store stores rx_minrto")
		}
	}

	// R3
	upd := p.Method("KCP", "update_ack")
	for _, s := range p.CallsTo(upd) {
		fa := p.FactsOf(s.Fn)
		fs := fa.AtNode(s.Call)
		arg := fs.Resolve(p.ExpandHelpers(s.Args[0]))
		construct := "update_ack(" + exprString(s.Call.Args[0]) + ")"
		// the sample must be a signed difference current - X with the dominating fact 0 <= that difference
		nonneg := fs.Holds(le(tConst(0), arg))
		isDiff := arg.Op == "conv" && arg.Str == "int32" && arg.Args[0].Op == "-"
		fromClock := false
		if isDiff {
			arg.Args[0].Args[0].Walk(func(x *Term) {
				if x.Op == "call" {
					if f, ok := x.Obj.(*types.Func); ok && (f == p.Func("currentMs") || isExtFunc(f, "time", "", "Since") || isExtFunc(f, "time", "", "Now")) {
						fromClock = true
					}
				}
			})
		}
		// regular packets only
		regular := false
		var pkt *types.Var
		if s.Fn.Decl != nil {
			for _, fl := range s.Fn.Decl.Type.Params.List {
				for _, nm := range fl.Names {
					if v, ok := p.Info.Defs[nm].(*types.Var); ok && p.isPkgNamed(v.Type(), "PacketType") {
						pkt = v
					}
				}
			}
		}
		if pkt != nil {
			regular = fs.Holds(eq(tVar(pkt), tConst(p.ConstInt("IKCP_PACKET_REGULAR"))))
		} else {
			// the sampling was moved into a helper: the restriction to regular packets lives at its call sites
			regular = p.holdsAtAllCallers(s.Fn, 0, func(cfs *FactSet, caller *FuncInfo, _ *ast.CallExpr) bool {
				if caller.Decl == nil {
					return false
				}
				for _, fl := range caller.Decl.Type.Params.List {
					for _, nm := range fl.Names {
						if v, ok := p.Info.Defs[nm].(*types.Var); ok && p.isPkgNamed(v.Type(), "PacketType") {
							return cfs.Holds(eq(tVar(v), tConst(p.ConstInt("IKCP_PACKET_REGULAR"))))
						}
					}
				}
				return false
			})
		}
		if nonneg && isDiff && fromClock && regular {
			r.ok("C18.R3", s.Fn.Name, p.Pos(s.Call), construct, "sample = _itimediff(currentMs(), ts) >= 0, regular packets only")
		} else {
			r.bad("C18.R3", s.Fn.Name, p.Pos(s.Call), construct, fmt.Sprintf("sample non-negative: %v; is a signed difference: %v; minuend is the current clock: %v; dominated by pktType == IKCP_PACKET_REGULAR: %v", nonneg, isDiff, fromClock, regular), p.unguardedPath(s.Fn, s.Call, nil))
		}
	}

	checkArming(p, r, "C18.R4")
	checkSendEvidence(p, r, "C18.R5")

	// R6
	if m := p.TryMethod("UDPSession", "GetRTO"); m != nil {
		fi := p.FuncOf(m)
		okR := false
		n := 0
		inspectBody(fi, func(x ast.Node) bool {
			if ret, ok := x.(*ast.ReturnStmt); ok && len(ret.Results) == 1 {
				n++
				t := p.Term(ret.Results[0])
				if b, ok := fieldBase(t, fRto); ok {
					if _, ok := fieldBase(b, p.Field("UDPSession", "kcp")); ok {
						okR = true
					}
				} else {
					okR = false
				}
			}
			return true
		})
		r.check(okR && n == 1, "C18.R6", fi.Name, p.Pos(fi.Node), "GetRTO result", "returns s.kcp.rx_rto", "GetRTO does not return the core's rx_rto")
	} else {
		r.bad("C18.R6", "(*UDPSession).GetRTO", "-", "GetRTO", "method not found", "")
	}
}

func isNodelayTerm(p *Prog, t *Term, fi *FuncInfo) bool {
	// the nodelay parameter of the function or the nodelay field
	if t.Op == "conv" {
		t = t.Args[0]
	}
	if t.Op == "var" && t.Obj.Name() == "nodelay" {
		return true
	}
	if t.Op == "fld" && t.Obj == p.Field("KCP", "nodelay") {
		return true
	}
	return false
}

// sendLoop locates the retransmission loop of flush: the range statement over snd_buf.ForEach
// whose body encodes segments; returns the loop variable.
func sendLoop(p *Prog) (*FuncInfo, *ast.RangeStmt, *types.Var) {
	flush := p.FuncOf(p.Method("KCP", "flush"))
	var loop *ast.RangeStmt
	var lv *types.Var
	encode := p.Method("segment", "encode")
	ast.Inspect(flush.Body, func(n ast.Node) bool {
		rs, ok := n.(*ast.RangeStmt)
		if !ok {
			return true
		}
		t := p.Term(rs.X)
		if t.Op != "mval" || t.Obj != p.Method("RingBuffer", "ForEach") {
			return true
		}
		if _, ok := fieldBase(t.Args[0], p.Field("KCP", "snd_buf")); !ok {
			return true
		}
		// body calls encode on the loop variable
		id, ok := rs.Key.(*ast.Ident)
		if !ok {
			return true
		}
		v, _ := p.Info.Defs[id].(*types.Var)
		has := false
		ast.Inspect(rs.Body, func(m ast.Node) bool {
			if c, ok := m.(*ast.CallExpr); ok && p.Callee(c) == encode {
				if s := p.siteOf(c, flush); s.Recv != nil && s.Recv.Op == "var" && s.Recv.Obj == v {
					has = true
				}
			}
			return true
		})
		if has {
			loop, lv = rs, v
		}
		return true
	})
	return flush, loop, lv
}

// needsendVar finds the boolean that gates the transmission in the loop: the local
// tested by the if statement that contains the encode call.
func needsendVar(p *Prog, loop *ast.RangeStmt, lv *types.Var) (*types.Var, *ast.IfStmt) {
	encode := p.Method("segment", "encode")
	var nv *types.Var
	var ifs *ast.IfStmt
	ast.Inspect(loop.Body, func(n ast.Node) bool {
		is, ok := n.(*ast.IfStmt)
		if !ok {
			return true
		}
		id, ok := ast.Unparen(is.Cond).(*ast.Ident)
		if !ok {
			return true
		}
		has := false
		ast.Inspect(is.Body, func(m ast.Node) bool {
			if c, ok := m.(*ast.CallExpr); ok && p.Callee(c) == encode {
				has = true
			}
			return true
		})
		if has {
			nv, _ = p.Info.Uses[id].(*types.Var)
			ifs = is
		}
		return true
	})
	return nv, ifs
}

// checkArming: C18.R4 / C02.A4.
func checkArming(p *Prog, r *Report, rule string) {
	flush, loop, lv := sendLoop(p)
	if loop == nil {
		r.bad(rule, flush.Name, p.Pos(flush.Node), "retransmission loop", "no loop over snd_buf.ForEach that encodes segments found in flush", "")
		return
	}
	nv, _ := needsendVar(p, loop, lv)
	if nv == nil {
		r.bad(rule, flush.Name, p.Pos(loop), "retransmission loop", "the transmission is not gated by a boolean decided in the loop", "")
		return
	}
	fRes := p.Field("segment", "resendts")
	fSegRto := p.Field("segment", "rto")
	fRxRto := p.Field("KCP", "rx_rto")
	c := p.CFG(flush)
	n := 0
	for _, a := range p.Assignments(flush, nv) {
		as, ok := a.Node.(*ast.AssignStmt)
		if !ok || a.Rhs == nil {
			continue
		}
		if t := p.Term(a.Rhs); t.Op != "true" {
			continue
		}
		n++
		pt, _ := c.PointOf(as)
		construct := fmt.Sprintf("arm #%d: %s = true", n, nv.Name())
		// on every path from the decision to the transmission test: a store seg.rto
		// (= rx_rto | += f(rx_rto)) and, after it, seg.resendts = current + seg.rto
		isRtoStore := func(nd ast.Node, _ Point) bool {
			st, ok := nd.(*ast.AssignStmt)
			if !ok || len(st.Lhs) != 1 || len(st.Rhs) != 1 {
				return false
			}
			if b, ok := fieldBase(p.Term(st.Lhs[0]), fSegRto); ok && b.Op == "var" && b.Obj == lv {
				rt := p.Term(st.Rhs[0])
				// derived from rx_rto: mentions it, or mentions a local every assignment of which mentions it (backoff := rx_rto; if … { backoff = rx_rto/2 })
				fromRto := termHasField(rt, fRxRto)
				if !fromRto {
					rt.Walk(func(t *Term) {
						if t.Op != "var" {
							return
						}
						v, isV := t.Obj.(*types.Var)
						if !isV || v.IsField() {
							return
						}
						as := p.Assignments(flush, v)
						all := len(as) > 0
						for _, a := range as {
							if a.Rhs == nil || !termHasField(p.Term(a.Rhs), fRxRto) {
								all = false
							}
						}
						if all {
							fromRto = true
						}
					})
				}
				// forms: rto = rx_rto | rto += f | rto = rto + f
				selfPlus := false
				if st.Tok == token.ASSIGN && rt.Op == "+" {
					for _, a := range rt.Args {
						if a.Key() == p.Term(st.Lhs[0]).Key() {
							selfPlus = true
						}
					}
				}
				return fromRto && (st.Tok == token.ASSIGN && rt.Op == "fld" || st.Tok == token.ADD_ASSIGN || selfPlus)
			}
			return false
		}
		isResStore := func(nd ast.Node, _ Point) bool {
			st, ok := nd.(*ast.AssignStmt)
			if !ok || len(st.Lhs) != 1 || len(st.Rhs) != 1 || st.Tok != token.ASSIGN {
				return false
			}
			if b, ok := fieldBase(p.Term(st.Lhs[0]), fRes); ok && b.Op == "var" && b.Obj == lv {
				rt := p.Term(st.Rhs[0])
				if rt.Op == "+" && len(rt.Args) == 2 {
					for k := 0; k < 2; k++ {
						x, y := rt.Args[k], rt.Args[1-k]
						if bb, ok := fieldBase(y, fSegRto); ok && bb.Op == "var" && bb.Obj == lv && x.Op == "var" {
							if kd := p.Kinds().kindOf(p.Kinds().nodes[x.Obj]); kd == KTime {
								return true
							}
						}
					}
				}
			}
			return false
		}
		// the transmission: the encoding of this segment (what happens between the decision and the test of the
		// decision flag, or between that test and the encoding, is equally "before the segment goes out")
		isSendTest := func(nd ast.Node, _ Point) bool {
			hit := false
			inspectShallow(nd, func(x ast.Node) bool {
				if call, ok := x.(*ast.CallExpr); ok && p.Callee(call) == p.Method("segment", "encode") {
					if sel, ok := ast.Unparen(call.Fun).(*ast.SelectorExpr); ok {
						if t := p.Term(sel.X); t.Op == "var" && t.Obj == types.Object(lv) {
							hit = true
						}
					}
				}
				return true
			})
			return hit
		}
		_ = nv
		start := Point{pt.B, pt.I + 1}
		noRto := c.FindPath(PathQuery{From: start, IsTarget: isSendTest, IsBarrier: isRtoStore})
		// from the decision, reach the test without a resendts store that follows an rto store:
		// approximate by: no path decision -> test avoiding the resendts store, and no path
		// resendts store -> rto store -> test (re-ordering)
		noRes := c.FindPath(PathQuery{From: start, IsTarget: isSendTest, IsBarrier: isResStore})
		reordered := false
		if !noRes.Found && !noRto.Found {
			// is there a path on which the resendts store comes before the rto store?
			first := c.FindPath(PathQuery{From: start, IsTarget: isResStore, IsBarrier: isRtoStore})
			reordered = first.Found
		}
		switch {
		case noRto.Found:
			r.bad(rule, flush.Name, p.Pos(as), construct, "a path from the decision to send reaches the transmission without taking rto from rx_rto", c.DescribePath(noRto.Path))
		case noRes.Found:
			r.bad(rule, flush.Name, p.Pos(as), construct, "a path from the decision to send reaches the transmission without arming resendts = current + rto", c.DescribePath(noRes.Path))
		case reordered:
			r.bad(rule, flush.Name, p.Pos(as), construct, "resendts is computed before rto is updated", "")
		default:
			r.ok(rule, flush.Name, p.Pos(as), construct, "on every path: rto from rx_rto, then resendts = current + rto, before the transmission")
		}
	}
	if n == 0 {
		r.bad(rule, flush.Name, p.Pos(loop), "retransmission loop", "no arm sets the send decision", "")
	}
}

// checkSendEvidence: C18.R5.
func checkSendEvidence(p *Prog, r *Report, rule string) {
	flush, loop, lv := sendLoop(p)
	if loop == nil {
		return
	}
	nv, _ := needsendVar(p, loop, lv)
	if nv == nil {
		return
	}
	c := p.CFG(flush)
	fa := p.FactsOf(flush)
	seg := tVar(lv)
	fast := p.F(seg, "segment", "fastack")
	xmit := p.F(seg, "segment", "xmit")
	res := p.F(seg, "segment", "resendts")
	never := tConst(0xFFFFFFFF)
	n := 0
	for _, a := range p.Assignments(flush, nv) {
		as, ok := a.Node.(*ast.AssignStmt)
		if !ok || a.Rhs == nil || p.Term(a.Rhs).Op != "true" {
			continue
		}
		n++
		pt, _ := c.PointOf(as)
		fs := fa.At(Point{pt.B, 0})
		var conds []*Term
		for _, ct := range c.DominatingConds(pt) {
			conds = append(conds, Conjuncts(p.ExpandHelpers(ct))...)
		}
		has := func(t *Term) bool {
			t = normTerm(t)
			for _, cd := range conds {
				if fs.Resolve(cd).Key() == t.Key() || cd.Key() == t.Key() {
					return true
				}
			}
			return false
		}
		construct := fmt.Sprintf("evidence for arm #%d: %s = true", n, nv.Name())
		kind := ""
		switch {
		case has(eq(xmit, tConst(0))):
			kind = "first transmission (xmit == 0)"
		case has(ne(fast, never)) && hasFastThreshold(p, conds, fast, flush, fs):
			kind = "fast retransmit (fastack >= resent, resent = fastresend if > 0 else never)"
		case has(ne(fast, never)) && has(lt(tConst(0), fast)) && hasNothingNew(p, conds, flush):
			kind = "early retransmit (fastack > 0, no new segment in this flush)"
		default:
			// RTO: 0 <= diff(current, resendts)
			for _, cd := range conds {
				if cd.Op == "<=" && cd.Args[0].IsConst() && cd.Args[0].Int == 0 {
					d := cd.Args[1]
					if d.Op == "conv" && d.Args[0].Op == "-" && d.Args[0].Args[1].Key() == res.Key() {
						cur := d.Args[0].Args[0]
						if cur.Op == "var" && p.Kinds().kindOf(p.Kinds().nodes[cur.Obj]) == KTime {
							kind = "timeout (_itimediff(current, resendts) >= 0)"
						}
					}
				}
			}
		}
		if kind != "" {
			r.ok(rule, flush.Name, p.Pos(as), construct, kind)
		} else {
			var cs []string
			for _, cd := range conds {
				cs = append(cs, pretty(cd.Key()))
			}
			r.bad(rule, flush.Name, p.Pos(as), construct, fmt.Sprintf("the decision to send is not justified by first transmission, fast-ack evidence or an expired resend timestamp; controlling conditions: %v", cs), "")
		}
	}
	// fastack counting
	fFast := p.Field("segment", "fastack")
	nInc := 0
	for _, st := range p.FieldStores(fFast) {
		if _, ok := p.incBy1(st.Node); !ok {
			continue
		}
		nInc++
		fi := st.Fn
		root := rootFuncInfo(fi)
		cc := p.CFG(fi)
		pt, _ := cc.PointOf(st.Node)
		var conds []*Term
		for _, ct := range cc.DominatingConds(pt) {
			conds = append(conds, Conjuncts(p.ExpandHelpers(ct))...)
		}
		segT := st.Base
		segSn := p.F(segT, "segment", "sn")
		segTs := p.F(segT, "segment", "ts")
		var later, notSame, notNewer bool
		for _, cd := range conds {
			// 0 <= diff(sn, seg.sn)
			if cd.Op == "<=" && cd.Args[0].IsConst() && cd.Args[0].Int == 0 {
				d := cd.Args[1]
				if d.Op == "conv" && d.Args[0].Op == "-" && d.Args[0].Args[1].Key() == segSn.Key() {
					later = true
				}
			}
			if cd.Op == "<" && cd.Args[0].IsConst() && cd.Args[0].Int == 0 {
				d := cd.Args[1]
				if d.Op == "conv" && d.Args[0].Op == "-" && d.Args[0].Args[1].Key() == segSn.Key() {
					later, notSame = true, true
				}
			}
			if cd.Op == "!=" && (cd.Args[0].Key() == segSn.Key() || cd.Args[1].Key() == segSn.Key()) {
				notSame = true
			}
			// diff(seg.ts, ts) <= 0
			if cd.Op == "<=" && cd.Args[1].IsConst() && cd.Args[1].Int == 0 {
				d := cd.Args[0]
				if d.Op == "conv" && d.Args[0].Op == "-" && d.Args[0].Args[0].Key() == segTs.Key() {
					notNewer = true
				}
			}
		}
		construct := "fastack++ in " + root.Name
		if later && notSame && notNewer {
			r.ok(rule, root.Name, p.Pos(st.Node), construct, "only for an ack of a later sequence number whose echoed timestamp is not older than the segment's")
		} else {
			r.bad(rule, root.Name, p.Pos(st.Node), construct, fmt.Sprintf("counts without evidence of being overtaken (acked sn later: %v, different segment: %v, segment sent no later than the acked one: %v)", later, notSame, notNewer), "")
		}
	}
	if nInc == 0 {
		r.bad(rule, "(*KCP).parse_fastack", "-", "fastack++", "no increment of segment.fastack found", "")
	}
}

func hasFastThreshold(p *Prog, conds []*Term, fast *Term, fi *FuncInfo, fs *FactSet) bool {
	// resent <= fastack where resent is a local whose assignments are conv(kcp.fastresend) and the constant 0xffffffff under fastresend <= 0
	for _, cd := range conds {
		if cd.Op != "<=" || cd.Args[1].Key() != fast.Key() || cd.Args[0].Op != "var" {
			continue
		}
		v, _ := cd.Args[0].Obj.(*types.Var)
		okAll := true
		nAs := 0
		for _, a := range p.Assignments(fi, v) {
			nAs++
			if a.Rhs == nil {
				okAll = false
				continue
			}
			t := p.Term(a.Rhs)
			if termHasField(t, p.Field("KCP", "fastresend")) {
				continue
			}
			if t.IsConst() && t.Int == 0xffffffff {
				// must be under fastresend <= 0
				c := p.CFG(fi)
				pt, _ := c.PointOf(a.Node)
				under := false
				for _, ct := range c.DominatingConds(pt) {
					for _, x := range Conjuncts(ct) {
						if (x.Op == "<=" || x.Op == "==") && termHasField(x, p.Field("KCP", "fastresend")) {
							under = true
						}
					}
				}
				if under {
					continue
				}
			}
			okAll = false
		}
		if okAll && nAs > 0 {
			return true
		}
	}
	return false
}

func hasNothingNew(p *Prog, conds []*Term, fi *FuncInfo) bool {
	// a local counter == 0 that is incremented only next to snd_buf.Push
	for _, cd := range conds {
		if cd.Op != "==" {
			continue
		}
		for i := 0; i < 2; i++ {
			if cd.Args[i].IsConst() && cd.Args[i].Int == 0 && cd.Args[1-i].Op == "var" {
				v, _ := cd.Args[1-i].Obj.(*types.Var)
				incs := 0
				okAll := true
				for _, a := range p.Assignments(fi, v) {
					if _, ok := p.incBy1(a.Node); ok {
						incs++
						// same block as a snd_buf.Push
						c := p.CFG(fi)
						pt, _ := c.PointOf(a.Node)
						hasPush := false
						for _, nd := range pt.B.Nodes {
							inspectShallow(nd, func(x ast.Node) bool {
								if call, ok := x.(*ast.CallExpr); ok && p.Callee(call) == p.Method("RingBuffer", "Push") {
									if s := p.siteOf(call, fi); s.Recv != nil {
										if _, ok := fieldBase(s.Recv, p.Field("KCP", "snd_buf")); ok {
											hasPush = true
										}
									}
								} else if ok {
									// an unexported helper that pushes into snd_buf on every path through it
									if f := p.Callee(call); f != nil && !f.Exported() {
										if h := p.FuncOf(f); h != nil && h.Body != nil && alwaysPushesSndBuf(p, h) {
											hasPush = true
										}
									}
								}
								return true
							})
						}
						if !hasPush {
							okAll = false
						}
					} else if a.Rhs != nil {
						if t := p.Term(a.Rhs); !(t.IsConst() && t.Int == 0) {
							okAll = false
						}
					}
				}
				if incs > 0 && okAll {
					return true
				}
			}
		}
	}
	return false
}

// checkFlushIntervalOnlyLowered: C18.R8.
func checkFlushIntervalOnlyLowered(p *Prog, r *Report, rule string) {
	flush := p.FuncOf(p.Method("KCP", "flush"))
	self := tVar(p.selfVar(flush))
	interval := p.F(self, "KCP", "interval")
	// the variable flush returns
	var rv *types.Var
	okRet := true
	inspectBody(flush, func(x ast.Node) bool {
		rs, ok := x.(*ast.ReturnStmt)
		if !ok {
			return true
		}
		if len(rs.Results) == 0 {
			return true // named result
		}
		if len(rs.Results) != 1 {
			okRet = false
			return true
		}
		t := p.Term(rs.Results[0])
		if t.Op == "var" {
			v, _ := t.Obj.(*types.Var)
			if rv != nil && rv != v {
				okRet = false
			}
			rv = v
		} else if t.Key() != interval.Key() {
			okRet = false
		}
		return true
	})
	if rv == nil && flush.Decl.Type.Results != nil {
		for _, fl := range flush.Decl.Type.Results.List {
			for _, nm := range fl.Names {
				rv, _ = p.Info.Defs[nm].(*types.Var)
			}
		}
	}
	if rv == nil || !okRet {
		r.bad(rule, flush.Name, p.Pos(flush.Node), "interval returned by flush", "flush does not return one variable on all paths (or kcp.interval): the returned interval cannot be followed", "")
		return
	}
	fa := p.FactsOf(flush)
	n := 0
	for _, a := range p.Assignments(flush, rv) {
		if a.Rhs == nil {
			n++
			r.bad(rule, flush.Name, p.Pos(a.Node), "assignment to "+rv.Name(), "the returned interval is modified in place", "")
			continue
		}
		n++
		t := p.Term(a.Rhs)
		fs := fa.AtNode(a.Node)
		cur := tVar(rv)
		ok := false
		switch {
		case t.Key() == interval.Key():
			ok = true
		case fs.Holds(lt(t, cur)) || fs.Holds(le(t, cur)):
			ok = true
		case t.Op == "min":
			for _, x := range t.Args {
				if x.Key() == cur.Key() || x.Key() == interval.Key() {
					ok = true
				}
			}
		}
		r.check(ok, rule, flush.Name, p.Pos(a.Node), rv.Name()+" = "+exprString(a.Rhs), "kcp.interval, or lowered (new < current)", "the interval flush returns can exceed kcp.interval here: a session driven by that value flushes — and therefore acknowledges — later than its configured interval; with the peer's RTO at its minimum the delayed ack arrives after the timer fired and data is retransmitted on a clean path")
	}
	if n == 0 {
		r.bad(rule, flush.Name, p.Pos(flush.Node), "interval returned by flush", "the returned interval is never assigned", "")
	}
}

// alwaysPushesSndBuf: every path through h passes a snd_buf.Push.
func alwaysPushesSndBuf(p *Prog, h *FuncInfo) bool {
	c := p.CFG(h)
	push := p.Method("RingBuffer", "Push")
	isPush := func(nd ast.Node, _ Point) bool {
		hit := false
		inspectShallow(nd, func(x ast.Node) bool {
			if call, ok := x.(*ast.CallExpr); ok && p.Callee(call) == push {
				if s := p.siteOf(call, h); s.Recv != nil {
					if _, ok := fieldBase(s.Recv, p.Field("KCP", "snd_buf")); ok {
						hit = true
					}
				}
			}
			return true
		})
		return hit
	}
	any := false
	for _, pt := range c.AllPoints() {
		if isPush(pt.Node(), pt) {
			any = true
		}
	}
	if !any {
		return false
	}
	res := c.FindPath(PathQuery{From: Point{c.Entry(), 0}, ExitIsTarget: true, IsBarrier: isPush})
	return !res.Found
}
