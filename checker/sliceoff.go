package main

import (
	"go/ast"
	"go/token"
	"go/types"
	"sort"

	"golang.org/x/tools/go/cfg"
)

// SliceInfo says that a local slice variable currently denotes root[Off:...]
// where root is the value a parameter (or a freshly obtained buffer) had when
// it was first bound.
type SliceInfo struct {
	Root *types.Var
	Off  int64
}

type sliceState map[*types.Var]SliceInfo

func (s sliceState) clone() sliceState {
	n := sliceState{}
	for k, v := range s {
		n[k] = v
	}
	return n
}

func (s sliceState) equal(o sliceState) bool {
	if len(s) != len(o) {
		return false
	}
	for k, v := range s {
		if w, ok := o[k]; !ok || w != v {
			return false
		}
	}
	return true
}

// SliceOffsets is a forward analysis of constant re-slicing (E-OFFSET): it
// composes x = x[a:], y := x[b:] etc. so that offsets used by readers and
// writers can be compared in the coordinates of the original packet.
type SliceOffsets struct {
	p  *Prog
	c  *CFG
	in map[*cfg.Block]sliceState
}

func isByteSliceLike(t types.Type) bool {
	if t == nil {
		return false
	}
	s, ok := t.Underlying().(*types.Slice)
	if !ok {
		return false
	}
	b, ok := s.Elem().Underlying().(*types.Basic)
	return ok && b.Kind() == types.Uint8
}

func (p *Prog) SliceOffsets(fi *FuncInfo) *SliceOffsets {
	key := "sliceoff:" + fi.Name + "@" + p.Pos(fi.Node)
	if v, ok := p.memo[key]; ok {
		return v.(*SliceOffsets)
	}
	c := p.CFG(fi)
	so := &SliceOffsets{p: p, c: c, in: map[*cfg.Block]sliceState{}}
	entry := sliceState{}
	var ft *ast.FuncType
	if fi.Decl != nil {
		ft = fi.Decl.Type
		if rv := p.recvVar(fi); rv != nil && isByteSliceLike(rv.Type()) {
			entry[rv] = SliceInfo{rv, 0}
		}
	} else {
		ft = fi.Lit.Type
	}
	for _, fl := range ft.Params.List {
		for _, nm := range fl.Names {
			if v, ok := p.Info.Defs[nm].(*types.Var); ok && isByteSliceLike(v.Type()) {
				entry[v] = SliceInfo{v, 0}
			}
		}
	}
	out := map[*cfg.Block]sliceState{}
	blocks := append([]*cfg.Block{}, c.live...)
	sort.Slice(blocks, func(i, j int) bool { return c.order[blocks[i]] < c.order[blocks[j]] })
	for iter := 0; iter < 50; iter++ {
		changed := false
		for _, b := range blocks {
			var in sliceState
			if b == c.Entry() {
				in = entry.clone()
			} else {
				for _, pr := range c.preds[b] {
					o, ok := out[pr]
					if !ok {
						continue
					}
					if in == nil {
						in = o.clone()
					} else {
						for k, v := range in {
							if w, ok := o[k]; !ok || w != v {
								delete(in, k)
							}
						}
					}
				}
				if in == nil {
					continue
				}
			}
			if b.Kind == cfg.KindRangeBody {
				if rs, ok := b.Stmt.(*ast.RangeStmt); ok {
					in = in.clone()
					for _, e := range []ast.Expr{rs.Key, rs.Value} {
						if id, ok := e.(*ast.Ident); ok {
							o := p.Info.Defs[id]
							if o == nil {
								o = p.Info.Uses[id]
							}
							if v, ok := o.(*types.Var); ok {
								if isByteSliceLike(v.Type()) {
									in[v] = SliceInfo{v, 0} // each element is its own root
								} else {
									delete(in, v)
								}
							}
						}
					}
				}
			}
			if old, ok := so.in[b]; ok && old.equal(in) && out[b] != nil {
				continue
			}
			so.in[b] = in
			cur := in.clone()
			for _, n := range b.Nodes {
				so.transfer(cur, n)
			}
			out[b] = cur
			changed = true
		}
		if !changed {
			break
		}
	}
	p.memo[key] = so
	return so
}

// exprInfo evaluates a slice-valued expression in state st.
func (so *SliceOffsets) exprInfo(st sliceState, e ast.Expr) (SliceInfo, bool) {
	p := so.p
	e = ast.Unparen(e)
	switch x := e.(type) {
	case *ast.Ident:
		if v, ok := p.Info.Uses[x].(*types.Var); ok {
			i, ok := st[v]
			return i, ok
		}
	case *ast.SliceExpr:
		base, ok := so.exprInfo(st, x.X)
		if !ok {
			return SliceInfo{}, false
		}
		lo := int64(0)
		if x.Low != nil {
			v, ok := p.constVal(x.Low)
			if !ok {
				return SliceInfo{}, false
			}
			lo = v
		}
		return SliceInfo{base.Root, base.Off + lo}, true
	case *ast.CallExpr:
		if p.IsConversion(x) && len(x.Args) == 1 {
			return so.exprInfo(st, x.Args[0])
		}
		// single-return helper on a slice receiver, e.g. fecPacket.data() = bts[6:]
		if f := p.Callee(x); f != nil && f.Pkg() == p.Types {
			if fi := p.FuncOf(f); fi != nil && fi.Decl != nil && len(fi.Body.List) == 1 {
				if ret, ok := fi.Body.List[0].(*ast.ReturnStmt); ok && len(ret.Results) == 1 {
					if rv := p.recvVar(fi); rv != nil && isByteSliceLike(rv.Type()) {
						if sel, ok := ast.Unparen(x.Fun).(*ast.SelectorExpr); ok {
							recv, ok := so.exprInfo(st, sel.X)
							if ok {
								inner := sliceState{rv: recv}
								return so.exprInfo(inner, ret.Results[0])
							}
						}
					}
				}
			}
		}
	}
	return SliceInfo{}, false
}

func (so *SliceOffsets) transfer(st sliceState, n ast.Node) {
	p := so.p
	assign := func(lhs ast.Expr, rhs ast.Expr) {
		id, ok := ast.Unparen(lhs).(*ast.Ident)
		if !ok {
			return
		}
		o := p.Info.Defs[id]
		if o == nil {
			o = p.Info.Uses[id]
		}
		v, ok := o.(*types.Var)
		if !ok || v.IsField() {
			return
		}
		if rhs != nil {
			if info, ok := so.exprInfo(st, rhs); ok {
				st[v] = info
				return
			}
			// a fresh buffer (pool Get, make): becomes its own root
			if isByteSliceLike(v.Type()) {
				st[v] = SliceInfo{v, 0}
				if t := p.Term(rhs); t.Op == "slice" || t.Op == "call" || t.Op == "builtin:make" {
					return
				}
			}
		}
		delete(st, v)
	}
	switch x := n.(type) {
	case *ast.AssignStmt:
		if x.Tok != token.ASSIGN && x.Tok != token.DEFINE {
			for _, l := range x.Lhs {
				assign(l, nil)
			}
			return
		}
		if len(x.Lhs) == len(x.Rhs) {
			// evaluate all right-hand sides first (parallel assignment)
			type pair struct {
				l ast.Expr
				i SliceInfo
				k bool
				r ast.Expr
			}
			var ps []pair
			for i := range x.Lhs {
				info, ok := so.exprInfo(st, x.Rhs[i])
				ps = append(ps, pair{x.Lhs[i], info, ok, x.Rhs[i]})
			}
			for _, pr := range ps {
				if pr.k {
					if id, ok := ast.Unparen(pr.l).(*ast.Ident); ok {
						o := p.Info.Defs[id]
						if o == nil {
							o = p.Info.Uses[id]
						}
						if v, ok := o.(*types.Var); ok && !v.IsField() {
							st[v] = pr.i
							continue
						}
					}
				}
				assign(pr.l, pr.r)
			}
		} else {
			for _, l := range x.Lhs {
				assign(l, nil)
			}
		}
	case *ast.DeclStmt:
		if gd, ok := x.Decl.(*ast.GenDecl); ok {
			for _, sp := range gd.Specs {
				if vs, ok := sp.(*ast.ValueSpec); ok {
					for i, nm := range vs.Names {
						if i < len(vs.Values) {
							assign(nm, vs.Values[i])
						} else {
							assign(nm, nil)
						}
					}
				}
			}
		}
	case *ast.RangeStmt:
		if x.Key != nil {
			assign(x.Key, nil)
		}
		if x.Value != nil {
			assign(x.Value, nil)
		}
	}
}

// At returns the state just before node pt.I of pt.B.
func (so *SliceOffsets) At(pt Point) sliceState {
	in, ok := so.in[pt.B]
	if !ok {
		return sliceState{}
	}
	cur := in.clone()
	for i := 0; i < pt.I && i < len(pt.B.Nodes); i++ {
		so.transfer(cur, pt.B.Nodes[i])
	}
	return cur
}

// OffsetOf gives root and offset of slice expression e evaluated at node n.
func (so *SliceOffsets) OffsetOf(e ast.Expr, n ast.Node) (SliceInfo, bool) {
	pt, ok := so.c.PointOf(n)
	if !ok {
		return SliceInfo{}, false
	}
	return so.exprInfo(so.At(pt), e)
}
