package main

import (
	"fmt"
	"go/ast"
	"go/token"
	"go/types"
	"golang.org/x/tools/go/cfg"
	"sort"
)

func init() {
	register(&propCheck{
		id:  "C12",
		run: checkC12,
		configs: map[string][]string{
			"quick":    {"linux64"},
			"thorough": {"linux64", "generic", "linux32", "debug"},
		},
		explain: "Kind discipline for the whole package: a qualifier inference by unification (seeds: snd_una/snd_nxt/rcv_nxt/segment.sn/una/ackItem.sn = SEQ; segment.ts/resendts, ts_probe, ts_flush, " +
			"ackItem.ts, currentMs() = TIME; fecEncoder.next, pulse.seq, fecPacket.seqid() = FECID; newestShardId = FEC group id) propagates kinds through assignments, parameters, results, struct literals, " +
			"equality and subtraction; _itimediff-shaped helpers are kind-polymorphic. Every operator application is then typed: SEQ/TIME/FECID values may only be added to plain values, subtracted from " +
			"their own kind, compared with ==/!=, used as map keys, and ordered through the signed 32-bit difference. Each allowed operation commutes with translating all values of one kind by a constant " +
			"modulo 2^32, so a run started at shifted sequence numbers/clock is the shifted run (paper argument; assumption |difference| < 2^31). No execution, no sampling of offsets.",
		assume: []string{
			"values compared differ by less than 2^31 (window bounds of C04 for SEQ, 24.8 days for TIME)",
			"paws is a multiple of the FEC group size wherever it is computed (checked by C12.K5)",
		},
	})
}

func checkC12(p *Prog, r *Report) {
	r.rule("C12.K1", "no ordering comparison (< <= > >=, min, max) has a SEQ, TIME, FECID or FEC-group operand (FECID may be range-checked against paws); orderings go through _itimediff, whose two arguments have the same kind", 25)
	r.rule("C12.K2", "no * / % << >> & |, no integer conversion, no comparison with a literal on SEQ/TIME; kinds are never mixed; FECID admits / and % by the group size or paws, a group id admits * by the group size", 3)
	r.rule("C12.K3", "every heap/sort comparator over SEQ or FECID elements (segmentHeap.Less, shardHeap.Less, the sort.Slice closure over pulses) orders through the signed difference", 3)
	r.rule("C12.K4", "_itimediff is int32(later - earlier); currentMs is the only clock source of the core and truncates to uint32", 2)
	r.rule("C12.K5", "paws is computed as 0xffffffff / shardSize * shardSize at every store; every advance of the encoder id is reduced modulo paws", 5)
	r.rule("C12.K7", "a value compared by signed difference has no meaningful zero: the FEC decoder's newest group id is taken from the first packet unconditionally and invalidated when its unit (shardSize) changes (= C16.T9) — otherwise behaviour depends on where in the 32-bit space the ids start", 2)
	r.rule("C12.K8", "a local that serves as the reference of a signed-difference comparison holds a protocol value when it is compared: a local declared without a value (or with a constant) is assigned from a non-constant on every path to the comparison, or the comparison sits behind a flag that is raised only next to such an assignment — a reference that starts at literal 0 makes the outcome depend on which half of the 32-bit space the numbers are in", 1)
	r.rule("C12.K6", "a core timer field that does not start from the clock (constructor constant or zero value, i.e. an absolute clock position) is compared with the clock only after it has been re-based: every read in a signed difference lies behind a store from the clock or behind a test of an 'initialised' field whose zero edge stores from the clock or returns", 3)
	checkTimerRebase(p, r)
	checkNewestGroupInit(p, r, "C12.K7")
	checkLocalReferenceAssigned(p, r)
	ka := p.Kinds()
	seen := map[string]int{}
	key := func(fn *FuncInfo, n ast.Node, what string) string {
		name := "package"
		if fn != nil {
			name = fn.Name
		}
		k := name + ":" + nodeKey(n)
		seen[k]++
		if seen[k] > 1 {
			k = fmt.Sprintf("%s#%d", k, seen[k])
		}
		return k
	}
	for _, v := range ka.viol {
		name := ""
		if v.fn != nil {
			name = v.fn.Name
		}
		r.bad(v.rule, name, p.Pos(v.node), key(v.fn, v.node, v.what), v.what, "")
	}
	for _, o := range ka.oks {
		name := ""
		if o.fn != nil {
			name = o.fn.Name
		}
		r.ok(o.rule, name, p.Pos(o.node), key(o.fn, o.node, o.what), o.what)
	}

	// K3 comparators
	itd := p.Func("_itimediff")
	checkComparator := func(fi *FuncInfo, what string) {
		if fi == nil {
			r.bad("C12.K3", what, "-", "comparator "+what, "comparator not found", "")
			return
		}
		okAll := true
		n := 0
		inspectBody(fi, func(x ast.Node) bool {
			ret, ok := x.(*ast.ReturnStmt)
			if !ok || len(ret.Results) != 1 {
				return true
			}
			n++
			t := p.Term(ret.Results[0])
			// expected: _itimediff(a, b) cmp 0
			good := false
			if (t.Op == "<" || t.Op == "<=") && len(t.Args) == 2 {
				for i := 0; i < 2; i++ {
					c, z := t.Args[i], t.Args[1-i]
					if c.Op == "call" && c.Obj == itd && z.IsConst() && z.Int == 0 {
						ka1 := ka.kindOf(ka.exprNode[callArgExpr(p, ret.Results[0], itd, 0)])
						if ka1 == KSeq || ka1 == KFecID || ka1 == KTime {
							good = true
						}
					}
				}
			}
			if !good {
				okAll = false
			}
			return true
		})
		if okAll && n > 0 {
			r.ok("C12.K3", fi.Name, p.Pos(fi.Node), "comparator "+what, "returns a comparison of _itimediff(a, b) with 0 on kinded elements")
		} else {
			r.bad("C12.K3", fi.Name, p.Pos(fi.Node), "comparator "+what, "does not order its elements through _itimediff(a, b) compared with 0", "")
		}
	}
	checkComparator(p.FuncOf(p.Method("segmentHeap", "Less")), "segmentHeap.Less")
	checkComparator(p.FuncOf(p.Method("shardHeap", "Less")), "shardHeap.Less")
	// sort.Slice closures whose slice elements have a kinded field
	nSort := 0
	p.AllCalls(func(call *ast.CallExpr, fi *FuncInfo) {
		f := p.Callee(call)
		if f == nil || f.Pkg() == nil || f.Pkg().Path() != "sort" || (f.Name() != "Slice" && f.Name() != "SliceStable") || len(call.Args) != 2 {
			return
		}
		lit, ok := ast.Unparen(call.Args[1]).(*ast.FuncLit)
		if !ok {
			return
		}
		st := sliceElemStruct(p.Info.TypeOf(call.Args[0]))
		if st == nil {
			return
		}
		kindedElem := false
		for i := 0; i < st.NumFields(); i++ {
			if n := ka.nodes[st.Field(i).Origin()]; n != nil && kinded(ka.kindOf(n)) {
				kindedElem = true
			}
		}
		if !kindedElem {
			return
		}
		nSort++
		checkComparator(p.funcBy[lit], "sort closure in "+fi.Name)
	})
	if nSort == 0 {
		r.bad("C12.K3", "(*autoTune).FindPeriod", "-", "sort comparator", "no sort over kinded elements found (expected the pulse sort in FindPeriod)", "")
	}

	// K4
	if fi := p.FuncOf(itd); fi != nil && len(fi.Body.List) == 1 {
		ok := false
		if ret, isRet := fi.Body.List[0].(*ast.ReturnStmt); isRet && len(ret.Results) == 1 {
			t := p.Term(ret.Results[0])
			if t.Op == "conv" && t.Str == "int32" && t.Args[0].Op == "-" {
				a, b := t.Args[0].Args[0], t.Args[0].Args[1]
				ps := fi.Obj.Type().(*types.Signature).Params()
				if a.Op == "var" && b.Op == "var" && ps.Len() == 2 && a.Obj.Name() == paramName(p, fi, 0) && b.Obj.Name() == paramName(p, fi, 1) {
					ok = true
				}
			}
		}
		r.check(ok, "C12.K4", fi.Name, p.Pos(fi.Node), "_itimediff body", "int32(later - earlier)", "_itimediff is not int32(first - second): the signed difference is the wrap-safe ordering")
	} else {
		r.bad("C12.K4", "_itimediff", "-", "_itimediff body", "not a single return statement", "")
	}
	// clock source: time.Now/Since/UnixMilli inside functions reachable from KCP methods
	clockCallers := map[string]bool{}
	p.AllCalls(func(call *ast.CallExpr, fi *FuncInfo) {
		f := p.Callee(call)
		if f == nil || f.Pkg() == nil || f.Pkg().Path() != "time" {
			return
		}
		if f.Name() == "Now" || f.Name() == "Since" {
			root := rootFuncInfo(fi)
			if root.Obj != nil && (recvTypeName(root.Obj) == "KCP" || recvTypeName(root.Obj) == "segment" || root.Name == "currentMs") {
				clockCallers[root.Name] = true
			}
		}
	})
	var cc []string
	for k := range clockCallers {
		cc = append(cc, k)
	}
	sort.Strings(cc)
	cm := p.FuncOf(p.Func("currentMs"))
	okClock := len(cc) == 1 && cc[0] == "currentMs"
	if cm != nil && len(cm.Body.List) == 1 {
		if ret, isRet := cm.Body.List[0].(*ast.ReturnStmt); isRet && len(ret.Results) == 1 {
			t := p.Term(ret.Results[0])
			if !(t.Op == "conv" && t.Str == "uint32") {
				okClock = false
			}
		} else {
			okClock = false
		}
	} else {
		okClock = false
	}
	r.check(okClock, "C12.K4", "currentMs", p.Pos(cm.Node), "clock source", "time is read only in currentMs, which truncates to uint32", fmt.Sprintf("the core reads the clock in %v (expected only currentMs, returning uint32(...))", cc))

	// K5 paws
	for _, own := range []string{"fecDecoder", "fecEncoder"} {
		fPaws := p.Field(own, "paws")
		fSize := p.Field(own, "shardSize")
		for _, st := range p.FieldStores(fPaws) {
			if st.Rhs == nil {
				r.bad("C12.K5", st.Fn.Name, p.Pos(st.Node), "store("+own+".paws)", "paws modified in place", "")
				continue
			}
			t := p.ExpandHelpers(p.Term(st.Rhs))
			// 0xffffffff / S * S with S = conv(shardSize)
			ok := false
			if t.Op == "*" && len(t.Args) == 2 {
				for i := 0; i < 2; i++ {
					q, s := t.Args[i], t.Args[1-i]
					if q.Op == "/" && q.Args[0].IsConst() && q.Args[0].Int == 0xffffffff && q.Args[1].Key() == s.Key() && termHasField(s, fSize) {
						ok = true
					}
				}
			}
			r.check(ok, "C12.K5", st.Fn.Name, p.Pos(st.Node), "store("+own+".paws)", "0xffffffff / shardSize * shardSize", "paws is not computed as 0xffffffff / shardSize * shardSize (must be a multiple of the group size so that type and position stay aligned across the wrap): "+pretty(t.Key()))
		}
	}
	// paws follows the group size: a store to shardSize is followed (dominated) by a store to paws in the same function
	for _, own := range []string{"fecDecoder", "fecEncoder"} {
		for _, st := range p.FieldStores(p.Field(own, "shardSize")) {
			if st.InLit {
				continue
			}
			cf := p.CFG(st.Fn)
			spt, _ := cf.PointOf(st.Node)
			follows := false
			for _, ps := range p.FieldStores(p.Field(own, "paws")) {
				if ps.Fn != st.Fn {
					continue
				}
				if q, ok := cf.PointOf(ps.Node); ok && cf.Dominates(spt, q) {
					follows = true
				}
			}
			r.check(follows, "C12.K5", st.Fn.Name, p.Pos(st.Node), "store("+own+".shardSize) is followed by a store to paws", "paws recomputed for the new group size", "the group size changes but paws keeps the value of the old size: it is no longer a multiple of the group size (types drift against positions after the wrap), and ids the peer legitimately uses just below its own wrap value are refused")
		}
	}
	fNext := p.Field("fecEncoder", "next")
	fEPaws := p.Field("fecEncoder", "paws")
	nextStores := p.FieldStores(fNext)
	// two-statement form: next += k (or next = next + k) immediately followed by next %= paws (or next = next % paws)
	isReduce := func(n ast.Node) bool {
		as, ok := n.(*ast.AssignStmt)
		if !ok || len(as.Lhs) != 1 || len(as.Rhs) != 1 {
			return false
		}
		if lt := p.Term(as.Lhs[0]); lt.Op != "fld" || lt.Obj != fNext {
			return false
		}
		rt := p.Term(as.Rhs[0])
		switch as.Tok {
		case token.REM_ASSIGN:
			return termHasField(rt, fEPaws) && rt.Op == "fld"
		case token.ASSIGN:
			return rt.Op == "%" && rt.Args[0].Key() == p.Term(as.Lhs[0]).Key() && rt.Args[1].Op == "fld" && rt.Args[1].Obj == fEPaws
		}
		return false
	}
	for _, st := range nextStores {
		if st.Fn.Obj != nil && st.Fn.Name == "newFECEncoder" {
			continue
		}
		ok := false
		if st.Rhs != nil {
			t := p.Term(st.Rhs)
			if t.Op == "%" && termHasField(t.Args[1], fEPaws) && t.Args[0].Op == "+" && termHasField(t.Args[0], fNext) {
				ok = true
			}
		}
		if !ok {
			cf := p.CFG(st.Fn)
			if pt, okp := cf.PointOf(st.Node); okp {
				if isReduce(st.Node) && pt.I > 0 {
					// the reducing half: the statement before it is an unreduced advance of next
					if as, isA := pt.B.Nodes[pt.I-1].(*ast.AssignStmt); isA && len(as.Lhs) == 1 && p.Term(as.Lhs[0]).Key() == p.Term(st.Node.(*ast.AssignStmt).Lhs[0]).Key() && (as.Tok == token.ADD_ASSIGN || as.Tok == token.ASSIGN) {
						ok = true
					}
					if _, isI := pt.B.Nodes[pt.I-1].(*ast.IncDecStmt); isI {
						ok = true
					}
				} else if pt.I+1 < len(pt.B.Nodes) && isReduce(pt.B.Nodes[pt.I+1]) {
					// the advancing half: next += k / next = next + k / next++
					switch n := st.Node.(type) {
					case *ast.IncDecStmt:
						ok = n.Tok == token.INC
					case *ast.AssignStmt:
						if n.Tok == token.ADD_ASSIGN {
							ok = true
						} else if n.Tok == token.ASSIGN && st.Rhs != nil {
							t := p.Term(st.Rhs)
							ok = t.Op == "+" && termHasField(t, fNext)
						}
					}
				}
			}
		}
		detail := "(next + k) % paws"
		if !ok && dataSealOnly(p, st) {
			// An unreduced +1 is exact for a data position: paws is a multiple of the
			// group size and a data position is never the last of its group, provided
			// every group has at least one parity position.
			ok = parityPositive(p)
			detail = "next + 1 at a data position (never the last of a group: parityShards > 0 by construction)"
		}
		r.check(ok, "C12.K5", st.Fn.Name, p.Pos(st.Node), "store(fecEncoder.next)", detail, "the encoder id is not advanced as (next + k) % paws")
	}
}

func termHasField(t *Term, f *types.Var) bool {
	found := false
	t.Walk(func(x *Term) {
		if x.Op == "fld" && x.Obj == f {
			found = true
		}
	})
	return found
}

func paramName(p *Prog, fi *FuncInfo, i int) string {
	k := 0
	for _, fl := range fi.Decl.Type.Params.List {
		for _, nm := range fl.Names {
			if k == i {
				return nm.Name
			}
			k++
		}
	}
	return ""
}

// callArgExpr finds, inside e, the i-th argument expression of the first call to f.
func callArgExpr(p *Prog, e ast.Expr, f *types.Func, i int) ast.Expr {
	var out ast.Expr
	ast.Inspect(e, func(n ast.Node) bool {
		if c, ok := n.(*ast.CallExpr); ok && out == nil && p.Callee(c) == f && i < len(c.Args) {
			out = c.Args[i]
		}
		return true
	})
	return out
}

func sliceElemStruct(t types.Type) *types.Struct {
	if t == nil {
		return nil
	}
	if s, ok := t.Underlying().(*types.Slice); ok {
		return structOf(s.Elem())
	}
	return nil
}

// dataSealOnly: the store increments next by exactly one inside a function
// that stamps typeData and nothing else.
func dataSealOnly(p *Prog, st FieldStore) bool {
	one := false
	switch n := st.Node.(type) {
	case *ast.IncDecStmt:
		one = n.Tok == token.INC
	case *ast.AssignStmt:
		if st.Rhs != nil {
			t := p.Term(st.Rhs)
			l := Lin(t)
			one = l.C == 1 && len(l.Coef) == 1
			for _, a := range l.Atoms {
				if !(a.Op == "fld" && a.Obj == p.Field("fecEncoder", "next")) {
					one = false
				}
			}
			if n.Tok == token.ADD_ASSIGN {
				one = t.IsConst() && t.Int == 1
			}
		}
	}
	if !one {
		return false
	}
	var types_ []int64
	ast.Inspect(st.Fn.Body, func(x ast.Node) bool {
		if call, ok := x.(*ast.CallExpr); ok {
			if f := p.Callee(call); f != nil && f.Name() == "PutUint16" && len(call.Args) == 2 {
				if t := p.Term(call.Args[1]); t.IsConst() {
					types_ = append(types_, t.Int)
				}
			}
		}
		return true
	})
	return len(types_) == 1 && types_[0] == p.ConstInt("typeData")
}

func parityPositive(p *Prog) bool {
	ok := false
	for _, st := range p.FieldStores(p.Field("fecEncoder", "parityShards")) {
		if st.Rhs == nil {
			return false
		}
		fs := p.FactsOf(st.Fn).AtNode(st.Node)
		if !fs.Holds(lt(tConst(0), p.Term(st.Rhs))) {
			return false
		}
		ok = true
	}
	return ok
}

// checkTimerRebase: C12.K6 for KCP.ts_flush and KCP.ts_probe.
func checkTimerRebase(p *Prog, r *Report) {
	itd := p.Func("_itimediff")
	clockFn := p.Func("currentMs")
	for _, fname := range []string{"ts_flush", "ts_probe"} {
		f := p.Field("KCP", fname)
		// started from the clock by the constructor?
		fromClock := false
		for _, st := range p.FieldStores(f) {
			if st.Fn.Name == "NewKCP" && st.Rhs != nil {
				p.Term(st.Rhs).Walk(func(x *Term) {
					if x.Op == "call" && x.Obj == clockFn {
						fromClock = true
					}
				})
			}
		}
		if fromClock {
			r.ok("C12.K6", "NewKCP", "-", "KCP."+fname, "starts from the clock")
			continue
		}
		for _, fi := range p.funcs {
			if fi.Lit != nil || fi.Body == nil || fi.Name == "NewKCP" {
				continue
			}
			c := p.CFG(fi)
			// clock-derived locals of this function
			clockVars := map[*types.Var]bool{}
			ast.Inspect(fi.Body, func(n ast.Node) bool {
				if as, ok := n.(*ast.AssignStmt); ok && len(as.Lhs) == 1 && len(as.Rhs) == 1 {
					if id, ok := as.Lhs[0].(*ast.Ident); ok {
						if t := p.Term(as.Rhs[0]); t.Op == "call" && t.Obj == clockFn {
							if v, ok := p.Info.Defs[id].(*types.Var); ok {
								clockVars[v] = true
							} else if v, ok := p.Info.Uses[id].(*types.Var); ok {
								clockVars[v] = true
							}
						}
					}
				}
				return true
			})
			isClockDerived := func(t *Term) bool {
				hit := false
				t.Walk(func(x *Term) {
					if x.Op == "call" && x.Obj == clockFn {
						hit = true
					}
					if x.Op == "var" {
						if v, ok := x.Obj.(*types.Var); ok && clockVars[v] {
							hit = true
						}
					}
				})
				return hit
			}
			isRebase := func(n ast.Node, _ Point) bool {
				as, ok := n.(*ast.AssignStmt)
				if !ok {
					return false
				}
				for i, l := range as.Lhs {
					if t := p.Term(l); t.Op == "fld" && t.Obj == f && i < len(as.Rhs) && as.Tok == token.ASSIGN && isClockDerived(p.Term(as.Rhs[i])) {
						return true
					}
				}
				return false
			}
			// reads: the field (or a local copy of it) as an operand of _itimediff together with a clock value
			copies := map[*types.Var]bool{}
			ast.Inspect(fi.Body, func(n ast.Node) bool {
				if as, ok := n.(*ast.AssignStmt); ok && len(as.Lhs) == 1 && len(as.Rhs) == 1 {
					if t := p.Term(as.Rhs[0]); t.Op == "fld" && t.Obj == f {
						if id, ok := as.Lhs[0].(*ast.Ident); ok {
							if v, ok := p.Info.Defs[id].(*types.Var); ok {
								copies[v] = true
							}
						}
					}
				}
				return true
			})
			n := 0
			ast.Inspect(fi.Body, func(x ast.Node) bool {
				call, ok := x.(*ast.CallExpr)
				if !ok || p.Callee(call) != itd || len(call.Args) != 2 {
					return true
				}
				reads, withClock := false, false
				for _, a := range call.Args {
					t := p.Term(a)
					t.Walk(func(y *Term) {
						if y.Op == "fld" && y.Obj == f {
							reads = true
						}
						if y.Op == "var" {
							if v, ok := y.Obj.(*types.Var); ok && copies[v] {
								reads = true
							}
						}
					})
					if isClockDerived(t) {
						withClock = true
					}
				}
				if !reads || !withClock {
					return true
				}
				n++
				if n > 1 {
					return true // the first comparison decides (later ones follow a possible re-base)
				}
				pt, _ := c.PointOf(call)
				res := c.FindPath(PathQuery{From: Point{c.Entry(), 0}, IsTarget: func(_ ast.Node, q Point) bool { return q == pt }, IsBarrier: isRebase,
					EdgeOK: func(from, to *cfg.Block) bool {
						// the zero edge of a test of an 'initialised' field: it stores from the clock or returns
						ct := c.CondTerm(from)
						if ct == nil || len(from.Succs) != 2 {
							return true
						}
						zeroEdge := -1
						if ct.Op == "==" && len(ct.Args) == 2 && ((ct.Args[0].IsConst() && ct.Args[0].Int == 0 && ct.Args[1].Op == "fld") || (ct.Args[1].IsConst() && ct.Args[1].Int == 0 && ct.Args[0].Op == "fld")) {
							zeroEdge = 0
						}
						if ct.Op == "!=" && len(ct.Args) == 2 && ((ct.Args[0].IsConst() && ct.Args[0].Int == 0 && ct.Args[1].Op == "fld") || (ct.Args[1].IsConst() && ct.Args[1].Int == 0 && ct.Args[0].Op == "fld")) {
							zeroEdge = 1
						}
						if zeroEdge < 0 || to != from.Succs[zeroEdge] {
							return true
						}
						// the zero edge: does it store from the clock or return in its first block?
						for _, nd := range to.Nodes {
							if isRebase(nd, Point{}) {
								return false // re-based on this edge: the path is fine, do not follow it as a violation
							}
							if _, isRet := nd.(*ast.ReturnStmt); isRet {
								return false
							}
						}
						return true
					}})
				if res.Found {
					// a path reached the comparison without re-basing and without passing an initialised test... unless such a test exists on the path with the non-zero edge taken
					passedInitTest := false
					for _, q := range res.Path {
						if ct := c.CondTerm(q.B); ct != nil && (ct.Op == "==" || ct.Op == "!=") && len(ct.Args) == 2 {
							for i := 0; i < 2; i++ {
								if ct.Args[i].IsConst() && ct.Args[i].Int == 0 && ct.Args[1-i].Op == "fld" && ct.Args[1-i].Obj != f {
									passedInitTest = true
								}
							}
						}
					}
					if !passedInitTest {
						r.bad("C12.K6", fi.Name, p.Pos(call), "first comparison of KCP."+fname+" with the clock in "+fi.Name, "the timer is compared with the clock although nothing has re-based it on the clock since construction: its initial value is an absolute clock position, so the behaviour depends on where the 32-bit clock stands when the object is created (e.g. a connection created shortly before the wrap stays silent until the clock reaches that position)", c.DescribePath(res.Path))
						return true
					}
				}
				r.ok("C12.K6", fi.Name, p.Pos(call), "first comparison of KCP."+fname+" with the clock in "+fi.Name, "behind a store from the clock or an 'initialised' test")
				return true
			})
		}
	}
}

// checkLocalReferenceAssigned: C12.K8.
func checkLocalReferenceAssigned(p *Prog, r *Report) {
	diff := p.FuncByName("_itimediff")
	if diff == nil || diff.Obj == nil {
		return
	}
	n := 0
	for _, s := range p.CallsTo(diff.Obj) {
		root := rootFuncInfo(s.Fn)
		for ai, arg := range s.Call.Args {
			e := ast.Unparen(arg)
			for {
				if call, ok := e.(*ast.CallExpr); ok && len(call.Args) == 1 && p.Info.Types[call.Fun].IsType() {
					e = ast.Unparen(call.Args[0])
					continue
				}
				break
			}
			id, ok := e.(*ast.Ident)
			if !ok {
				continue
			}
			v, _ := p.Info.Uses[id].(*types.Var)
			if v == nil || v.IsField() || p.isParam(v) || v.Parent() == p.Types.Scope() || v.Pkg() != p.Types {
				continue
			}
			// how is it declared?
			as := p.Assignments(root, v)
			constInit := false
			var real []ast.Node
			for _, a := range as {
				if a.Rhs == nil {
					if _, isSpec := a.Node.(*ast.ValueSpec); isSpec {
						constInit = true // var x T
						continue
					}
					real = append(real, a.Node) // multi-value assignment from a call
					continue
				}
				if t := p.Term(a.Rhs); t.IsConst() {
					if a.Tok == token.DEFINE || isValueSpec(a.Node) {
						constInit = true
					}
					continue
				}
				real = append(real, a.Node)
			}
			if !constInit {
				continue
			}
			n++
			construct := fmt.Sprintf("reference %s of _itimediff (argument %d) in %s", v.Name(), ai+1, s.Fn.Name)
			c := p.CFG(s.Fn)
			at, okAt := c.PointOf(s.Call)
			if !okAt || s.Fn != root {
				r.bad("C12.K8", s.Fn.Name, p.Pos(s.Call), construct, "comparison inside a function literal: not followed", "")
				continue
			}
			isReal := func(nd ast.Node, _ Point) bool {
				for _, x := range real {
					if x == nd {
						return true
					}
				}
				return false
			}
			res := c.FindPath(PathQuery{From: Point{c.Entry(), 0}, IsTarget: func(_ ast.Node, q Point) bool { return q == at }, IsBarrier: isReal})
			if !res.Found {
				r.ok("C12.K8", s.Fn.Name, p.Pos(s.Call), construct, "assigned from a protocol value on every path to the comparison")
				continue
			}
			// flag idiom: a dominating test flag != 0 / flag whose raising assignments sit next to an assignment of v
			okFlag := ""
			for _, cd := range c.DominatingConds(at) {
				for _, cj := range Conjuncts(cd) {
					var fv *types.Var
					switch {
					case cj.Op == "var":
						fv, _ = cj.Obj.(*types.Var)
					case (cj.Op == "!=" || cj.Op == "<") && len(cj.Args) == 2:
						for i := 0; i < 2; i++ {
							if cj.Args[i].IsConst() && cj.Args[i].Int == 0 && cj.Args[1-i].Op == "var" {
								fv, _ = cj.Args[1-i].Obj.(*types.Var)
							}
						}
					}
					if fv == nil || fv == v || p.isParam(fv) {
						continue
					}
					raised, okAll := 0, true
					for _, fa := range p.Assignments(root, fv) {
						if fa.Rhs != nil {
							if t := p.Term(fa.Rhs); (t.IsConst() && t.Int == 0 || t.Op == "false") && fa.Tok != token.OR_ASSIGN && fa.Tok != token.ADD_ASSIGN {
								continue
							}
						} else if isValueSpec(fa.Node) {
							continue
						}
						raised++
						fp, okP := c.PointOf(fa.Node)
						next := false
						if okP {
							for _, nd := range fp.B.Nodes {
								if isReal(nd, Point{}) {
									next = true
								}
							}
						}
						if !next {
							okAll = false
						}
					}
					if raised > 0 && okAll {
						okFlag = fv.Name()
					}
				}
			}
			if okFlag != "" {
				r.ok("C12.K8", s.Fn.Name, p.Pos(s.Call), construct, "compared only behind "+okFlag+", which is raised only next to an assignment of "+v.Name())
			} else {
				r.bad("C12.K8", s.Fn.Name, p.Pos(s.Call), construct, v.Name()+" still holds its initial constant on a path to this comparison: the signed difference is taken against literal 0 instead of a protocol value, so the branch goes one way for numbers below 2^31 and the other way above — behaviour depends on the starting offset of the sequence/clock space", c.DescribePath(res.Path))
			}
		}
	}
	if n == 0 {
		r.ok("C12.K8", "package", "-", "constant-initialised references of _itimediff", "none")
	}
}

func isValueSpec(n ast.Node) bool {
	_, ok := n.(*ast.ValueSpec)
	return ok
}
